(* C07 — Observe client: notifications in freshness order, termination signalled once.
   Property theorems only; proofs are in Proofs/C07Serial.v, Proofs/C07.v, Proofs/C07Stack.v.
   Model: Gen/protocol_is_recent.v (translated from protocol.py on every run), Model/C07.v, Model/C07Stack.v. *)
From Verif Require Import Lib.Py Lib.Tactics Gen.protocol_is_recent Model.C07 Model.C07Stack Model.C07Iter Model.C07Blockwise Proofs.C07Serial Proofs.C07 Proofs.C07Stack Proofs.C07Iter Proofs.C07Cancel Proofs.C07Blockwise Proofs.C07IterRun Proofs.C07Audit Proofs.C07R6 Proofs.C07R6b Proofs.C07R6c.
From Coq Require Import Permutation.
Open Scope Z_scope.

(* ---- 0. the expression in Request._run IS the RFC 7641 section 3.4 rule *)
Theorem freshness_test_is_rfc7641 : forall v1 v2 t1 t2 reset,
  is_recent v1 v2 t1 t2 reset = true <->
  ((v1 < v2 /\ v2 - v1 < 2 ^ 23) \/ (v1 > v2 /\ v1 - v2 > 2 ^ 23)) \/ t2 > t1 + reset.
Proof. exact is_recent_spec. Qed.
Print Assumptions freshness_test_is_rfc7641.

(* inside any half of the 24-bit number space serial comparison is a strict total order (that of the offsets) *)
Theorem serial_order_in_window : forall base a b, in_window base a -> in_window base b ->
  (serial_lt a b <-> off base a < off base b).
Proof. exact serial_lt_window. Qed.
Print Assumptions serial_order_in_window.

Theorem duplicate_is_stale : forall v t1 t2 reset, t2 <= t1 + reset -> is_recent v v t1 t2 reset = false.
Proof. exact duplicate_stale. Qed.
Print Assumptions duplicate_is_stale.

Theorem wrap_around_is_fresh : forall t1 t2 reset, is_recent (W - 1) 0 t1 t2 reset = true.
Proof. exact wrap_is_fresh. Qed.
Print Assumptions wrap_around_is_fresh.

(* ---- 1. refinement: for EVERY list of pipe events / application actions, what an observer registered from the start
        is handed by Request._run + ClientObservation is exactly what the three-phase RFC 7641 client hands over *)
Theorem observer_sees_rfc7641_client : forall k reset ops, no_reg k ops ->
  map (view k) (run (sys0 true reset) (OpRegister k :: ops)) = [] :: spec_run reset PFirst ops.
Proof. exact observer_refines_rfc_client. Qed.
Print Assumptions observer_sees_rfc7641_client.

(* ---- 2. deliveries form a subsequence of the arrivals ... *)
Theorem delivered_is_subsequence : forall k reset ops, no_reg k ops ->
  Subseq (deliveries (observed k reset ops)) (msg_ids ops).
Proof. exact run_delivered_is_subsequence. Qed.
Print Assumptions delivered_is_subsequence.

(* ... namely: after an observable first response (Observe v0 at t0) exactly the greedy freshness filter of the
   notifications arriving while the observation lives, followed by the final response if that is what ends it *)
Theorem delivered_is_freshness_filter : forall k reset t0 id0 v0 ops, no_reg k ops ->
  deliveries (observed k reset (OpEvent t0 (EvMsg id0 (Some v0) false) :: ops))
  = map n_id (accept reset v0 t0 (live_notifs ops)) ++ final_response ops.
Proof. exact run_delivered_characterised. Qed.
Print Assumptions delivered_is_freshness_filter.

(* each one is fresh by the RFC rule w.r.t. the one handed over before it; nothing fresh is dropped *)
Theorem delivered_pairwise_fresh : forall reset l v1 t1, chain reset v1 t1 (accept reset v1 t1 l).
Proof. exact accept_chain. Qed.
Print Assumptions delivered_pairwise_fresh.

Theorem accepted_is_subsequence : forall reset l v1 t1, Subseq (accept reset v1 t1 l) l.
Proof. exact accept_subseq. Qed.
Print Assumptions accepted_is_subsequence.

Theorem fresh_is_never_dropped : forall reset pre n post v1 t1,
  let '(v, t) := last_accepted reset v1 t1 pre in
  (rfc_fresh v t (n_v n) (n_t n) reset -> In n (accept reset v1 t1 (pre ++ n :: post)))
  /\ (~ rfc_fresh v t (n_v n) (n_t n) reset -> accept reset v1 t1 (pre ++ n :: post) = accept reset v1 t1 pre ++ accept reset v t post).
Proof. exact accept_complete. Qed.
Print Assumptions fresh_is_never_dropped.

(* ---- 3. all values within one half-window and all arrivals within the reset time: deliveries strictly increase and
        the last one handed over is the maximum — for every arrival order and duplication *)
Theorem freshest_delivered : forall base lo reset l v0 t0,
  in_window base v0 -> timely lo reset t0 ->
  Forall (fun n => in_window base (n_v n) /\ timely lo reset (n_t n)) l ->
  increasing base v0 (accept reset v0 t0 l)
  /\ off base (last_v v0 (accept reset v0 t0 l)) = max_off base v0 l.
Proof. exact freshest_accepted. Qed.
Print Assumptions freshest_delivered.

Theorem freshest_delivered_for_every_order : forall base lo reset l l' v0 t0,
  in_window base v0 -> timely lo reset t0 ->
  Forall (fun n => in_window base (n_v n) /\ timely lo reset (n_t n)) l ->
  Permutation l l' ->
  last_v v0 (accept reset v0 t0 l) = last_v v0 (accept reset v0 t0 l').
Proof. exact freshest_for_every_order. Qed.
Print Assumptions freshest_delivered_for_every_order.

(* ---- 4. the observation ends at most once and nothing is delivered after the end — every event list *)
Theorem terminates_once : forall k reset ops, no_reg k ops -> exists ids tail,
  observed k reset ops = map Deliver ids ++ tail /\ (tail = [] \/ exists e, tail = [EndSignal e]).
Proof. exact run_terminates_once. Qed.
Print Assumptions terminates_once.

(* 'not observable' when the first response is final (no Observe option, or the request failed) *)
Theorem first_response_final_is_not_observable : forall k reset now ev post, no_reg k post -> ev_is_last ev = true ->
  map (view k) (run (sys0 true reset) (OpRegister k :: OpEvent now ev :: post))
  = [] :: [EndSignal (Some NotObservable)] :: map (fun _ => []) post.
Proof. exact run_not_observable. Qed.
Print Assumptions first_response_final_is_not_observable.

(* a terminating event at ANY position: final response delivered then ObservationCancelled / the transport's
   exception; afterwards silence, whatever else arrives *)
Theorem termination_at_every_position : forall k reset t0 id0 v0 pre now ev post,
  no_reg k pre -> no_reg k post -> plain pre = true -> is_terminal ev = true ->
  map (view k) (run (sys0 true reset) (OpRegister k :: OpEvent t0 (EvMsg id0 (Some v0) false) :: pre ++ OpEvent now ev :: post))
  = [] :: [] :: spec_run reset (PObs v0 t0) pre ++ terminal_outcome ev :: map (fun _ => []) post.
Proof. exact run_termination_at_every_position. Qed.
Print Assumptions termination_at_every_position.

(* ---- 5. the end signal ends the pipe's interest within the same event; that releases the token; a later
        notification on that token is then an unknown response: RST if CON, ignored if NON, nobody is told *)
Theorem end_signal_releases_interest : forall k s now ev, live k s -> s_ended s = false -> s_runner s <> RFinished ->
  end_signals (view k (snd (add_event s now ev))) <> [] -> s_ended (fst (add_event s now ev)) = true.
Proof. exact end_signal_ends_pipe. Qed.
Print Assumptions end_signal_releases_interest.

Theorem token_released_with_interest : forall ops has_obs reset con t0,
  let k := srun_state (stack0 has_obs reset con t0) ops in
  s_ended (k_sys k) = true -> k_token k = false.
Proof. exact token_released_when_pipe_ends. Qed.
Print Assumptions token_released_with_interest.

Theorem later_notifications_rejected : forall k now mt id observe tok mid j,
  k_token k = false -> (mt = CON \/ mt = NON) ->
  let r := sstep k (SResponse now mt id observe tok mid) in
  k_token (fst r) = false
  /\ wires (snd r) = (match mt with CON => [RST] | _ => [] end)
  /\ view j (apps (snd r)) = [].
Proof. exact late_notification_rejected. Qed.
Print Assumptions later_notifications_rejected.

(* ---- 6. the async iterator: one wake-up yields an in-order subsequence of what was pushed, ending with the latest *)
Theorem iterator_in_order : forall xs, Subseq (snd (anext_drain (pushes idle xs))) (map yield xs).
Proof. exact iterator_yields_subsequence. Qed.
Print Assumptions iterator_in_order.

Theorem iterator_lossy_but_latest : forall ids x d,
  last (snd (anext_drain (pushes idle (map IMsg ids ++ [x])))) d = yield x.
Proof. exact Proofs.C07.iterator_lossy_but_latest. Qed.
Print Assumptions iterator_lossy_but_latest.

(* ================================================================== round 2 *)
(* ---- 7. the async iterator over a WHOLE run, with a consumer that may be busy between two __anext__ calls
        (Model/C07Iter.v; Model/C07.v's anext_drain is the instance with an instantaneous loop body):
        any interleaving of pushes, wake-ups and pulls yields an in-order subsequence of what was pushed ... *)
Theorem iterator_whole_run_subsequence : forall ops g, Subseq (grun g ops) (pending g ++ pushed ops).
Proof. exact iterator_run_subsequence. Qed.
Print Assumptions iterator_whole_run_subsequence.

(* ... and a consumer that keeps pulling eventually yields the latest notification or the end signal *)
Theorem iterator_whole_run_eventually_latest : forall ops x, err_last (pushed ops) = true -> lasto (pushed ops) = Some x ->
  lasto (grun (GBlocked None None) (ops ++ keep_pulling)) = Some x.
Proof. exact iterator_eventually_latest. Qed.
Print Assumptions iterator_whole_run_eventually_latest.

Theorem anext_drain_is_the_instant_consumer : forall it, it_started it = true ->
  map yield (grun (embed it) [GWake; GPull; GPull]) = snd (anext_drain it)
  /\ (fst (gstep (fst (gstep (fst (gstep (embed it) GWake)) GPull)) GPull) = embed (fst (anext_drain it)) \/ it_w it = None).
Proof. exact anext_drain_is_instant_consumer. Qed.
Print Assumptions anext_drain_is_the_instant_consumer.

(* ---- 8. side condition made explicit (observation O-C07-2): as long as the APPLICATION does not cancel the observation
        itself, no exception ever leaves Pipe._add_event — for every op list; with observation.cancel() it does *)
Theorem no_exception_leaves_the_pipe : forall ops has_obs reset, ~ In OpCancelObs ops ->
  escapes (concat (run (sys0 has_obs reset) ops)) = false.
Proof. exact no_exception_escapes. Qed.
Print Assumptions no_exception_leaves_the_pipe.

Theorem no_exception_leaves_the_pipe_unconditionally_refuted :
  run (sys0 true 128000000) [OpCancelObs; OpEvent 0 (EvMsg 1 None true)] = [[]; [OResp 1; OEscaped RuntimeError]].
Proof. exact no_exception_escapes_without_hypothesis_refuted. Qed.
Print Assumptions no_exception_leaves_the_pipe_unconditionally_refuted.

Theorem con_response_always_answered_refuted :
  fst (srun (stack0 true 128000000 false 0) [SApp 0 OpCancelObs; SResponse 1 CON 1 None true false])
  = [[]; [App (OResp 1); App (OEscaped RuntimeError)]].
Proof. exact con_response_unanswered_refuted. Qed.
Print Assumptions con_response_always_answered_refuted.

Theorem exchanges_cleaned_after_transport_error_refuted :
  k_exchange (srun_state (stack0 true 128000000 true 0) [SApp 0 OpCancelObs; SNetError 1]) = Some 62000000.
Proof. exact exchanges_cleaned_refuted. Qed.
Print Assumptions exchanges_cleaned_after_transport_error_refuted.

(* ---- 9. BlockwiseRequest's observation (Model/C07Blockwise.v) *)
(* once the outer observation has been told its end nothing more reaches it, whatever arrives on whichever token *)
Theorem blockwise_silent_after_end : forall ops b, dead b -> outer_obs (brun_outs b ops) = [].
Proof. exact bw_silent_after_end. Qed.
Print Assumptions blockwise_silent_after_end.

(* one run of the observation task: notifications, then at most one end signal, after which the task is over
   (partial: not yet composed into "at most one end signal over the whole history") *)
Theorem blockwise_task_ends_once_partial : forall fuel now b,
  exists cbs tail, outer_obs (snd (consumer_run fuel now b)) = cbs ++ tail
    /\ Forall (fun o => match o with BCb _ _ => True | _ => False end) cbs
    /\ (tail = [] \/ exists e, tail = [BEb e] /\ (b_first_done b = true -> dead (fst (consumer_run fuel now b)))).
Proof. exact consumer_run_shape. Qed.
Print Assumptions blockwise_task_ends_once_partial.

Theorem blockwise_assembly_exact : forall id n r id' n', complete_next id n r = inl (id', n') ->
  (r_blk r = BNone /\ id' = r_id r /\ n' = 1)
  \/ (exists more, r_blk r = BBlock n false true /\ more = false /\ r_etag_ok r = true /\ id' = id /\ n' = n + 1).
Proof. exact assembly_exact. Qed.
Print Assumptions blockwise_assembly_exact.

(* the three places where the property text fails on the faithful model (open findings, see notes/C07.md) *)
Theorem blockwise_final_response_delivered_refuted :
  fst (brun (bw0 128000000 0) final_while_busy) = [[BResp 0 1]; [BReq 1]; []; [BCb 1 2; BEb ObservationCancelled]; []].
Proof. exact final_response_always_delivered_refuted. Qed.
Print Assumptions blockwise_final_response_delivered_refuted.

Theorem blockwise_token_released_at_end_refuted :
  brun (bw0 128000000 0) first_fetch_fails
  = ([[BReq 1]; [BRespExn ResourceChanged; BEb ResourceChanged]; [BWire ACK]; [BWire ACK]], 1).
Proof. exact token_released_at_end_refuted. Qed.
Print Assumptions blockwise_token_released_at_end_refuted.

Theorem blockwise_later_notifications_rejected_refuted :
  brun (bw0 128000000 0) notif_fetch_fails
  = ([[BResp 0 1]; [BReq 1]; [BEb ResourceChanged]; [BWire ACK]; [BWire RST]], 0).
Proof. exact later_notifications_rejected_refuted. Qed.
Print Assumptions blockwise_later_notifications_rejected_refuted.

Example dead_reachable : dead (fst (bstep (fst (bstep (bw0 128000000 0) (BMain 1 NON 0 (Some 5) BNone))) (BMain 2 NON 1 None BNone))).
Proof. unfold dead. vm_compute. auto. Qed.
Example whole_run_instance :
  grun (GBlocked None None) ([GPush (IMsg 1); GWake; GPush (IMsg 2); GPush (IMsg 3); GPush (IErr ObservationCancelled)] ++ keep_pulling)
  = [IMsg 1; IErr ObservationCancelled].
Proof. vm_compute. reflexivity. Qed.

(* ================================================================== round 5 (clause audit, notes/audit/B.md) *)
(* ---- 10. what the async iterator yields in a run of the requester model, for EVERY op list (pipe events, registrations,
         drains, application cancels): message items, then at most one end (clean stop or an exception), then nothing *)
Theorem iterator_on_run_ends_at_most_once : forall has_obs reset ops, exists ids tail,
  itf (concat (run (sys0 has_obs reset) ops)) = map OIt ids ++ tail
  /\ (tail = [] \/ tail = [OItStop] \/ exists e, tail = [OItExn e]).
Proof. exact iterator_on_run_ends_once. Qed.
Print Assumptions iterator_on_run_ends_at_most_once.

(* clause "final response followed by a cancellation signal" is FALSE on the iterator interface (open finding
   C07:iter-final-response-lost): notification 4 waits for the consumer when final response 5 and its end signal arrive *)
Theorem iterator_final_response_delivered_refuted :
  concat (run (sys0 true 128000000)
    [OpIter; OpEvent 0 (EvMsg 2 (Some 5) false); OpDrain;
     OpEvent 1000000 (EvMsg 4 (Some 6) false); OpEvent 2000000 (EvMsg 5 None true); OpDrain])
  = [OResp 2; OEnd; OIt 4; OItStop].
Proof. exact iterator_final_response_lost. Qed.
Print Assumptions iterator_final_response_delivered_refuted.

(* ---- 11. in EVERY state and for every op (other than re-registering k): an end signal handed to observer k means the
         pipe's interest has ended when the op is done (generalises end_signal_releases_interest from live states);
         token_released_with_interest then gives the released token for every datagram history.  The composition into one
         statement over srun is not proved. *)
Theorem end_signal_releases_interest_in_every_state : forall k s o, (forall k', o = OpRegister k' -> k' <> k) ->
  end_signals (view k (snd (step s o))) <> [] -> s_ended (fst (step s o)) = true.
Proof. exact step_end_signal_ends. Qed.
Print Assumptions end_signal_releases_interest_in_every_state.

(* clause 5 on the network: a first response without Observe option of any type ends the observation as NotObservable
   and releases the token *)
Theorem stack_first_response_without_observe : forall k reset t0 now mt id mid, mt <> RST ->
  let k1 := fst (sstep (stack0 true reset false t0) (SApp t0 (OpRegister k))) in
  let r := sstep k1 (SResponse now mt id None true mid) in
  view k (apps (snd r)) = [EndSignal (Some NotObservable)] /\ k_token (fst r) = false.
Proof. exact stack_first_response_no_observe. Qed.
Print Assumptions stack_first_response_without_observe.

(* ---- 12. freshest-delivered on the run itself (not on the helper accept) *)
Theorem freshest_delivered_on_run : forall k reset t0 id0 v0 ops base lo, no_reg k ops ->
  in_window base v0 -> timely lo reset t0 ->
  Forall (fun n => in_window base (n_v n) /\ timely lo reset (n_t n)) (live_notifs ops) ->
  exists acc, deliveries (observed k reset (OpEvent t0 (EvMsg id0 (Some v0) false) :: ops)) = map n_id acc ++ final_response ops
    /\ Subseq acc (live_notifs ops) /\ increasing base v0 acc
    /\ off base (last_v v0 acc) = max_off base v0 (live_notifs ops).
Proof. exact freshest_on_run. Qed.
Print Assumptions freshest_delivered_on_run.

(* ---- 13. the 128 s of the property text is the constant the code reads *)
Theorem reset_time_is_128 : OBSERVATION_RESET_TIME = 128.
Proof. exact reset_time_128. Qed.
Print Assumptions reset_time_is_128.

Theorem default_tuning_resets_after_128_s : forall v t1 t2,
  is_recent v v t1 t2 (OBSERVATION_RESET_TIME * 1000000) = true <-> t2 > t1 + 128000000.
Proof. exact default_tuning_time_rule. Qed.
Print Assumptions default_tuning_resets_after_128_s.

(* ---- 14. clause 7 split: a transport failure BEFORE the first response ends the observation as NotObservable (the
         exception goes to request.response) — open finding C07:first-failure-signalled-as-not-observable *)
Theorem transport_failure_before_first_response : forall k reset now e post, no_reg k post ->
  map (view k) (run (sys0 true reset) (OpRegister k :: OpEvent now (EvExn e) :: post))
  = [] :: [EndSignal (Some NotObservable)] :: map (fun _ => []) post.
Proof. exact failure_before_first_response. Qed.
Print Assumptions transport_failure_before_first_response.

Theorem network_error_on_failed_request_refuted :
  run (sys0 true 128000000) [OpRegister 0; OpEvent 0 (EvExn NetworkError)]
  = [[]; [ORespExn NetworkError; OEb 0 (Some NotObservable); OEnd]].
Proof. exact network_error_signalled_refuted. Qed.
Print Assumptions network_error_on_failed_request_refuted.

(* ================================================================== round 6: history-level statements *)
(* ---- 15. over EVERY datagram history of the stack model (responses of every type, empty ACK / RST, transport errors, time
         passing, application and loop actions; the observer is not registered a second time): if the observer was handed an
         end signal anywhere in the history, the observation's token is released at its end ... *)
Theorem stack_end_signal_releases_token : forall k has_obs reset con t0 ops,
  (forall o, In o ops -> not_rereg k o) ->
  sig k (history_apps (fst (srun (stack0 has_obs reset con t0) (SApp t0 (OpRegister k) :: ops)))) ->
  snd (srun (stack0 has_obs reset con t0) (SApp t0 (OpRegister k) :: ops)) = false.
Proof. exact Proofs.C07R6.stack_end_signal_releases_token. Qed.
Print Assumptions stack_end_signal_releases_token.

(* ... and the next notification on that token is rejected like an unknown response: later_notifications_rejected with its
   hypothesis [k_token k = false] discharged by the history *)
Theorem stack_notification_after_end_rejected : forall k has_obs reset con t0 ops now mt id observe tok mid j,
  (forall o, In o ops -> not_rereg k o) -> (mt = CON \/ mt = NON) ->
  let hist := SApp t0 (OpRegister k) :: ops in
  sig k (history_apps (fst (srun (stack0 has_obs reset con t0) hist))) ->
  let r := sstep (srun_state (stack0 has_obs reset con t0) hist) (SResponse now mt id observe tok mid) in
  k_token (fst r) = false /\ wires (snd r) = (match mt with CON => [RST] | _ => [] end) /\ view j (apps (snd r)) = [].
Proof. exact Proofs.C07R6.stack_notification_after_end_rejected. Qed.
Print Assumptions stack_notification_after_end_rejected.

(* ---- 16. BlockwiseRequest's observation over EVERY history (datagrams on the observation's and the follow-ups' tokens,
         transport errors, loop runs): the outer observation is handed notifications, then at most one end signal, then
         nothing (replaces blockwise_task_ends_once_partial; blockwise_silent_after_end's hypothesis [dead] is reached by
         every end signal) *)
Theorem blockwise_ends_at_most_once : forall reset t0 ops, exists cbs tail,
  outer_obs (brun_outs (bw0 reset t0) ops) = cbs ++ tail /\ Forall isCb cbs /\ (tail = [] \/ exists e, tail = [BEb e]).
Proof. exact blockwise_ends_once. Qed.
Print Assumptions blockwise_ends_at_most_once.

(* ---- 17. over EVERY run of the requester model (pipe events, late observers, start of the iteration at any point, loop
         runs, application cancels) the message ids the async iterator yields form an in-order subsequence of what an
         observer registered from the start is handed (audit gap 2, second half) *)
Theorem iterator_on_run_subsequence : forall k reset ops, no_reg k ops ->
  Subseq (it_ids (concat (run (sys0 true reset) (OpRegister k :: ops)))) (deliveries (observed k reset ops)).
Proof. exact Proofs.C07R6c.iterator_on_run_subsequence. Qed.
Print Assumptions iterator_on_run_subsequence.

Example stack_history_instance :
  sig 0 (history_apps (fst (srun (stack0 true 128000000 true 0)
     [SApp 0 (OpRegister 0); SResponse 0 ACK 1 (Some 5) true true; SResponse 1 NON 2 None true false]))).
Proof. unfold sig. vm_compute. discriminate. Qed.

(* ================================================================== non-vacuity *)
(* a concrete reordered, duplicated, wrapping history: first response Observe 2^24-2; arrivals 2^24-1, 1, 0 (late),
   1 (duplicate), then 0 again after more than 128 s (fresh again by the time rule), then a 4.04 without Observe *)
Definition history : list op :=
  [ OpEvent 0 (EvMsg 1 (Some (W - 2)) false);
    OpEvent 1000000 (EvMsg 2 (Some (W - 1)) false);
    OpEvent 2000000 (EvMsg 3 (Some 1) false);
    OpEvent 3000000 (EvMsg 4 (Some 0) false);
    OpEvent 4000000 (EvMsg 5 (Some 1) false);
    OpEvent 131000000 (EvMsg 6 (Some 0) false);
    OpEvent 132000000 (EvMsg 7 None true);
    OpEvent 133000000 (EvMsg 8 (Some 2) false) ].
Example history_no_reg : no_reg 0 history.
Proof. intros k' H. cbn in H. repeat (destruct H as [H|H]; [discriminate|]). contradiction. Qed.
Example history_observed :
  observed 0 128000000 history
  = [Deliver 2; Deliver 3; Deliver 6; Deliver 7; EndSignal (Some ObservationCancelled)].
Proof. vm_compute. reflexivity. Qed.

(* the half-window hypothesis of freshest_delivered is satisfiable across the wrap-around *)
Example window_across_wrap : in_window (W - 2) (W - 1) /\ in_window (W - 2) 0 /\ in_window (W - 2) 5.
Proof. unfold in_window, in_range, off, W, HW. cbn. lia. Qed.
Example freshest_instance :
  last_v (W - 2) (accept 128000000 (W - 2) 0
     [ {| n_id := 1; n_v := 0; n_t := 10 |}; {| n_id := 2; n_v := 5; n_t := 20 |}; {| n_id := 3; n_v := W - 1; n_t := 30 |}; {| n_id := 4; n_v := 5; n_t := 40 |} ]) = 5.
Proof. vm_compute. reflexivity. Qed.

(* the hypotheses of end_signal_releases_interest / later_notifications_rejected are reachable *)
Example live_state : live 0 (fst (step (sys0 true 128000000) (OpRegister 0))).
Proof. unfold live. cbn. auto. Qed.
Example token_gone_reachable :
  k_token (srun_state (stack0 true 128000000 true 0)
             [SApp 0 (OpRegister 0); SResponse 0 ACK 1 (Some 5) true true; SResponse 1 NON 2 None true false]) = false.
Proof. vm_compute. reflexivity. Qed.
Example rejected_after_end :
  fst (srun (stack0 true 128000000 true 0)
        [SApp 0 (OpRegister 0); SResponse 0 ACK 1 (Some 5) true true; SResponse 1 NON 2 None true false; SResponse 2 CON 3 (Some 6) true false])
  = [[]; [App (OResp 1)]; [App (OCb 0 2); App (OEb 0 (Some ObservationCancelled)); App OEnd]; [Wire RST]].
Proof. vm_compute. reflexivity. Qed.
