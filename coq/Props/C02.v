(* C02 — a response reaches exactly the request it answers; every request completes once.
   Only statements here; every proof is [exact <lemma of Proofs/C02.v>]. *)
From Verif Require Import Lib.Py Lib.Tactics Gen.tokenmanager_next_token Model.C02 Proofs.C02 Proofs.C02Once Proofs.C02Origin Proofs.C02Inv Proofs.C02Tok Proofs.C02More Proofs.C02Safe Proofs.C02R6 Proofs.C02R6b.
Open Scope Z_scope.

(* ---- tokens (over next_token as translated from tokenmanager.py on this run) *)
Theorem C02_next_token_spec : forall t,
  next_token t = Ok ({| tm_token := (tm_token t + 1) mod 2 ^ 64 |}, tokbytes ((tm_token t + 1) mod 2 ^ 64)).
Proof. exact next_token_spec. Qed.
Print Assumptions C02_next_token_spec.
Theorem C02_token_injective : forall a b, 0 <= a < 2 ^ 64 -> 0 <= b < 2 ^ 64 -> tokbytes a = tokbytes b -> a = b.
Proof. exact token_injective_lemma. Qed.
Print Assumptions C02_token_injective.
(* the token handed out d calls later (0 < d < 2^64) differs *)
Theorem C02_tokens_distinct : forall t d, 0 <= t < 2 ^ 64 -> 0 < d < 2 ^ 64 -> tokbytes ((t + d) mod 2 ^ 64) <> tokbytes t.
Proof. exact tokens_distinct_lemma. Qed.
Print Assumptions C02_tokens_distinct.

(* ---- in EVERY state, a datagram hands a response to the application only as the result / notification of the
   request registered under (token, source endpoint) -- or under (token, None), the entry of a request sent to a
   multicast address, the one case where the source is not compared -- and it is that very datagram *)
(* (side condition for piggy-backed responses only: the ACK first ends an exchange, which may release a backlogged
   request; if the transport refuses THAT transmission synchronously the error fan-out runs before the table is
   consulted -- the statement is then about the table as it is at that moment, see C02_reachable_inv) *)
Theorem C02_deliver_only_matching : forall s r mcl w s' outs o,
  (w_mtype w = ACK -> refuses s r = false) ->
  dispatch_message s r mcl w = (s', outs) -> In o outs -> is_delivery o = true ->
  exists og q, outgoing s = Some og /\ matching og (w_token w) r = Some q /\
    (o = SetResult q (w_rid w) (w_token w) r \/ o = Notify q (w_rid w) (w_token w) r) /\
    is_response (w_code w) = true /\ w_mtype w <> RST.
Proof. exact deliver_only_matching_lemma. Qed.
Print Assumptions C02_deliver_only_matching.

(* ---- unknown / retired token or other endpoint: nothing changes, nothing is delivered; a CON is answered with
   exactly one RST (none when it was received on a multicast address), a NON with nothing *)
Theorem C02_unmatched_con_rst_general : forall s r mcl w og, outgoing s = Some og ->
  is_response (w_code w) = true -> w_mtype w = CON -> matching og (w_token w) r = None ->
  dispatch_message s r mcl w = if mcl then (s, []) else _send_via_transport s r (empty_msg RST (w_mid w)).
Proof. exact unmatched_con_rst_general. Qed.
Print Assumptions C02_unmatched_con_rst_general.
(* ... which, unless the transport refuses datagrams for r at that moment, is exactly one RST on the wire *)
Theorem C02_unmatched_con_rst : forall s r mcl w og, outgoing s = Some og -> refuses s r = false ->
  is_response (w_code w) = true -> w_mtype w = CON -> matching og (w_token w) r = None ->
  dispatch_message s r mcl w = (s, if mcl then [] else [Send r RST EMPTY (w_mid w) [] None]).
Proof. exact unmatched_con_rst_lemma. Qed.
Print Assumptions C02_unmatched_con_rst.
Theorem C02_unmatched_non_silent : forall s r mcl w og, outgoing s = Some og ->
  is_response (w_code w) = true -> w_mtype w = NON -> matching og (w_token w) r = None ->
  dispatch_message s r mcl w = (s, []).
Proof. exact unmatched_non_silent_lemma. Qed.
Print Assumptions C02_unmatched_non_silent.
Theorem C02_unmatched_ack_only_ends_exchange : forall s r mcl w og, outgoing s = Some og ->
  is_response (w_code w) = true -> w_mtype w = ACK -> matching og (w_token w) r = None ->
  dispatch_message s r mcl w = fst (_remove_exchange s r w).
Proof. exact unmatched_ack_lemma. Qed.
Print Assumptions C02_unmatched_ack_only_ends_exchange.
Theorem C02_matched_con_acked : forall s r mcl w og q, outgoing s = Some og -> refuses s r = false ->
  is_response (w_code w) = true -> w_mtype w = CON -> matching og (w_token w) r = Some q ->
  exists s' o, dispatch_message s r mcl w = (s', o ++ [Send r ACK EMPTY (w_mid w) [] None]) /\
               Forall (fun x => is_send x = false) o.
Proof. exact matched_con_acked_lemma. Qed.
Print Assumptions C02_matched_con_acked.

(* ---- every request completes at most once: over ALL event lists (requests, datagrams with any loss / duplication /
   reordering / forgery pattern, timers, transport errors, cancellations, shutdown) from ANY state, the outputs contain
   at most one of SetResult / SetException / Cancelled per request id *)
Theorem C02_complete_at_most_once : forall es s q, (ncomp q (concat (snd (run s es))) <= 1)%nat.
Proof. exact complete_at_most_once_lemma. Qed.
Print Assumptions C02_complete_at_most_once.
Theorem C02_completed_stays_completed : forall es s q c, get_req s q = Some c -> cq_fut c <> FPending ->
  ncomp q (concat (snd (run s es))) = 0%nat.
Proof. exact completed_stays_completed_lemma. Qed.
Print Assumptions C02_completed_stays_completed.

(* ---- what a request completes with: an exception is always one of the library's error classes (LibraryShutdown,
   NetworkError and its subclasses ConRetransmitsExceeded / MessageError, ConToMulticast raised by send_message);
   a result or notification is only ever the datagram being processed, with its token and source *)
Theorem C02_completion_kinds : forall s e s' o x, step s e = (s', o) -> event_wf e -> In x o ->
  match x with
  | SetException q err => lib_error err = true
  | SetResult q rid tok from => exists mcl w, e = Recv from mcl w /\ rid = w_rid w /\ tok = w_token w
  | Notify q rid tok from => exists mcl w, e = Recv from mcl w /\ rid = w_rid w /\ tok = w_token w
  | _ => True
  end.
Proof. exact completion_kinds_lemma. Qed.
Print Assumptions C02_completion_kinds.

(* ---- the table invariant holds in every reachable state ... *)
Theorem C02_reachable_inv : forall t m a es, Inv (fst (run (init t m a) es)).
Proof. exact reachable_inv. Qed.
Print Assumptions C02_reachable_inv.
Theorem C02_step_inv : forall s e s' o, Inv s -> step s e = (s', o) -> Inv s'.
Proof. exact step_inv. Qed.
Print Assumptions C02_step_inv.
(* ... so the request a response is matched to is still outstanding (waiting for its first response, or an
   observation that got one) and was sent to the endpoint the response comes from, or to a multicast address *)
Theorem C02_matched_is_outstanding : forall s og tok r q, Inv s -> outgoing s = Some og -> matching og tok r = Some q ->
  exists c, get_req s q = Some c /\ live c /\ (cq_remote c = r \/ is_multicast (cq_remote c) = true).
Proof. exact matched_is_outstanding_lemma. Qed.
Print Assumptions C02_matched_is_outstanding.
(* ... and a request that failed, was cancelled, or (not an observation) got its response is retired: a later
   response carrying its token is never matched to it (C02_unmatched_con_rst then gives the Reset) *)
Theorem C02_retired_unmatched : forall s og q c tok r, Inv s -> outgoing s = Some og -> get_req s q = Some c -> retired c ->
  matching og tok r <> Some q.
Proof. exact retired_unmatched_lemma. Qed.
Print Assumptions C02_retired_unmatched.

(* ---- a transport error for remote r fails, in that very step, every still-pending request registered for r --
   whatever else is outstanding (entries of multicast requests, keyed (token, None), are skipped: since a3add01
   `None == <udp6 address>` is False instead of raising); the give-up of a CON exchange is the same dispatch with
   ConRetransmitsExceeded *)
Theorem C02_transport_error_fails : forall s og r kind tok q c, Inv s -> outgoing s = Some og -> exchanges s <> None ->
  In ((tok, Some r), q) og -> get_req s q = Some c -> cq_fut c = FPending ->
  In (SetException q (wrap_error kind)) (snd (mm_dispatch_error s kind r)).
Proof. exact transport_error_fails_lemma. Qed.
Print Assumptions C02_transport_error_fails.
Theorem C02_giveup_fails : forall s og r tok q c, Inv s -> outgoing s = Some og ->
  In ((tok, Some r), q) og -> get_req s q = Some c -> cq_fut c = FPending ->
  In (SetException q ConRetransmitsExceeded) (snd (tm_dispatch_error s (ENet ConRetransmitsExceeded) r)).
Proof. exact giveup_fails_lemma. Qed.
Print Assumptions C02_giveup_fails.
(* the script of the former finding (corpus/C02/multicast-key-regression.json): with a multicast request outstanding,
   the error for remote 0 fails request 1 with NetworkError and leaves the multicast request registered; likewise
   the fifth timer firing fails it with ConRetransmitsExceeded *)
Example C02_transport_error_with_multicast_pending :
  let r := run (init 5 10 2000000) [Request 0 100 None false; Request 1 0 (Some 0) false; Err 0 EOs] in
  nth 2 (snd r) [] = [SetException 1 NetworkError] /\ outgoing (fst r) = Some [(([6], None), 0)].
Proof. vm_compute. split; reflexivity. Qed.
Example C02_giveup_with_multicast_pending :
  let r := run (init 5 10 2000000) [Request 0 100 None false; Request 1 0 (Some 0) false; Fire; Fire; Fire; Fire; Fire] in
  nth 6 (snd r) [] = [SetException 1 ConRetransmitsExceeded] /\ outgoing (fst r) = Some [(([6], None), 0)] /\ now (fst r) = 62000000.
Proof. vm_compute. repeat split; reflexivity. Qed.

(* ---- a transport that refuses the datagram synchronously (udp6: sendmsg fails -> error_received -> dispatch_error, all
   from INSIDE send_message): the request being sent is failed with NetworkError in the very step in which it is issued.
   This is what registering the request BEFORE calling send_message guarantees (a request registered afterwards would
   be missed by the fan-out and stay pending for ever). Side condition: the request is actually handed to the
   transport (NON, or CON with no exchange/backlog to r in front of it), and r is not a multicast address. *)
Theorem C02_refused_request_fails : forall s q r mt obs og,
  Inv s -> get_req s q = None -> outgoing s = Some og -> exchanges s <> None ->
  refuses s r = true -> is_multicast r = false ->
  (eff_mtype mt = CON -> amem Z.eqb r (backlogs s) = false) ->
  In (SetException q NetworkError) (snd (new_request s q r mt obs)).
Proof. exact refused_request_fails_lemma. Qed.
Print Assumptions C02_refused_request_fails.
(* the refused transmission also fails the OTHER outstanding requests to that remote (pending NON, queued CONs), once each *)
Example C02_refused_request_with_others_pending :
  snd (run (init 5 10 2000000) [Request 0 0 (Some 1) false; Request 1 0 (Some 0) false; Request 2 0 (Some 0) false;
                                Refuse 0 true; Request 3 0 (Some 1) false; Refuse 0 false;
                                Recv 0 false {| w_mtype := 1; w_code := 69; w_mid := 7; w_token := [9]; w_observe := None; w_rid := 1 |}])
  = [[Token 0 [6]; Send 0 1 1 10 [6] None]; [Token 1 [7]; Send 0 0 1 11 [7] None]; [Token 2 [8]]; [];
     [Token 3 [9]; SetException 0 NetworkError; SetException 1 NetworkError; SetException 2 NetworkError; SetException 3 NetworkError];
     []; []].
Proof. vm_compute. reflexivity. Qed.

(* ---- shutdown fails, in the Shutdown step itself, every registered request whose future is still pending, and
   closes both tables; a request issued afterwards fails at once *)
Theorem C02_shutdown_fails_all : forall s og k q c, Inv s -> outgoing s = Some og -> alookup key_eqb k og = Some q ->
  get_req s q = Some c -> cq_fut c = FPending ->
  In (SetException q LibraryShutdown) (snd (shutdown s)) /\ outgoing (fst (shutdown s)) = None /\ exchanges (fst (shutdown s)) = None.
Proof. exact shutdown_fails_lemma. Qed.
Print Assumptions C02_shutdown_fails_all.
Theorem C02_request_after_shutdown : forall s q r mt obs, outgoing s = None -> get_req s q = None ->
  In (SetException q LibraryShutdown) (snd (new_request s q r mt obs)).
Proof. exact request_after_shutdown_lemma. Qed.
Print Assumptions C02_request_after_shutdown.

(* ---- tokens handed out by two calls of next_token fewer than 2^64 apart differ *)
Theorem C02_tokens_of_calls_distinct : forall t i j, 0 <= tm_token t < 2 ^ 64 -> (i < j)%nat -> Z.of_nat j - Z.of_nat i < 2 ^ 64 ->
  tokbytes (tm_token (next_token_n i t)) <> tokbytes (tm_token (next_token_n j t)).
Proof. exact tokens_of_calls_distinct_lemma. Qed.
Print Assumptions C02_tokens_of_calls_distinct.

(* ---- table level: in every state reachable with at most 2^64 events, the TOKENS of all outstanding requests are
   pairwise different (a fortiori their (token, remote) keys towards one endpoint): a new request never reuses the token
   of, nor overwrites the entry of, a request that is still outstanding. Over next_token as translated on this run. *)
Theorem C02_outstanding_tokens_distinct : forall t m a es og, 0 <= t < 2 ^ 64 -> Z.of_nat (length es) <= 2 ^ 64 ->
  outgoing (fst (run (init t m a) es)) = Some og -> NoDup (map (fun e => fst (fst e)) og).
Proof. exact outstanding_tokens_distinct_lemma. Qed.
Print Assumptions C02_outstanding_tokens_distinct.

(* ======== round 5 (clause audit) ======== *)
(* ---- "completes at most once" has content: in Python a second set_result / set_exception on the response future raises
   InvalidStateError; the model renders that branch (and every other branch it marks as unreachable) as the output [Crash _],
   which C02_complete_at_most_once does not count. From the initial state, for every event list of client-side events (no
   request codes in incoming datagrams: the server side is outside this model), no Crash is ever produced. *)
Theorem C02_no_second_completion : forall t m a es x, Forall ev_client es ->
  In x (concat (snd (run (init t m a) es))) -> nocrash x.
Proof. exact no_crash_lemma. Qed.
Print Assumptions C02_no_second_completion.
(* ---- round 6: ... and no exception ever ESCAPES the library into the transport or the event loop (the model's Raised / LoopExc
   outputs: KeyError / AssertionError branches of _retransmit / _continue_backlog), by the message-layer invariant MLInv: every
   exchange's remote has a backlog entry and there is at most one exchange per remote, in every reachable state *)
Theorem C02_reachable_mlinv : forall t m a es, Forall ev_client es -> MLInv (fst (run (init t m a) es)).
Proof. exact reachable_mlinv. Qed.
Print Assumptions C02_reachable_mlinv.
Theorem C02_no_crash_no_escape : forall t m a es x, Forall ev_client es ->
  In x (concat (snd (run (init t m a) es))) -> clean x.
Proof. exact no_crash_no_escape_lemma. Qed.
Print Assumptions C02_no_crash_no_escape.
(* with MLInv the side conditions of C02_fire_giveup_fails (the fired exchange is the one looked up; its remote has a backlog entry)
   and of C02_matching_delivered_piggybacked (_remove_exchange does not raise) are consequences of reachability *)
Theorem C02_fire_giveup_fails_reachable : forall s ex r mid e og tok q c, Inv s -> MLInv s -> exchanges s = Some ex ->
  next_timer ex None = Some ((r, mid), e) -> (ex_counter e <? 4) = false ->
  outgoing s = Some og -> In ((tok, Some r), q) og -> get_req s q = Some c -> cq_fut c = FPending ->
  In (SetException q ConRetransmitsExceeded) (snd (step s Fire)).
Proof. exact fire_giveup_fails_ml. Qed.
Print Assumptions C02_fire_giveup_fails_reachable.
Theorem C02_matching_delivered_piggybacked_reachable : forall s r mcl w og q c, Inv s -> MLInv s -> outgoing s = Some og -> refuses s r = false ->
  is_response (w_code w) = true -> w_mtype w = ACK ->
  matching og (w_token w) r = Some q -> get_req s q = Some c -> cq_fut c = FPending ->
  In (SetResult q (w_rid w) (w_token w) r) (snd (dispatch_message s r mcl w)).
Proof. exact matching_delivered_ack_ml. Qed.
Print Assumptions C02_matching_delivered_piggybacked_reachable.

(* ---- datagram loss: the timer step itself (not only the helper of C02_giveup_fails) fails every pending request of the remote
   whose exchange has used up its retransmissions *)
Theorem C02_fire_giveup_fails : forall s ex r mid e og tok q c, Inv s -> exchanges s = Some ex ->
  next_timer ex None = Some ((r, mid), e) -> alookup rm_eqb (r, mid) ex = Some e -> (ex_counter e <? 4) = false ->
  amem Z.eqb r (backlogs s) = true ->
  outgoing s = Some og -> In ((tok, Some r), q) og -> get_req s q = Some c -> cq_fut c = FPending ->
  In (SetException q ConRetransmitsExceeded) (snd (step s Fire)).
Proof. exact fire_giveup_fails_lemma. Qed.
Print Assumptions C02_fire_giveup_fails.

(* ---- a matching response to a pending request IS delivered (separate CON / NON response: whatever the transport does;
   piggy-backed: while the transport accepts datagrams for r and the ACK's own message-layer processing does not raise) *)
Theorem C02_matching_delivered : forall s r mcl w og q c, Inv s -> outgoing s = Some og ->
  is_response (w_code w) = true -> (w_mtype w = CON \/ w_mtype w = NON) ->
  matching og (w_token w) r = Some q -> get_req s q = Some c -> cq_fut c = FPending ->
  In (SetResult q (w_rid w) (w_token w) r) (snd (dispatch_message s r mcl w)).
Proof. exact matching_delivered_lemma. Qed.
Print Assumptions C02_matching_delivered.
Theorem C02_matching_delivered_piggybacked : forall s r mcl w og q c, Inv s -> outgoing s = Some og -> refuses s r = false ->
  is_response (w_code w) = true -> w_mtype w = ACK -> snd (_remove_exchange s r w) = false ->
  matching og (w_token w) r = Some q -> get_req s q = Some c -> cq_fut c = FPending ->
  In (SetResult q (w_rid w) (w_token w) r) (snd (dispatch_message s r mcl w)).
Proof. exact matching_delivered_ack_lemma. Qed.
Print Assumptions C02_matching_delivered_piggybacked.

(* ---- a Reset for the exchange of a CON request that still waits for its response fails it with MessageError *)
Theorem C02_reset_fails : forall s r mcl w ex e c rest, exchanges s = Some ex -> alookup rm_eqb (r, w_mid w) ex = Some e ->
  w_mtype w = RST -> is_request (w_code w) = false -> get_req s (ex_monitor e) = Some c ->
  cq_cbs c = Some (CbProcess :: rest) -> cq_runner c = AwaitFirst -> cq_fut c = FPending ->
  In (SetException (ex_monitor e) MessageError) (snd (dispatch_message s r mcl w)).
Proof. exact reset_fails_lemma. Qed.
Print Assumptions C02_reset_fails.

(* ---- C02_deliver_only_matching without its side condition: whatever the message layer did before the table was consulted
   (it only removes entries), the request had an entry under the datagram's token and (its source endpoint or None) BEFORE the datagram *)
Theorem C02_deliver_only_matching_gen : forall s r mcl w s' outs o og, outgoing s = Some og ->
  dispatch_message s r mcl w = (s', outs) -> In o outs -> is_delivery o = true ->
  exists q k, alookup key_eqb k og = Some q /\ fst k = w_token w /\ (snd k = Some r \/ snd k = None) /\
    (o = SetResult q (w_rid w) (w_token w) r \/ o = Notify q (w_rid w) (w_token w) r) /\
    is_response (w_code w) = true /\ w_mtype w <> RST.
Proof. exact deliver_only_matching_gen_lemma. Qed.
Print Assumptions C02_deliver_only_matching_gen.

(* ---- the delivery clause in one statement over every state with the invariant (all reachable ones: C02_reachable_inv) *)
Theorem C02_run_delivery : forall s e s' o x q rid tok from, Inv s -> event_wf e -> step s e = (s', o) -> In x o ->
  (x = SetResult q rid tok from \/ x = Notify q rid tok from) ->
  exists mcl w og k c, e = Recv from mcl w /\ rid = w_rid w /\ tok = w_token w /\ outgoing s = Some og /\
    alookup key_eqb k og = Some q /\ fst k = tok /\ (snd k = Some from \/ snd k = None) /\
    get_req s q = Some c /\ live c /\ (cq_remote c = from \/ is_multicast (cq_remote c) = true).
Proof. exact run_delivery_lemma. Qed.
Print Assumptions C02_run_delivery.

(* ---- round 6: in EVERY state, a datagram never produces a notification for an observation whose `cancelled` flag is set
   (by the application or by an earlier error); the flag is never reset *)
Theorem C02_cancelled_obs_silent : forall s r mcl w q c o, get_req s q = Some c -> cq_obs_cancelled c = true ->
  In o (snd (dispatch_message s r mcl w)) -> forall rid tok from, o <> Notify q rid tok from.
Proof. exact cancelled_obs_silent_lemma. Qed.
Print Assumptions C02_cancelled_obs_silent.

(* ---- non-vacuity: the invariant and the hypotheses above are satisfied by concrete busy states *)
Example C02_nonvacuous_state :
  let s := fst (run (init 5 10 2000000) [Request 0 0 (Some 0) false; Request 1 0 (Some 0) true; Request 2 1 (Some 1) false;
                                          Recv 0 false {| w_mtype := 2; w_code := 69; w_mid := 10; w_token := [6]; w_observe := None; w_rid := 1 |}]) in
  Inv s /\ (exists og, outgoing s = Some og /\ In (([7], Some 0), 1) og /\ matching og [7] 0 = Some 1 /\ matching og [6] 0 = None /\ matching og [7] 1 = None) /\
  (exists c, get_req s 0 = Some c /\ retired c) /\ (exists c, get_req s 1 = Some c /\ cq_fut c = FPending) /\ exchanges s <> None.
Proof.
  split; [apply reachable_inv|]. vm_compute. split.
  - eexists. split; [reflexivity|]. split; [left; reflexivity|repeat split].
  - split; [eexists; split; [reflexivity|right; right; split; [reflexivity|discriminate]]|].
    split; [eexists; split; reflexivity|discriminate].
Qed.
(* a script in which a response is delivered, forgeries are rejected with RST, and a retired token is rejected *)
Example C02_scenario :
  snd (run (init 5 10 2000000)
        [Request 0 0 (Some 0) false;
         Recv 1 false {| w_mtype := 0; w_code := 69; w_mid := 70; w_token := [6]; w_observe := None; w_rid := 1 |};   (* right token, wrong remote *)
         Recv 0 false {| w_mtype := 0; w_code := 69; w_mid := 71; w_token := [0; 6]; w_observe := None; w_rid := 2 |}; (* wrong token *)
         Recv 0 false {| w_mtype := 2; w_code := 69; w_mid := 10; w_token := [6]; w_observe := None; w_rid := 3 |};   (* the answer *)
         Recv 0 false {| w_mtype := 0; w_code := 69; w_mid := 72; w_token := [6]; w_observe := None; w_rid := 4 |}])  (* retired token *)
  = [[Token 0 [6]; Send 0 0 1 10 [6] None]; [Send 1 3 0 70 [] None]; [Send 0 3 0 71 [] None]; [SetResult 0 3 [6] 0]; [Send 0 3 0 72 [] None]].
Proof. vm_compute. reflexivity. Qed.

(* ---- round 7 *)
From Verif Require Import Proofs.C02R7.
(* run-level form of C02_cancelled_obs_silent: in EVERY state, once the `cancelled` flag of observation q is set, no step of ANY event
   list produces a Notify for q, and the flag is still set at the end *)
Theorem C02_cancelled_obs_silent_run : forall s q c es, get_req s q = Some c -> cq_obs_cancelled c = true ->
  (forall os rid tok from, In os (snd (run s es)) -> ~ In (Notify q rid tok from) os) /\
  (exists c', get_req (fst (run s es)) q = Some c' /\ cq_obs_cancelled c' = true).
Proof. exact cancelled_obs_silent_run_lemma. Qed.
Print Assumptions C02_cancelled_obs_silent_run.
(* any history: from ANY state s0, after any events es1 that leave q a running observation, `ObsCancel q` silences q in all later steps es2 *)
Theorem C02_obs_cancel_silences_run : forall s0 es1 es2 q c v,
  get_req (fst (run s0 es1)) q = Some c -> cq_runner c = Observing v ->
  forall os rid tok from, In os (skipn (length es1) (snd (run s0 (es1 ++ ObsCancel q :: es2)))) -> ~ In (Notify q rid tok from) os.
Proof. exact obs_cancel_silences_run_lemma. Qed.
Print Assumptions C02_obs_cancel_silences_run.
(* token uniqueness over time (audit gap 4): from EVERY state, along EVERY list of at most 2^64 events, the tokens handed out
   (the Token outputs, in order) are pairwise different; a token handed out during es1 is not handed out again during es2; one step hands out at most one *)
Theorem C02_run_tokens_unique : forall s es, Z.of_nat (length es) <= 2 ^ 64 -> NoDup (toks (concat (snd (run s es)))).
Proof. exact run_tokens_unique_lemma. Qed.
Print Assumptions C02_run_tokens_unique.
Theorem C02_token_not_reissued : forall s es1 es2 q1 q2 tok o1 o2, Z.of_nat (length (es1 ++ es2)) <= 2 ^ 64 ->
  In o1 (snd (run s es1)) -> In (Token q1 tok) o1 ->
  In o2 (snd (run (fst (run s es1)) es2)) -> In (Token q2 tok) o2 -> False.
Proof. exact token_not_reissued_lemma. Qed.
Print Assumptions C02_token_not_reissued.
Theorem C02_step_one_token : forall s e, (length (toks (snd (step s e))) <= 1)%nat.
Proof. exact step_one_token_lemma. Qed.
Print Assumptions C02_step_one_token.
(* the tie between the table and the tokens on the wire: every entry (tok, _) -> q of the final table was in the initial table, or
   `Token q tok` was emitted in some step of the run (from `init` the table is empty, so the second alternative holds) *)
Theorem C02_entry_token_emitted : forall es s og' k q, outgoing (fst (run s es)) = Some og' -> In (k, q) og' ->
  (exists og, outgoing s = Some og /\ In (k, q) og) \/ exists o, In o (snd (run s es)) /\ In (Token q (fst k)) o.
Proof. exact entry_token_emitted_lemma. Qed.
Print Assumptions C02_entry_token_emitted.
(* non-vacuity of the round-7 statements (concrete histories: with / without ObsCancel; counter wrap-around; table vs. Token outputs) *)
Example C02_r7_nonvacuous_obs : skipn 3 (snd (run (init 5 10 2000000) (r7_pre ++ r7_post))) = [[Notify 0 3 [6] 0]; [Send 0 0 1 10 [6] (Some 0)]; [Notify 0 4 [6] 0]] /\
  skipn 3 (snd (run (init 5 10 2000000) (r7_pre ++ ObsCancel 0 :: r7_post))) = [[]; []; [Send 0 0 1 10 [6] (Some 0)]; []].
Proof. vm_compute. split; reflexivity. Qed.
Example C02_r7_nonvacuous_tokens : toks (concat (snd (run (init (2 ^ 64 - 2) 10 2000000) r7_tok_script))) = [[255; 255; 255; 255; 255; 255; 255; 255]; []; [1]].
Proof. vm_compute. reflexivity. Qed.
