(* C19 — the file server never touches anything outside its root directory.
   Only statements here; every proof is [exact <lemma of Proofs/C19*.v>]. *)
From Verif Require Import Lib.Py Lib.Tactics Model.C19Path Gen.fileserver Model.C19 Proofs.C19Path Proofs.C19 Proofs.C19R6.
From Coq Require String.
Import String.StringSyntax.
Open Scope Z_scope.

(* ================= 1. the translated request_to_localpath (Gen/fileserver.v, regenerated from source on every run),
   for EVERY Uri-Path component list over arbitrary code points: an accepted request designates root's parts followed by
   the non-empty components, lexically under the root (posixpath.join / PurePosixPath semantics of Model/C19Path.v) *)
Theorem C19_request_to_localpath_confined : forall self req p, root_ok (fs_root self) ->
  request_to_localpath self req = Ok p ->
  load_parts p = {| anchor := anchor (load_parts (fs_root self));
                    parts := parts (load_parts (fs_root self)) ++ filter nonempty (opt_uri_path req) |}
  /\ under (load_parts (fs_root self)) (load_parts p) = true.
Proof. exact request_to_localpath_confined. Qed.
Print Assumptions C19_request_to_localpath_confined.
(* root_ok covers absolute roots ("/srv/root") and relative ones (".", "sub", "./sub/" — the CLI default is "."): under a
   relative root every accepted request stays a relative path (anchor 0: no absolute replacement) made of the root's parts
   followed by non-empty, non-".." components — a location at or below the root directory whatever the working directory is *)
Theorem C19_relative_root_stays_relative : forall self req p, fs_root self <> [] -> root_rel (fs_root self) ->
  request_to_localpath self req = Ok p ->
  anchor (load_parts p) = 0
  /\ exists rest, parts (load_parts p) = parts (load_parts (fs_root self)) ++ rest /\ ~ In DOTDOT rest /\ ~ In [] rest.
Proof.
  intros self req p Hne Hrel H.
  destruct (request_to_localpath_confined self req p (conj Hne (or_intror Hrel)) H) as [Hp Hu].
  split; [rewrite Hp; cbn [anchor]; exact (proj2 (root_anchor _ Hne) Hrel)|].
  destruct (under_inv _ _ Hu) as [_ [rest [Hr Hd]]]. exists rest. split; [exact Hr|]. split; [exact Hd|].
  rewrite Hp in Hr. cbn [parts] in Hr. apply app_inv_head in Hr. subst rest. intros Hin. apply filter_In in Hin as [_ Hin]. discriminate.
Qed.
Print Assumptions C19_relative_root_stays_relative.

(* the only exception it raises is InvalidPathError (4.00); it raises it for every component with a slash, "." or "..",
   and accepts everything else (NUL, look-alikes, leading/trailing/inner empty components ...) *)
Theorem C19_request_to_localpath_total : forall self req,
  (exists p, request_to_localpath self req = Ok p) \/ request_to_localpath self req = Raise InvalidPathError.
Proof. exact request_to_localpath_total. Qed.
Print Assumptions C19_request_to_localpath_total.
Theorem C19_request_to_localpath_rejects : forall self req p, In p (opt_uri_path req) ->
  (~ noslash p \/ p = DOT \/ p = DOTDOT) -> request_to_localpath self req = Raise InvalidPathError.
Proof. exact request_to_localpath_rejects. Qed.
Print Assumptions C19_request_to_localpath_rejects.
Theorem C19_request_to_localpath_accepts : forall self req, Forall comp_ok (opt_uri_path req) ->
  request_to_localpath self req = Ok (joinpath (fs_root self) (opt_uri_path req)).
Proof. exact request_to_localpath_accepts. Qed.
Print Assumptions C19_request_to_localpath_accepts.

(* what "under" means: same anchor, root's parts are a prefix, no ".." after them *)
Theorem C19_under_is_prefix : forall root p, under root p = true ->
  anchor p = anchor root /\ exists rest, parts p = parts root ++ rest /\ ~ In DOTDOT rest.
Proof. exact under_inv. Qed.
Print Assumptions C19_under_is_prefix.

(* ================= 2. confinement of the whole server: for every server configuration with an absolute or relative root,
   every file-system state, every request (any method, any options incl. Block1 sequences, any payload): every effect (stat,
   open, listdir, temp-file creation, rename, unlink) is on a path under the root — or, for the temporary file under a relative
   root, under the absolutised root (working directory ++ root: tempfile applies os.path.abspath) — and no entry outside
   the root changes *)
Theorem C19_conf_meaning : forall root aroot e, conf root aroot e ->
  match e with
  | ERename a b => okp root aroot a /\ okp root aroot b
  | EStat p | EOpenRead p | EListDir p | EOpenDirW p | ECreate p | EUnlink p => under root p = true \/ under aroot p = true
  end.
Proof. intros root aroot e H. destruct e; exact H. Qed.
Print Assumptions C19_conf_meaning.
Theorem C19_confined : forall self, root_ok (fs_root self) -> fs_tmpname self <> DOTDOT -> forall req st,
  match serve self req st with
  | (st', effs, _) => Forall (conf (load_parts (fs_root self)) (abspath self (load_parts (fs_root self)))) effs
                      /\ Iframe (load_parts (fs_root self)) st st'       (* = frame on the file system /\ observed paths stay under the root *)
  end.
Proof. exact serve_confined. Qed.
Print Assumptions C19_confined.

Theorem C19_frame_meaning : forall root s s', Iframe root s s' ->
  (forall k, ~ below (parts root) k -> lookup (st_fs s') k = lookup (st_fs s) k) /\ (obs_under root s -> obs_under root s').
Proof. intros root s s' H. exact H. Qed.
Print Assumptions C19_frame_meaning.

(* ... and over every history of requests, block-wise fetch loops, requests served while the disk is full (IOneFull) and
   rounds of the 10-second refresher check_files_for_refreshes (ITick: one stat per observed path, then any set of
   re-rendered requests), from every state whose observed paths are under the root — in particular the initial state *)
Theorem C19_confined_histories : forall self items st, root_ok (fs_root self) -> fs_tmpname self <> DOTDOT ->
  obs_under (load_parts (fs_root self)) st ->
  match run self st items with
  | (st', outs) => Forall (fun o => Forall (conf (load_parts (fs_root self)) (abspath self (load_parts (fs_root self)))) (all_effects o)) outs
                   /\ frame (parts (load_parts (fs_root self))) (st_fs st) (st_fs st')
                   /\ obs_under (load_parts (fs_root self)) st'
  end.
Proof. intros self items st H1 H2 H3. exact (run_confined self H1 H2 items st H3). Qed.
Print Assumptions C19_confined_histories.

(* a request that would lead anywhere else — some Uri-Path component is "..", "." or contains a slash — is ANSWERED WITH AN
   ERROR (code >= 4.00) whatever the method, the other options, the payload and the state, without a single file-system
   call (not even a stat below the root) and without effect.  (A non-final Block1 block is answered 2.31 Continue by the
   spool, which does not look at the path; the block that completes the body gets the error.) *)
Theorem C19_escaping_request_answered_with_error : forall self req st p, In p (opt_uri_path req) ->
  (~ noslash p \/ p = DOT \/ p = DOTDOT) ->
  (forall n m s, opt_block1 req = Some (n, m, s) -> m = false) ->
  match serve self req st with (st', effs, r) => 128 <= rcode r /\ effs = [] /\ st_fs st' = st_fs st end.
Proof. exact escaping_request_error. Qed.
Print Assumptions C19_escaping_request_answered_with_error.

(* ================= 3. without write permission — and for every method other than PUT and DELETE — no request modifies
   the file system, and only reading calls are made *)
Theorem C19_readonly_without_write : forall self req st, fs_write self = false \/ (code req <> 3 /\ code req <> 4) ->
  match serve self req st with (st', effs, _) => st_fs st' = st_fs st /\ Forall reading effs end.
Proof. exact serve_readonly. Qed.
Print Assumptions C19_readonly_without_write.

(* ================= 4. a request answered with an error (4.xx, 5.xx — in particular 4.00 for every rejected path) has no
   effect: every file-system entry is as before.  The temporary file of a failed PUT is removed again, whether the rename
   fails or writing the body fails (full disk: fs_disk_full may be true — since commit bc47b66 the write sits inside the
   try block whose except clause unlinks; before, this theorem needed fs_disk_full = false and was refuted without it) *)
Theorem C19_error_has_no_effect : forall self, root_ok (fs_root self) -> forall req st, tmp_fresh self req (st_fs st) ->
  match serve self req st with (st', _, r) => 128 <= rcode r -> fs_equiv (st_fs st') (st_fs st) end.
Proof. exact serve_error_no_effect. Qed.
Print Assumptions C19_error_has_no_effect.

(* ================= 5. a file fetched block by block, with any block size exponent, is byte-identical to its content *)
Theorem C19_blockwise_read_exact : forall self req p c szx fuel st,
  code req = 1 -> opt_observe req = None -> existsb is_cur (opt_etags req) = false -> parts_eqb (opt_uri_path req) WKC = false ->
  needs_blockwise_assembly req = false ->
  request_to_localpath self req = Ok p -> fs_stat (st_fs st) (load_parts p) = inr (NFile c) ->
  0 <= szx -> (length c <= fuel)%nat ->
  match fetch_all fuel self req szx 0 st with
  | (st', outs) => concat (map (fun o => payload_of (snd o)) outs) = c
                   /\ Forall (fun o => rcode (snd o) = 69) outs /\ st_fs st' = st_fs st
  end.
Proof.
  intros self req p c szx fuel st H1 H2 H3 H4 H5 H6 H7 H8 H9.
  exact (fetch_all_exact self req p c H1 H2 H3 H4 H5 H6 szx H8 fuel 0 st (Z.le_refl 0) H7 H9).
Qed.
Print Assumptions C19_blockwise_read_exact.
(* each single block is the corresponding slice, with the M bit set exactly when more bytes follow *)
Theorem C19_block_is_slice : forall c n szx, 0 <= szx ->
  block_payload c n szx = bto (bfrom c (blk_start n szx)) (blk_size szx)
  /\ block_more c n szx = (blen (bfrom c (blk_start n szx)) >? blk_size szx).
Proof. intros c n szx H. split; [exact (block_payload_spec c n szx H)|exact (block_more_spec c n szx H)]. Qed.
Print Assumptions C19_block_is_slice.

(* history level (round 6): ANY sequence of GETs for the same file whose requested blocks tile it — first request without
   a Block2 option (what aiocoap's own client sends; answered with block 0 of 1024 bytes), size exponent changing from
   request to request, M flag of the request arbitrary — reassembles exactly the file, over the model's run function *)
Theorem C19_blockwise_read_tiling : forall self req p c bs st,
  code req = 1 -> opt_observe req = None -> existsb is_cur (opt_etags req) = false -> needs_blockwise_assembly req = false ->
  request_to_localpath self req = Ok p -> fs_stat (st_fs st) (load_parts p) = inr (NFile c) ->
  tiling c (map blk_of bs) -> blk_start (fst (hd (0, 0) (map blk_of bs))) (snd (hd (0, 0) (map blk_of bs))) = 0 ->
  match run self st (map (fun b => IOne (with_block2 req b)) bs) with
  | (st', outs) => payloads outs = c /\ all_content outs /\ st_fs st' = st_fs st
  end.
Proof.
  intros self req p c bs st H1 H2 H3 H4 H5 H6 H7 H8.
  pose proof (run_tiling self req p c H1 H2 H3 H4 H5 bs H7 st H6) as H. rewrite H8 in H. exact H.
Qed.
Print Assumptions C19_blockwise_read_tiling.
(* one request, any Block2 option value or none: the answer is exactly the designated block *)
Theorem C19_any_block2_option : forall self req p c b st,
  code req = 1 -> opt_observe req = None -> existsb is_cur (opt_etags req) = false -> needs_blockwise_assembly req = false ->
  request_to_localpath self req = Ok p -> fs_stat (st_fs st) (load_parts p) = inr (NFile c) ->
  exists st1 effs, serve self (with_block2 req b) st = (st1, effs, block_response self req c (fst (blk_of b)) (snd (blk_of b)))
                   /\ st_fs st1 = st_fs st.
Proof. intros self req p c b st H1 H2 H3 H4 H5 H6. exact (serve_block_any self req p c H1 H2 H3 H4 H5 b st H6). Qed.
Print Assumptions C19_any_block2_option.

(* ================= 6. Block1 in front of PUT (needs_blockwise_assembly -> Block1Spool.feed_and_take): the spool has no
   file-system effect at all; the last block releases the request with the body assembled from all blocks (that is what
   render_put writes); a block that does not continue the body is answered with an error and changes nothing.  Theorems 2-4
   above quantify over these requests too (serve includes the spool). *)
Theorem C19_block1_spool_has_no_effect : forall req st,
  match feed_and_take req st with
  | ((st', effs), r) => st_fs st' = st_fs st /\ effs = [] /\
      match r with inr req' => opt_uri_path req' = opt_uri_path req /\ code req' = code req | inl _ => True end
  end.
Proof. exact feed_and_take_spec. Qed.
Print Assumptions C19_block1_spool_has_no_effect.
Theorem C19_block1_last_block_assembles : forall req st num szx acc,
  opt_block1 req = Some (num, false, szx) -> num <> 0 ->
  spool_find (st_spool st) (block_key req) = Some acc -> blk_start num szx = blen acc ->
  block1_invalid false szx (payload req) = false ->
  exists st', feed_and_take req st = ((st', []), inr (with_payload req (acc ++ payload req))) /\ st_fs st' = st_fs st
              /\ st_spool st' = spool_remove (st_spool st) (block_key req).      (* the completed body leaves the spool *)
Proof. exact feed_last. Qed.
Print Assumptions C19_block1_last_block_assembles.
Theorem C19_block1_gap_rejected : forall req st num more szx acc,
  opt_block1 req = Some (num, more, szx) -> num <> 0 ->
  spool_find (st_spool st) (block_key req) = Some acc -> blk_start num szx <> blen acc ->
  exists e, feed_and_take req st = ((st, []), inl e) /\ (e = XIncomplete \/ e = XBadRequest).
Proof. exact feed_gap. Qed.
Print Assumptions C19_block1_gap_rejected.
(* a block whose payload does not fit its block size (not full with M set; larger than the block size when final) is 4.00 *)
Theorem C19_block1_bad_size_rejected : forall req st num more szx acc,
  opt_block1 req = Some (num, more, szx) -> num <> 0 -> spool_find (st_spool st) (block_key req) = Some acc ->
  block1_invalid more szx (payload req) = true -> feed_and_take req st = ((st, []), inl XBadRequest).
Proof. exact feed_oversize. Qed.
Print Assumptions C19_block1_bad_size_rejected.

(* ================= 7. (round 6) from the initial state, and internal errors *)
(* C19_confined_histories without its state hypothesis: a freshly started server (no observation yet) *)
Theorem C19_confined_from_start : forall self items fs, root_ok (fs_root self) -> fs_tmpname self <> DOTDOT ->
  match run self {| st_fs := fs; st_obs := []; st_spool := [] |} items with
  | (st', outs) => Forall (fun o => Forall (conf (load_parts (fs_root self)) (abspath self (load_parts (fs_root self)))) (all_effects o)) outs
                   /\ frame (parts (load_parts (fs_root self))) fs (st_fs st')
                   /\ obs_under (load_parts (fs_root self)) st'
  end.
Proof. intros self items fs H1 H2. apply (run_confined self H1 H2 items). constructor. Qed.
Print Assumptions C19_confined_from_start.
(* the model's internal error output XValueError (Path.relative_to failing in render_get_dir, which would be a 5.00) is
   unreachable: for every request and every state *)
Theorem C19_no_internal_value_error : forall self, root_ok (fs_root self) -> forall req st,
  snd (render_to_pipe self req st) <> inl XValueError.
Proof. exact render_to_pipe_no_value_error. Qed.
Print Assumptions C19_no_internal_value_error.

(* ================= non-vacuity and witnesses *)
Definition ex_root : list (list Z) := [S "/srv/root"].
Definition ex_self : fileserver := {| fs_root := ex_root; fs_write := true; fs_etag_enabled := true; fs_tmpname := S "tmpabcd1234"; fs_cwd := [S "home"; S "u"]; fs_disk_full := false |}.
Definition ex_rel (root : list Z) : fileserver := {| fs_root := [root]; fs_write := true; fs_etag_enabled := true; fs_tmpname := S "tmpabcd1234"; fs_cwd := [S "home"; S "u"]; fs_disk_full := false |}.
Definition ex_req (m : Z) (path : list (list Z)) : request :=
  {| code := m; opt_uri_path := path; opt_observe := None; opt_etags := []; opt_if_match := []; opt_if_none_match := false; opt_block1 := None; opt_block2 := None; payload := [1; 2; 3] |}.
Definition ex_blk (path : list (list Z)) (b1 : Z * bool * Z) (body : list Z) : request :=
  {| code := 3; opt_uri_path := path; opt_observe := None; opt_etags := []; opt_if_match := []; opt_if_none_match := false; opt_block1 := Some b1; opt_block2 := None; payload := body |}.
Definition ex_fs : fsys :=
  [([S "srv"], NDir); ([S "srv"; S "root"], NDir); ([S "srv"; S "root"; S "f"], NFile (pattern 40 1));
   ([S "srv"; S "secret"], NFile [7; 7; 7]); ([S "etc"], NDir); ([S "etc"; S "passwd"], NFile [9])].
Definition ex_st : state := {| st_fs := ex_fs; st_obs := []; st_spool := [] |}.

Example C19_root_ok_nonvacuous : root_ok ex_root /\ fs_tmpname ex_self <> DOTDOT.
Proof. split; [|discriminate]. split; [discriminate|]. left. exists 115, (S "rv/root"). split; [reflexivity|discriminate]. Qed.
Example C19_relative_roots_ok : root_ok [S "."] /\ root_ok [S "sub"] /\ root_ok [S "./sub/"] /\ root_ok [[]].
Proof. repeat split; try discriminate; right; reflexivity. Qed.
(* under the CLI's default root "." the hostile leading-empty request designates ./etc/passwd, and a PUT works on relative
   paths except for tempfile's absolutised temporary name *)
Example C19_relative_root_nonvacuous :
  match request_to_localpath (ex_rel (S ".")) (ex_req 1 [[]; S "etc"; S "passwd"]) with
  | Ok p => load_parts p = {| anchor := 0; parts := [S "etc"; S "passwd"] |} | Raise _ => False end
  /\ match request_to_localpath (ex_rel (S "./sub/")) (ex_req 1 [S "a"; []; S "b"]) with
     | Ok p => load_parts p = {| anchor := 0; parts := [S "sub"; S "a"; S "b"] |} | Raise _ => False end
  /\ (let '(st', effs, r) := serve (ex_rel (S ".")) (ex_req 3 [S "new"]) {| st_fs := [([S "f"], NFile [1])]; st_obs := []; st_spool := [] |} in
      rcode r = 68 /\ effs = [EOpenDirW {| anchor := 0; parts := [] |};
                              ECreate {| anchor := 1; parts := [S "home"; S "u"; S "tmpabcd1234"] |};
                              ERename {| anchor := 1; parts := [S "home"; S "u"; S "tmpabcd1234"] |} {| anchor := 0; parts := [S "new"] |};
                              EStat {| anchor := 0; parts := [S "new"] |}]
      /\ lookup (st_fs st') [S "new"] = Some (NFile [1; 2; 3])).
Proof. vm_compute. repeat split. Qed.
(* Block1: three blocks are assembled and written as one file; a block for an unknown (or already completed) body is
   answered 4.08, a block of the wrong size 4.00, and nothing is written; 2.31 responses have no effect *)
Example C19_block1_nonvacuous :
  let '(st', outs) := run ex_self ex_st [IOne (ex_blk [S "b"] (0, true, 0) (pattern 16 1)); IOne (ex_blk [S "b"] (1, true, 0) (pattern 16 2));
                                        IOne (ex_blk [S "b"] (2, false, 0) [5; 6]); IOne (ex_blk [S "c"] (1, false, 0) [5; 6]);
                                        IOne (ex_blk [S "b"] (1, true, 0) [5; 6]);                 (* the completed body has left the spool *)
                                        IOne (ex_blk [S "d"] (0, true, 0) (pattern 16 1)); IOne (ex_blk [S "d"] (1, true, 0) [5; 6]);   (* short non-final block *)
                                        IOne (ex_blk [S "d"] (1, false, 0) (pattern 17 3))] in                                     (* oversize final block *)
  map (map (fun o => (rcode (snd o), length (fst o)))) outs
    = [[(95, 0%nat)]; [(95, 0%nat)]; [(68, 4%nat)]; [(136, 0%nat)]; [(136, 0%nat)]; [(95, 0%nat)]; [(128, 0%nat)]; [(128, 0%nat)]]
  /\ lookup (st_fs st') [S "srv"; S "root"; S "b"] = Some (NFile (pattern 16 1 ++ pattern 16 2 ++ [5; 6]))
  /\ lookup (st_fs st') [S "srv"; S "root"; S "c"] = None.
Proof. vm_compute. repeat split. Qed.

(* the leading-empty-component request (finding F8) is now served below the root ... *)
Example C19_leading_empty_is_confined :
  match request_to_localpath ex_self (ex_req 1 [[]; S "etc"; S "passwd"]) with
  | Ok p => load_parts p = {| anchor := 1; parts := [S "srv"; S "root"; S "etc"; S "passwd"] |}
  | Raise _ => False
  end.
Proof. vm_compute. reflexivity. Qed.
(* ... whereas the code before commit 2f695ec (root / "/".join(path)) is REFUTED by the same input: with the real join
   semantics (an absolute argument replaces the root) it designates /etc/passwd, which is not under the root, and GET
   serves it *)
Example C19_F8_old_code_refuted :
  match request_to_localpath_F8 ex_self (ex_req 1 [[]; S "etc"; S "passwd"]) with
  | Ok p => load_parts p = {| anchor := 1; parts := [S "etc"; S "passwd"] |} /\ under (load_parts ex_root) (load_parts p) = false
  | Raise _ => False
  end.
Proof. vm_compute. split; reflexivity. Qed.
(* join semantics used by the theorems: absolute segments replace, "//" is kept as its own root, "." is dropped, ".." stays *)
Example C19_join_semantics :
  load_parts (joinpath ex_root [S "a"; S "/etc/passwd"]) = {| anchor := 1; parts := [S "etc"; S "passwd"] |} /\
  load_parts (joinpath ex_root [S "a/./b//c/"; []; S ".."]) = {| anchor := 1; parts := [S "srv"; S "root"; S "a"; S "b"; S "c"; S ".."] |} /\
  load_parts [S "//x"] = {| anchor := 2; parts := [S "x"] |} /\ load_parts [S "///x"] = {| anchor := 1; parts := [S "x"] |}.
Proof. vm_compute. repeat split. Qed.

(* a PUT that succeeds, then a block-wise fetch of the new file, a DELETE, and a PUT onto a directory that fails after
   the temporary file was created (and leaves nothing behind) *)
Example C19_history_nonvacuous :
  let '(st', outs) := run ex_self ex_st [IOne (ex_req 3 [S "new"]); IAll (ex_req 1 [S "f"]) 0; IOne (ex_req 4 [S "new"]); IOne (ex_req 3 [[]; S "srv"])] in
  map (map (fun o => rcode (snd o))) outs = [[68]; [69; 69; 69]; [66]; [68]]
  /\ concat (map (fun o => payload_of (snd o)) (nth 1 outs [])) = pattern 40 1
  /\ map (fun o => length (fst o)) (nth 0 outs []) = [4%nat].
Proof. vm_compute. repeat split. Qed.
Example C19_failed_put_leaves_nothing :
  let '(st', effs, r) := serve ex_self (ex_req 3 [S "f"; S "x"]) ex_st in
  rcode r = 160 /\ st_fs st' = ex_fs /\ effs = [EOpenDirW {| anchor := 1; parts := [S "srv"; S "root"; S "f"] |};
                                               ECreate {| anchor := 1; parts := [S "srv"; S "root"; S "f"; S "tmpabcd1234"] |}].
Proof. vm_compute. repeat split. Qed.
Example C19_tmp_fresh_nonvacuous : tmp_fresh ex_self (ex_req 3 [S "new"]) ex_fs.
Proof. intros p H. vm_compute in H. injection H as <-. vm_compute. reflexivity. Qed.

(* round 5 *)
(* a PUT on a full disk: 5.00, the temporary file is created and removed again, the file system is as before *)
Example C19_failed_write_leaves_nothing :
  let '(st', effs, r) := serve (with_full ex_self) (ex_req 3 [S "new"]) ex_st in
  rcode r = 160 /\ st_fs st' = ex_fs
  /\ effs = [EOpenDirW {| anchor := 1; parts := [S "srv"; S "root"] |}; ECreate {| anchor := 1; parts := [S "srv"; S "root"; S "tmpabcd1234"] |};
             EUnlink {| anchor := 1; parts := [S "srv"; S "root"; S "tmpabcd1234"] |}].
Proof. vm_compute. repeat split. Qed.
(* escaping requests: every method, with and without write permission, Observe:0, a completing Block1 block *)
Example C19_escaping_nonvacuous :
  map (fun r => let '(st', effs, resp) := serve ex_self r ex_st in (rcode resp, effs))
      [ex_req 1 [S ".."; S "secret"]; ex_req 3 [S "a/b"]; ex_req 4 [S "."]; ex_req 2 [S ".."]; ex_blk [S ".."; S "x"] (0, false, 0) [1]]
  = [(128, []); (128, []); (128, []); (133, []); (128, [])].
Proof. vm_compute. reflexivity. Qed.
(* the refresher: after an Observe:0 GET of a file, a tick stats that file (and only that) *)
Example C19_tick_nonvacuous :
  let obsreq := {| code := 1; opt_uri_path := [S "f"]; opt_observe := Some 0; opt_etags := []; opt_if_match := []; opt_if_none_match := false;
                   opt_block1 := None; opt_block2 := None; payload := [] |} in
  let '(st', outs) := run ex_self ex_st [IOne obsreq; ITick []; IOne (ex_req 4 [S "f"]); ITick [obsreq]] in
  map (map (fun o => (rcode (snd o), length (fst o)))) outs = [[(69, 3%nat)]; [(0, 1%nat)]; [(66, 1%nat)]; [(0, 2%nat)]]
  /\ obs_under (load_parts ex_root) st'.
Proof. vm_compute. split; [reflexivity|repeat constructor]. Qed.

(* round 6: aiocoap's own client (no Block2 in the first request, then blocks 1, 2 of exponent 6) and a fetch whose size
   exponent changes from block to block (32 + 16 + 16 + 64-byte blocks over 100 bytes) *)
Example C19_tiling_nonvacuous :
  let big := [([S "srv"], NDir); ([S "srv"; S "root"], NDir); ([S "srv"; S "root"; S "f"], NFile (pattern 2049 1)); ([S "srv"; S "root"; S "g"], NFile (pattern 100 2))] in
  let st := {| st_fs := big; st_obs := []; st_spool := [] |} in
  tiling (pattern 2049 1) (map blk_of [None; Some (1, false, 6); Some (2, true, 6)])
  /\ tiling (pattern 100 2) (map blk_of [Some (0, false, 1); Some (2, false, 0); Some (3, true, 0); Some (1, false, 2)])
  /\ payloads (snd (run ex_self st (map (fun b => IOne (with_block2 (ex_req 1 [S "f"]) b)) [None; Some (1, false, 6); Some (2, true, 6)]))) = pattern 2049 1
  /\ payloads (snd (run ex_self st (map (fun b => IOne (with_block2 (ex_req 1 [S "g"]) b)) [Some (0, false, 1); Some (2, false, 0); Some (3, true, 0); Some (1, false, 2)]))) = pattern 100 2.
Proof.
  split; [|split; [|split; vm_compute; reflexivity]].
  - cbn [map blk_of]. apply tile_more; try lia; [vm_compute; reflexivity|vm_compute; reflexivity|].
    apply tile_more; try lia; [vm_compute; reflexivity|vm_compute; reflexivity|]. apply tile_last; try lia. vm_compute. reflexivity.
  - cbn [map blk_of]. apply tile_more; try lia; [vm_compute; reflexivity|vm_compute; reflexivity|].
    apply tile_more; try lia; [vm_compute; reflexivity|vm_compute; reflexivity|].
    apply tile_more; try lia; [vm_compute; reflexivity|vm_compute; reflexivity|]. apply tile_last; try lia. vm_compute. reflexivity.
Qed.

(* ---- round 7 *)
(* the tiling induction for a client loop that is driven only by the server's answers (M flag, bytes received):
   request count of the model's own loop (constant size exponent), and a loop whose k-th request has its own exponent *)
From Verif Require Import Proofs.C19R7.

(* ceil_blocks len size = ceil(len/size), 1 for the empty file *)
Theorem C19_ceil_blocks_meaning : forall L s, 0 < s -> 0 <= L ->
  (L = 0 -> ceil_blocks L s = 1) /\ (0 < L -> (ceil_blocks L s - 1) * s < L <= ceil_blocks L s * s).
Proof. exact ceil_blocks_meaning. Qed.
Print Assumptions C19_ceil_blocks_meaning.
(* fetching blocks 0,1,2,... with a constant size exponent until M is clear takes exactly ceil(len/size) requests *)
Theorem C19_blockwise_request_count : forall self req p c szx fuel st,
  code req = 1 -> opt_observe req = None -> existsb is_cur (opt_etags req) = false -> needs_blockwise_assembly req = false ->
  request_to_localpath self req = Ok p -> fs_stat (st_fs st) (load_parts p) = inr (NFile c) ->
  0 <= szx -> (List.length c <= fuel)%nat ->
  Z.of_nat (List.length (snd (fetch_all fuel self req szx 0 st))) = ceil_blocks (blen c) (blk_size szx).
Proof. exact fetch_all_request_count. Qed.
Print Assumptions C19_blockwise_request_count.
(* every request with its own size exponent (any non-increasing sequence pol; block number = bytes received so far / size,
   as aiocoap's client computes it): the payloads concatenate to exactly the file, all 2.05, file system unchanged, and
   at most 1 + len/16 requests are sent *)
Theorem C19_blockwise_read_varying_szx : forall self req p c pol fuel st,
  code req = 1 -> opt_observe req = None -> existsb is_cur (opt_etags req) = false -> needs_blockwise_assembly req = false ->
  request_to_localpath self req = Ok p -> fs_stat (st_fs st) (load_parts p) = inr (NFile c) ->
  (forall k, 0 <= pol k) -> (forall k, pol (Datatypes.S k) <= pol k) -> (List.length c <= fuel)%nat ->
  match fetch_var self req fuel pol 0%nat 0 st with
  | (st', outs) => concat (map (fun o => payload_of (snd o)) outs) = c
                   /\ Forall (fun o => rcode (snd o) = 69) outs /\ st_fs st' = st_fs st
                   /\ (List.length outs <= Datatypes.S (List.length c / 16))%nat
  end.
Proof. exact fetch_var_whole_file. Qed.
Print Assumptions C19_blockwise_read_varying_szx.
(* the same loop with a constant exponent: exactly ceil(len/size) requests *)
Theorem C19_blockwise_request_count_own_szx : forall self req p c pol szx fuel st,
  code req = 1 -> opt_observe req = None -> existsb is_cur (opt_etags req) = false -> needs_blockwise_assembly req = false ->
  request_to_localpath self req = Ok p -> fs_stat (st_fs st) (load_parts p) = inr (NFile c) ->
  0 <= szx -> (forall k, pol k = szx) -> (List.length c <= fuel)%nat ->
  Z.of_nat (List.length (snd (fetch_var self req fuel pol 0%nat 0 st))) = ceil_blocks (blen c) (blk_size szx).
Proof. exact fetch_var_request_count_const. Qed.
Print Assumptions C19_blockwise_request_count_own_szx.

Definition ex7_fs : fsys :=
  [([S "srv"], NDir); ([S "srv"; S "root"], NDir); ([S "srv"; S "root"; S "f"], NFile (pattern 2049 1));
   ([S "srv"; S "root"; S "g"], NFile (pattern 100 2)); ([S "srv"; S "root"; S "e"], NFile [])].
Definition ex7_st : state := {| st_fs := ex7_fs; st_obs := []; st_spool := [] |}.
Definition ex7_pol (k : nat) : Z := Z.max 0 (2 - Z.of_nat k).      (* 64, 32, 16, 16, ... bytes *)
Example C19_ceil_blocks_nonvacuous :
  ceil_blocks 0 16 = 1 /\ ceil_blocks 1 16 = 1 /\ ceil_blocks 16 16 = 1 /\ ceil_blocks 17 16 = 2 /\ ceil_blocks 2049 1024 = 3.
Proof. vm_compute. repeat split; reflexivity. Qed.
(* the hypotheses of the three theorems hold for these requests, and the conclusions are what the model computes *)
Example C19_request_count_nonvacuous :
  (exists p, request_to_localpath ex_self (ex_req 1 [S "f"]) = Ok p /\ fs_stat ex7_fs (load_parts p) = inr (NFile (pattern 2049 1)))
  /\ needs_blockwise_assembly (ex_req 1 [S "f"]) = false
  /\ List.length (snd (fetch_all 4096 ex_self (ex_req 1 [S "f"]) 6 0 ex7_st)) = 3%nat
  /\ List.length (snd (fetch_all 4096 ex_self (ex_req 1 [S "g"]) 0 0 ex7_st)) = 7%nat
  /\ List.length (snd (fetch_all 4096 ex_self (ex_req 1 [S "g"]) 2 0 ex7_st)) = 2%nat
  /\ List.length (snd (fetch_all 4096 ex_self (ex_req 1 [S "e"]) 3 0 ex7_st)) = 1%nat
  /\ ceil_blocks 2049 (blk_size 6) = 3 /\ ceil_blocks 100 (blk_size 0) = 7 /\ ceil_blocks 100 (blk_size 2) = 2 /\ ceil_blocks 0 (blk_size 3) = 1.
Proof. split; [eexists; split; vm_compute; reflexivity|]. vm_compute. repeat split; reflexivity. Qed.
Example C19_varying_szx_nonvacuous :
  (forall k, 0 <= ex7_pol k) /\ (forall k, ex7_pol (Datatypes.S k) <= ex7_pol k)
  /\ (let '(st', outs) := fetch_var ex_self (ex_req 1 [S "g"]) 4096 ex7_pol 0%nat 0 ex7_st in
      map (fun o => blen (payload_of (snd o))) outs = [64; 32; 4]
      /\ map (fun o => match rbody (snd o) with BFile _ b => b | _ => None end) outs = [Some (0, true, 2); Some (2, true, 1); Some (6, false, 0)]
      /\ concat (map (fun o => payload_of (snd o)) outs) = pattern 100 2 /\ st_fs st' = ex7_fs)
  /\ List.length (snd (fetch_var ex_self (ex_req 1 [S "f"]) 4096 (fun _ => 7) 0%nat 0 ex7_st)) = 3%nat
  /\ List.length (snd (fetch_var ex_self (ex_req 1 [S "e"]) 4096 ex7_pol 0%nat 0 ex7_st)) = 1%nat.
Proof. split; [intros k; unfold ex7_pol; lia|]. split; [intros k; unfold ex7_pol; lia|]. vm_compute. repeat split; reflexivity. Qed.
