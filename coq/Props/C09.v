(* C09 — every request that reaches a server context gets exactly one final response reflecting the handler outcome.
   Only statements here; every proof is [exact <lemma of Proofs/C09.v / Proofs/C09Stack.v>].
   Standing hypothesis, carried by the types: a response Message has a [bytes] payload (it serialises). A [str] payload is
   the open finding C09:unencodable-response (known_findings.d/C09.json), exercised by an oracle-only stream of the check. *)
From Coq Require Import String Ascii.
From Verif Require Import Lib.Py Lib.Tactics Model.C09 Model.C09Stack Proofs.C09 Proofs.C09Stack Proofs.C09Wire Proofs.C09R6.
Open Scope Z_scope.

(* ================================================================ 1. the decision table of final responses *)
(* a context without a site answers 4.04 *)
Theorem C09_no_site_404 : forall r, final_message None r = Some (mk_msg NOT_FOUND (ascii_bytes "not a server")).
Proof. exact no_site_404. Qed.
Print Assumptions C09_no_site_404.
(* unknown paths give 4.04 *)
Theorem C09_unknown_path_404 : forall s r, find_resource s (r_path r) = None ->
  final_message (Some s) r = Some (mk_msg NOT_FOUND []).
Proof. exact unknown_path_404. Qed.
Print Assumptions C09_unknown_path_404.
(* unimplemented methods give 4.05 *)
Theorem C09_no_method_405 : forall s r methods, find_resource s (r_path r) = Some (Plain methods) ->
  existsb (Z.eqb (r_code r)) methods = false ->
  final_message (Some s) r = Some (mk_msg METHOD_NOT_ALLOWED
     (if is_request (r_code r) then ascii_bytes "Error: Method not allowed!" else ascii_bytes "Error: Method not recognized!")).
Proof. exact no_method_405. Qed.
Print Assumptions C09_no_method_405.
(* a returned message is sent with the default success code for the method filled in if it had none
   (2.05 for GET/FETCH, 2.02 for DELETE, 2.04 otherwise), payload and options untouched *)
Theorem C09_returned_message : forall s r methods m, handled s r methods -> r_outcome r = Return (VMsg m) ->
  is_response (final_code r m) = true ->
  final_message (Some s) r = Some (fill_defaults r m).
Proof. exact returned_message. Qed.
Print Assumptions C09_returned_message.
(* the hypothesis is void when the handler set no code: every default code is a response code *)
Theorem C09_default_code_is_response : forall c, is_response (default_code c) = true.
Proof. exact default_code_is_response. Qed.
Print Assumptions C09_default_code_is_response.
(* ... and a returned message whose code is not a response code (EMPTY, a request code, 6.xx / 7.xx) is treated like any
   other wrong return value: bare 5.00 (Resource.render raises since a9de195; before, the bogus message was sent as a
   message of our own and the request stayed unanswered — former finding C09:non-response-code-sent) *)
Theorem C09_returned_non_response_code : forall s r methods m, handled s r methods -> r_outcome r = Return (VMsg m) ->
  is_response (final_code r m) = false ->
  final_message (Some s) r = Some bare_500.
Proof. exact returned_non_response_code. Qed.
Print Assumptions C09_returned_non_response_code.
Theorem C09_fill_defaults_spec : forall r m,
  m_code (fill_defaults r m) = Some (match m_code m with Some c => c | None => default_code (r_code r) end) /\
  m_payload (fill_defaults r m) = m_payload m /\ m_cf (fill_defaults r m) = m_cf m /\
  m_nr (fill_defaults r m) = match m_nr m with Some n => Some n | None => r_nr r end /\ m_obs (fill_defaults r m) = m_obs m.
Proof. exact fill_defaults_spec. Qed.
Print Assumptions C09_fill_defaults_spec.
Theorem C09_default_code_table : forall c,
  default_code c = (if (c =? 1) || (c =? 5) then 69 else if c =? 4 then 66 else 68).
Proof. exact default_code_table. Qed.
Print Assumptions C09_default_code_table.
(* a raised renderable error is sent with its own code and diagnostic payload *)
Theorem C09_renderable_error : forall s r methods c t, handled s r methods -> r_outcome r = Raise_ (cre c t) ->
  c <> E_NoRequestInterface ->
  final_message (Some s) r =
    Some (match t with
          | CDefault => mk_msg (cre_code c) (cre_default_text c)
          | CText b => mk_msg (cre_code c) b
          | CNotStr => bare_500
          end).
Proof. exact renderable_error. Qed.
Print Assumptions C09_renderable_error.
(* ... NoRequestInterface(RuntimeError, ...) included: its constructor argument never reaches the message, the class text is sent *)
Theorem C09_renderable_error_no_request_interface : forall s r methods t, handled s r methods ->
  r_outcome r = Raise_ (cre E_NoRequestInterface t) ->
  final_message (Some s) r = Some (mk_msg 165 (cre_default_text E_NoRequestInterface)).
Proof. exact renderable_error_no_request_interface. Qed.
Print Assumptions C09_renderable_error_no_request_interface.
Theorem C09_custom_renderable : forall s r methods m, handled s r methods ->
  r_outcome r = Raise_ (ERenderable (TMReturn (VMsg m))) -> final_message (Some s) r = Some m.
Proof. exact custom_renderable. Qed.
Print Assumptions C09_custom_renderable.
(* any other exception, a non-message return value, an error renderer that raises or returns anything but a Message: a bare 5.00
   (empty payload — nothing of the exception or the value can appear in it) *)
Theorem C09_bare_500 : forall s r methods, handled s r methods -> yields_bare_500 (r_outcome r) ->
  final_message (Some s) r = Some bare_500.
Proof. exact bare_500_table. Qed.
Print Assumptions C09_bare_500.
(* ---- Observe=0 to an observable resource (interfaces.ObservableResource._render_to_pipe):
   add_observation raising -> that exception rendered as usual; otherwise (observation accepted, deregistered early or
   declined) -> the plain table, unless the observation gets established (accepted and successful first response: then the
   first response is NOT final, C08 takes over).  (Since 195eca8 the finally block runs the cancellation callback only for
   accepted observations; before, a declined observation turned every handler exception into a bare 5.00 — former finding
   C09:declined-observation:error-replaced-by-500.) *)
Theorem C09_plain_final_message : forall s r methods, plain_methods s r = Some methods ->
  final_message (Some s) r = plain_final methods r.
Proof. exact plain_final_message. Qed.
Print Assumptions C09_plain_final_message.
Theorem C09_observable_final_message : forall s r methods mode,
  find_resource s (r_path r) = Some (Observable methods mode) -> observing r = true ->
  final_message (Some s) r =
    match mode with
    | ORaise e => final_of_exc e
    | _ => if establishes methods mode r then None else plain_final methods r
    end.
Proof. exact observable_final_message. Qed.
Print Assumptions C09_observable_final_message.
(* a declined observation is answered exactly like a plain request — a raised renderable error with its own code and text *)
Theorem C09_declined_observation_plain : forall s r methods,
  find_resource s (r_path r) = Some (Observable methods ODecline) -> observing r = true ->
  final_message (Some s) r = plain_final methods r.
Proof. exact declined_observation_plain. Qed.
Print Assumptions C09_declined_observation_plain.
Theorem C09_observable_established : forall s r methods mode,
  find_resource s (r_path r) = Some (Observable methods mode) -> observing r = true -> establishes methods mode r = true ->
  exists m, render methods r = Responded m /\ is_successful (code_of_msg m) = true /\ mode = OAccept /\
            run_ractions live (respond (Some s) r) = (live, [Send (set_obs m (Some 0)) false], 0).
Proof. exact observable_established. Qed.
Print Assumptions C09_observable_established.
Definition obs_site (mode : obs_mode) : site := [([1], Observable [GET; FETCH] mode)].
Definition obs_request (o : outcome) : request :=
  {| r_id := 0; r_remote := 0; r_token := [1]; r_mid := 7; r_con := true; r_code := GET; r_path := [1]; r_nr := None;
     r_obs := Some 0; r_slow := false; r_outcome := o |}.
Example C09_declined_observation_example :
  let r := obs_request (Raise_ (cre E_BadRequest (CText [100]))) in
  final_message (Some (obs_site OAccept)) r = Some (mk_msg 128 [100]) /\     (* accepted: the error's own code and text *)
  final_message (Some (obs_site ODecline)) r = Some (mk_msg 128 [100]) /\    (* declined: the same (was a bare 5.00 before 195eca8) *)
  finalising (Some (obs_site ODecline)) r.
Proof. cbv zeta. split; [reflexivity|]. split; [reflexivity|]. cbn. reflexivity. Qed.

(* the table is total for every finalising rendering: not a resource with its own render_to_pipe, not an observation being established *)
Theorem C09_final_message_total : forall srv r, finalising srv r -> exists m, final_message srv r = Some m.
Proof. exact final_message_total. Qed.
Print Assumptions C09_final_message_total.

(* ================================================================ 2. the once-only final event of the request's pipes *)
(* for every interleaving of what the rendering coroutine does (add_response with final / non-final / non-message
   values, raise, return) and stop() of the token manager, starting from the pipes as process_request/render_to_pipe set them up *)
Theorem C09_pipe_at_most_one_final : forall l, (count_final (snd (prun live l)) <= 1)%nat.
Proof. exact pipe_at_most_one_final. Qed.
Print Assumptions C09_pipe_at_most_one_final.
Theorem C09_pipe_nothing_after_final : forall l pre m post, snd (prun live l) = pre ++ Send m true :: post ->
  forall x, In x post -> is_send x = false.
Proof. exact pipe_nothing_after_final. Qed.
Print Assumptions C09_pipe_nothing_after_final.
Theorem C09_pipe_two_states : forall l, fst (prun live l) = live \/ fst (prun live l) = ended.
Proof. exact pipe_two_states. Qed.
Print Assumptions C09_pipe_two_states.
(* the model never leaves its domain (tombstone delivered to error_to_message.on_event, foreign callbacks) *)
Theorem C09_pipe_model_closed : forall l, ~ In (Log LogUnmodelled) (snd (prun live l)).
Proof. exact pipe_model_closed. Qed.
Print Assumptions C09_pipe_model_closed.
(* a finalising rendering puts exactly its final message on the pipes, once, and ends them *)
Theorem C09_coroutine_final_once : forall srv r, finalising srv r ->
  exists m acts n, final_message srv r = Some m /\
                   run_ractions live (respond srv r) = (ended, acts, n) /\ filter is_send acts = [Send m true].
Proof. exact coroutine_final_once. Qed.
Print Assumptions C09_coroutine_final_once.

(* ================================================================ 3. the server stack: exactly one, and isolation *)
(* in every run (any arrivals incl. token reuse, any order of handler completions, failures, time steps, ACKs),
   from every well-formed state, no request is ever given two final responses *)
Theorem C09_at_most_one_final : forall srv evs s id, Inv s -> fresh s evs ->
  (length (finals_for id (run_sends srv s evs)) <= 1)%nat.
Proof. exact at_most_one_final. Qed.
Print Assumptions C09_at_most_one_final.
(* a request whose handler gets to finish receives exactly its final message (section 1), whatever happens in between
   (other requests with other tokens arriving, finishing, failing; time; ACKs) and nothing afterwards *)
Theorem C09_exactly_one_final : forall srv s r mid m post,
  Inv s -> fresh s (Req r :: mid ++ Done (r_id r) :: post) ->
  finalising srv r -> final_message srv r = Some m ->
  Forall (fun ev => match ev with
                    | Req r' => key_eqb (key_of r') (key_of r) = false
                    | Done j => j <> r_id r
                    | _ => True end) mid ->
  finals_for (r_id r) (run_sends srv s (Req r :: mid ++ Done (r_id r) :: post)) = [m].
Proof. exact exactly_one_final. Qed.
Print Assumptions C09_exactly_one_final.
(* isolation, content: the response handed to the message layer when a handler finishes is a function of that request
   and the site alone — independent of everything else in the state *)
Theorem C09_done_sends_own : forall srv s id e, Inv s -> find_by_id id (s_incoming s) = Some e -> e_finished e = false ->
  finalising srv (e_req e) ->
  step_sends srv s (Done id) = match final_message srv (e_req e) with Some m => [(id, m, true)] | None => [] end.
Proof. exact done_sends_own. Qed.
Print Assumptions C09_done_sends_own.
(* isolation, frame: an event about other requests leaves a rendering in flight untouched and sends nothing for it *)
Theorem C09_step_frame : forall srv s ev id e, Inv s -> find_by_id id (s_incoming s) = Some e -> unrelated s id e ev ->
  find_by_id id (s_incoming (fst (step srv s ev))) = Some e /\ finals_for id (step_sends srv s ev) = [].
Proof. exact step_frame. Qed.
Print Assumptions C09_step_frame.
(* from the message layer to the wire: a final response is piggy-backed on the pending ACK, or sent NON/CON with a
   fresh message id, or waits in the per-remote backlog; No-Response suppression leaves at most the empty ACK *)
Theorem C09_send_message_cases : forall s r m, is_response (code_of m) = true ->
  let '(s', out) := send_message s r m in
  match lookup_piggy (key_of r) (s_piggy s) with
  | Some (mid, _) =>
      lookup_piggy (key_of r) (s_piggy s') = None /\
      out = [if suppressed m then empty_ack (r_remote r) mid else mk_wire r T_ACK mid m]
  | None =>
      if suppressed m then s' = s /\ out = []
      else let w := mk_wire r (if r_con r then T_CON else T_NON) (s_mid s) m in
           (out = [w] \/ (out = [] /\ r_con r = true /\ has_backlog s (r_remote r) = true /\
                          find_backlog (r_remote r) (s_backlog s') = option_map (fun b => b ++ [w]) (find_backlog (r_remote r) (s_backlog s))))
  end.
Proof. exact send_message_cases. Qed.
Print Assumptions C09_send_message_cases.
(* a response to a NON request, and any response while the request's ACK is still pending, is on the wire in the very step
   in which it is handed over: exactly one datagram answering the request (unless No-Response applies) *)
Theorem C09_response_on_wire_at_once : forall s r m, is_response (code_of m) = true -> suppressed m = false ->
  r_con r = false \/ lookup_piggy (key_of r) (s_piggy s) <> None ->
  exists t mid, snd (send_message s r m) = [mk_wire r t mid m] /\ is_answer (r_id r) (mk_wire r t mid m) = true.
Proof. exact response_on_wire_at_once. Qed.
Print Assumptions C09_response_on_wire_at_once.
(* the message layer itself still skips its whole response branch for a message whose code is not a response code
   (messagemanager.py `if message.code.is_response():`): such a message would go out as a CON/NON of our own.  Since a9de195
   Resource.render never lets one through; resources with their own render_to_pipe and to_message() renderers are assumed to
   produce response codes (plugin assumption) *)
Theorem C09_send_message_non_response : forall s r m, is_response (code_of m) = false -> send_message s r m = send_plain s r m.
Proof. exact send_message_non_response. Qed.
Print Assumptions C09_send_message_non_response.
Example C09_non_response_code_example :
  let r := {| r_id := 0; r_remote := 0; r_token := [7]; r_mid := 7; r_con := true; r_code := GET; r_path := [1]; r_nr := None; r_obs := None;
              r_slow := false; r_outcome := Return (VMsg (mk_msg GET [120])) |} in
  let srv := Some [([1], Plain [GET])] in
  finalising srv r /\ final_message srv r = Some bare_500 /\
  map (fun o => map (fun w => (w_type w, w_mid w, w_code w, w_token w, w_payload w)) (fst (fst o))) (fst (run_script srv 100 [Req r; Tick 100000]))
  = [[(T_ACK, 7, 160, [7], [])]; []].
Proof. cbv zeta. split; [exact I|]. split; vm_compute; reflexivity. Qed.

(* ---- the datagrams of whole runs (the real [run], from the initial state) ---- *)
(* In every run — any arrivals incl. token reuse, any completions, failures, time steps, ACKs — the non-empty datagrams that
   answer a finalising request r are at most one, go to r's remote with r's token, and carry the code, payload and options
   of r's own final message (section 1).  "At least one" is C09_exactly_one_final (handed to the message layer) followed by
   C09_response_on_wire_at_once (NON / still piggy-backable) or by the client's ACKs releasing the NSTART backlog (CON: C14). *)
Theorem C09_wire_at_most_one_with_token : forall srv mid0 evs r m,
  NoDup (req_ids evs) -> In (Req r) evs -> finalising srv r -> final_message srv r = Some m ->
  let ws := answers (r_id r) (wires (snd (run srv (init_state mid0) evs))) in
  (length ws <= 1)%nat /\ forall w, In w ws -> carries r m w.
Proof. exact wire_at_most_one. Qed.
Print Assumptions C09_wire_at_most_one_with_token.
(* EXACTLY one on the wire, over whole runs from the initial state: a NON request — or a CON request whose handler answers at
   once, i.e. while its ACK is still pending — that arrives and whose handler gets to finish (no reuse of its token, no second
   completion in between: [mid_ok]) is answered by exactly one non-empty datagram, with its token, to its remote, carrying its
   own final message, unless No-Response applies.  (Separate CON responses additionally need the client's ACKs: C14.) *)
Theorem C09_wire_exactly_one : forall srv mid0 pre r mid post m,
  NoDup (req_ids (pre ++ Req r :: mid ++ Done (r_id r) :: post)) ->
  finalising srv r -> final_message srv r = Some m ->
  r_con r = false \/ r_slow r && reaches_handler srv r = false ->
  is_response (code_of m) = true -> suppressed (tm_fill r m) = false ->
  Forall (mid_ok (r_id r) r) mid ->
  exists w, answers (r_id r) (wires (snd (run srv (init_state mid0) (pre ++ Req r :: mid ++ Done (r_id r) :: post)))) = [w] /\ carries r m w.
Proof. exact wire_exactly_one_non. Qed.
Print Assumptions C09_wire_exactly_one.
(* its side conditions are derivable: final messages of plain renderings have response codes (given that custom error
   renderers hand over response codes; the library's own classes do), and nothing is suppressed without a No-Response option *)
Theorem C09_final_message_is_response : forall s r methods m, handled s r methods -> final_message (Some s) r = Some m ->
  (forall m', r_outcome r = Raise_ (ERenderable (TMReturn (VMsg m'))) -> is_response (code_of m') = true) ->
  is_response (code_of m) = true.
Proof. exact final_message_is_response. Qed.
Print Assumptions C09_final_message_is_response.
Theorem C09_cre_code_is_response : forall c, is_response (cre_code c) = true.
Proof. exact cre_code_is_response. Qed.
Print Assumptions C09_cre_code_is_response.
Theorem C09_not_suppressed_without_option : forall r m, m_nr m = None -> r_nr r = None -> suppressed (tm_fill r m) = false.
Proof. exact not_suppressed_without_option. Qed.
Print Assumptions C09_not_suppressed_without_option.
(* the model's silent branch for `AssertionError: backlogs/active_exchange relation violated` in _continue_backlog is
   unreachable: in every state of every run, an ACK that matches an active exchange finds the remote's backlog entry *)
Theorem C09_backlog_assertion_unreachable : forall srv mid0 evs remote a, NoDup (req_ids evs) ->
  let s := fst (run srv (init_state mid0) evs) in
  remove_first_active remote (s_active s) = Some a -> find_backlog remote (s_backlog s) <> None.
Proof. exact backlog_assertion_unreachable. Qed.
Print Assumptions C09_backlog_assertion_unreachable.
(* isolation on the wire: two arbitrary runs that both contain request r answer it with the same code, token, payload,
   options and destination — nothing the neighbours do (their outcomes, failures, the shared NSTART backlog, message ids,
   pending ACKs) shows in the content of r's answer; only whether a CON answer has left the backlog depends on the ACKs *)
Theorem C09_answers_depend_on_own_request : forall srv mid0 mid0' evs evs' r m,
  NoDup (req_ids evs) -> NoDup (req_ids evs') -> In (Req r) evs -> In (Req r) evs' -> finalising srv r -> final_message srv r = Some m ->
  forall w w', In w (answers (r_id r) (wires (snd (run srv (init_state mid0) evs)))) ->
               In w' (answers (r_id r) (wires (snd (run srv (init_state mid0') evs')))) ->
  (w_remote w, w_token w, w_code w, w_payload w, w_cf w, w_obs w) = (w_remote w', w_token w', w_code w', w_payload w', w_cf w', w_obs w').
Proof. exact answers_depend_on_own_request. Qed.
Print Assumptions C09_answers_depend_on_own_request.
(* the exception to "every request is answered" besides No-Response: a request in flight whose (remote, token) is used
   again by a new request is cancelled and never gets a final response (the client gave the token a new meaning) *)
Theorem C09_overridden_gets_none : forall srv s e r' post, Inv s -> fresh s (Req r' :: post) ->
  find_by_key (key_of r') (s_incoming s) = Some e ->
  finals_for (eid e) (run_sends srv s (Req r' :: post)) = [].
Proof. exact overridden_gets_none. Qed.
Print Assumptions C09_overridden_gets_none.
(* every response — from a handler, an error renderer, or built from an exception — reaches the message layer with the
   request's No-Response option filled in if it had none, so suppression applies to all of them alike *)
Theorem C09_no_response_filled_in : forall s r m last,
  perform s r [Send m last] = let '(s', w) := send_message s r (tm_fill r m) in (s', w ++ [], []).
Proof. exact perform_send. Qed.
Print Assumptions C09_no_response_filled_in.
Theorem C09_tm_fill_spec : forall r m,
  m_code (tm_fill r m) = m_code m /\ m_payload (tm_fill r m) = m_payload m /\ m_cf (tm_fill r m) = m_cf m /\
  m_nr (tm_fill r m) = match m_nr m with Some n => Some n | None => r_nr r end.
Proof. exact tm_fill_spec. Qed.
Print Assumptions C09_tm_fill_spec.

(* ================================================================ non-vacuity *)
(* the former finding (fixed in /repo by abf5426): an error renderer returning a str is answered by a bare 5.00 *)
Definition garbage_request : request :=
  {| r_id := 0; r_remote := 0; r_token := [1]; r_mid := 7; r_con := true; r_code := GET; r_path := [1]; r_nr := None; r_obs := None;
     r_slow := false; r_outcome := Raise_ (ERenderable (TMReturn VOther)) |}.
Example C09_failing_renderer_example :
  run_script (Some [([1], Plain [GET; POST; PUT; DELETE; FETCH; PATCH; iPATCH])]) 100 [Req garbage_request; Tick 100000]
  = ([([mk_wire garbage_request T_ACK 7 bare_500], [LogRenderFailed], 0); ([], [], 0)], (0, 0, 0, 0)).
Proof. vm_compute. reflexivity. Qed.
(* Observe=0 on an accepting observable resource with a successful handler: the first response is a non-final 2.05 with
   Observe:0 and the request stays registered; on a declining one: the same response, final, without Observe *)
Example C09_observable_example :
  let r := obs_request (Return (VMsg {| m_code := None; m_payload := [104]; m_cf := None; m_nr := None; m_obs := None |})) in
  establishes [GET; FETCH] OAccept r = true /\
  map (fun o => (map (fun w => (w_code w, w_obs w)) (fst (fst o)), snd (fst o))) (fst (run_script (Some (obs_site OAccept)) 100 [Req r])) = [([(69, Some 0)], [])] /\
  snd (run_script (Some (obs_site OAccept)) 100 [Req r]) = (1, 0, 0, 0) /\
  map (fun o => (map (fun w => (w_code w, w_obs w)) (fst (fst o)), snd (fst o))) (fst (run_script (Some (obs_site ODecline)) 100 [Req r])) = [([(69, None)], [])] /\
  snd (run_script (Some (obs_site ODecline)) 100 [Req r]) = (0, 0, 0, 0).
Proof. cbv zeta. repeat split; vm_compute; reflexivity. Qed.
(* an unknown path asked with No-Response 8 (suppress 4.xx): only the empty ACK goes out *)
Example C09_no_response_error_example :
  run_script (Some [([1], Plain [GET])]) 100
    [Req {| r_id := 0; r_remote := 0; r_token := [1]; r_mid := 7; r_con := true; r_code := GET; r_path := [9]; r_nr := Some 8; r_obs := None;
            r_slow := false; r_outcome := Return VNone |}]
  = ([([empty_ack 0 7], [], 0)], (0, 0, 0, 0)).
Proof. vm_compute. reflexivity. Qed.
Definition ex_site : site := [([1], Plain [GET; POST; PUT; DELETE; FETCH; PATCH; iPATCH]); ([2], Plain [GET])].
Definition ex_req (id tok : Z) (o : outcome) : request :=
  {| r_id := id; r_remote := 0; r_token := [tok]; r_mid := 100 + id; r_con := true; r_code := GET; r_path := [1];
     r_nr := None; r_obs := None; r_slow := true; r_outcome := o |}.
Example C09_handled_nonvacuous :
  handled ex_site (ex_req 0 1 (Return (VMsg {| m_code := None; m_payload := [104]; m_cf := None; m_nr := None; m_obs := None |}))) [GET; POST; PUT; DELETE; FETCH; PATCH; iPATCH]
  /\ yields_bare_500 (Raise_ EOther) /\ finalising (Some ex_site) (ex_req 0 1 (Raise_ EOther)).
Proof. split; [repeat split; reflexivity|]. split; [left; reflexivity|cbn; exact I]. Qed.
(* three requests in flight at once, the middle one failing, the first completing after its empty ACK: each gets exactly its own *)
Example C09_concurrent_example :
  let a := ex_req 0 1 (Return (VMsg {| m_code := None; m_payload := [104]; m_cf := None; m_nr := None; m_obs := None |})) in
  let b := ex_req 1 2 (Raise_ EOther) in
  let c := ex_req 2 3 (Raise_ (cre E_BadRequest (CText [120]))) in
  let evs := [Req a; Req b; Req c; Tick 100000; Done 1; Done 0; AckFrom 0; Done 2; AckFrom 0; AckFrom 0] in
  Inv (init_state 500) /\ fresh (init_state 500) evs /\
  map (fun id => finals_for id (run_sends (Some ex_site) (init_state 500) evs)) [0; 1; 2]
  = [[{| m_code := Some 69; m_payload := [104]; m_cf := None; m_nr := None; m_obs := None |}]; [bare_500]; [mk_msg 128 [120]]] /\
  map (fun o => map w_code (fst (fst o))) (fst (run_script (Some ex_site) 500 evs))
  = [[]; []; []; [0; 0; 0]; [160]; []; [69]; []; [128]; []].
Proof.
  cbv zeta. split; [apply init_inv|]. split; [apply init_fresh; vm_compute; repeat constructor; cbn; intuition discriminate|].
  split; vm_compute; reflexivity.
Qed.
(* a well-formed state with renderings in flight (the hypotheses of section 3 are satisfiable by a non-initial state) *)
Example C09_inv_nonvacuous :
  let s := fst (run (Some ex_site) (init_state 7) [Req (ex_req 0 1 (Raise_ EOther)); Req (ex_req 1 2 (Return VNone))]) in
  Inv s /\ length (s_incoming s) = 2%nat /\ fresh s [Done 1; Req (ex_req 2 3 (Return VNone)); Done 0] /\
  unrelated s 0 (new_entry (ex_req 0 1 (Raise_ EOther))) (Req (ex_req 2 3 (Return VNone))).
Proof.
  cbv zeta. split; [|split; [vm_compute; reflexivity|]].
  - split; [vm_compute; repeat constructor; cbn; intuition discriminate|]. vm_compute. repeat constructor.
  - split.
    + split; [vm_compute; repeat constructor; cbn; intuition|]. vm_compute. intros i [<-|[]] [H|[H|[]]]; discriminate.
    + vm_compute. split; [discriminate|]. split; [reflexivity|]. intros [H|[H|[]]]; discriminate.
Qed.
(* the wire-level statements on the concurrent scenario above, and a state in which the hypothesis of C09_overridden_gets_none holds *)
Example C09_wire_example :
  let a := ex_req 0 1 (Return (VMsg {| m_code := None; m_payload := [104]; m_cf := None; m_nr := None; m_obs := None |})) in
  let b := ex_req 1 2 (Raise_ EOther) in
  let c := ex_req 2 3 (Raise_ (cre E_BadRequest (CText [120]))) in
  let evs := [Req a; Req b; Req c; Tick 100000; Done 1; Done 0; AckFrom 0; Done 2; AckFrom 0; AckFrom 0] in
  NoDup (req_ids evs) /\ In (Req b) evs /\ finalising (Some ex_site) b /\ final_message (Some ex_site) b = Some bare_500 /\
  map (fun id => map (fun w => (w_type w, w_code w, w_token w)) (answers id (wires (snd (run (Some ex_site) (init_state 500) evs))))) [0; 1; 2]
  = [[(T_CON, 69, [1])]; [(T_CON, 160, [2])]; [(T_CON, 128, [3])]] /\
  let s := fst (run (Some ex_site) (init_state 500) [Req a]) in
  let a' := ex_req 7 1 (Raise_ EOther) in
  Inv s /\ fresh s [Req a'; Done 0] /\ find_by_key (key_of a') (s_incoming s) = Some (new_entry a) /\
  finals_for 0 (run_sends (Some ex_site) s [Req a'; Done 0]) = [] /\ finals_for 7 (run_sends (Some ex_site) s [Req a'; Done 0; Done 7]) = [bare_500].
Proof.
  cbv zeta. split; [vm_compute; repeat constructor; cbn; intuition discriminate|]. split; [cbn; tauto|]. split; [exact I|].
  split; [reflexivity|]. split; [vm_compute; reflexivity|].
  split; [split; [vm_compute; repeat constructor; cbn; intuition|vm_compute; repeat constructor]|].
  split; [split; [vm_compute; repeat constructor; cbn; intuition|vm_compute; intros i [<-|[]] [H|[]]; discriminate]|].
  split; [vm_compute; reflexivity|]. split; vm_compute; reflexivity.
Qed.
(* C09_wire_exactly_one on a concurrent scenario: a NON request failing in the middle of two CON neighbours, and a CON request answered at once *)
Example C09_wire_exactly_one_example :
  let n := {| r_id := 1; r_remote := 0; r_token := [2]; r_mid := 101; r_con := false; r_code := GET; r_path := [1]; r_nr := None; r_obs := None;
              r_slow := true; r_outcome := Raise_ EOther |} in
  let f := {| r_id := 3; r_remote := 0; r_token := [4]; r_mid := 103; r_con := true; r_code := GET; r_path := [9]; r_nr := None; r_obs := None;
              r_slow := true; r_outcome := Return VNone |} in
  let a := ex_req 0 1 (Raise_ EOther) in
  let pre := [Req a; Tick 100000] in let mid := [Done 0; Req f; Tick 50000] in let post := [AckFrom 0; Done 3] in
  NoDup (req_ids (pre ++ Req n :: mid ++ Done 1 :: post)) /\ Forall (mid_ok 1 n) mid /\
  finalising (Some ex_site) n /\ final_message (Some ex_site) n = Some bare_500 /\ suppressed (tm_fill n bare_500) = false /\
  map (fun w => (w_type w, w_code w, w_token w)) (answers 1 (wires (snd (run (Some ex_site) (init_state 9) (pre ++ Req n :: mid ++ Done 1 :: post))))) = [(T_NON, 160, [2])] /\
  r_slow f && reaches_handler (Some ex_site) f = false /\
  map (fun w => (w_type w, w_code w, w_token w)) (answers 3 (wires (snd (run (Some ex_site) (init_state 9) (pre ++ Req n :: mid ++ Done 1 :: post))))) = [(T_ACK, 132, [4])].
Proof.
  cbv zeta. split; [vm_compute; repeat constructor; cbn; intuition discriminate|].
  split; [repeat constructor; cbn; try reflexivity; discriminate|].
  split; [exact I|]. repeat split; vm_compute; reflexivity.
Qed.

(* ---- round 7: the model's transport constants and message-ID successor are the translated source's
   (Gen/c03_constants.v <- numbers/constants.py TransportTuning, microseconds = seconds * 10^6; Gen/c14_message_id.v <- MessageManager._next_message_id) *)
From Verif Require Gen.c03_constants Gen.c14_message_id.
From Verif Require Proofs.C09Tie.
Theorem C09_empty_ack_delay_is_source :
  QArith_base.Qeq (QArith_base.inject_Z EMPTY_ACK_DELAY) (QArith_base.Qmult (c03_constants.tt_EMPTY_ACK_DELAY c03_constants.default_transport_tuning) (QArith_base.inject_Z 1000000)).
Proof. exact C09Tie.empty_ack_delay_is_source. Qed.
Print Assumptions C09_empty_ack_delay_is_source.
Theorem C09_next_message_id_is_source :
  forall mid, c14_message_id.next_message_id {| c14_message_id.mmids_message_id := mid |} = Ok ({| c14_message_id.mmids_message_id := Z.land 65535 (1 + mid) |}, mid).
Proof. exact C09Tie.next_message_id_is_source. Qed.
Print Assumptions C09_next_message_id_is_source.
