(* C12 — OSCORE replay protection: a protected request is accepted at most once.
   Only statements here; every proof is [exact <lemma of Proofs/C12.v>]. *)
From Verif Require Import Lib.Py Lib.Tactics Gen.oscore_replay Model.C12 Proofs.C12 Proofs.C12b.
Open Scope Z_scope.

(* the translated ReplayWindow refines the set [seen] of no-longer-acceptable numbers *)
Theorem C12_is_valid_spec : forall w n, Inv w -> 0 <= n -> is_valid w n = Ok (negb (seen w n)).
Proof. exact is_valid_spec. Qed.
Print Assumptions C12_is_valid_spec.

Theorem C12_strike_out_spec : forall w n, Inv w -> 0 <= n ->
  (seen w n = true /\ strike_out w n = Raise ValueError) \/
  (seen w n = false /\ exists w', strike_out w n = Ok (w', tt) /\
     Inv w' /\ rw_size w' = rw_size w /\ rw_index w <= rw_index w' /\ seen w' n = true /\
     (forall m, seen w m = true -> seen w' m = true) /\
     (forall m, m <> n -> rw_index w' <= m -> seen w' m = seen w m)).
Proof. exact strike_out_spec. Qed.
Print Assumptions C12_strike_out_spec.

(* for every order and multiplicity of arriving requests, from any well-formed context
   (initialised or not), every sequence number is accepted at most once *)
Theorem C12_accept_at_most_once : forall rs c n, CtxInv c -> Forall (fun r => 0 <= seqno r) rs ->
  (accepted_count n rs (snd (run c rs)) <= 1)%nat.
Proof. exact accept_at_most_once_lemma. Qed.
Print Assumptions C12_accept_at_most_once.

(* numbers already seen — in particular all that fell out of the window — are never accepted again *)
Theorem C12_seen_never_accepted : forall rs c n, CtxInv c -> Forall (fun r => 0 <= seqno r) rs ->
  cseen c n -> accepted_count n rs (snd (run c rs)) = 0%nat.
Proof. exact seen_never_accepted. Qed.
Print Assumptions C12_seen_never_accepted.
Theorem C12_below_window_seen : forall w n, n < rw_index w -> seen w n = true.
Proof. exact below_window_seen. Qed.
Print Assumptions C12_below_window_seen.
Theorem C12_reject_seen : forall c w r, CtxInv c -> window c = Some w -> 0 <= seqno r ->
  seen w (seqno r) = true -> snd (unprotect_request c r) <> Accept.
Proof. exact reject_seen_lemma. Qed.
Print Assumptions C12_reject_seen.

(* an authentic number not yet seen — in particular any number above everything seen so far — is accepted *)
Theorem C12_accept_unseen : forall c w r, CtxInv c -> window c = Some w -> 0 <= seqno r -> authentic r = true ->
  seen w (seqno r) = false -> snd (unprotect_request c r) = Accept.
Proof. exact accept_unseen_lemma. Qed.
Print Assumptions C12_accept_unseen.
Theorem C12_above_all_unseen : forall w n, (forall m, seen w m = true -> m < n) -> seen w n = false.
Proof. exact above_all_unseen. Qed.
Print Assumptions C12_above_all_unseen.

(* a message failing authentication never marks or advances the window, and is not accepted *)
Theorem C12_forgery_never_marks : forall c r, CtxInv c -> 0 <= seqno r -> authentic r = false ->
  fst (unprotect_request c r) = c /\ snd (unprotect_request c r) <> Accept.
Proof. exact forgery_never_marks_lemma. Qed.
Print Assumptions C12_forgery_never_marks.

(* uninitialised window: acceptance requires the Echo value issued by this process *)
Theorem C12_uninitialised_requires_echo : forall c r, CtxInv c -> window c = None -> 0 <= seqno r ->
  snd (unprotect_request c r) = Accept ->
  authentic r = true /\ echo_recovery c <> None /\ echo r = echo_recovery c /\
  exists w', window (fst (unprotect_request c r)) = Some w' /\ forall m, seen w' m = (m <=? seqno r).
Proof. exact uninitialised_requires_echo_lemma. Qed.
Print Assumptions C12_uninitialised_requires_echo.
Theorem C12_uninitialised_never_accepts_without_echo : forall rs c, CtxInv c -> window c = None ->
  Forall (fun r => 0 <= seqno r /\ echo r <> echo_recovery c) rs ->
  Forall (fun o => o <> Accept) (snd (run c rs)) /\ window (fst (run c rs)) = None.
Proof. exact uninitialised_never_accepts_without_echo. Qed.
Print Assumptions C12_uninitialised_never_accepts_without_echo.

(* non-vacuity: concrete contexts satisfy the hypotheses, and the doctest history of ReplayWindow *)
Example C12_inv_nonvacuous :
  CtxInv {| size := 32; window := Some (initialize_empty 32); echo_recovery := Some 7 |} /\
  CtxInv {| size := 32; window := None; echo_recovery := Some 7 |} /\
  Inv {| rw_size := 32; rw_index := 5; rw_bitfield := 2^31 + 5 |}.
Proof. unfold CtxInv, Inv; cbn. repeat split; try lia. Qed.
Example C12_doctest :
  snd (wrun (initialize_empty 32)
        [StrikeOut 5; IsValid 3; IsValid 5; StrikeOut 0; StrikeOut 1; StrikeOut 2; IsValid 1;
         IsValid 4; StrikeOut 35; IsValid 4; StrikeOut 36; IsValid 4])
  = [RDone; RBool true; RBool false; RDone; RDone; RDone; RBool false;
     RBool true; RDone; RBool true; RDone; RBool false].
Proof. vm_compute. reflexivity. Qed.

(* ---------- round 5: histories that interleave requests and responses, nonce reuse, forgeries ---------- *)

(* every step of a mixed history keeps the context well-formed and never un-sees a number *)
Theorem C12_step_invariant : forall c m, CtxInv c -> pwf m ->
  CtxInv (fst (pstep c m)) /\ size (fst (pstep c m)) = size c /\
  echo_recovery (fst (pstep c m)) = echo_recovery c /\
  (forall k, cseen c k -> cseen (fst (pstep c m)) k).
Proof. exact pstep_invariant. Qed.
Print Assumptions C12_step_invariant.

(* at most once per sequence number, for every order and multiplicity of requests AND responses
   (including responses that initialise the window), forged or not *)
Theorem C12_accept_at_most_once_mixed : forall ms c n, CtxInv c -> Forall pwf ms ->
  (paccepted_count n ms (snd (prun c ms)) <= 1)%nat.
Proof. exact paccept_at_most_once. Qed.
Print Assumptions C12_accept_at_most_once_mixed.

(* forgeries do not interfere: the final replay state and the fate of every authentic message are
   those of the history with all forged messages removed — a forgery cannot block the genuine request *)
Theorem C12_forgeries_do_not_interfere : forall ms c, CtxInv c -> Forall pwf ms ->
  fst (prun c ms) = fst (prun c (filter pauth ms)) /\
  map snd (filter (fun mo => pauth (fst mo)) (combine ms (snd (prun c ms)))) = snd (prun c (filter pauth ms)).
Proof. exact forgeries_do_not_interfere. Qed.
Print Assumptions C12_forgeries_do_not_interfere.

(* the request's nonce may be reused for the response (RequestIdentifiers.can_reuse_nonce) only if the
   request passed the replay check before decryption: never for a replayed, an Echo-recovered or an
   Echo-challenged request; hence at most once per sequence number *)
Theorem C12_reuse_only_when_fresh : forall c r o, CtxInv c -> 0 <= seqno r ->
  snd (pstep c (PReq r)) = OReq o true ->
  o = Accept /\ authentic r = true /\ exists w, window c = Some w /\ seen w (seqno r) = false.
Proof. exact reuse_only_when_fresh. Qed.
Print Assumptions C12_reuse_only_when_fresh.
Theorem C12_reuse_at_most_once : forall ms c n, CtxInv c -> Forall pwf ms ->
  (preuse_count n ms (snd (prun c ms)) <= 1)%nat.
Proof. exact preuse_at_most_once. Qed.
Print Assumptions C12_reuse_at_most_once.
Theorem C12_accept_fresh_has_reuse : forall c w r, CtxInv c -> window c = Some w -> 0 <= seqno r ->
  authentic r = true -> seen w (seqno r) = false -> snd (pstep c (PReq r)) = OReq Accept true.
Proof. exact accept_fresh_has_reuse. Qed.
Print Assumptions C12_accept_fresh_has_reuse.

(* uninitialised window, full statement for the code as it is: nothing is accepted (and no reusable
   nonce handed on) until either the Echo value issued by this process comes back, or an AUTHENTIC
   response carrying the peer's own Partial IV arrives (oscore.py:1408-1422: such a response is AEAD-bound
   to a request this process sent, which the code takes as freshness proof; see notes/C12.md, O1) *)
Theorem C12_uninitialised_until_echo_or_bound_response : forall ms c, CtxInv c -> window c = None ->
  Forall (no_recovery c) ms ->
  Forall (fun o => match o with OReq Accept _ => False | OReq _ true => False | _ => True end) (snd (prun c ms))
  /\ window (fst (prun c ms)) = None.
Proof. exact uninitialised_until_echo_or_bound_response. Qed.
Print Assumptions C12_uninitialised_until_echo_or_bound_response.
Theorem C12_response_init_is_freshlyseen : forall c n, CtxInv c -> window c = None -> echo_recovery c <> None -> 0 <= n ->
  exists w, window (fst (unprotect_response c (Some n) true)) = Some w /\ forall m, seen w m = (m <=? n).
Proof. exact response_init_is_freshlyseen. Qed.
Print Assumptions C12_response_init_is_freshlyseen.
Theorem C12_response_never_touches_initialised : forall c own auth w, window c = Some w ->
  fst (unprotect_response c own auth) = c.
Proof. exact response_never_touches_initialised. Qed.
Print Assumptions C12_response_never_touches_initialised.

(* the mixed-history runner restricted to requests is the request runner of the first part *)
Theorem C12_prun_requests : forall rs c,
  fst (prun c (map PReq rs)) = fst (run c rs) /\
  map (fun o => match o with OReq x _ => x | OResp _ => RejectInvalid end) (snd (prun c (map PReq rs))) = snd (run c rs).
Proof. exact prun_requests. Qed.
Print Assumptions C12_prun_requests.

Example C12_mixed_nonvacuous :
  let c := {| size := 32; window := None; echo_recovery := Some 7 |} in
  snd (prun c [PReq {| seqno := 5; authentic := true; echo := None |};
               PResp (Some 9) false; PResp None true; PResp (Some 9) true;
               PReq {| seqno := 9; authentic := true; echo := None |};
               PReq {| seqno := 10; authentic := false; echo := None |};
               PReq {| seqno := 10; authentic := true; echo := None |};
               PReq {| seqno := 10; authentic := true; echo := None |}])
  = [OReq RejectEcho false; OResp false; OResp true; OResp true; OReq RejectReplay false;
     OReq RejectInvalid false; OReq Accept true; OReq RejectReplay false].
Proof. vm_compute. reflexivity. Qed.

(* ---- round 7: persisting the window (clean stop) and reloading it (ReplayWindow.persist / initialize_from_persisted, Model/C12Persist.v)
   is the identity on the context, at any point of any history: same outcomes, same final window; an uninitialised window stays
   uninitialised, so C12_uninitialised_never_accepts_without_echo carries over the restart (seed C12d) *)
From Verif Require Import Model.C12Persist Proofs.C12Persist.
Theorem C12_reload_is_identity : forall c, CtxInv c -> reload c = c.
Proof. exact (fun c H => reload_id c (CtxInv_sized c H)). Qed.
Print Assumptions C12_reload_is_identity.
Theorem C12_reload_anywhere_changes_nothing : forall rs k c, Forall (fun r => 0 <= seqno r) rs -> CtxInv c -> run_reload c k rs = run c rs.
Proof. exact run_reload_is_run. Qed.
Print Assumptions C12_reload_anywhere_changes_nothing.
Theorem C12_reload_stays_uninitialised : forall c, window c = None -> window (reload c) = None.
Proof. exact reload_stays_uninitialised. Qed.
Print Assumptions C12_reload_stays_uninitialised.
