(* C12 — OSCORE replay protection: a protected request is accepted at most once.
   Only statements here; every proof is [exact <lemma of Proofs/C12.v>]. *)
From Verif Require Import Lib.Py Lib.Tactics Gen.oscore_replay Model.C12 Proofs.C12.
Open Scope Z_scope.

(* the translated ReplayWindow refines the set [seen] of no-longer-acceptable numbers *)
Theorem C12_is_valid_spec : forall w n, Inv w -> 0 <= n -> is_valid w n = Ok (negb (seen w n)).
Proof. exact is_valid_spec. Qed.
Print Assumptions C12_is_valid_spec.

Theorem C12_strike_out_spec : forall w n, Inv w -> 0 <= n ->
  (seen w n = true /\ strike_out w n = Raise ValueError) \/
  (seen w n = false /\ exists w', strike_out w n = Ok (w', tt) /\
     Inv w' /\ rw_size w' = rw_size w /\ rw_index w <= rw_index w' /\ seen w' n = true /\
     (forall m, seen w m = true -> seen w' m = true) /\
     (forall m, m <> n -> rw_index w' <= m -> seen w' m = seen w m)).
Proof. exact strike_out_spec. Qed.
Print Assumptions C12_strike_out_spec.

(* for every order and multiplicity of arriving requests, from any well-formed context
   (initialised or not), every sequence number is accepted at most once *)
Theorem C12_accept_at_most_once : forall rs c n, CtxInv c -> Forall (fun r => 0 <= seqno r) rs ->
  (accepted_count n rs (snd (run c rs)) <= 1)%nat.
Proof. exact accept_at_most_once_lemma. Qed.
Print Assumptions C12_accept_at_most_once.

(* numbers already seen — in particular all that fell out of the window — are never accepted again *)
Theorem C12_seen_never_accepted : forall rs c n, CtxInv c -> Forall (fun r => 0 <= seqno r) rs ->
  cseen c n -> accepted_count n rs (snd (run c rs)) = 0%nat.
Proof. exact seen_never_accepted. Qed.
Print Assumptions C12_seen_never_accepted.
Theorem C12_below_window_seen : forall w n, n < rw_index w -> seen w n = true.
Proof. exact below_window_seen. Qed.
Print Assumptions C12_below_window_seen.
Theorem C12_reject_seen : forall c w r, CtxInv c -> window c = Some w -> 0 <= seqno r ->
  seen w (seqno r) = true -> snd (unprotect_request c r) <> Accept.
Proof. exact reject_seen_lemma. Qed.
Print Assumptions C12_reject_seen.

(* an authentic number not yet seen — in particular any number above everything seen so far — is accepted *)
Theorem C12_accept_unseen : forall c w r, CtxInv c -> window c = Some w -> 0 <= seqno r -> authentic r = true ->
  seen w (seqno r) = false -> snd (unprotect_request c r) = Accept.
Proof. exact accept_unseen_lemma. Qed.
Print Assumptions C12_accept_unseen.
Theorem C12_above_all_unseen : forall w n, (forall m, seen w m = true -> m < n) -> seen w n = false.
Proof. exact above_all_unseen. Qed.
Print Assumptions C12_above_all_unseen.

(* a message failing authentication never marks or advances the window, and is not accepted *)
Theorem C12_forgery_never_marks : forall c r, CtxInv c -> 0 <= seqno r -> authentic r = false ->
  fst (unprotect_request c r) = c /\ snd (unprotect_request c r) <> Accept.
Proof. exact forgery_never_marks_lemma. Qed.
Print Assumptions C12_forgery_never_marks.

(* uninitialised window: acceptance requires the Echo value issued by this process *)
Theorem C12_uninitialised_requires_echo : forall c r, CtxInv c -> window c = None -> 0 <= seqno r ->
  snd (unprotect_request c r) = Accept ->
  authentic r = true /\ echo_recovery c <> None /\ echo r = echo_recovery c /\
  exists w', window (fst (unprotect_request c r)) = Some w' /\ forall m, seen w' m = (m <=? seqno r).
Proof. exact uninitialised_requires_echo_lemma. Qed.
Print Assumptions C12_uninitialised_requires_echo.
Theorem C12_uninitialised_never_accepts_without_echo : forall rs c, CtxInv c -> window c = None ->
  Forall (fun r => 0 <= seqno r /\ echo r <> echo_recovery c) rs ->
  Forall (fun o => o <> Accept) (snd (run c rs)) /\ window (fst (run c rs)) = None.
Proof. exact uninitialised_never_accepts_without_echo. Qed.
Print Assumptions C12_uninitialised_never_accepts_without_echo.

(* non-vacuity: concrete contexts satisfy the hypotheses, and the doctest history of ReplayWindow *)
Example C12_inv_nonvacuous :
  CtxInv {| size := 32; window := Some (initialize_empty 32); echo_recovery := Some 7 |} /\
  CtxInv {| size := 32; window := None; echo_recovery := Some 7 |} /\
  Inv {| rw_size := 32; rw_index := 5; rw_bitfield := 2^31 + 5 |}.
Proof. unfold CtxInv, Inv; cbn. repeat split; try lia. Qed.
Example C12_doctest :
  snd (wrun (initialize_empty 32)
        [StrikeOut 5; IsValid 3; IsValid 5; StrikeOut 0; StrikeOut 1; StrikeOut 2; IsValid 1;
         IsValid 4; StrikeOut 35; IsValid 4; StrikeOut 36; IsValid 4])
  = [RDone; RBool true; RBool false; RDone; RDone; RDone; RBool false;
     RBool true; RDone; RBool true; RDone; RBool false].
Proof. vm_compute. reflexivity. Qed.
