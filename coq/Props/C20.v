(* C20 — resource directory: lookups reflect exactly the live registrations.
   Only statements here; every proof is [exact <lemma of Proofs/C20.v>].
   [reachable st] = st is the state after some history of requests and time passages from the empty directory. *)
From Coq Require Import String.
From Verif Require Import Lib.Py Lib.Tactics Model.C20Str Model.C20 Proofs.C20Dict Proofs.C20Up Proofs.C20.
Open Scope Z_scope.

(* after every history the index invariant holds and no lifetime timer is overdue *)
Theorem C20_invariant : forall ops, Inv (run_state empty_rd ops) /\ Settled (run_state empty_rd ops).
Proof. exact (fun ops => run_state_Inv ops empty_rd empty_Inv empty_Settled). Qed.
Print Assumptions C20_invariant.

(* index bijection: at most one registration per (ep, d), at most one per location; _by_key and _by_path hold the same
   Registration objects, each under its own key and its own path *)
Theorem C20_indexes_bijective : forall st, reachable st ->
  NoDup (map fst (by_key st)) /\ NoDup (map fst (by_path st)) /\
  (forall id, (exists k, In (k, id) (by_key st)) <-> (exists p, In (p, id) (by_path st))) /\
  (forall k id, In (k, id) (by_key st) -> r_key (obj st id) = k /\ In (r_path (obj st id), id) (by_path st)) /\
  (forall p id, In (p, id) (by_path st) -> r_path (obj st id) = p /\ In (r_key (obj st id), id) (by_key st)).
Proof. exact (fun st R => indexes_bijective_lemma st (proj1 (reachable_Inv st R))). Qed.
Print Assumptions C20_indexes_bijective.

(* distinct registrations never share a location *)
Theorem C20_distinct_locations : forall st k1 k2 id1 id2, reachable st ->
  In (k1, id1) (by_key st) -> In (k2, id2) (by_key st) -> k1 <> k2 -> r_path (obj st id1) <> r_path (obj st id2).
Proof. exact (fun st k1 k2 id1 id2 R => distinct_locations_lemma st k1 k2 id1 id2 (proj1 (reachable_Inv st R))). Qed.
Print Assumptions C20_distinct_locations.

(* a successful registration is answered with the location the endpoint already had (re-registration), or with a
   location no live registration uses (new endpoint); afterwards both indexes map the key / that location to the new object *)
Theorem C20_rereg_keeps_location : forall st remote q b st' loc, reachable st ->
  handle st (Register remote q b) = (st', Created loc) ->
  exists k, (forall oid, dget key_eqb (by_key st) k = Some oid -> loc = r_path (obj st oid)) /\
            (dget key_eqb (by_key st) k = None -> ~ In loc (map fst (by_path st)) /\ 1 <= loc) /\
            dget key_eqb (by_key st') k = Some (next_id st) /\ dget Z.eqb (by_path st') loc = Some (next_id st) /\
            r_key (obj st' (next_id st)) = k /\ r_path (obj st' (next_id st)) = loc.
Proof. exact rereg_keeps_location_lemma. Qed.
Print Assumptions C20_rereg_keeps_location.

(* a request answered with a 4.xx code leaves the directory exactly as it was: both indexes, every registration's
   lifetime, base, parameters, links and timer, and the clock *)
Theorem C20_failed_op_unchanged : forall st o st' r, reachable st -> step st o = (st', r) -> is_4xx r = true -> st' = st.
Proof. exact (fun st o st' r R => failed_op_unchanged_lemma st o st' r (proj1 (reachable_Inv st R)) (proj2 (reachable_Inv st R))). Qed.
Print Assumptions C20_failed_op_unchanged.

(* a registration is listed (indexed) iff its lifetime timer is pending, and then that timer is not yet due *)
Theorem C20_listed_iff_live : forall st, reachable st -> forall id r, In (id, r) (objs st) ->
  ((exists k, In (k, id) (by_key st)) <-> exists due s, r_timer r = Some (due, s) /\ now st < due).
Proof. exact (fun st R => listed_iff_live_lemma st (proj1 (reachable_Inv st R)) (proj2 (reachable_Inv st R))). Qed.
Print Assumptions C20_listed_iff_live.

(* the delete closures (expiry, DELETE, re-registration) never raise KeyError: no exception reaches the event loop and no
   write request is answered 5.00 because of the indexes, in any history *)
Theorem C20_closures_never_raise : forall ops,
  loop_exceptions (run_state empty_rd ops) = 0 /\
  Forall2 (fun o ob => is_lookup o = false -> o_resp ob <> Err KeyError) ops (run empty_rd ops).
Proof. exact (fun ops => run_no_exception ops empty_rd empty_Inv empty_Settled). Qed.
Print Assumptions C20_closures_never_raise.
