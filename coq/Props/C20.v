(* C20 — resource directory: lookups reflect exactly the live registrations.
   Only statements here; every proof is [exact <lemma of Proofs/C20.v>].
   [reachable st] = st is the state after some history of requests and time passages from the empty directory. *)
From Coq Require Import String.
From Verif Require Import Lib.Py Lib.Tactics Model.C20Str Model.C20 Model.C20Spec Proofs.C20Dict Proofs.C20Up Proofs.C20 Proofs.C20More Proofs.C20RefA Proofs.C20Refine Proofs.C20R5.
Open Scope Z_scope.

(* after every history the index invariant holds and no lifetime timer is overdue *)
Theorem C20_invariant : forall ops, Inv (run_state empty_rd ops) /\ Settled (run_state empty_rd ops).
Proof. exact invariant_all_histories. Qed.
Print Assumptions C20_invariant.

(* index bijection: at most one registration per (ep, d), at most one per location; _by_key and _by_path hold the same
   Registration objects, each under its own key and its own path *)
Theorem C20_indexes_bijective : forall st, reachable st ->
  NoDup (map fst (by_key st)) /\ NoDup (map fst (by_path st)) /\
  (forall id, (exists k, In (k, id) (by_key st)) <-> (exists p, In (p, id) (by_path st))) /\
  (forall k id, In (k, id) (by_key st) -> r_key (obj st id) = k /\ In (r_path (obj st id), id) (by_path st)) /\
  (forall p id, In (p, id) (by_path st) -> r_path (obj st id) = p /\ In (r_key (obj st id), id) (by_key st)).
Proof. exact indexes_bijective_reachable. Qed.
Print Assumptions C20_indexes_bijective.

(* distinct registrations never share a location *)
Theorem C20_distinct_locations : forall st k1 k2 id1 id2, reachable st ->
  In (k1, id1) (by_key st) -> In (k2, id2) (by_key st) -> k1 <> k2 -> r_path (obj st id1) <> r_path (obj st id2).
Proof. exact distinct_locations_reachable. Qed.
Print Assumptions C20_distinct_locations.

(* a successful registration is answered with the location the endpoint already had (re-registration), or with a
   location no live registration uses (new endpoint); afterwards both indexes map the key / that location to the new object *)
Theorem C20_rereg_keeps_location : forall st remote q b st' loc, reachable st ->
  handle st (Register remote q b) = (st', Created loc) ->
  exists k, (forall oid, dget key_eqb (by_key st) k = Some oid -> loc = r_path (obj st oid)) /\
            (dget key_eqb (by_key st) k = None -> ~ In loc (map fst (by_path st)) /\ 1 <= loc) /\
            dget key_eqb (by_key st') k = Some (next_id st) /\ dget Z.eqb (by_path st') loc = Some (next_id st) /\
            r_key (obj st' (next_id st)) = k /\ r_path (obj st' (next_id st)) = loc.
Proof. exact rereg_keeps_location_lemma. Qed.
Print Assumptions C20_rereg_keeps_location.

(* a request answered with a 4.xx code leaves the directory exactly as it was: both indexes, every registration's
   lifetime, base, parameters, links and timer, and the clock *)
Theorem C20_failed_op_unchanged : forall st o st' r, reachable st -> step st o = (st', r) -> is_4xx r = true -> st' = st.
Proof. exact failed_op_unchanged_reachable. Qed.
Print Assumptions C20_failed_op_unchanged.

(* a registration is listed (indexed) iff its lifetime timer is pending, and then that timer is not yet due *)
Theorem C20_listed_iff_live : forall st, reachable st -> forall id r, In (id, r) (objs st) ->
  ((exists k, In (k, id) (by_key st)) <-> exists due s, r_timer r = Some (due, s) /\ now st < due).
Proof. exact listed_iff_live_reachable. Qed.
Print Assumptions C20_listed_iff_live.

(* the delete closures (expiry, DELETE, re-registration) never raise KeyError: no exception reaches the event loop and no
   write request is answered 5.00 because of the indexes, in any history *)
Theorem C20_closures_never_raise : forall ops,
  loop_exceptions (run_state empty_rd ops) = 0 /\
  Forall2 (fun o ob => is_lookup o = false -> o_resp ob <> Err KeyError) ops (run empty_rd ops).
Proof. exact closures_never_raise_all_histories. Qed.
Print Assumptions C20_closures_never_raise.

(* time passing by dt: afterwards exactly those registrations are still listed whose lifetime (+ grace) ends after the new
   instant, and each of them is untouched (same lt, base, parameters, links, timer) *)
Theorem C20_expiry_exact : forall st dt, reachable st -> 0 <= dt ->
  let st' := fst (step st (Advance dt)) in
  now st' = now st + dt /\
  forall k id, In (k, id) (by_key st') <->
               (In (k, id) (by_key st) /\ exists due s, r_timer (obj st id) = Some (due, s) /\ now st + dt < due /\ obj st' id = obj st id).
Proof. exact expiry_exact_reachable. Qed.
Print Assumptions C20_expiry_exact.

(* a successful write (re)starts the lifetime: the timer is due lt + 15 s after the request *)
Theorem C20_write_restarts_lifetime : forall r remote p init t seq r', update_params r remote p init t seq = UpOk r' ->
  r_key r' = r_key r /\ r_path r' = r_path r /\ r_links r' = r_links r /\ r_timer r' = Some (t + (r_lt r' + GRACE_PERIOD) * 1000000, seq).
Proof. exact update_params_ok. Qed.
Print Assumptions C20_write_restarts_lifetime.

(* any request other than the passage of time leaves every registration it does not address untouched and listed, unless it
   is the re-registration of that registration's own (ep, d); and whatever it lists afterwards of the older registrations it
   does not address was listed before with the same fields: parameters and links are those of the latest write *)
Theorem C20_other_registrations_untouched : forall st o st' r, reachable st -> is_advance o = false -> step st o = (st', r) ->
  (forall k id, In (k, id) (by_key st') -> id < next_id st -> Some id <> target st o -> In (k, id) (by_key st) /\ obj st' id = obj st id) /\
  (forall k id, In (k, id) (by_key st) -> Some id <> target st o ->
     (In (k, id) (by_key st') /\ obj st' id = obj st id) \/ (exists loc, r = Created loc /\ k = r_key (obj (fst (handle st o)) (next_id st)))).
Proof. exact other_registrations_untouched_reachable. Qed.
Print Assumptions C20_other_registrations_untouched.

(* lookup exactness: the unfiltered lookups render exactly the registrations whose lifetime timer is pending and not due,
   each once, under pairwise distinct (ep, d) and pairwise distinct locations *)
Theorem C20_lookup_exact : forall st, reachable st ->
  ep_lookup st [] None = Content (str_links (map get_host_link (get_endpoints st))) /\
  res_lookup st [] None = Content (str_links (map strip_anchor (flat_map get_based_links (get_endpoints st)))) /\
  (forall r, In r (get_endpoints st) <-> exists id due s, In (id, r) (objs st) /\ r_timer r = Some (due, s) /\ now st < due) /\
  NoDup (map r_key (get_endpoints st)) /\ NoDup (map r_path (get_endpoints st)).
Proof. exact lookup_exact_reachable. Qed.
Print Assumptions C20_lookup_exact.

(* lookups with any list of criteria (212d645): the candidates are exactly the live registrations (resp. the links of live
   registrations) satisfying ALL criteria, in index order; pagination is applied to that list, last *)
Theorem C20_lookup_all_criteria : forall st qs accept, reachable st ->
  let q := query_split qs in
  let eps := filter (fun r => forallb (fun c => ep_keep c r) (criteria_of q)) (get_endpoints st) in
  let links := filter (fun ec => forallb (fun c => res_keep c ec) (criteria_of q)) (res_pairs (get_endpoints st)) in
  (forall r, In r eps <-> live_reg st r /\ forall c, In c (criteria_of q) -> ep_keep c r = true) /\
  (forall e l, In (e, l) links <-> live_reg st e /\ In l (get_based_links e) /\ forall c, In c (criteria_of q) -> res_keep c (e, l) = true) /\
  ep_lookup st qs accept = match _paginate eps q with Raise e => Err e | Ok l => link_format_to_message accept (map get_host_link l) end /\
  res_lookup st qs accept = match _paginate (map snd links) q with Raise e => Err e | Ok l => link_format_to_message accept (map strip_anchor l) end.
Proof. exact lookup_all_criteria_reachable. Qed.
Print Assumptions C20_lookup_all_criteria.

(* every error answer to a registration, update, removal or registration-resource read is a 4.xx and leaves the directory
   unchanged (no 5.00 from these handlers in any reachable state) *)
Theorem C20_error_answers_are_4xx_and_harmless : forall st o st' e, reachable st -> is_lookup o = false -> step st o = (st', Err e) ->
  is_4xx (Err e) = true /\ st' = st.
Proof. exact error_answers_reachable. Qed.
Print Assumptions C20_error_answers_are_4xx_and_harmless.

(* a failing update_params has no effect at all and raises BadRequest (the validation precedes every mutation) *)
Theorem C20_update_params_fails_cleanly : forall r remote p init t seq r' e,
  update_params r remote p init t seq = UpFail r' e -> r' = r /\ e = BadRequest.
Proof. exact update_params_fail_clean. Qed.
Print Assumptions C20_update_params_fails_cleanly.

(* lookups are answered 2.05, 4.06 or 4.00: nothing is raised out of the filter stages or the pagination *)
Theorem C20_lookups_never_5xx : forall st q accept,
  (forall e, ep_lookup st q accept = Err e -> e = BadRequest) /\ (forall e, res_lookup st q accept = Err e -> e = BadRequest).
Proof. exact lookups_never_5xx. Qed.
Print Assumptions C20_lookups_never_5xx.

(* ---- REFINEMENT to the abstract directory of Model/C20Spec.v: a list of entries (ep, d) -> location, lt, base, parameters,
   links, instant of the latest successful write; changed only in the success branches of [d_step], an entry dropped once
   [written + lt + grace] has passed; no heap, no indexes, no timers. [abs] reads the entries off the concrete state. *)

(* every request and every passage of time commutes with abs and is answered as the abstract directory answers *)
Theorem C20_refinement_step : forall st o, reachable st -> nonneg_time o ->
  d_step (abs st) o = (abs (fst (step st o)), snd (step st o)).
Proof. exact refinement_step_reachable. Qed.
Print Assumptions C20_refinement_step.

(* THE PROPERTY AS ONE THEOREM, for every history of registrations, re-registrations, updates, removals, lookups and lifetime
   expiries (time never runs backwards): all answers are the abstract directory's answers, the state abstracts to its state, and
   the endpoint and resource lookups render exactly its entries — each within [latest successful write + lt + grace], with the
   links and parameters of that write, at most one per (ep, d), no two sharing a location *)
Theorem C20_refinement : forall ops, Forall nonneg_time ops ->
  let st := run_state empty_rd ops in
  let d := d_run_state empty_dir ops in
  map o_resp (run empty_rd ops) = d_run empty_dir ops /\
  abs st = d /\
  ep_lookup st [] None = Content (str_links (map (fun e => get_host_link (reg_of_entry e)) (d_entries d))) /\
  res_lookup st [] None = Content (str_links (map strip_anchor (flat_map (fun e => get_based_links (reg_of_entry e)) (d_entries d)))) /\
  Forall (fun e => d_now d < e_written e + (e_lt e + GRACE_PERIOD) * 1000000) (d_entries d) /\
  NoDup (map e_key (d_entries d)) /\ NoDup (map e_loc (d_entries d)).
Proof. exact refinement_all_histories. Qed.
Print Assumptions C20_refinement.

(* on the abstract directory itself: a request answered 4.xx leaves it unchanged; after every event all entries are alive *)
Theorem C20_spec_failed_request_keeps_directory : forall d o d' r, all_alive d -> d_step d o = (d', r) -> is_4xx r = true -> d' = d.
Proof. exact d_failed_unchanged. Qed.
Print Assumptions C20_spec_failed_request_keeps_directory.
Theorem C20_spec_entries_alive : forall d o, all_alive (fst (d_step d o)).
Proof. exact d_step_alive. Qed.
Print Assumptions C20_spec_entries_alive.

(* ---- round 5 *)
(* What a successful write sets, as equations over the request's parameters (independent of update_params' control flow): the
   lifetime, the base and whether it is explicit, every other parameter merged key by key; ep / d cannot be among them.
   [NoDup (map fst p)] holds for every parsed query (C20_query_keys_unique). *)
Theorem C20_write_sets_parameters : forall r remote p init t seq r', NoDup (map fst p) ->
  update_params r remote p init t seq = UpOk r' ->
  r_lt r' = match dget String.eqb p "lt" with
            | Some [Some s] => match parse_int s with Some n => n | None => r_lt r end
            | _ => r_lt r end /\
  (forall b, dget String.eqb p "base" = Some [Some b] -> r_base r' = b /\ r_base_explicit r' = true) /\
  (dget String.eqb p "base" = None -> r_base_explicit r' = r_base_explicit r /\
     (r_base_explicit r = false -> exists u, remote = Some u /\ r_base r' = u) /\
     (r_base_explicit r = true -> r_base r' = r_base r)) /\
  (forall k, k <> "lt"%string -> k <> "base"%string ->
     dget String.eqb (r_params r') k = match dget String.eqb p k with Some v => Some v | None => dget String.eqb (r_params r) k end) /\
  (dget String.eqb p "ep" = None /\ dget String.eqb p "d" = None).
Proof. exact write_sets_parameters. Qed.
Print Assumptions C20_write_sets_parameters.
Theorem C20_query_keys_unique : forall qs, NoDup (map fst (query_split qs)).
Proof. exact query_split_nodup. Qed.
Print Assumptions C20_query_keys_unique.
(* the same for the abstract directory of C20_refinement: the entry after a successful write, field by field *)
Theorem C20_spec_write_sets_parameters : forall e remote p init t e', NoDup (map fst p) -> write_params e remote p init t = Ok e' ->
  e_key e' = e_key e /\ e_loc e' = e_loc e /\ e_links e' = e_links e /\ e_written e' = t /\
  e_lt e' = match dget String.eqb p "lt" with
            | Some [Some s] => match parse_int s with Some n => n | None => e_lt e end
            | _ => e_lt e end /\
  (forall b, dget String.eqb p "base" = Some [Some b] -> e_base e' = b /\ e_explicit e' = true) /\
  (dget String.eqb p "base" = None -> e_explicit e' = e_explicit e /\
     (e_explicit e = false -> exists u, remote = Some u /\ e_base e' = u) /\ (e_explicit e = true -> e_base e' = e_base e)) /\
  (forall k, k <> "lt"%string -> k <> "base"%string ->
     dget String.eqb (e_params e') k = match dget String.eqb p k with Some v => Some v | None => dget String.eqb (e_params e) k end).
Proof. exact spec_write_sets_parameters. Qed.
Print Assumptions C20_spec_write_sets_parameters.

(* Declarative meaning of the lookup criteria used by C20_lookup_all_criteria: a registration (a link) satisfies a criterion iff
   one of its candidate values — the registration parameter of that name, that attribute of one of its resolved links, or for
   href the registration path / a link target — matches the criterion value: exactly, by prefix for "v*", item-wise for rt / if *)
Theorem C20_criterion_meaning_endpoint : forall c r, ep_keep c r = true <-> exists ox, ep_candidate c r ox /\ value_ok (c_m c) ox.
Proof. exact ep_keep_spec. Qed.
Print Assumptions C20_criterion_meaning_endpoint.
Theorem C20_criterion_meaning_resource : forall c e l, res_keep c (e, l) = true <-> exists ox, res_candidate c e l ox /\ value_ok (c_m c) ox.
Proof. exact res_keep_spec. Qed.
Print Assumptions C20_criterion_meaning_resource.
Theorem C20_criteria_of_query : forall q c, In c (criteria_of q) <->
  exists k vs v, In (k, vs) q /\ is_paging k = false /\ In v vs /\
    c = {| c_key := k; c_m := (make_matcher v, in_strs k ["if"; "rt"]%string); c_href := String.eqb k "href" |}.
Proof. exact criteria_of_spec. Qed.
Print Assumptions C20_criteria_of_query.

(* Observers of the lookup resources (the change callbacks of register_change_callback): whenever a request or the passage of
   time changes what the endpoint lookup or the resource lookup shows, the callbacks run at least once during that step
   (full strength since 3b8673f: a PUT that replaces only the links is announced too) *)
Theorem C20_lookup_changes_are_notified : forall st o st' r, reachable st -> nonneg_time o -> step st o = (st', r) ->
  (ep_lookup st' [] None <> ep_lookup st [] None \/ res_lookup st' [] None <> res_lookup st [] None) -> notify_count st o <> 0.
Proof. exact lookup_changes_notified_reachable. Qed.
Print Assumptions C20_lookup_changes_are_notified.
(* in particular every change of the set of listed registrations — registration, re-registration, removal, expiry *)
Theorem C20_listing_changes_are_notified : forall st o st' r, reachable st -> nonneg_time o -> step st o = (st', r) ->
  by_key st' <> by_key st -> 0 < notify_count st o.
Proof. exact listing_changes_notified_reachable. Qed.
Print Assumptions C20_listing_changes_are_notified.

(* ---- non-vacuity and witnesses (all by computation) *)
Definition lf (ls : list link) : body := {| b_cf := Some 40; b_payload := PLinks ls |}.
Definition nobody : body := {| b_cf := None; b_payload := PLinks [] |}.
Definition h1 : ostr := Some "coap://h1"%string.
Definition demo : list op :=
  [Register h1 ["ep=a"; "lt=100"]%string (lf [{| l_href := "/s/t"; l_attrs := [("rt", Some "temp")]%string |}]);
   Register h1 ["ep=b"; "d=x"; "et=q"]%string (lf []);
   Advance 50000000;
   UpdatePost ["1"; ""]%string h1 ["lt=60"]%string nobody;
   Register h1 ["ep=a"; "lt=abc"]%string (lf []);
   Advance 74999999].

(* a reachable state with two live registrations at distinct locations; the failed re-registration (lt=abc, 4.00) changed nothing *)
Example C20_demo_state :
  let st := run_state empty_rd demo in
  idx_by_key st = [("a", None, 1, 60); ("b", Some "x", 2, 90000)]%string /\ idx_by_path st = [(1, "a", None); (2, "b", Some "x")]%string /\
  ep_lookup st [] None = Content "</reg/1/>;ep=""a"";base=""coap://h1"";rt=""core.rd-ep"",</reg/2/>;ep=""b"";d=""x"";et=""q"";base=""coap://h1"";rt=""core.rd-ep"""%string /\
  res_lookup st [] None = Content "<coap://h1/s/t>;rt=""temp"""%string /\
  map o_resp (run empty_rd demo) = [Created 1; Created 2; Tick; Changed; Err BadRequest; Tick].
Proof. vm_compute. repeat split. Qed.
(* one microsecond later the first registration (updated at 50 s with lt=60: due at 125 s) is gone, the other untouched *)
Example C20_demo_expiry :
  idx_by_key (fst (step (run_state empty_rd demo) (Advance 1))) = [("b", Some "x", 2, 90000)]%string /\
  o_resp (last (run empty_rd (demo ++ [Register h1 ["ep=b"; "d=x"]%string (lf [])])) (observe empty_rd Tick)) = Created 2.
Proof. vm_compute. repeat split. Qed.
(* the abstract directory on the same history: same answers; two entries, written at 50 s (the update) and at 0 s *)
Example C20_demo_spec :
  d_run empty_dir demo = [Created 1; Created 2; Tick; Changed; Err BadRequest; Tick] /\
  map (fun e => (e_key e, e_loc e, e_lt e, e_written e)) (d_entries (d_run_state empty_dir demo))
    = [(("a", None), 1, 60, 50000000); (("b", Some "x"), 2, 90000, 0)]%string /\
  d_now (d_run_state empty_dir demo) = 124999999 /\ Forall nonneg_time demo.
Proof. vm_compute. repeat split; repeat constructor; discriminate. Qed.
Example C20_reachable_nonvacuous : reachable (run_state empty_rd demo) /\ is_4xx (Err BadRequest) = true.
Proof. split; [exists demo; reflexivity|reflexivity]. Qed.

(* writes with a valueless lt / base, and an update repeating the implicit base (fixed in /repo by f8ef49b): 4.00 with no
   effect, resp. 2.04 making the base explicit *)
Example C20_valueless_parameters_rejected_cleanly :
  let st := run_state empty_rd [Register h1 ["ep=a"; "lt=100"]%string (lf [])] in
  step st (UpdatePost ["1"; ""]%string h1 ["lt=555"; "base"]%string nobody) = (st, Err BadRequest) /\
  step st (UpdatePost ["1"; ""]%string h1 ["lt"]%string nobody) = (st, Err BadRequest) /\
  snd (step st (Register h1 ["ep=c"; "base"]%string (lf []))) = Err BadRequest /\
  snd (step st (UpdatePost ["1"; ""]%string h1 ["base=coap://h1"]%string nobody)) = Changed /\
  r_base_explicit (obj st 0) = false /\ r_base_explicit (obj (fst (step st (UpdatePost ["1"; ""]%string h1 ["base=coap://h1"]%string nobody))) 0) = true.
Proof. vm_compute. repeat split. Qed.
(* several criteria are all applied, in any order, and pagination comes last (was the open finding until 212d645) *)
Example C20_multi_criteria_lookup :
  let st := run_state empty_rd [Register h1 ["ep=a"; "d=x"]%string (lf []); Register h1 ["ep=b"; "d=x"]%string (lf []); Register h1 ["ep=a"; "d=y"]%string (lf [])] in
  ep_lookup st ["ep=a"; "d=x"]%string None = Content "</reg/1/>;ep=""a"";d=""x"";base=""coap://h1"";rt=""core.rd-ep"""%string /\
  ep_lookup st ["d=x"; "ep=a"]%string None = ep_lookup st ["ep=a"; "d=x"]%string None /\
  ep_lookup st ["ep=a"; "count=5"]%string None = ep_lookup st ["ep=a"]%string None /\
  ep_lookup st ["ep=a"; "count=1"; "page=1"]%string None = Content "</reg/3/>;ep=""a"";d=""y"";base=""coap://h1"";rt=""core.rd-ep"""%string /\
  ep_lookup st ["ep=a"; "ep=b"]%string None = Content ""%string.
Proof. vm_compute. repeat split. Qed.

(* a PUT that replaces only the links is answered 2.04, changes what the resource lookup shows and is announced once (fixed in
   /repo by 3b8673f); with a changed parameter as well it is announced twice; registration 1, re-registration 2, removal 1 *)
Example C20_put_links_notified :
  let st := run_state empty_rd [Register h1 ["ep=a"]%string (lf [{| l_href := "/s1"; l_attrs := [] |}])] in
  let o := UpdatePut ["1"; ""]%string h1 [] (lf [{| l_href := "/s2"; l_attrs := [] |}]) in
  snd (step st o) = Changed /\ res_lookup st [] None = Content "<coap://h1/s1>"%string /\
  res_lookup (fst (step st o)) [] None = Content "<coap://h1/s2>"%string /\ notify_count st o = 1 /\
  notify_count st (UpdatePut ["1"; ""]%string h1 ["et=x"]%string (lf [{| l_href := "/s2"; l_attrs := [] |}])) = 2 /\
  notify_count st (UpdatePost ["1"; ""]%string h1 [] nobody) = 0 /\
  run_notified empty_rd [Register h1 ["ep=a"]%string (lf []); Register h1 ["ep=a"]%string (lf []); Delete ["1"; ""]%string] = [1; 2; 1].
Proof. vm_compute. repeat split. Qed.
