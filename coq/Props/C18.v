(* C18 — shutdown at any moment fails pending work and leaves nothing running.
   Only statements here; every proof is [exact <lemma of Proofs/C18.v>]. *)
From Verif Require Import Lib.Py Lib.Tactics Model.C18 Proofs.C18 Proofs.C18Inv Proofs.C18Req Proofs.C18R6.
Open Scope Z_scope.

(* The Shutdown step, from any state that is not yet shut down and whose cancellable timers are all referenced from
   _active_exchanges / _piggyback_opportunities: every outstanding client request fails with LibraryShutdown (an
   observe request that had no response yet additionally ends its observation with NotObservable), every running
   observation ends with LibraryShutdown, every running server handler is cancelled, shutdown returns, nothing is
   sent and nothing raises; afterwards no cancellable timer is left. *)
Theorem C18_shutdown_fails_all : forall s xs, exchanges (mm s) = Some xs -> timers_owned (mm s) ->
  Down (fst (step s Shutdown)) /\
  snd (step s Shutdown) = map (fun i => OHCancel (i_h i)) (ilist (tm s)) ++ flat_map shutdown_outcome (olist (tm s)) ++ [OShutdownDone] /\
  forgets (mm (fst (step s Shutdown))) = forgets (mm s) /\ recents (mm (fst (step s Shutdown))) = recents (mm s) /\
  next_tid (mm (fst (step s Shutdown))) = next_tid (mm s).
Proof. exact shutdown_step. Qed.
Print Assumptions C18_shutdown_fails_all.

(* After shutdown, for every sequence of events that can still reach the context (any timer, any lapse of time, late
   handler completions, new requests, cancellations, transport errors): no datagram is sent, no exception is raised,
   nothing is delivered or started; the only outputs are the immediate LibraryShutdown failures of new requests. *)
Theorem C18_silent_after_shutdown : forall es s, Down s -> G (mm s) -> forallb in_scope es = true ->
  forallb (forallb quiet) (snd (run s es)) = true /\ Down (fst (run s es)) /\ G (mm (fst (run s es))).
Proof. exact run_down. Qed.
Print Assumptions C18_silent_after_shutdown.
Theorem C18_quiet_means_silent : forall o, quiet o = true -> is_send o = false /\ is_exc o = false.
Proof. exact quiet_not_send. Qed.
Print Assumptions C18_quiet_means_silent.

(* a request submitted after shutdown fails at once with LibraryShutdown and changes nothing *)
Theorem C18_request_after_shutdown_fails : forall s q r mt observe, outgoing (tm s) = None ->
  tm_request s q r mt observe = (s, OFail q LibraryShutdown :: (if observe then [OObsEnd q NotObservable] else [])).
Proof. exact request_after_shutdown. Qed.
Print Assumptions C18_request_after_shutdown_fails.

(* nothing keeps running: the remaining (deduplication-expiry) timers run out, one per Fire, and none is re-armed *)
Theorem C18_timers_run_out : forall n s, Down s -> G (mm s) -> (length (forgets (mm s)) <= n)%nat ->
  pending (mm (fst (run s (repeat Fire n)))) = [].
Proof. exact timers_run_out. Qed.
Print Assumptions C18_timers_run_out.

(* other contexts in the same process: NOTE — these two statements restate the definition of [step2] (a pair of
   states with no shared component; an event addressed to one context is applied to that component only), so no
   definition of [step] could falsify them.  They record that the model has no process-wide state; the evidence that
   the implementation has none that matters (module globals, the shared event loop's timer queue) is the bystander
   context of the correspondence run and the survivor check of the twoctx stream, not these theorems. *)
Theorem C18_contexts_independent_state : forall es a b,
  fst (fst (run2 (a, b) es)) = fst (run a (events_of false es)) /\
  snd (fst (run2 (a, b) es)) = fst (run b (events_of true es)).
Proof. exact run2_independent. Qed.
Print Assumptions C18_contexts_independent_state.
Theorem C18_contexts_independent_outputs : forall es a b,
  outputs_of false es (snd (run2 (a, b) es)) = snd (run a (events_of false es)) /\
  outputs_of true es (snd (run2 (a, b) es)) = snd (run b (events_of true es)).
Proof. exact run2_outputs. Qed.
Print Assumptions C18_contexts_independent_outputs.

(* the hypothesis G of the theorems above (every pending deduplication-expiry timer still finds its key, so that its
   _recent_messages.pop(key) cannot raise) holds in every state reachable from a fresh context, by any events at all *)
Theorem C18_expiry_timers_find_their_key : forall es u m t, G (mm (fst (run (init u m t) es))).
Proof. exact reachable_G. Qed.
Print Assumptions C18_expiry_timers_find_their_key.

(* every retransmission / empty-ACK timer of a context that has not been shut down is referenced from
   _active_exchanges or _piggyback_opportunities (so MessageManager.shutdown can cancel it), in every state reachable
   from a fresh context by any events.  Rests on the NSTART bookkeeping invariant WFm of Proofs/C18Inv.v. *)
Theorem C18_timers_always_owned : forall es u m t, forallb not_shutdown es = true ->
  timers_owned (mm (fst (run (init u m t) es))) /\ exists xs, exchanges (mm (fst (run (init u m t) es))) = Some xs.
Proof. exact reachable_owned. Qed.
Print Assumptions C18_timers_always_owned.

(* in every reachable state, a submitted request that has not been settled (no response / failure / cancellation; for an
   observe request: no end of the observation) has its entry in outgoing_requests *)
Theorem C18_unsettled_requests_are_outstanding : forall es u m t,
  NoDup (map fst (reqs_of es)) -> 0 <= t -> t + Z.of_nat (length es) < 2 ^ 64 ->
  TI (tm (fst (run (init u m t) es))) /\ tracked (reqs_of es) (tm (fst (run (init u m t) es))) (concat (snd (run (init u m t) es))).
Proof. exact unsettled_requests_are_outstanding. Qed.
Print Assumptions C18_unsettled_requests_are_outstanding.

(* THE PROPERTY over whole histories, from a fresh context, with no hypothesis on states: for every [before] (any
   events, datagrams included) and every [after] (in-scope events), where the only conditions are on the event lists
   themselves (Shutdown is not called twice, request labels are distinct, fewer than 2^64 tokens are drawn):
   the Shutdown step cancels every handler and fails every table entry with a library error and returns; every
   request ever submitted (ClientRequest or ClientRequestSlow) is settled by then — or is still inside Context.request's
   remote lookup, where no table knows it (open finding C18:resolving-request-left-hanging; see the two statements below);
   afterwards nothing is sent, raised, delivered or started; the remaining timers run out. *)
Theorem C18_shutdown_at_any_moment : forall u m t before after, wf_history t before after ->
  let s := fst (run (init u m t) before) in
  let outs := concat (snd (run (init u m t) before)) in
  let s' := fst (step s Shutdown) in
  let out := snd (step s Shutdown) in
  out = map (fun i => OHCancel (i_h i)) (ilist (tm s)) ++ flat_map shutdown_outcome (olist (tm s)) ++ [OShutdownDone] /\
  forallb lib_outcome out = true /\
  (forall q ob, In (q, ob) (reqs_of before) ->
     (exists o, In o (outs ++ out) /\ settles ob q o = true) \/
     (exists x, In x (resolving (tm s')) /\ rlabel x = q /\ snd x = ob)) /\
  forallb (forallb quiet) (snd (run s' after)) = true /\
  pending (mm (fst (run (fst (run s' after)) (repeat Fire (length (forgets (mm (fst (run s' after))))))))) = [].
Proof. exact shutdown_at_any_moment. Qed.
Print Assumptions C18_shutdown_at_any_moment.
(* SHUTDOWN_TIMEOUT (clause "shutdown itself completes", protocol.py:514-536), over whole histories from a fresh context: with a
   transport whose shutdown() never returns ([CShutdown false] of the layered machine [cstep]), for every [before] without Shutdown
   and every in-scope [after]: at the call every handler is cancelled and every outstanding request / observation fails with a
   library error exactly as with a prompt transport (only the return is missing); afterwards every output is either quiet or
   the return of Context.shutdown, which happens exactly once (count + still-waiting = 1), and Context.shutdown is no longer
   waiting as soon as the clock has reached call time + SHUTDOWN_TIMEOUT. *)
Theorem C18_shutdown_times_out : forall u m t before after,
  forallb not_shutdown before = true -> forallb in_scope after = true ->
  let s := fst (run (init u m t) before) in
  let r1 := cstep {| c_base := s; c_wait := None |} (CShutdown false) in
  let r2 := crun (fst r1) (map CEvent after) in
  snd r1 = map (fun i => OHCancel (i_h i)) (ilist (tm s)) ++ flat_map shutdown_outcome (olist (tm s)) /\
  forallb (forallb quiet_or_done) (snd r2) = true /\
  (count_done (concat (snd r2)) + waiting (fst r2) = 1)%nat /\
  (now (mm s) + SHUTDOWN_TIMEOUT <= now (mm (c_base (fst r2))) -> c_wait (fst r2) = None /\ count_done (concat (snd r2)) = 1%nat).
Proof. exact shutdown_times_out. Qed.
Print Assumptions C18_shutdown_times_out.
Theorem C18_hung_shutdown_settles_requests : forall u m t before after, wf_history t before after ->
  let s := fst (run (init u m t) before) in
  let outs := concat (snd (run (init u m t) before)) in
  let r1 := cstep {| c_base := s; c_wait := None |} (CShutdown false) in
  forallb lib_outcome (snd r1) = true /\
  forall q ob, In (q, ob) (reqs_of before) ->
     (exists o, In o (outs ++ snd r1) /\ settles ob q o = true) \/
     (exists x, In x (resolving (tm (c_base (fst r1)))) /\ rlabel x = q /\ snd x = ob).
Proof. exact hung_shutdown_settles_requests. Qed.
Print Assumptions C18_hung_shutdown_settles_requests.
Example C18_shutdown_times_out_example :
  let c1 := fst (cstep {| c_base := busy_state; c_wait := None |} (CShutdown false)) in
  c_wait c1 = Some (100000 + SHUTDOWN_TIMEOUT) /\
  snd (crun c1 [CEvent (Advance 2999999); CEvent (ClientRequest 7 1 CON false); CEvent (Advance 1); CEvent (Advance 300000000)])
    = [[]; [OFail 7 LibraryShutdown]; [OShutdownDone]; []].
Proof. exact shutdown_times_out_example. Qed.

(* what the code guarantees for a request whose remote lookup outlives shutdown: it fails with LibraryShutdown at the
   moment the lookup returns *)
Theorem C18_resolved_after_shutdown_fails : forall s q r mt ob, outgoing (tm s) = None ->
  find (fun x => fst (fst (fst x)) =? q) (resolving (tm s)) = Some (q, r, mt, ob) ->
  snd (step s (Resolved q)) = OFail q LibraryShutdown :: (if ob then [OObsEnd q NotObservable] else []) /\
  ~ In q (map rlabel (resolving (tm (fst (step s (Resolved q)))))).
Proof. exact resolved_after_shutdown. Qed.
Print Assumptions C18_resolved_after_shutdown_fails.
(* ... and what it does not: until then the request has no outcome, whatever time passes (refutes the reading "every
   outstanding request terminates within the shutdown time-out"; replayed on the implementation by the corpus) *)
Theorem C18_resolving_request_not_failed_refuted :
  let r := run (init 2000000 0 0) [ClientRequestSlow 1 1 CON false; Shutdown; Advance 300000000] in
  In OShutdownDone (concat (snd r)) /\ (forall o, In o (concat (snd r)) -> settles false 1 o = false) /\
  resolving (tm (fst r)) = [(1, 1, CON, false)] /\
  snd (step (fst r) (Resolved 1)) = [OFail 1 LibraryShutdown].
Proof. exact resolving_request_not_failed_refuted. Qed.
Print Assumptions C18_resolving_request_not_failed_refuted.

Theorem C18_orphans_check_sound : forall s, orphans s = 0 -> timers_owned s.
Proof. exact orphans_zero. Qed.
Print Assumptions C18_orphans_check_sound.

(* the code before the F13 repair violates silence: a pending empty-ACK timer fires after shutdown returned *)
Theorem C18_f13_refuted :
  let s := fst (run (init 2000000 0 0) f13_history) in
  let s' := fst (shutdown_f13 s) in
  In OShutdownDone (snd (shutdown_f13 s)) /\
  snd (fire s') = [OSend {| m_type := ACK; m_code := EMPTY; m_mid := 100; m_token := 0; m_obs := None; m_remote := 1 |}] /\
  snd (fire (fst (shutdown s))) = [].
Proof. exact f13_refuted. Qed.
Print Assumptions C18_f13_refuted.

(* non-vacuity of C18_shutdown_at_any_moment: a busy history and a continuation satisfy wf_history *)
Example C18_busy_history_wf : wf_history 0 busy_history [Fire; Advance 300000000; ClientRequest 9 1 CON true; HandlerRespond 0 69 true None true; Resolved 9; ClientRequestSlow 10 2 NON false; TransportError 1].
Proof. exact busy_history_wf. Qed.

(* non-vacuity: a reachable busy state (4 outstanding requests of which one running observation and two queued behind
   NSTART, 3 running handlers, an exchange awaiting its ACK, a pending empty-ACK timer, a separate response in the
   backlog, 3 deduplication entries) satisfies the hypotheses, and this is what Shutdown does to it *)
Example C18_busy_state_nonvacuous :
  exists xs, exchanges (mm busy_state) = Some xs /\ xs <> [] /\ orphans (mm busy_state) = 0 /\
  length (olist (tm busy_state)) = 4%nat /\ length (ilist (tm busy_state)) = 3%nat /\ length (piggys (mm busy_state)) = 1%nat /\
  length (timers (mm busy_state)) = 2%nat /\ length (forgets (mm busy_state)) = 3%nat /\ backlogs (mm busy_state) <> [] /\
  snd (step busy_state Shutdown) =
    [OHCancel 0; OHCancel 1; OHCancel 2; OObsEnd 1 LibraryShutdown; OFail 2 LibraryShutdown; OFail 3 LibraryShutdown;
     OFail 4 LibraryShutdown; OObsEnd 4 NotObservable; OShutdownDone].
Proof. exact busy_state_facts. Qed.
Example C18_busy_state_owned : timers_owned (mm busy_state).
Proof. exact busy_state_owned. Qed.
Example C18_down_nonvacuous : Down (fst (step busy_state Shutdown)) /\ G (mm (fst (step busy_state Shutdown))) /\
  forgets (mm (fst (step busy_state Shutdown))) <> [].
Proof. exact down_nonvacuous. Qed.

(* ---- round 7: the model's transport constants and message-ID successor are the translated source's
   (Gen/c03_constants.v <- numbers/constants.py TransportTuning, microseconds = seconds * 10^6; Gen/c14_message_id.v <- MessageManager._next_message_id) *)
From Verif Require Gen.c03_constants Gen.c14_message_id.
From Verif Require Proofs.C18Tie.
Theorem C18_exchange_lifetime_is_source :
  QArith_base.Qeq (QArith_base.inject_Z EXCHANGE_LIFETIME) (QArith_base.Qmult (c03_constants.EXCHANGE_LIFETIME c03_constants.default_transport_tuning) (QArith_base.inject_Z 1000000)).
Proof. exact C18Tie.exchange_lifetime_is_source. Qed.
Print Assumptions C18_exchange_lifetime_is_source.
Theorem C18_empty_ack_delay_is_source :
  QArith_base.Qeq (QArith_base.inject_Z EMPTY_ACK_DELAY) (QArith_base.Qmult (c03_constants.tt_EMPTY_ACK_DELAY c03_constants.default_transport_tuning) (QArith_base.inject_Z 1000000)).
Proof. exact C18Tie.empty_ack_delay_is_source. Qed.
Print Assumptions C18_empty_ack_delay_is_source.
Theorem C18_observation_reset_time_is_source :
  OBSERVATION_RESET_TIME = c03_constants.tt_OBSERVATION_RESET_TIME c03_constants.default_transport_tuning * 1000000.
Proof. exact C18Tie.observation_reset_time_is_source. Qed.
Print Assumptions C18_observation_reset_time_is_source.
Theorem C18_max_retransmit_is_source :
  MAX_RETRANSMIT = c03_constants.tt_MAX_RETRANSMIT c03_constants.default_transport_tuning.
Proof. exact C18Tie.max_retransmit_is_source. Qed.
Print Assumptions C18_max_retransmit_is_source.
Theorem C18_next_message_id_is_source :
  forall s, c14_message_id.next_message_id {| c14_message_id.mmids_message_id := message_id s |} = Ok ({| c14_message_id.mmids_message_id := message_id (fst (_next_message_id s)) |}, snd (_next_message_id s)).
Proof. exact C18Tie.next_message_id_is_source. Qed.
Print Assumptions C18_next_message_id_is_source.
