(* C03 — confirmable messages: bounded exponential back-off that always terminates.
   Only statements here; every proof is [exact <lemma of Proofs/C03*.v>].

   Setting: [run] of Model/C03.v from the initial state, over EVERY event list made of
     ERequest rid r tn   a CON request (fresh request id, any remote, any admissible tuning tn attached to the message),
     ERecv r is_rst mid  an empty ACK / RST datagram from any remote with any message id,
     EWaitUntil / EFire / EFireDue   passage of time and timer callbacks (timers fire exactly when due),
     EError r            the transport reports an error for r (MessageManager.dispatch_error),
     ECancel rid         the requester cancels Request.response,
     EResponse r ty mid rid   a 2.05 response from r (piggy-backed ACK / separate CON / NON) carrying the token of request rid,
     ERefuse r on        the transport starts / stops refusing datagrams to r synchronously (udp6 sendmsg failing: dispatch_error runs
                          inside message_interface.send); every theorem below holds for runs with such transports,
   and every scripted random stream in [0,1].  [trace_of] is the list of outputs (datagrams sent with their time, request
   failures with their time); times are integer microseconds.  tn = (ACK_TIMEOUT us, ACK_RANDOM_FACTOR = num/den, MAX_RETRANSMIT). *)
From Coq Require Import QArith String.
From Verif Require Import Lib.Py Lib.Tactics Gen.c03_constants Model.C03 Model.C03const.
From Verif Require Import Proofs.C03 Proofs.C03struct Proofs.C03hist Proofs.C03main Proofs.C03const Proofs.C03R6 Proofs.C03R6b.
Open Scope Z_scope.
Definition dflt0 : tuning := {| ACK_TIMEOUT := 2000000; ARF_num := 3; ARF_den := 2; MAX_RETRANSMIT := 4 |}.

(* 1. at most 1 + MAX_RETRANSMIT transmissions of a message, all of them the identical message *)
Theorem C03_transmissions_bounded : forall mid0 draws evs t m, wf_run draws evs -> In (OSend t m) (trace_of mid0 draws evs) ->
  (forall t' m', In (OSend t' m') (trace_of mid0 draws evs) -> m_rid m' = m_rid m -> m' = m) /\
  Z.of_nat (length (copies (m_rid m) (trace_of mid0 draws evs))) <= 1 + MAX_RETRANSMIT (m_tuning m).
Proof. exact transmissions_bounded. Qed.
Print Assumptions C03_transmissions_bounded.

(* 2. the copies of a message leave at T0, T0 + t, T0 + 3t, T0 + 7t, ... (copy k at T0 + t*(2^k - 1)) where the initial
      timeout t lies in [ACK_TIMEOUT, ACK_TIMEOUT * ACK_RANDOM_FACTOR]; so the first gap is t and every later gap is twice the previous *)
Theorem C03_gaps_double : forall mid0 draws evs t m, wf_run draws evs -> In (OSend t m) (trace_of mid0 draws evs) ->
  exists T0 t0 n, copies (m_rid m) (trace_of mid0 draws evs) = sched_of m T0 t0 n /\ (0 < n)%nat /\
    ACK_TIMEOUT (m_tuning m) <= t0 /\ t0 * ARF_den (m_tuning m) <= ACK_TIMEOUT (m_tuning m) * ARF_num (m_tuning m).
Proof. exact gaps_double. Qed.
Print Assumptions C03_gaps_double.
Theorem C03_sched_gaps : forall T0 t k, 0 <= k ->
  (T0 + t * (2 ^ (k + 1) - 1)) - (T0 + t * (2 ^ k - 1)) = t * 2 ^ k /\
  (T0 + t * (2 ^ (k + 2) - 1)) - (T0 + t * (2 ^ (k + 1) - 1)) = 2 * ((T0 + t * (2 ^ (k + 1) - 1)) - (T0 + t * (2 ^ k - 1))).
Proof. exact sched_gaps. Qed.
Print Assumptions C03_sched_gaps.

(* 3. if no ACK / RST with the message's (remote, mid) ever arrives: either the exchange is still waiting for its next timer, which
      is not overdue (the clock never passes a pending timer), or all 1 + MAX_RETRANSMIT copies were sent and the request failed
      with ConRetransmitsExceeded exactly at T0 + t*(2^(MAX_RETRANSMIT+1) - 1), one more doubled interval after the last copy *)
Theorem C03_gives_up : forall mid0 draws evs t m, wf_run draws evs -> In (OSend t m) (trace_of mid0 draws evs) ->
  ~ In (m_remote m, m_mid m) (recv_keys evs) ->       (* no ACK / RST / piggy-backed response with its (remote, mid) *)
  ~ In (err_key (m_remote m)) (recv_keys evs) ->      (* no transport error reported for its remote *)
  ~ In (gone_key (m_rid m)) (recv_keys evs) ->        (* the request was neither cancelled nor answered by a separate response *)
  exists T0 t0 n, copies (m_rid m) (trace_of mid0 draws evs) = sched_of m T0 t0 n /\ (0 < n)%nat /\ range (m_tuning m) t0 /\
    Z.of_nat n <= MAX_RETRANSMIT (m_tuning m) + 1 /\
    ( (exists e, In e (active_exchanges (final_of mid0 draws evs)) /\ h_message (e_timer e) = m /\
                 h_due (e_timer e) = T0 + t0 * (2 ^ Z.of_nat n - 1) /\ now (final_of mid0 draws evs) <= h_due (e_timer e)) \/
      (Z.of_nat n = MAX_RETRANSMIT (m_tuning m) + 1 /\
       In (OFail (T0 + t0 * (2 ^ (MAX_RETRANSMIT (m_tuning m) + 1) - 1)) (m_rid m) ConRetransmitsExceeded) (trace_of mid0 draws evs)) \/
      (* ... or a (re)transmission was refused by the transport and the request failed with NetworkError *)
      (exists tf, In (OFail tf (m_rid m) NetworkError) (trace_of mid0 draws evs)) ).
Proof. exact gives_up. Qed.
Print Assumptions C03_gives_up.
(* 3a (round 5, audit gap 1). Where a NetworkError failure can come from: on a transport that never refuses ([no_refusal]: no `ERefuse _ true`
   in the event list) it needs a transport error report; holds for EVERY event list, no well-formedness needed *)
Theorem C03_network_error_has_cause : forall mid0 draws evs tf rid, no_refusal evs ->
  In (OFail tf rid NetworkError) (trace_of mid0 draws evs) -> exists r, In (EError r) evs.
Proof. exact network_error_has_cause. Qed.
Print Assumptions C03_network_error_has_cause.
(* ... hence the give-up clause on a plain transport (no refusal, no transport error, no ACK / RST for the message, request neither
   cancelled nor answered) has exactly the two outcomes of the property text, and nobody fails with NetworkError.
   NOT proved: that this is the ONLY failure of the request (uniqueness / no other exception class) -- that is C02/C09's at-most-once
   statement and would need an invariant tying each pending request to the remote of its message *)
Theorem C03_gives_up_plain : forall mid0 draws evs t m, wf_run draws evs -> no_refusal evs -> (forall r, ~ In (EError r) evs) ->
  In (OSend t m) (trace_of mid0 draws evs) ->
  ~ In (m_remote m, m_mid m) (recv_keys evs) -> ~ In (err_key (m_remote m)) (recv_keys evs) -> ~ In (gone_key (m_rid m)) (recv_keys evs) ->
  exists T0 t0 n, copies (m_rid m) (trace_of mid0 draws evs) = sched_of m T0 t0 n /\ (0 < n)%nat /\ range (m_tuning m) t0 /\
    Z.of_nat n <= MAX_RETRANSMIT (m_tuning m) + 1 /\
    ( (exists e, In e (active_exchanges (final_of mid0 draws evs)) /\ h_message (e_timer e) = m /\
                 h_due (e_timer e) = T0 + t0 * (2 ^ Z.of_nat n - 1) /\ now (final_of mid0 draws evs) <= h_due (e_timer e)) \/
      (Z.of_nat n = MAX_RETRANSMIT (m_tuning m) + 1 /\
       In (OFail (T0 + t0 * (2 ^ (MAX_RETRANSMIT (m_tuning m) + 1) - 1)) (m_rid m) ConRetransmitsExceeded) (trace_of mid0 draws evs)) ) /\
    forall tf rid, ~ In (OFail tf rid NetworkError) (trace_of mid0 draws evs).
Proof. exact gives_up_plain. Qed.
Print Assumptions C03_gives_up_plain.
(* 3a' (round 6). The same per remote: a NetworkError failure of request rid needs a transport error for the very remote rid was addressed
   to (pending requests stay tied to their ERequest: outgoing_requests only shrinks); EVERY event list *)
Theorem C03_network_error_for_remote : forall mid0 draws evs tf rid, no_refusal evs ->
  In (OFail tf rid NetworkError) (trace_of mid0 draws evs) ->
  exists r tn, In (ERequest rid r tn) evs /\ In (EError r) evs.
Proof. exact network_error_for_remote. Qed.
Print Assumptions C03_network_error_for_remote.
(* ... so the give-up clause only needs "no transport error for the remote THIS request was addressed to" *)
Theorem C03_gives_up_plain_remote : forall mid0 draws evs t m, wf_run draws evs -> no_refusal evs ->
  (forall r tn, In (ERequest (m_rid m) r tn) evs -> ~ In (EError r) evs) ->
  In (OSend t m) (trace_of mid0 draws evs) ->
  ~ In (m_remote m, m_mid m) (recv_keys evs) -> ~ In (err_key (m_remote m)) (recv_keys evs) -> ~ In (gone_key (m_rid m)) (recv_keys evs) ->
  exists T0 t0 n, copies (m_rid m) (trace_of mid0 draws evs) = sched_of m T0 t0 n /\ (0 < n)%nat /\ range (m_tuning m) t0 /\
    Z.of_nat n <= MAX_RETRANSMIT (m_tuning m) + 1 /\
    ( (exists e, In e (active_exchanges (final_of mid0 draws evs)) /\ h_message (e_timer e) = m /\
                 h_due (e_timer e) = T0 + t0 * (2 ^ Z.of_nat n - 1) /\ now (final_of mid0 draws evs) <= h_due (e_timer e)) \/
      (Z.of_nat n = MAX_RETRANSMIT (m_tuning m) + 1 /\
       In (OFail (T0 + t0 * (2 ^ (MAX_RETRANSMIT (m_tuning m) + 1) - 1)) (m_rid m) ConRetransmitsExceeded) (trace_of mid0 draws evs)) ) /\
    forall tf, ~ In (OFail tf (m_rid m) NetworkError) (trace_of mid0 draws evs).
Proof. exact gives_up_plain_remote. Qed.
Print Assumptions C03_gives_up_plain_remote.
(* 3a'' (round 6). "The only failure of the request": over every well-formed run -- refusing transports, transport errors, RST, give-up and
   the collateral failures of a remote's other requests included -- the trace contains at most one failure output per request id
   ([fails rid tr] counts the OFail outputs of rid). With C03_gives_up(_plain): if the request failed at the deadline with
   ConRetransmitsExceeded, that is its only failure *)
Theorem C03_request_fails_at_most_once : forall mid0 draws evs rid, wf_run draws evs -> (fails rid (trace_of mid0 draws evs) <= 1)%nat.
Proof. exact request_fails_at_most_once. Qed.
Print Assumptions C03_request_fails_at_most_once.
Example C03_fails_counts : fails 1 [OFail 5 1 MessageError; OSend 0 {| m_remote := 0; m_mid := 0; m_rid := 1; m_tuning := dflt0 |}; OFail 7 1 NetworkError; OFail 7 2 NetworkError] = 2%nat.
Proof. reflexivity. Qed.
(* 3b (audit gap 8) "instead of hanging": once no exchange is left in the message layer, the request has failed (at the deadline, after
   all 1+R copies, or through a refusal); and firing the pending timer of an exchange with retransmissions left re-arms exactly that
   exchange with counter + 1 and doubled timeout, so R+1 firings reach the give-up *)
Theorem C03_quiescent_means_failed : forall mid0 draws evs t m, wf_run draws evs -> In (OSend t m) (trace_of mid0 draws evs) ->
  ~ In (m_remote m, m_mid m) (recv_keys evs) -> ~ In (err_key (m_remote m)) (recv_keys evs) -> ~ In (gone_key (m_rid m)) (recv_keys evs) ->
  active_exchanges (final_of mid0 draws evs) = [] ->
  (exists T0 t0, copies (m_rid m) (trace_of mid0 draws evs) = sched_of m T0 t0 (Z.to_nat (MAX_RETRANSMIT (m_tuning m) + 1)) /\
    In (OFail (T0 + t0 * (2 ^ (MAX_RETRANSMIT (m_tuning m) + 1) - 1)) (m_rid m) ConRetransmitsExceeded) (trace_of mid0 draws evs)) \/
  (exists tf, In (OFail tf (m_rid m) NetworkError) (trace_of mid0 draws evs)).
Proof. exact quiescent_means_failed. Qed.
Print Assumptions C03_quiescent_means_failed.
Theorem C03_fire_progress : forall seen st h st' o, Struct seen st -> next_timer st = Some h ->
  h_counter h < MAX_RETRANSMIT (m_tuning (h_message h)) -> is_refusing st (m_remote (h_message h)) = false ->
  step st EFire = (st', o) ->
  let m := h_message h in
  o = [OSend (Z.max (now st) (h_due h)) m] /\
  exists mon, xget (m_remote m, m_mid m) (active_exchanges st') =
    Some (mon, {| h_due := Z.max (now st) (h_due h) + h_timeout h * 2; h_seq := next_seq st; h_message := m;
                  h_timeout := h_timeout h * 2; h_counter := h_counter h + 1 |}).
Proof. exact fire_progress. Qed.
Print Assumptions C03_fire_progress.
(* ... and that instant is never later than MAX_TRANSMIT_WAIT (the last copy never later than MAX_TRANSMIT_SPAN) after the first
   copy, with MAX_TRANSMIT_WAIT / MAX_TRANSMIT_SPAN being the code of numbers/constants.py translated on this run *)
Theorem C03_giveup_within_MAX_TRANSMIT_WAIT : forall tn t, wf_tuning tn -> range tn t ->
  (q_of_us (t * (2 ^ (MAX_RETRANSMIT tn + 1) - 1)) <= MAX_TRANSMIT_WAIT (tt_of tn))%Q /\
  (q_of_us (t * (2 ^ MAX_RETRANSMIT tn - 1)) <= MAX_TRANSMIT_SPAN (tt_of tn))%Q.
Proof. exact giveup_within_MAX_TRANSMIT_WAIT. Qed.
Print Assumptions C03_giveup_within_MAX_TRANSMIT_WAIT.
(* ... and ConRetransmitsExceeded is a TimeoutError and a NetworkError, MessageError (RST) a NetworkError (class table of error.py) *)
Theorem C03_error_classes :
  is_subclass "ConRetransmitsExceeded" "TimeoutError" = true /\ is_subclass "ConRetransmitsExceeded" "NetworkError" = true /\
  is_subclass "TimeoutError" "NetworkError" = true /\ is_subclass "MessageError" "NetworkError" = true /\
  is_subclass "NetworkError" "Error" = true /\ is_subclass "MessageError" "TimeoutError" = false.
Proof. exact error_classes. Qed.
Print Assumptions C03_error_classes.

(* 4. an ACK / RST whose (remote, mid) is that of an outstanding exchange: no further copy of that message in this step or in
      any continuation; an RST fails the request with MessageError at that instant (unless it was cancelled / answered before); an ACK
      does not fail it -- except that, when the ACK releases a backlogged message which a refusing transport rejects, the
      dispatch_error for that remote fails the still-pending ACKed request with NetworkError *)
Theorem C03_ack_stops : forall mid0 draws evs1 r b mid evs2 mon h,
  wf_run draws (evs1 ++ ERecv r b mid :: evs2) ->
  xget (r, mid) (active_exchanges (final_of mid0 draws evs1)) = Some (mon, h) ->
  let st1 := final_of mid0 draws evs1 in
  let '(st2, o) := step st1 (ERecv r b mid) in
  let '(st3, os) := run st2 evs2 in
  mon = m_rid (h_message h) /\ copies mon (o ++ concat os) = [] /\
  (if b then In (gone_key mon) (recv_keys evs1) \/ In (OFail (now st1) mon MessageError) o
   else forall t e, In (OFail t mon e) o -> e = NetworkError /\ is_refusing st1 r = true).
Proof. exact ack_stops. Qed.
Print Assumptions C03_ack_stops.
(* 4' (audit gap 7) the Reset clause on the state, without the history key: an RST for an outstanding exchange whose request is pending
   fails it with MessageError at that instant, in ANY state; and in every reachable state the request of an outstanding exchange is
   pending unless it was cancelled or answered *)
Theorem C03_rst_fails_pending : forall st r mid mon h, xget (r, mid) (active_exchanges st) = Some (mon, h) ->
  existsb (fun q => fst q =? mon) (outgoing_requests st) = true ->
  In (OFail (now st) mon MessageError) (snd (step st (ERecv r true mid))).
Proof. exact rst_fails_pending. Qed.
Print Assumptions C03_rst_fails_pending.
Theorem C03_exchange_request_pending : forall mid0 draws evs e, wf_run draws evs -> In e (active_exchanges (final_of mid0 draws evs)) ->
  In (e_rid e, e_remote e) (outgoing_requests (final_of mid0 draws evs)) \/ In (gone_key (e_rid e)) (recv_keys evs).
Proof. exact exchange_request_pending. Qed.
Print Assumptions C03_exchange_request_pending.
(* 4'' (audit gap 3) the piggy-backed response is an ACK with the exchange's message ID: no further copy in this step or any continuation *)
Theorem C03_piggyback_stops : forall mid0 draws evs1 r mid rid evs2 mon h,
  wf_run draws (evs1 ++ EResponse r 0 mid rid :: evs2) ->
  xget (r, mid) (active_exchanges (final_of mid0 draws evs1)) = Some (mon, h) ->
  let st1 := final_of mid0 draws evs1 in
  let '(st2, o) := step st1 (EResponse r 0 mid rid) in
  let '(st3, os) := run st2 evs2 in
  mon = m_rid (h_message h) /\ copies mon (o ++ concat os) = [] /\
  forall t e, In (OFail t mon e) o -> e = NetworkError /\ is_refusing st1 r = true.
Proof. exact piggyback_stops. Qed.
Print Assumptions C03_piggyback_stops.

(* 4b. a transport error reported for r (ICMP; MessageManager.dispatch_error): no further copy of any message that was in an
       exchange with r or backlogged for r, in this step or in any continuation; every request pending towards r fails at once *)
Theorem C03_transport_error_stops : forall mid0 draws evs1 r evs2, wf_run draws (evs1 ++ EError r :: evs2) ->
  let st1 := final_of mid0 draws evs1 in
  let '(st2, o) := step st1 (EError r) in
  let '(st3, os) := run st2 evs2 in
  (forall e, In e (active_exchanges st1) -> e_remote e = r -> copies (e_rid e) (o ++ concat os) = []) /\
  (forall q p, In (r, q) (backlogs st1) -> In p q -> copies (m_rid (fst p)) (o ++ concat os) = []) /\
  (forall rid, In (rid, r) (outgoing_requests st1) -> In (OFail (now st1) rid NetworkError) o).
Proof. exact error_stops. Qed.
Print Assumptions C03_transport_error_stops.

(* 4c. cancelling the request does NOT stop the retransmission: the message layer is not told (send_message returns no canceller);
       theorems 1-3 keep holding for the cancelled request's message (3 without the failure, there is no request left to fail) *)
Theorem C03_cancel_inert : forall st rid, let '(st', o) := step st (ECancel rid) in
  active_exchanges st' = active_exchanges st /\ backlogs st' = backlogs st /\ now st' = now st /\ o = [].
Proof. exact cancel_inert. Qed.
Print Assumptions C03_cancel_inert.

(* 5. an empty ACK / RST with another message id or from another endpoint (no outstanding exchange has that (remote, mid))
      changes nothing at all -- no entry, timer, counter, backlog, request -- and produces nothing; in any state *)
Theorem C03_foreign_ack_inert : forall st r mid b, xget (r, mid) (active_exchanges st) = None ->
  step st (ERecv r b mid) = (st, []).
Proof. exact foreign_ack_inert. Qed.
Print Assumptions C03_foreign_ack_inert.
Theorem C03_foreign_means_no_such_message : forall seen st r mid, Struct seen st ->
  (xget (r, mid) (active_exchanges st) = None <->
   forall e, In e (active_exchanges st) -> ~ (m_remote (h_message (e_timer e)) = r /\ m_mid (h_message (e_timer e)) = mid)).
Proof. exact xget_none_iff. Qed.
Print Assumptions C03_foreign_means_no_such_message.

(* 6. the defaults are the RFC 7252 values and the derived spans follow the RFC formulas for every tuning (Gen/c03_constants.v) *)
Theorem C03_defaults_match_rfc :
  derived_us default_transport_tuning =
  [(2000000, 1); (1500000, 1); (4, 1); (45000000, 1); (93000000, 1); (2000000, 1); (202000000, 1); (247000000, 1);
   (100000000, 1); (100000, 1); (128, 1); (1, 1)].
Proof. exact defaults_match_rfc. Qed.
Print Assumptions C03_defaults_match_rfc.
Theorem C03_derived_formulas : forall t : transport_tuning,
  (MAX_TRANSMIT_SPAN t == tt_ACK_TIMEOUT t * inject_Z (2 ^ tt_MAX_RETRANSMIT t - 1) * tt_ACK_RANDOM_FACTOR t)%Q /\
  (MAX_TRANSMIT_WAIT t == tt_ACK_TIMEOUT t * inject_Z (2 ^ (tt_MAX_RETRANSMIT t + 1) - 1) * tt_ACK_RANDOM_FACTOR t)%Q /\
  (PROCESSING_DELAY t == tt_ACK_TIMEOUT t)%Q /\
  (MAX_RTT t == inject_Z 2 * tt_MAX_LATENCY t + tt_ACK_TIMEOUT t)%Q /\
  (EXCHANGE_LIFETIME t == MAX_TRANSMIT_SPAN t + MAX_RTT t)%Q.
Proof. exact derived_formulas. Qed.
Print Assumptions C03_derived_formulas.

(* 7. safety of the bookkeeping the above rests on: no KeyError / AssertionError inside MessageManager, at most one exchange per
      remote and `remote in _backlogs` iff an exchange with it is active (so `_active_exchanges[key] = ...` never overwrites) *)
Theorem C03_no_internal_error : forall mid0 draws evs, wf_run draws evs -> forall t e, ~ In (OError t e) (trace_of mid0 draws evs).
Proof. exact no_internal_error. Qed.
Print Assumptions C03_no_internal_error.
Theorem C03_nstart_invariant : forall mid0 draws evs, wf_run draws evs ->
  NoDup (map e_remote (active_exchanges (final_of mid0 draws evs))) /\
  forall r, in_backlogs (final_of mid0 draws evs) r = has_exchange_with (final_of mid0 draws evs) r.
Proof. exact nstart_invariant. Qed.
Print Assumptions C03_nstart_invariant.

(* ---- non-vacuity: a concrete run satisfies [wf_run]; default tuning, draw in the middle of the range *)
Definition dflt : tuning := {| ACK_TIMEOUT := 2000000; ARF_num := 3; ARF_den := 2; MAX_RETRANSMIT := 4 |}.
Definition demo : list event := [ERequest 1 7 dflt; ERequest 2 7 dflt; ERecv 7 false 99; EFire; EFire; EFire; EFire; EFire; EFire].
Example C03_wf_run_nonvacuous : wf_run [500] demo.
Proof. unfold wf_run, demo, wf_tuning, dflt, RNG_DEN. cbn. repeat split; try lia; try (repeat constructor; lia); intuition discriminate. Qed.
Example C03_demo_trace :
  let m := {| m_remote := 7; m_mid := 65535; m_rid := 1; m_tuning := dflt |} in
  trace_of 65535 [500] demo =
  [ODraw 0 2000000 3000000 2500000; OSend 0 m; OSend 2500000 m; OSend 7500000 m; OSend 17500000 m; OSend 37500000 m;
   OFail 77500000 1 ConRetransmitsExceeded; OFail 77500000 2 ConRetransmitsExceeded].
Proof. vm_compute. reflexivity. Qed.
Example C03_demo_ack :
  let m := {| m_remote := 7; m_mid := 3; m_rid := 1; m_tuning := dflt |} in
  trace_of 3 [0] [ERequest 1 7 dflt; EFire; ERecv 7 true 3; EFire; EFire] =
  [ODraw 0 2000000 3000000 2000000; OSend 0 m; OSend 2000000 m; OFail 2000000 1 MessageError].
Proof. vm_compute. reflexivity. Qed.
(* documented behaviour outside the property text: a cancelled request, and a request answered by a SEPARATE response (no ACK),
   keep being retransmitted until MAX_RETRANSMIT; the give-up then fails nobody *)
Example C03_cancelled_request_still_retransmitted :
  let m := {| m_remote := 7; m_mid := 3; m_rid := 1; m_tuning := dflt |} in
  trace_of 3 [0] [ERequest 1 7 dflt; ECancel 1; EFire; EFire; EFire; EFire; EFire] =
  [ODraw 0 2000000 3000000 2000000; OSend 0 m; OSend 2000000 m; OSend 6000000 m; OSend 14000000 m; OSend 30000000 m].
Proof. vm_compute. reflexivity. Qed.
Example C03_separate_response_does_not_stop_retransmission :
  let m := {| m_remote := 7; m_mid := 3; m_rid := 1; m_tuning := dflt |} in
  trace_of 3 [0] [ERequest 1 7 dflt; EResponse 7 2 99 1; EFire; EFire; EFire; EFire; EFire; ERequest 2 7 dflt] =
  [ODraw 0 2000000 3000000 2000000; OSend 0 m; OResult 0 1; OSend 2000000 m; OSend 6000000 m; OSend 14000000 m; OSend 30000000 m;
   ODraw 62000000 2000000 3000000 2000000; OSend 62000000 {| m_remote := 7; m_mid := 4; m_rid := 2; m_tuning := dflt |}].
Proof. vm_compute. reflexivity. Qed.
(* whereas the piggy-backed response is an ACK *)
Example C03_piggybacked_response_stops :
  let m := {| m_remote := 7; m_mid := 3; m_rid := 1; m_tuning := dflt |} in
  trace_of 3 [0] [ERequest 1 7 dflt; EFire; EResponse 7 0 3 1; EFire; EFire] =
  [ODraw 0 2000000 3000000 2000000; OSend 0 m; OSend 2000000 m; OResult 2000000 1].
Proof. vm_compute. reflexivity. Qed.

(* ---- transports that refuse a datagram synchronously (udp6 sendmsg failing: dispatch_error runs inside message_interface.send).
   Code as of fix commits 11456f9 / 8d04b7c: every send happens in a state satisfying the invariants, and a refusal is literally
   MessageManager.dispatch_error for that remote in that state (Proofs: send_initially_struct, retransmit_struct, response_shape).
   Hence theorems 1-7 above hold for runs WITH refusals (wf_run does not restrict ERefuse), and: *)
(* step level, any state: a refused first transmission / retransmission puts nothing on the wire, leaves no exchange and no backlog
   for the remote, and fails every request pending towards it with NetworkError at that instant *)
Theorem C03_refused_first_transmission : forall st m mon st' o, is_refusing st (m_remote m) = true ->
  _send_initially st m mon = (st', o) ->
  (forall t m', ~ In (OSend t m') o) /\ has_exchange_with st' (m_remote m) = false /\ in_backlogs st' (m_remote m) = false /\
  (forall rid, In (rid, m_remote m) (outgoing_requests st) -> In (OFail (now st) rid NetworkError) o) /\
  (forall q, In q (outgoing_requests st') -> snd q <> m_remote m).
Proof. exact refused_send_initially. Qed.
Print Assumptions C03_refused_first_transmission.
Theorem C03_refused_retransmission : forall st h mon h0 st' o,
  let m := h_message h in
  xget (m_remote m, m_mid m) (active_exchanges st) = Some (mon, h0) -> h_counter h < MAX_RETRANSMIT (m_tuning m) ->
  is_refusing st (m_remote m) = true -> _retransmit st h = (st', o) ->
  (forall t m', ~ In (OSend t m') o) /\ has_exchange_with st' (m_remote m) = false /\ in_backlogs st' (m_remote m) = false /\
  (forall rid, In (rid, m_remote m) (outgoing_requests st) -> In (OFail (now st) rid NetworkError) o) /\
  (forall q, In q (outgoing_requests st') -> snd q <> m_remote m).
Proof. exact refused_retransmit. Qed.
Print Assumptions C03_refused_retransmission.
(* run level: the message whose retransmission / first transmission is refused is never put on the wire again, in that step or in
   any continuation (which may contain anything, further refusals included); the requests towards the remote fail at that instant *)
Theorem C03_refused_retransmission_stops : forall mid0 draws evs1 ev evs2 h,
  wf_run draws (evs1 ++ ev :: evs2) -> (ev = EFire \/ (ev = EFireDue /\ h_due h <= now (final_of mid0 draws evs1))) ->
  next_timer (final_of mid0 draws evs1) = Some h ->
  h_counter h < MAX_RETRANSMIT (m_tuning (h_message h)) ->
  is_refusing (final_of mid0 draws evs1) (m_remote (h_message h)) = true ->
  let st1 := final_of mid0 draws evs1 in
  let '(st2, o) := step st1 ev in
  let '(st3, os) := run st2 evs2 in
  copies (m_rid (h_message h)) (o ++ concat os) = [] /\
  (forall rid, In (rid, m_remote (h_message h)) (outgoing_requests st1) -> In (OFail (Z.max (now st1) (h_due h)) rid NetworkError) o).
Proof. exact refused_retransmission_stops. Qed.
Print Assumptions C03_refused_retransmission_stops.
Theorem C03_refused_request_stops : forall mid0 draws evs1 rid r tn evs2,
  wf_run draws (evs1 ++ ERequest rid r tn :: evs2) ->
  is_refusing (final_of mid0 draws evs1) r = true -> in_backlogs (final_of mid0 draws evs1) r = false ->
  let st1 := final_of mid0 draws evs1 in
  let '(st2, o) := step st1 (ERequest rid r tn) in
  let '(st3, os) := run st2 evs2 in
  copies rid (o ++ concat os) = [] /\ In (OFail (now st1) rid NetworkError) o.
Proof. exact refused_request_stops. Qed.
Print Assumptions C03_refused_request_stops.

(* the scenarios that were defects before 11456f9 / 8d04b7c (exchange resurrected by _retransmit after a refused retransmission: copies
   of the failed request at 6/14/30 s, request 2 failed at 62 s instead of 68 s, KeyError at 68 s; KeyError out of _continue_backlog on
   a refused backlog release) now run cleanly: *)
Definition tn1 : tuning := {| ACK_TIMEOUT := 2000000; ARF_num := 1; ARF_den := 1; MAX_RETRANSMIT := 4 |}.
Definition refused_witness : list event :=
  [ERequest 0 0 tn1; ERequest 1 0 tn1; ERefuse 0 true; EFire; ERefuse 0 false; EFire; ERequest 2 0 tn1;
   EFire; EFire; EFire; EFire; EFire; EFire; EFire; EFire].
Example C03_refused_retransmission_clean :
  let m0 := {| m_remote := 0; m_mid := 10; m_rid := 0; m_tuning := tn1 |} in
  let m2 := {| m_remote := 0; m_mid := 12; m_rid := 2; m_tuning := tn1 |} in
  trace_of 10 [0; 0; 0] refused_witness =
  [ODraw 0 2000000 2000000 2000000; OSend 0 m0;
   OFail 2000000 0 NetworkError; OFail 2000000 1 NetworkError;
   ODraw 2000000 2000000 2000000 2000000; OSend 2000000 m2; OSend 4000000 m2; OSend 8000000 m2; OSend 16000000 m2; OSend 32000000 m2;
   OFail 64000000 2 ConRetransmitsExceeded].
Proof. vm_compute. reflexivity. Qed.
Example C03_refused_backlog_release_clean :
  run_trace 10 [0; 0] [ERequest 0 0 tn1; ERequest 1 0 tn1; ERefuse 0 true; ERecv 0 false 10] =
  ([[ODraw 0 2000000 2000000 2000000; OSend 0 {| m_remote := 0; m_mid := 10; m_rid := 0; m_tuning := tn1 |}]; []; [];
    [ODraw 0 2000000 2000000 2000000; OFail 0 0 NetworkError; OFail 0 1 NetworkError]], ([], [], []), 0).
Proof. vm_compute. reflexivity. Qed.
Example C03_refused_first_transmission_clean :
  run_trace 10 [0] [ERefuse 0 true; ERequest 0 0 tn1; EFire] =
  ([[]; [ODraw 0 2000000 2000000 2000000; OFail 0 0 NetworkError]; []], ([], [], []), 0).
Proof. vm_compute. reflexivity. Qed.

Example C03_wf_run_with_refusals : wf_run [0; 0; 0] refused_witness.
Proof. unfold wf_run, refused_witness, wf_tuning, tn1, RNG_DEN. cbn. repeat split; try lia; try (repeat constructor; lia); intuition discriminate. Qed.
Example C03_range_nonvacuous : wf_tuning dflt /\ range dflt 2000000 /\ range dflt 3000000 /\ ~ range dflt 3000001.
Proof. unfold wf_tuning, range, dflt; cbn. lia. Qed.

(* ---- round 7 *)
From Verif Require Import Proofs.C03R7.
(* 3c. the CLASS of every failure of an unanswered CON request (round 6 bounded only their number). A request that failed -- with whatever
   exception -- is pending nowhere; hence (with C03_exchange_request_pending) the request of an outstanding exchange has not failed at all *)
Theorem C03_failed_not_pending : forall mid0 draws evs tf rid x, wf_run draws evs -> In (OFail tf rid x) (trace_of mid0 draws evs) ->
  forall r, ~ In (rid, r) (outgoing_requests (final_of mid0 draws evs)).
Proof. exact failed_not_pending. Qed.
Print Assumptions C03_failed_not_pending.
Theorem C03_active_exchange_not_failed : forall mid0 draws evs e, wf_run draws evs -> In e (active_exchanges (final_of mid0 draws evs)) ->
  ~ In (gone_key (e_rid e)) (recv_keys evs) -> forall tf x, ~ In (OFail tf (e_rid e) x) (trace_of mid0 draws evs).
Proof. exact active_exchange_not_failed. Qed.
Print Assumptions C03_active_exchange_not_failed.
(* the give-up theorem with the complete list of the request's failure outputs in each outcome, for every history (refusing transports
   included): still waiting => no failure of any class so far; gave up => ConRetransmitsExceeded at the deadline is its one and only
   failure; refused by the transport => NetworkError is its one and only failure *)
Theorem C03_gives_up_class : forall mid0 draws evs t m, wf_run draws evs -> In (OSend t m) (trace_of mid0 draws evs) ->
  ~ In (m_remote m, m_mid m) (recv_keys evs) -> ~ In (err_key (m_remote m)) (recv_keys evs) -> ~ In (gone_key (m_rid m)) (recv_keys evs) ->
  exists T0 t0 n, copies (m_rid m) (trace_of mid0 draws evs) = sched_of m T0 t0 n /\ (0 < n)%nat /\ range (m_tuning m) t0 /\
    Z.of_nat n <= MAX_RETRANSMIT (m_tuning m) + 1 /\
    ( ((exists e, In e (active_exchanges (final_of mid0 draws evs)) /\ h_message (e_timer e) = m /\
                  h_due (e_timer e) = T0 + t0 * (2 ^ Z.of_nat n - 1) /\ now (final_of mid0 draws evs) <= h_due (e_timer e)) /\
       (forall tf x, ~ In (OFail tf (m_rid m) x) (trace_of mid0 draws evs))) \/
      (Z.of_nat n = MAX_RETRANSMIT (m_tuning m) + 1 /\
       In (OFail (T0 + t0 * (2 ^ (MAX_RETRANSMIT (m_tuning m) + 1) - 1)) (m_rid m) ConRetransmitsExceeded) (trace_of mid0 draws evs) /\
       (forall tf x, In (OFail tf (m_rid m) x) (trace_of mid0 draws evs) ->
          tf = T0 + t0 * (2 ^ (MAX_RETRANSMIT (m_tuning m) + 1) - 1) /\ x = ConRetransmitsExceeded)) \/
      (exists tf, In (OFail tf (m_rid m) NetworkError) (trace_of mid0 draws evs) /\
         (forall tf' x, In (OFail tf' (m_rid m) x) (trace_of mid0 draws evs) -> tf' = tf /\ x = NetworkError)) ).
Proof. exact gives_up_class. Qed.
Print Assumptions C03_gives_up_class.
(* ... on a transport that never refuses and reports no error for the remote this request was addressed to: the two outcomes of the
   property text *)
Theorem C03_gives_up_class_plain_remote : forall mid0 draws evs t m, wf_run draws evs -> no_refusal evs ->
  (forall r tn, In (ERequest (m_rid m) r tn) evs -> ~ In (EError r) evs) ->
  In (OSend t m) (trace_of mid0 draws evs) ->
  ~ In (m_remote m, m_mid m) (recv_keys evs) -> ~ In (err_key (m_remote m)) (recv_keys evs) -> ~ In (gone_key (m_rid m)) (recv_keys evs) ->
  exists T0 t0 n, copies (m_rid m) (trace_of mid0 draws evs) = sched_of m T0 t0 n /\ (0 < n)%nat /\ range (m_tuning m) t0 /\
    Z.of_nat n <= MAX_RETRANSMIT (m_tuning m) + 1 /\
    ( ((exists e, In e (active_exchanges (final_of mid0 draws evs)) /\ h_message (e_timer e) = m /\
                  h_due (e_timer e) = T0 + t0 * (2 ^ Z.of_nat n - 1) /\ now (final_of mid0 draws evs) <= h_due (e_timer e)) /\
       (forall tf x, ~ In (OFail tf (m_rid m) x) (trace_of mid0 draws evs))) \/
      (Z.of_nat n = MAX_RETRANSMIT (m_tuning m) + 1 /\
       In (OFail (T0 + t0 * (2 ^ (MAX_RETRANSMIT (m_tuning m) + 1) - 1)) (m_rid m) ConRetransmitsExceeded) (trace_of mid0 draws evs) /\
       (forall tf x, In (OFail tf (m_rid m) x) (trace_of mid0 draws evs) ->
          tf = T0 + t0 * (2 ^ (MAX_RETRANSMIT (m_tuning m) + 1) - 1) /\ x = ConRetransmitsExceeded)) ).
Proof. exact gives_up_class_plain_remote. Qed.
Print Assumptions C03_gives_up_class_plain_remote.
(* headline: ANY error delivered to a CON request whose transmissions all went unanswered is ConRetransmitsExceeded, delivered after all
   1 + MAX_RETRANSMIT copies, exactly one more doubled interval after the last copy; every history *)
Theorem C03_unanswered_error_is_ConRetransmitsExceeded : forall mid0 draws evs t m, wf_run draws evs -> no_refusal evs ->
  (forall r tn, In (ERequest (m_rid m) r tn) evs -> ~ In (EError r) evs) ->
  In (OSend t m) (trace_of mid0 draws evs) ->
  ~ In (m_remote m, m_mid m) (recv_keys evs) -> ~ In (err_key (m_remote m)) (recv_keys evs) -> ~ In (gone_key (m_rid m)) (recv_keys evs) ->
  forall tf x, In (OFail tf (m_rid m) x) (trace_of mid0 draws evs) ->
    x = ConRetransmitsExceeded /\
    exists T0 t0, copies (m_rid m) (trace_of mid0 draws evs) = sched_of m T0 t0 (Z.to_nat (MAX_RETRANSMIT (m_tuning m) + 1)) /\
      range (m_tuning m) t0 /\ tf = T0 + t0 * (2 ^ (MAX_RETRANSMIT (m_tuning m) + 1) - 1).
Proof. exact unanswered_error_is_ConRetransmitsExceeded. Qed.
Print Assumptions C03_unanswered_error_is_ConRetransmitsExceeded.
(* ... and with refusing transports allowed: ConRetransmitsExceeded at the deadline or NetworkError, no other class *)
Theorem C03_unanswered_error_class : forall mid0 draws evs t m, wf_run draws evs -> In (OSend t m) (trace_of mid0 draws evs) ->
  ~ In (m_remote m, m_mid m) (recv_keys evs) -> ~ In (err_key (m_remote m)) (recv_keys evs) -> ~ In (gone_key (m_rid m)) (recv_keys evs) ->
  forall tf x, In (OFail tf (m_rid m) x) (trace_of mid0 draws evs) ->
    (x = ConRetransmitsExceeded /\
     exists T0 t0, copies (m_rid m) (trace_of mid0 draws evs) = sched_of m T0 t0 (Z.to_nat (MAX_RETRANSMIT (m_tuning m) + 1)) /\
       range (m_tuning m) t0 /\ tf = T0 + t0 * (2 ^ (MAX_RETRANSMIT (m_tuning m) + 1) - 1)) \/
    x = NetworkError.
Proof. exact unanswered_error_class. Qed.
Print Assumptions C03_unanswered_error_class.
(* non-vacuity of the hypotheses (three concrete runs: still waiting / gave up / refused): Proofs/C03R7.v, Examples *_nonvacuous *)
