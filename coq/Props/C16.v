(* C16 — CoAP URIs and Uri-* options convert into each other without loss.
   Only statements here; every proof is [exact <lemma of Proofs/C16*.v>].
   Strings are lists of code points; quote / quote_nonascii / hostportjoin and the safe sets are the code translated from
   aiocoap/util (Gen/uri_kernels.v); set_request_uri / get_request_uri / urlsplit / unquote are Model/C16.v.
   [ip] is ipaddress.ip_address (trusted stdlib), a parameter of the model: the theorems hold for every such function. *)
From Verif Require Import Lib.Py Lib.Tactics Model.C16Str Gen.uri_kernels Model.C16 Proofs.C16Str Proofs.C16 Proofs.C16Uri.
Open Scope Z_scope.

(* ---- percent-coding: for EVERY string and both safe sets, unquote (quote s) = s; quoting fails only on lone surrogates *)
Theorem C16_utf8_decode_encode : forall s b, utf8_encode s = Ok b -> utf8_decode b = Ok s.
Proof. exact utf8_decode_encode. Qed.
Print Assumptions C16_utf8_decode_encode.
Theorem C16_unquote_quote : forall safe s q, mem 37 safe = false -> all_ascii safe = true ->
  quote safe s = Ok q -> unquote q = Ok s.
Proof. exact unquote_quote. Qed.
Print Assumptions C16_unquote_quote.
Theorem C16_quote_total : forall safe s, valid_str s = true -> exists q, quote safe s = Ok q.
Proof. exact quote_total. Qed.
Print Assumptions C16_quote_total.
Theorem C16_quote_fails_only_on_surrogates : forall s, valid_str s = false -> utf8_encode s = Raise UnicodeEncodeError.
Proof. exact utf8_encode_invalid. Qed.
Print Assumptions C16_quote_fails_only_on_surrogates.
(* the two safe sets of message.py qualify, and exclude the delimiters of their component *)
Theorem C16_safe_sets : (mem 37 quote_for_path_chars = false /\ all_ascii quote_for_path_chars = true /\
   mem 47 quote_for_path_chars = false /\ mem 63 quote_for_path_chars = false /\ mem 35 quote_for_path_chars = false) /\
  (mem 37 quote_for_query_chars = false /\ all_ascii quote_for_query_chars = true /\
   mem 38 quote_for_query_chars = false /\ mem 35 quote_for_query_chars = false).
Proof. exact (conj path_chars_ok query_chars_ok). Qed.
Print Assumptions C16_safe_sets.

(* ---- segment lists: Uri-Path / Uri-Query -> text -> the same list, for every list except the single empty segment *)
Theorem C16_path_roundtrip : forall p, p <> [[]] -> forall text, compose_path p = Ok text ->
  unquote_path text = Ok p /\ mem 63 text = false /\ mem 35 text = false /\ startswith text [47] = true.
Proof. exact path_roundtrip. Qed.
Print Assumptions C16_path_roundtrip.
Theorem C16_query_roundtrip : forall q, q <> [[]] -> forall text, compose_query q = Ok text ->
  unquote_query text = Ok q /\ mem 35 text = false.
Proof. exact query_roundtrip. Qed.
Print Assumptions C16_query_roundtrip.
(* ... and the excluded option sets are exactly where distinct resources collapse *)
Theorem C16_degenerate_collapses :
  get_request_uri no_ip (mk_opts coap [104] None [[]] []) = get_request_uri no_ip (mk_opts coap [104] None [] []) /\
  get_request_uri no_ip (mk_opts coap [104] None [] [[]]) = get_request_uri no_ip (mk_opts coap [104] None [] []).
Proof. exact degenerate_path_collapses. Qed.
Print Assumptions C16_degenerate_collapses.

(* ---- options -> URI -> options (6.5 then 6.4). Non-degenerate option set with Uri-Host: Uri-Path <> [""], Uri-Query <> [""],
   all strings encodable; Uri-Host non-empty, without upper-case ASCII letters, not the text of an IP address, not passing the
   IPv4-literal test; effective port in 0..65535. Uri-Host may contain reserved characters, "%" and non-ASCII characters. *)
Theorem C16_options_uri_options_name : forall ip (m : request_opts) h h0 p0,
  existsb (beqb (r_scheme m)) coap_schemes = true ->
  o_proxy_uri m = None -> o_proxy_scheme m = None ->
  o_uri_host m = Some h -> h <> [] -> valid_str h = true -> Forall not_upper h ->
  ip (strip_brackets h) = IpBad -> is_ipv4_literal h = Ok false ->
  hostportsplit (r_hostinfo m) = Ok (h0, p0) ->
  let p := match o_uri_port m with Some n => if n =? 0 then p0 else Some n | None => p0 end in
  port_ok p ->
  o_uri_path m <> [[]] -> o_uri_query m <> [[]] ->
  forallb valid_str (o_uri_path m) = true -> forallb valid_str (o_uri_query m) = true ->
  exists u e, get_request_uri ip m = Ok u /\ quote quote_for_host_chars h = Ok e /\
            set_request_uri ip u true = Ok (DRequest (r_scheme m) (e ++ port_text p) (Some h) (o_uri_path m) (o_uri_query m)).
Proof. exact options_uri_options_name. Qed.
Print Assumptions C16_options_uri_options_name.
(* authority taken from the remote (no Uri-Host / Uri-Port): an IPv4 literal is not sent as Uri-Host, a name is *)
Theorem C16_options_uri_options_hostinfo : forall ip (m : request_opts) h p lit,
  existsb (beqb (r_scheme m)) coap_schemes = true ->
  o_proxy_uri m = None -> o_proxy_scheme m = None -> o_uri_host m = None -> o_uri_port m = None ->
  r_hostinfo m = h ++ port_text p -> regular_host h = true -> is_ipv4_literal h = Ok lit -> port_ok p ->
  o_uri_path m <> [[]] -> o_uri_query m <> [[]] ->
  forallb valid_str (o_uri_path m) = true -> forallb valid_str (o_uri_query m) = true ->
  exists u, get_request_uri ip m = Ok u /\
            set_request_uri ip u true =
              Ok (DRequest (r_scheme m) (r_hostinfo m) (if lit then None else Some h) (o_uri_path m) (o_uri_query m)).
Proof. exact options_uri_options_hostinfo. Qed.
Print Assumptions C16_options_uri_options_hostinfo.
(* bracketed IPv6 literal with zone identifier as the remote (with or without Uri-Port): never a Uri-Host, the literal stays.
   [ip6_text_ok ip t]: t is a text ipaddress prints (fixed point of ip, contains ":", ASCII, lower-case up to the zone, none of
   "@[]/?#" or tab/CR/LF, does not start with "v") *)
Theorem C16_options_uri_options_ip6 : forall ip (m : request_opts) t p0,
  existsb (beqb (r_scheme m)) coap_schemes = true ->
  o_proxy_uri m = None -> o_proxy_scheme m = None -> o_uri_host m = None ->
  r_hostinfo m = 91 :: t ++ 93 :: port_text p0 -> ip6_text_ok ip t -> port_ok p0 ->
  let p := match o_uri_port m with Some n => if n =? 0 then p0 else Some n | None => p0 end in
  port_ok p ->
  o_uri_path m <> [[]] -> o_uri_query m <> [[]] ->
  forallb valid_str (o_uri_path m) = true -> forallb valid_str (o_uri_query m) = true ->
  exists u, get_request_uri ip m = Ok u /\
            set_request_uri ip u true = Ok (DRequest (r_scheme m) (91 :: t ++ 93 :: port_text p) None (o_uri_path m) (o_uri_query m)).
Proof. exact options_uri_options_ip6. Qed.
Print Assumptions C16_options_uri_options_ip6.
(* distinct resources never collapse: two non-degenerate option sets composing to the same URI agree on scheme, Uri-Host,
   effective port, Uri-Path and Uri-Query *)
Theorem C16_compose_injective : forall ip (m1 m2 : request_opts) h1 h2 a1 b1 a2 b2 u,
  (forall (m : request_opts) h h0 p0, m = m1 /\ h = h1 /\ h0 = a1 /\ p0 = b1 \/ m = m2 /\ h = h2 /\ h0 = a2 /\ p0 = b2 ->
     existsb (beqb (r_scheme m)) coap_schemes = true /\ o_proxy_uri m = None /\ o_proxy_scheme m = None /\
     o_uri_host m = Some h /\ h <> [] /\ valid_str h = true /\ Forall not_upper h /\
     ip (strip_brackets h) = IpBad /\ is_ipv4_literal h = Ok false /\ hostportsplit (r_hostinfo m) = Ok (h0, p0) /\
     port_ok (match o_uri_port m with Some n => if n =? 0 then p0 else Some n | None => p0 end) /\
     o_uri_path m <> [[]] /\ o_uri_query m <> [[]] /\
     forallb valid_str (o_uri_path m) = true /\ forallb valid_str (o_uri_query m) = true) ->
  get_request_uri ip m1 = Ok u -> get_request_uri ip m2 = Ok u ->
  r_scheme m1 = r_scheme m2 /\ h1 = h2 /\ o_uri_path m1 = o_uri_path m2 /\ o_uri_query m1 = o_uri_query m2 /\
  match o_uri_port m1 with Some n => if n =? 0 then b1 else Some n | None => b1 end =
  match o_uri_port m2 with Some n => if n =? 0 then b2 else Some n | None => b2 end.
Proof. exact compose_injective. Qed.
Print Assumptions C16_compose_injective.
(* ---- URI -> options -> URI -> options (6.4, 6.5, 6.4) for EVERY accepted URI that is a string of Unicode scalar values:
   the decomposed options are non-degenerate; composing and decomposing again gives the same scheme / Uri-Host / Uri-Path /
   Uri-Query with the authority in normal form.
   * Uri-Host present — any characters, percent-escaped, reserved or non-ASCII: unconditional, except the NAMED RESIDUE of a
     decoded host that is itself the text of an IP address or passes the IPv4-literal test (coap://1%2E2.3.4/, coap://%3A%3A1/),
     where 6.5 legitimately composes a literal (kept as the two hypotheses of the inner implication).
   * no Uri-Host, network location without "[" (IPv4 literal in whatever spelling the URI had: coap://1.2.3.4:0080/, coap://@1.2.3.4/):
     composition always succeeds and the decomposition is a fixed point — derived from the decomposition itself, no hypothesis
     on the shape of the remote;
   * no Uri-Host, bracketed IPv6 remote [t][:port] with t a text ipaddress prints (ip6_text_ok): fixed point.
     RESIDUE, correspondence + oracle only: what ipaddress prints is the hypothesis ip6_text_ok (so coap://[::1]x:80/ is covered once
     the remote is written [::1]:80), and network locations with non-ASCII characters (NFKC / Unicode lower-casing outside the model). *)
Theorem C16_uri_options_uri : forall ip uri s hi uh p q, valid_str uri = true ->
  set_request_uri ip uri true = Ok (DRequest s hi uh p q) ->
  existsb (beqb s) coap_schemes = true /\ p <> [[]] /\ q <> [[]] /\ forallb valid_str p = true /\ forallb valid_str q = true /\
  match uh with
  | Some h =>
      h <> [] /\ valid_str h = true /\ Forall not_upper h /\
      (ip (strip_brackets h) = IpBad -> is_ipv4_literal h = Ok false ->
       exists u' e h0 port, hostportsplit hi = Ok (h0, port) /\ get_request_uri ip (opts_of (DRequest s hi uh p q)) = Ok u' /\
         quote quote_for_host_chars h = Ok e /\
         set_request_uri ip u' true = Ok (DRequest s (e ++ port_text port) (Some h) p q))
  | None =>
      exists u', get_request_uri ip (opts_of (DRequest s hi None p q)) = Ok u' /\
      (forall netloc path query, urlsplit ip uri = Ok (s, netloc, path, query, []) -> mem 91 netloc = false ->
         hi = netloc /\ set_request_uri ip u' true = Ok (DRequest s hi None p q)) /\
      (forall t p0, hi = 91 :: t ++ 93 :: port_text p0 -> ip6_text_ok ip t -> port_ok p0 ->
         set_request_uri ip u' true = Ok (DRequest s hi None p q))
  end.
Proof. exact uri_options_uri. Qed.
Print Assumptions C16_uri_options_uri.
(* the input of the repaired finding 76b5301: coap://a%2Fb/ <-> Uri-Host "a/b" *)
Theorem C16_repaired_host_escaping :
  let u := coap ++ [58; 47; 47; 97; 37; 50; 70; 98; 47] in
  let d := DRequest coap [97; 37; 50; 70; 98] (Some [97; 47; 98]) [] [] in
  set_request_uri no_ip u true = Ok d /\ get_request_uri no_ip (opts_of d) = Ok u.
Proof. exact host_escaped_now. Qed.
Print Assumptions C16_repaired_host_escaping.

(* ---- 6.4 host rules on every accepted URI; foreign schemes *)
Theorem C16_host_rules : forall ip uri flag s hi uh p q, set_request_uri ip uri flag = Ok (DRequest s hi uh p q) ->
  existsb (beqb s) coap_schemes = true /\
  exists netloc path query hostname,
    urlsplit ip uri = Ok (s, netloc, path, query, []) /\ hostname_of netloc = Ok (Some hostname) /\
    match uh with
    | Some h => flag = true /\ mem 91 netloc = false /\ is_ipv4_literal hostname = Ok false /\
                (exists h', unquote hostname = Ok h' /\ h = translate ascii_lowercase h') /\ Forall (fun c => is_upper c = false) h
    | None => flag = false \/ mem 91 netloc = true \/ is_ipv4_literal hostname = Ok true
    end.
Proof. exact host_rules. Qed.
Print Assumptions C16_host_rules.
Theorem C16_proxy_roundtrip : forall ip uri flag u, set_request_uri ip uri flag = Ok (DProxy u) ->
  u = uri /\ get_request_uri ip (opts_of (DProxy u)) = Ok uri.
Proof. exact proxy_roundtrip. Qed.
Print Assumptions C16_proxy_roundtrip.

(* ---- 6.4 step by step, for every accepted URI and both values of set_uri_host: Uri-Path / Uri-Query ARE the percent-decoded
   segments of the path / query component; no user name / password; the port was numeric, in 0..65535, and stays with the
   remote: hostinfo is the network location verbatim, or for a bracketed literal the text ipaddress prints joined with the SAME
   port (the result type has no Uri-Port: the implementation's Uri-Port option is observed by the oracle rule C16:uri-port-set). *)
Theorem C16_decompose_spec : forall ip uri flag s hi uh p q, set_request_uri ip uri flag = Ok (DRequest s hi uh p q) ->
  existsb (beqb s) coap_schemes = true /\
  exists netloc path query hostname port,
    urlsplit ip uri = Ok (s, netloc, path, query, []) /\ hostname_of netloc = Ok (Some hostname) /\
    (let '(u, pw) := userinfo_of netloc in truthy u || truthy pw) = false /\
    unquote_path path = Ok p /\ unquote_query query = Ok q /\
    port_of netloc = Ok port /\ port_ok port /\ hostportsplit netloc = Ok (Some hostname, port) /\
    undecided_remote ip s netloc = Ok (s, hi) /\
    (mem 91 netloc = false -> hi = netloc) /\
    (mem 91 netloc = true -> exists n, (ip hostname = Ip6 n \/ ip hostname = Ip4 n) /\ hostportjoin n port = Ok hi) /\
    match uh with
    | Some h => flag = true /\ mem 91 netloc = false /\ is_ipv4_literal hostname = Ok false /\
                exists h', unquote hostname = Ok h' /\ h = translate ascii_lowercase h'
    | None => flag = false \/ mem 91 netloc = true \/ is_ipv4_literal hostname = Ok true
    end.
Proof. exact decompose_spec. Qed.
Print Assumptions C16_decompose_spec.

(* ---- each class of unacceptable text IS rejected, with the documented error: unbalanced / unusable brackets (urlsplit's
   ValueError), fragment, no host, user info, non-UTF-8 escapes in path / query / host, non-numeric or out-of-range port,
   bracketed literal ipaddress refuses -> MalformedUrlError; no scheme -> IncompleteUrlError.
   (The hypotheses [hostname_of netloc = Ok _] exclude only the non-ASCII network locations, which are [Unmodelled].) *)
Theorem C16_rejects_each_class : forall ip uri flag,
  (urlsplit ip uri = Raise ValueError -> set_request_uri ip uri flag = Raise MalformedUrlError) /\
  forall s netloc path query frag, urlsplit ip uri = Ok (s, netloc, path, query, frag) ->
    (frag <> [] -> set_request_uri ip uri flag = Raise MalformedUrlError) /\
    (frag = [] -> s = [] -> set_request_uri ip uri flag = Raise IncompleteUrlError) /\
    (frag = [] -> existsb (beqb s) coap_schemes = true ->
       (hostname_of netloc = Ok None -> set_request_uri ip uri flag = Raise MalformedUrlError) /\
       (forall hn, hostname_of netloc = Ok (Some hn) ->
          ((let '(u, pw) := userinfo_of netloc in truthy u || truthy pw) = true ->
             set_request_uri ip uri flag = Raise MalformedUrlError) /\
          ((let '(u, pw) := userinfo_of netloc in truthy u || truthy pw) = false ->
             ((exists e, unquote_path path = Raise e) \/ (exists e, unquote_query query = Raise e) \/ (exists e, port_of netloc = Raise e) ->
                set_request_uri ip uri flag = Raise MalformedUrlError) /\
             (forall p q port, unquote_path path = Ok p -> unquote_query query = Ok q -> port_of netloc = Ok port ->
                (undecided_remote ip s netloc = Raise ValueError -> set_request_uri ip uri flag = Raise MalformedUrlError) /\
                (forall r, undecided_remote ip s netloc = Ok r -> flag = true -> mem 91 netloc = false ->
                   is_ipv4_literal hn = Ok false -> (exists e, unquote hn = Raise e) ->
                   set_request_uri ip uri flag = Raise MalformedUrlError))))).
Proof. exact rejects_each_class. Qed.
Print Assumptions C16_rejects_each_class.

(* ---- rejections: for EVERY string, set_request_uri fails only with the two documented errors; [Unmodelled] marks the inputs
   outside the model (network location with non-ASCII characters) — full strength since the repairs 1c4d498 / 9bbf9d1 *)
Theorem C16_rejects_documented : forall ip uri flag e, set_request_uri ip uri flag = Raise e ->
  e = MalformedUrlError \/ e = IncompleteUrlError \/ e = Unmodelled.
Proof. exact rejects_documented. Qed.
Print Assumptions C16_rejects_documented.
(* the inputs of the three repaired findings: coap://[v1.x]/, coap://1.2.3.<4301 digits>/, coap://@[::1]/ *)
Theorem C16_repaired_ipvfuture :
  set_request_uri no_ip (coap ++ [58; 47; 47; 91; 118; 49; 46; 120; 93; 47]) true = Raise MalformedUrlError.
Proof. exact ipvfuture_now_malformed. Qed.
Print Assumptions C16_repaired_ipvfuture.
Theorem C16_repaired_digit_limit :
  exists hi h, set_request_uri no_ip (coap ++ [58; 47; 47; 49; 46; 50; 46; 51; 46] ++ repeat 57 4301 ++ [47]) true = Ok (DRequest coap hi (Some h) [] []).
Proof. exact digit_limit_now_a_name. Qed.
Print Assumptions C16_repaired_digit_limit.
Theorem C16_repaired_literal_after_userinfo :
  set_request_uri only_loopback (coap ++ [58; 47; 47; 64; 91; 58; 58; 49; 93; 47]) true = Ok (DRequest coap [91; 58; 58; 49; 93] None [] []).
Proof. exact literal_after_userinfo_not_uri_host. Qed.
Print Assumptions C16_repaired_literal_after_userinfo.

(* ---- host:port strings: join then split is the identity (up to the lower-casing hostportsplit performs) *)
Theorem C16_hostport_join_split_name : forall h p, port_ok p -> h <> [] -> host_ascii_part h = true ->
  mem 58 h = false -> mem 64 h = false -> mem 91 h = false ->
  exists j, hostportjoin h p = Ok j /\ hostportsplit j = Ok (Some (lower_before_pct h), p).
Proof. exact hostport_join_split_name. Qed.
Print Assumptions C16_hostport_join_split_name.
Theorem C16_hostport_join_split_ip6 : forall h p, port_ok p -> host_ascii_part h = true ->
  mem 58 h = true -> mem 93 h = false -> mem 91 h = false -> mem 64 h = false ->
  exists j, hostportjoin h p = Ok j /\ hostportjoin (91 :: h ++ [93]) p = Ok j /\
            hostportsplit j = Ok (Some (lower_before_pct h), p).
Proof. exact hostport_join_split_ip6. Qed.
Print Assumptions C16_hostport_join_split_ip6.
Theorem C16_port_text_roundtrip : forall n, 0 <= n -> parse_dec (print_nat_dec n) = n.
Proof. exact parse_print_nat_dec. Qed.
Print Assumptions C16_port_text_roundtrip.

(* the other direction: whatever hostportsplit returns (host without "[" inside, which only junk such as "[a[b]" yields) joins with
   the returned port into a string that splits into exactly the same pair — join . split is a normal form *)
Theorem C16_hostport_split_join : forall j h p, hostportsplit j = Ok (Some h, p) -> mem 64 j = false -> mem 91 h = false ->
  exists j', hostportjoin h p = Ok j' /\ hostportsplit j' = Ok (Some h, p).
Proof. exact hostport_split_join. Qed.
Print Assumptions C16_hostport_split_join.
(* distinct resources never collapse, option sets WITHOUT Uri-Host (authority = the remote's host[:port]) *)
Theorem C16_compose_injective_hostinfo : forall ip (m1 m2 : request_opts) h1 p1 l1 h2 p2 l2 u,
  (forall (m : request_opts) h p l, m = m1 /\ h = h1 /\ p = p1 /\ l = l1 \/ m = m2 /\ h = h2 /\ p = p2 /\ l = l2 ->
     existsb (beqb (r_scheme m)) coap_schemes = true /\ o_proxy_uri m = None /\ o_proxy_scheme m = None /\
     o_uri_host m = None /\ o_uri_port m = None /\ r_hostinfo m = h ++ port_text p /\ regular_host h = true /\
     is_ipv4_literal h = Ok l /\ port_ok p /\ o_uri_path m <> [[]] /\ o_uri_query m <> [[]] /\
     forallb valid_str (o_uri_path m) = true /\ forallb valid_str (o_uri_query m) = true) ->
  get_request_uri ip m1 = Ok u -> get_request_uri ip m2 = Ok u ->
  r_scheme m1 = r_scheme m2 /\ r_hostinfo m1 = r_hostinfo m2 /\ o_uri_path m1 = o_uri_path m2 /\ o_uri_query m1 = o_uri_query m2.
Proof. exact compose_injective_hostinfo. Qed.
Print Assumptions C16_compose_injective_hostinfo.

(* ---- non-vacuity: concrete, non-trivial instances satisfy the hypotheses and compute to the expected values *)
Example C16_nonvacuous_roundtrip :
  (* Uri-Host "ex.org", port 61616, Uri-Path ["a/b"; ""; "%"], Uri-Query ["x=1&y"; "?#"] *)
  let m := {| r_scheme := coap; r_hostinfo := [104; 58; 56; 48]; o_uri_host := Some [101; 120; 46; 111; 114; 103]; o_uri_port := Some 61616;
              o_uri_path := [[97; 47; 98]; []; [37]]; o_uri_query := [[120; 61; 49; 38; 121]; [63; 35]];
              o_proxy_uri := None; o_proxy_scheme := None |} in
  regular_host [101; 120; 46; 111; 114; 103] = true /\ is_ipv4_literal [101; 120; 46; 111; 114; 103] = Ok false /\
  hostportsplit (r_hostinfo m) = Ok (Some [104], Some 80) /\
  exists u, get_request_uri only_loopback m = Ok u /\
    set_request_uri only_loopback u true =
      Ok (DRequest coap ([101; 120; 46; 111; 114; 103] ++ port_text (Some 61616)) (Some [101; 120; 46; 111; 114; 103]) (o_uri_path m) (o_uri_query m)).
Proof. cbv zeta. split; [reflexivity|]. split; [reflexivity|]. split; [vm_compute; reflexivity|].
  exists [99; 111; 97; 112; 58; 47; 47; 101; 120; 46; 111; 114; 103; 58; 54; 49; 54; 49; 54; 47; 97; 37; 50; 70; 98; 47; 47; 37; 50; 53; 63; 120; 61; 49; 37; 50; 54; 121; 38; 63; 37; 50; 51]. (* coap://ex.org:61616/a%2Fb//%25?x=1%26y&?%23 *)
  split; vm_compute; reflexivity. Qed.
Example C16_nonvacuous_quote :
  (* "/?&=%#ä\U0001F600" *)
  let s := [47; 63; 38; 61; 37; 35; 228; 128512] in
  valid_str s = true /\ quote quote_for_path_chars s = Ok [37;50;70; 37;51;70; 38; 61; 37;50;53; 37;50;51; 37;67;51;37;65;52; 37;70;48;37;57;70;37;57;56;37;56;48] /\
  (exists q, quote quote_for_query_chars s = Ok q /\ unquote q = Ok s) /\
  valid_str [55296] = false /\ quote quote_for_path_chars [55296] = Raise UnicodeEncodeError.
Proof. cbv zeta. split; [reflexivity|]. split; [vm_compute; reflexivity|]. split; [exists [47; 63; 37;50;54; 61; 37;50;53; 37;50;51; 37;67;51;37;65;52; 37;70;48;37;57;70;37;57;56;37;56;48]; split; vm_compute; reflexivity|]. split; vm_compute; reflexivity. Qed.
Example C16_nonvacuous_hostport :
  (* "fe80::1%eth0", port 56830 — and the bracketed literal through UndecidedRemote / set_request_uri with an ip_address that knows ::1 *)
  let h := [102; 101; 56; 48; 58; 58; 49; 37; 101; 116; 104; 48] in
  host_ascii_part h = true /\ mem 58 h = true /\ mem 93 h = false /\
  hostportjoin h (Some 56830) = Ok ([91] ++ h ++ [93; 58; 53; 54; 56; 51; 48]) /\
  set_request_uri only_loopback (coap ++ [58; 47; 47; 91; 58; 58; 49; 93; 58; 48; 56; 48; 47; 120]) true =
    Ok (DRequest coap [91; 58; 58; 49; 93; 58; 56; 48] None [[120]] []).
Proof. cbv zeta. repeat split; vm_compute; reflexivity. Qed.
Example C16_nonvacuous_ip6 :
  (* only_loopback's "::1" is a text as ipaddress prints it; coap://[::1]:80/x is a fixed point; Uri-Host with reserved and non-ASCII characters *)
  ip6_text_ok only_loopback [58; 58; 49] /\
  (let h := [97; 47; 98; 37; 228; 58] in  (* "a/b%ä:" *)
   h <> [] /\ valid_str h = true /\ Forall not_upper h /\ only_loopback (strip_brackets h) = IpBad /\ is_ipv4_literal h = Ok false /\
   quote quote_for_host_chars h = Ok [97; 37;50;70; 98; 37;50;53; 37;67;51;37;65;52; 37;51;65]).
Proof.
  split.
  - unfold ip6_text_ok. split; [reflexivity|]. split; [reflexivity|]. split; [reflexivity|]. split; [reflexivity|]. split; [reflexivity|].
    repeat (apply Forall_cons; [reflexivity|]). apply Forall_nil.
  - cbv zeta. split; [discriminate|]. split; [reflexivity|]. split; [repeat (apply Forall_cons; [reflexivity|]); apply Forall_nil|].
    split; [reflexivity|]. split; vm_compute; reflexivity.
Qed.
Example C16_nonvacuous_round5 :
  (* split -> join -> split on "[FE80::1%Eth0]:0080" and "EXAMPLE.com:" ; coap://@1.2.3.4:0080/x is accepted without Uri-Host with the
     network location kept verbatim (the fixed-point branch of C16_uri_options_uri needs no shape hypothesis) *)
  hostportsplit [91; 70; 69; 56; 48; 58; 58; 49; 37; 69; 116; 104; 48; 93; 58; 48; 48; 56; 48] =
    Ok (Some [102; 101; 56; 48; 58; 58; 49; 37; 69; 116; 104; 48], Some 80) /\
  hostportsplit [69; 88; 46; 99; 111; 109; 58] = Ok (Some [101; 120; 46; 99; 111; 109], None) /\
  set_request_uri no_ip (coap ++ [58; 47; 47; 64; 49; 46; 50; 46; 51; 46; 52; 58; 48; 48; 56; 48; 47; 120]) true =
    Ok (DRequest coap [64; 49; 46; 50; 46; 51; 46; 52; 58; 48; 48; 56; 48] None [[120]] []) /\
  urlsplit no_ip (coap ++ [58; 47; 47; 104; 58; 120; 47]) = Ok (coap, [104; 58; 120], [47], [], []) /\ port_of [104; 58; 120] = Raise ValueError /\
  urlsplit no_ip (coap ++ [58; 47; 47; 91; 58; 58; 49; 47]) = Raise ValueError.
Proof. repeat split; vm_compute; reflexivity. Qed.
Example C16_nonvacuous_rejections :
  set_request_uri no_ip [47; 47; 104; 47] true = Raise IncompleteUrlError /\                       (* //h/ *)
  set_request_uri no_ip (coap ++ [58; 47; 47; 104; 47; 35; 102]) true = Raise MalformedUrlError /\  (* coap://h/#f *)
  set_request_uri no_ip (coap ++ [58; 47; 47; 117; 64; 104; 47]) true = Raise MalformedUrlError /\  (* coap://u@h/ *)
  set_request_uri no_ip (coap ++ [58; 47; 47; 104; 58; 120; 47]) true = Raise MalformedUrlError /\  (* coap://h:x/ *)
  set_request_uri no_ip (coap ++ [58; 47; 47; 104; 47; 37; 67; 51]) true = Raise MalformedUrlError /\ (* coap://h/%C3 *)
  set_request_uri no_ip (coap ++ [58; 47; 104]) true = Raise MalformedUrlError.                    (* coap:/h *)
Proof. repeat split; vm_compute; reflexivity. Qed.
