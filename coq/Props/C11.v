(* C11 — OSCORE: round trip, inner data hidden, responses bound, tampering detected.
   Only statements here; every proof is [exact <lemma of Proofs/C11.v>]. *)
From Verif Require Import Lib.Py Lib.Tactics Gen.options_ext Gen.oscore_replay Gen.oscore_consts Model.C11 Proofs.C11.
Open Scope Z_scope.

(* _uncompress raises nothing but DecodeError, for every byte string (F5 is repaired) *)
Theorem C11_uncompress_total : forall od, (exists u, uncompress od = Ok u) \/ uncompress od = Raise DecodeError.
Proof. exact uncompress_total. Qed.
Print Assumptions C11_uncompress_total.

(* non-vacuity of the AEAD hypothesis: the symbolic scheme used in the correspondence run is ideal *)
Example C11_ideal_satisfiable : ideal sym_aead.
Proof. exact sym_ideal. Qed.
Print Assumptions C11_ideal_satisfiable.
