(* C11 — OSCORE: round trip, inner data hidden, responses bound, tampering detected.
   Only statements here; every proof is [exact <lemma of Proofs/C11.v>].
   [E : aead] is any AEAD; [ideal E] = decryption succeeds exactly on honest encryptions under the same key, nonce and AAD, and a
   ciphertext determines all four inputs (the cryptographic idealisation; satisfiable: C11_ideal_satisfiable). *)
From Verif Require Import Lib.Py Lib.Tactics Gen.options_ext Gen.oscore_replay Gen.oscore_consts Model.C11 Proofs.C11.
From Verif Require Proofs.C12.
Open Scope Z_scope.

(* ---------------------------------------------------------------- round trip *)
(* option compression: _uncompress inverts _compress on every header protect can produce *)
Theorem C11_compress_uncompress : forall u od, unprot_ok u -> compress u = Ok od -> uncompress od = Ok u.
Proof. exact compress_uncompress. Qed.
Print Assumptions C11_compress_uncompress.

(* inner message codec: parsing the plaintext code | options | 0xFF payload gives back code, options and payload;
   Observe is resolved from the outer Observe as received *)
Theorem C11_plaintext_roundtrip : forall c os pl pt pm seqno, plaintext_of c os pl = Ok pt ->
  exists um, unprotect_finish pm pt seqno = Ok um /\ u_code um = c /\ u_opts um = del_opt OPT_OBSERVE os /\ u_payload um = pl /\
    u_observe um =
      (let outer_observe := observe_value (opts pm) in
       if is_request c then match outer_observe with Some 0 => observe_value os | _ => None end
       else match outer_observe with Some _ => Some (match seqno with None => -1 | Some n => n end) | None => observe_value os end).
Proof. exact plaintext_roundtrip. Qed.
Print Assumptions C11_plaintext_roundtrip.

(* a request protected by cA — with ANY kid_context argument: the context's own id context (default), none, or explicit bytes — and
   unprotected by a context cB with matching keys/ids whose id_context equals the id context sent (if one is sent), while the Partial IV is
   unseen in cB's replay window: original code, class-E options (inner_opts = all but Uri-Host, Uri-Port, Proxy-Uri, Proxy-Scheme) and
   payload come out, the request identifiers agree on both sides, and the Partial IV is now marked as seen.
   "partial": (1) `tag_bytes + 1 <= |ciphertext|` is a hypothesis on the AEAD's expansion (it cannot be an `ideal` clause: the symbolic
   scheme's expansion depends on key/nonce/AAD lengths); (2) requests carrying Proxy-Uri are outside — as the code is they cannot be
   protected at all, see C11_proxy_uri_request_refuted; (3) Observe of a request comes out only if the outer Observe is 0: a request
   with Observe 1 loses it (open finding roundtrip-mismatch:observe:request-nonzero-dropped) — the statement says what the code does. *)
Theorem C11_request_roundtrip_partial : forall E cA cB m kc cA' r' pm ridA w, ideal E -> matched_keys cA cB ->
  match kc_sent cA kc with Some x => id_context cB = Some x | None => True end ->
  is_request (code m) = true ->
  protect E cA m None kc = (cA', r', Ok (pm, ridA)) ->
  recipient_replay_window cB = Some w -> Proofs.C12.Inv w ->
  Verif.Model.C12.seen w (from_bytes_big (rid_piv ridA)) = false ->
  alg_tag_bytes (c_alg cB) + 1 <= blen (payload pm) ->
  exists cB' um ridB,
    unprotect E cB pm None = (cB', Ok (um, ridB)) /\
    u_code um = code m /\ u_opts um = del_opt OPT_OBSERVE (inner_opts m) /\ u_payload um = payload m /\
    u_observe um = match observe_value (opts pm) with Some 0 => observe_value (inner_opts m) | _ => None end /\
    rid_kid ridB = rid_kid ridA /\ rid_piv ridB = rid_piv ridA /\ can_reuse_nonce ridB = true /\
    exists w', recipient_replay_window cB' = Some w' /\ Verif.Model.C12.seen w' (from_bytes_big (rid_piv ridA)) = true.
Proof. exact request_roundtrip_kc. Qed.
Print Assumptions C11_request_roundtrip_partial.

(* refuted for proxied requests, as the code is: protect raises IncompleteUrlError for every request carrying Proxy-Uri, before any state
   change (open finding C11:protect-exception:IncompleteUrlError:proxy-uri; the splitting of oscore.py:1150-1158 never completes) *)
Theorem C11_proxy_uri_request_refuted : forall E c m kc v, is_request (code m) = true -> get_opt OPT_PROXY_URI (opts m) = Some v ->
  protect E c m None kc = (c, None, Raise IncompleteUrlError).
Proof. exact proxy_uri_request_refuted. Qed.
Print Assumptions C11_proxy_uri_request_refuted.

(* Every response — the first one (reused nonce, empty option) or one with an own Partial IV, with or without responses_send_kid —
   unprotected by the requester with the identifiers of the request it answers, whatever outer Observe the server stack or an
   intermediary put on it: original code, options and payload; Observe = the response's own sequence number (or -1 when it has none)
   if the outer Observe is present, else the inner value *)
Theorem C11_response_roundtrip : forall E cS cC m rS rC kc cS' r' pm ridS oobs, ideal E ->
  recipient_key cC = sender_key cS -> recipient_id cC = sender_id cS -> common_iv cC = common_iv cS -> c_alg cC = c_alg cS ->
  is_response (code m) = true -> rid_kid rC = rid_kid rS -> rid_piv rC = rid_piv rS ->
  (snd (code_style rS) = CODE_CHANGED \/ snd (code_style rS) = CODE_CONTENT) ->
  protect E cS m (Some rS) kc = (cS', r', Ok (pm, ridS)) ->
  alg_tag_bytes (c_alg cC) + 1 <= blen (payload pm) ->
  exists um,
    unprotect E cC {| code := code pm; opts := set_opt OPT_OBSERVE oobs (opts pm); payload := payload pm |} (Some rC) = (cC, Ok (um, rC)) /\
    u_code um = code m /\ u_opts um = del_opt OPT_OBSERVE (opts m) /\ u_payload um = payload m /\
    u_observe um = match oobs with
                   | None => observe_value (opts m)
                   | Some _ => Some (if can_reuse_nonce rS then -1 else from_bytes_big (piv_of_seq (sender_sequence_number cS)))
                   end /\
    rid_kid ridS = rid_kid rS /\ rid_piv ridS = rid_piv rS.
Proof. exact response_roundtrip_any. Qed.
Print Assumptions C11_response_roundtrip.

(* notifications: protect draws a fresh sequence number (and refuses at MAX_SEQNO), the OSCORE option carries it in shortest form (and the
   kid iff responses_send_kid), the nonce is built from the response's own Partial IV and the responder's id, the AAD carries the REQUEST's
   kid and Partial IV; the requester gets code, options and payload back and Observe = the notification's sequence number *)
Theorem C11_notification_roundtrip : forall E cS cC m rS rC kc cS' r' pm ridS oobs, ideal E ->
  recipient_key cC = sender_key cS -> recipient_id cC = sender_id cS -> common_iv cC = common_iv cS -> c_alg cC = c_alg cS ->
  is_response (code m) = true -> can_reuse_nonce rS = false -> rid_kid rC = rid_kid rS -> rid_piv rC = rid_piv rS ->
  (snd (code_style rS) = CODE_CHANGED \/ snd (code_style rS) = CODE_CONTENT) ->
  protect E cS m (Some rS) kc = (cS', r', Ok (pm, ridS)) ->
  alg_tag_bytes (c_alg cC) + 1 <= blen (payload pm) ->
  let seq := sender_sequence_number cS in
  (exists um,
    unprotect E cC {| code := code pm; opts := set_opt OPT_OBSERVE oobs (opts pm); payload := payload pm |} (Some rC) = (cC, Ok (um, rC)) /\
    u_code um = code m /\ u_opts um = del_opt OPT_OBSERVE (opts m) /\ u_payload um = payload m /\
    u_observe um = match oobs with None => observe_value (opts m) | Some _ => Some (from_bytes_big (piv_of_seq seq)) end) /\
  seq < MAX_SEQNO /\ sender_sequence_number cS' = seq + 1 /\
  (exists od, opts pm = [(OPT_OSCORE, od)] /\
     uncompress od = Ok {| u_piv := Some (piv_of_seq seq); u_kid := if responses_send_kid cS then Some (sender_id cS) else None;
                           u_kid_context := None; u_group := false |}) /\
  (exists nonce pt,
     construct_nonce (common_iv cS) (to_bytes_big_n (Z.to_nat PIV_FULL_BYTES) seq) (sender_id cS) (alg_iv_bytes (c_alg cS)) = Ok nonce /\
     payload pm = enc E (sender_key cS) nonce
       (build_encrypt0_structure (extract_external_aad (c_alg cS)
          {| rid_kid := rid_kid rS; rid_piv := rid_piv rS; can_reuse_nonce := false; code_style := code_style rS |})) pt).
Proof. exact notification_roundtrip. Qed.
Print Assumptions C11_notification_roundtrip.

(* ---------------------------------------------------------------- the outer message reveals nothing of the inner one *)
(* only Uri-Host, Observe and the OSCORE option outside; Uri-Host is the message's own; fixed outer codes.  Says nothing about proxied
   requests (Uri-Port / Proxy-Scheme outside): for them the hypothesis is unsatisfiable, see C11_proxy_uri_request_refuted *)
Theorem C11_outer_shape : forall E c m r kc c' r' pm rid',
  protect E c m r kc = (c', r', Ok (pm, rid')) ->
  Forall (fun o => fst o = OPT_URI_HOST \/ fst o = OPT_OBSERVE \/ fst o = OPT_OSCORE) (opts pm) /\
  (forall o, In o (opts pm) -> fst o = OPT_URI_HOST -> is_request (code m) = true /\ get_opt OPT_URI_HOST (opts m) = Some (snd o)) /\
  (if is_request (code m) then code pm = CODE_POST \/ code pm = CODE_FETCH
   else exists r0, r = Some r0 /\ code pm = snd (code_style r0)).
Proof. exact outer_shape. Qed.
Print Assumptions C11_outer_shape.

(* non-interference: two messages that agree on request/response class, Uri-Host and Observe give — from the same context state and
   request identifiers — the same outer code, the same outer options, the same context / request-id updates, and ciphertexts
   enc k n a p1 / enc k n a p2 under the same key, nonce and AAD: everything else of the message reaches the outside only through
   the AEAD plaintext *)
Theorem C11_outer_reveals_nothing : forall E c m1 m2 r kc c1 r1 pm1 rid1 c2 r2 pm2 rid2,
  view_eq m1 m2 ->
  protect E c m1 r kc = (c1, r1, Ok (pm1, rid1)) ->
  protect E c m2 r kc = (c2, r2, Ok (pm2, rid2)) ->
  c1 = c2 /\ r1 = r2 /\ rid1 = rid2 /\ code pm1 = code pm2 /\ opts pm1 = opts pm2 /\
  exists k n a p1 p2,
    payload pm1 = enc E k n a p1 /\ payload pm2 = enc E k n a p2 /\
    plaintext_of (code m1) (inner_opts m1) (payload m1) = Ok p1 /\
    plaintext_of (code m2) (inner_opts m2) (payload m2) = Ok p2.
Proof. exact outer_reveals_nothing. Qed.
Print Assumptions C11_outer_reveals_nothing.

(* ---------------------------------------------------------------- tampering, foreign keys, foreign requests *)
(* whatever unprotect accepts is an honest encryption under the recipient key, the nonce and the AAD the recipient computed from the
   option and its request identifiers: a ciphertext that is not one is rejected.  This restates the `ideal` hypothesis (dec_sound) at the level of
   unprotect; it says nothing about a flipped bit as such — single-bit flips are exercised on the implementation only (tamper and *_bitflip streams) *)
Theorem C11_unprotect_accepts_only_honest : forall E c pm r c' pt seqno rid', ideal E ->
  unprotect_verify E c pm r = Ok (c', pt, seqno, rid') ->
  exists nonce, payload pm = enc E (recipient_key c) nonce (build_encrypt0_structure (extract_external_aad (c_alg c) rid')) pt.
Proof. exact unprotect_accepts_only_honest. Qed.
Print Assumptions C11_unprotect_accepts_only_honest.

(* If a message carrying the ciphertext some sender produced with protect is accepted — whatever else was changed in it, by whichever
   context, for whichever request — then the recipient key IS the sender's key (other keys: rejected), the algorithm and the request's
   kid and Partial IV in the AAD ARE the sender's (a response verifies only with the identifiers of the request it answers; for a request
   they are its own kid and Partial IV, so changing those in the option is rejected), and the plaintext IS the sender's message. *)
Theorem C11_accepted_implies_unchanged : forall E cS m rS kc cS' rS' pmS ridS cR pm rR cR' pt seqno ridR, ideal E ->
  small_alg (c_alg cS) -> small_alg (c_alg cR) -> small_rid ridS -> small_rid ridR ->
  protect E cS m rS kc = (cS', rS', Ok (pmS, ridS)) ->
  unprotect_verify E cR pm rR = Ok (cR', pt, seqno, ridR) ->
  payload pm = payload pmS ->
  recipient_key cR = sender_key cS /\
  alg_value (c_alg cR) = alg_value (c_alg cS) /\ rid_kid ridR = rid_kid ridS /\ rid_piv ridR = rid_piv ridS /\
  plaintext_of (code m) (inner_opts m) (payload m) = Ok pt.
Proof. exact accepted_implies_unchanged. Qed.
Print Assumptions C11_accepted_implies_unchanged.

(* what acceptance says about the OSCORE option of the accepted message: KID and ID context, if present, are the recipient's own
   (anything else is rejected); a request carries a Partial IV and it is the one in the returned identifiers (hence, by the theorem
   above, the sender's); the Group flag is clear *)
Theorem C11_accepted_option_fields : forall E c pm r c' pt seqno rid',
  unprotect_verify E c pm r = Ok (c', pt, seqno, rid') ->
  exists od u pivs gen nonce,
    get_opt OPT_OSCORE (opts pm) = Some od /\ uncompress od = Ok u /\
    eff_kid_context c u = id_context c /\ eff_kid c u = recipient_id c /\ u_group u = false /\
    match u_piv u, r with
    | None, Some r0 => pivs = rid_piv r0 /\ gen = rid_kid r0 /\ rid' = r0 /\ seqno = None
    | Some p, Some r0 => pivs = p /\ gen = recipient_id c /\ rid' = r0 /\ seqno = Some (from_bytes_big p)
    | Some p, None => pivs = p /\ gen = recipient_id c /\ rid_kid rid' = recipient_id c /\ rid_piv rid' = p /\ seqno = Some (from_bytes_big p)
    | None, None => False
    end /\
    construct_nonce (common_iv c) pivs gen (alg_iv_bytes (c_alg c)) = Ok nonce /\
    dec E (recipient_key c) nonce (build_encrypt0_structure (extract_external_aad (c_alg c) rid')) (payload pm) = Some pt.
Proof. exact unprotect_verify_inv. Qed.
Print Assumptions C11_accepted_option_fields.

(* a protected response — first or with its own Partial IV — accepted under the request identifiers (k1, p1) was produced for (k1, p1):
   it cannot be replayed against another request *)
Theorem C11_response_not_replayable_against_other_request :
  forall E cS m rS kc cS' rS' pmS ridS cR pm rR cR' pt seqno ridR, ideal E ->
  small_alg (c_alg cS) -> small_alg (c_alg cR) -> small_rid rS -> small_rid rR ->
  is_response (code m) = true ->
  protect E cS m (Some rS) kc = (cS', rS', Ok (pmS, ridS)) ->
  unprotect_verify E cR pm (Some rR) = Ok (cR', pt, seqno, ridR) ->
  payload pm = payload pmS ->
  rid_kid rR = rid_kid rS /\ rid_piv rR = rid_piv rS.
Proof. exact response_not_replayable_against_other_request. Qed.
Print Assumptions C11_response_not_replayable_against_other_request.

(* the own Partial IV of a response is bound through the nonce: if a message carrying the ciphertext of a sender's own-PIV response is
   accepted (same common IV and algorithm, admissible id lengths, the request's kid differs from the responder's id), its option carries a
   Partial IV that is NUMERICALLY the sender's sequence number (equal after left-padding to 5 bytes; the encoding is not bound — open
   finding piv-zero-padded), and the recipient's recipient id is the sender's id *)
Theorem C11_response_own_piv_bound : forall E cS m rS kc cS' rS' pmS ridS cR pm rR cR' pt seqno ridR od u, ideal E ->
  common_iv cR = common_iv cS -> c_alg cR = c_alg cS ->
  blen (sender_id cS) <= alg_iv_bytes (c_alg cS) - NONCE_ID_OVERHEAD -> blen (recipient_id cR) <= alg_iv_bytes (c_alg cS) - NONCE_ID_OVERHEAD ->
  admissible_rid cR rR -> rid_kid rR <> sender_id cS ->
  is_response (code m) = true -> can_reuse_nonce rS = false ->
  protect E cS m (Some rS) kc = (cS', rS', Ok (pmS, ridS)) ->
  unprotect_verify E cR pm (Some rR) = Ok (cR', pt, seqno, ridR) -> payload pm = payload pmS ->
  get_opt OPT_OSCORE (opts pm) = Some od -> uncompress od = Ok u ->
  exists p, u_piv u = Some p /\ recipient_id cR = sender_id cS /\
    zeros (NONCE_PIV_BYTES - blen p) ++ p = to_bytes_big_n (Z.to_nat PIV_FULL_BYTES) (sender_sequence_number cS) /\
    seqno = Some (from_bytes_big p).
Proof. exact response_own_piv_bound. Qed.
Print Assumptions C11_response_own_piv_bound.

(* the identifiers unprotect hands on for a request offer the request's nonce for reuse only after its Partial IV was found valid in an
   initialised replay window, and the same call strikes that number out — at most one offer per number.  "partial": this model has
   echo_recovery = None; the branch where a replay error is pending and can_reuse_nonce must be False (oscore.py:1300-1305, ReplayErrorWithEcho)
   is driven on the implementation by the oracle-only *_echo streams (signature nonce-reuse-offered-for-replay) and belongs to C12's model *)
Theorem C11_request_ids_reusable_only_if_validated_partial : forall E c pm c' pt seqno rid',
  unprotect_verify E c pm None = Ok (c', pt, seqno, rid') ->
  exists w n w', recipient_replay_window c = Some w /\ seqno = Some n /\ is_valid w n = Ok true /\
    strike_out w n = Ok (w', tt) /\ recipient_replay_window c' = Some w' /\ can_reuse_nonce rid' = true.
Proof. exact request_ids_reusable_only_if_validated. Qed.
Print Assumptions C11_request_ids_reusable_only_if_validated_partial.

(* Changes of the OSCORE option of a request, with the limits made explicit.  If a message carrying a sender's request ciphertext is
   accepted, then the Partial IV FIELD of its option is the sender's byte for byte (it is in the AAD), the Group flag is clear, and the
   EFFECTIVE key id (KID field, or the recipient's own id when the field is absent) is the sender's id and the EFFECTIVE id context is the
   recipient's own.  Nothing more holds of the code as it is: the KID / ID-context FIELDS and bytes after the last field are not bound,
   because the OSCORE option is not in the AAD (RFC 8613 5.4) — the statement "any change to the key ID or ID context in the OSCORE option
   makes unprotection fail" is refuted by the three witnesses below (open known findings C11:accepted-option-change:...). *)
Theorem C11_request_option_change_detected :
  forall E cS m kc cS' rS' pmS ridS cR pm cR' pt seqno ridR od' u', ideal E ->
  small_alg (c_alg cS) -> small_alg (c_alg cR) -> small_rid ridS -> small_rid ridR ->
  is_request (code m) = true ->
  protect E cS m None kc = (cS', rS', Ok (pmS, ridS)) ->
  unprotect_verify E cR pm None = Ok (cR', pt, seqno, ridR) ->
  payload pm = payload pmS ->
  get_opt OPT_OSCORE (opts pm) = Some od' -> uncompress od' = Ok u' ->
  u_piv u' = Some (rid_piv ridS) /\ eff_kid cR u' = sender_id cS /\ eff_kid_context cR u' = id_context cR /\ u_group u' = false.
Proof. exact request_option_change_detected. Qed.
Print Assumptions C11_request_option_change_detected.

(* the nonce binds the id of whoever generated the Partial IV and the Partial IV itself (left-padded to 5 bytes): a response's own
   Partial IV, which is not in the AAD, cannot be changed without changing the nonce *)
Theorem C11_nonce_injective : forall civ piv id piv' id' iv n,
  blen id <= iv - NONCE_ID_OVERHEAD -> blen id' <= iv - NONCE_ID_OVERHEAD -> blen piv <= NONCE_PIV_BYTES -> blen piv' <= NONCE_PIV_BYTES ->
  construct_nonce civ piv id iv = Ok n -> construct_nonce civ piv' id' iv = Ok n ->
  id = id' /\ zeros (NONCE_PIV_BYTES - blen piv) ++ piv = zeros (NONCE_PIV_BYTES - blen piv') ++ piv'.
Proof. exact nonce_injective. Qed.
Print Assumptions C11_nonce_injective.

(* the AAD binds algorithm, request kid and request Partial IV (CBOR encoding is injective on them) *)
Theorem C11_external_aad_injective : forall a r a' r',
  - 2 ^ 64 <= alg_value a < 2 ^ 64 -> - 2 ^ 64 <= alg_value a' < 2 ^ 64 ->
  blen (rid_kid r) < 2 ^ 64 -> blen (rid_piv r) < 2 ^ 64 -> blen (rid_kid r') < 2 ^ 64 -> blen (rid_piv r') < 2 ^ 64 ->
  extract_external_aad a r = extract_external_aad a' r' ->
  alg_value a = alg_value a' /\ rid_kid r = rid_kid r' /\ rid_piv r = rid_piv r'.
Proof. exact external_aad_injective. Qed.
Print Assumptions C11_external_aad_injective.

(* ---------------------------------------------------------------- only protection errors *)
(* _uncompress raises nothing but DecodeError, for every byte string *)
Theorem C11_uncompress_total : forall od, (exists u, uncompress od = Ok u) \/ uncompress od = Raise DecodeError.
Proof. exact uncompress_total. Qed.
Print Assumptions C11_uncompress_total.

(* For every message (any bytes in option and payload), every admissible context and the calls the stack makes (requests with outer code
   POST/FETCH, responses with the identifiers of a request), everything up to and including decryption fails with NotAProtectedMessage,
   DecodeError, ProtectionInvalid or ReplayError only (the last three are ProtectionInvalid subclasses) *)
Theorem C11_unprotect_error_class : forall E c pm r e,
  admissible_ctx c -> call_ok c pm r -> Forall (fun o => bytes_ok (snd o) = true) (opts pm) ->
  unprotect_verify E c pm r = Raise e ->
  e = NotAProtectedMessage \/ e = DecodeError \/ e = ProtectionInvalid \/ e = ReplayError.
Proof. exact unprotect_verify_error_class. Qed.
Print Assumptions C11_unprotect_error_class.

(* after decryption succeeded — i.e. for plaintexts a key holder encrypted — only a malformed plaintext makes unprotect fail *)
Theorem C11_unprotect_finish_error_class : forall pm pt seqno e,
  unprotect_finish pm pt seqno = Raise e -> e = IndexError \/ e = UnparsableMessage.
Proof. exact unprotect_finish_error_class. Qed.
Print Assumptions C11_unprotect_finish_error_class.

(* ---------------------------------------------------------------- non-vacuity *)
(* the AEAD hypothesis is satisfiable: the symbolic scheme used in the correspondence run is ideal *)
Example C11_ideal_satisfiable : ideal sym_aead.
Proof. exact sym_ideal. Qed.
Print Assumptions C11_ideal_satisfiable.

Definition ex_alg : alg := {| alg_value := 10; alg_key_bytes := 16; alg_tag_bytes := 8; alg_iv_bytes := 13 |}.
Definition ex_A : ctx := {| c_alg := ex_alg; sender_id := [1]; recipient_id := [2; 3]; id_context := Some [55; 203];
  sender_key := repeat 17 16; recipient_key := repeat 34 16; common_iv := [70; 34; 212; 221; 109; 148; 65; 104; 238; 251; 84; 152; 124];
  sender_sequence_number := 65535; recipient_replay_window := Some {| rw_size := 32; rw_index := 0; rw_bitfield := 0 |}; responses_send_kid := false |}.
Definition ex_B : ctx := {| c_alg := ex_alg; sender_id := [2; 3]; recipient_id := [1]; id_context := Some [55; 203];
  sender_key := repeat 34 16; recipient_key := repeat 17 16; common_iv := [70; 34; 212; 221; 109; 148; 65; 104; 238; 251; 84; 152; 124];
  sender_sequence_number := 7; recipient_replay_window := Some {| rw_size := 32; rw_index := 65530; rw_bitfield := 3 |}; responses_send_kid := false |}.
Definition ex_req : msg := {| code := 1; opts := [(3, [104; 111; 115; 116]); (6, []); (11, [116; 118]); (12, [40])]; payload := [1; 2; 3] |}.
(* the hypotheses of the round-trip, error-class and tamper theorems hold for a concrete pair of contexts and a concrete request;
   the computed round trip gives back code 1, Uri-Path and Content-Format (Uri-Host stays outside), Observe 0 and the payload *)
Example C11_hypotheses_satisfiable :
  matched_keys ex_A ex_B /\ matched ex_A ex_B /\ admissible_ctx ex_B /\ small_alg ex_alg /\ is_request (code ex_req) = true /\
  exists cA' pm ridA cB' um ridB,
    protect sym_aead ex_A ex_req None KcDefault = (cA', None, Ok (pm, ridA)) /\
    code pm = CODE_FETCH /\ map fst (opts pm) = [OPT_URI_HOST; OPT_OBSERVE; OPT_OSCORE] /\ get_opt OPT_OSCORE (opts pm) = Some [26; 255; 255; 2; 55; 203; 1] /\
    small_rid ridA /\ call_ok ex_B pm None /\ alg_tag_bytes ex_alg + 1 <= blen (payload pm) /\
    unprotect sym_aead ex_B pm None = (cB', Ok (um, ridB)) /\
    um = {| u_code := 1; u_observe := Some 0; u_opts := [(11, [116; 118]); (12, [40])]; u_payload := [1; 2; 3] |} /\
    (* a flipped ciphertext bit, a changed Partial IV, a foreign key: rejected *)
    snd (unprotect sym_aead ex_B (apply_tamper (TPayBit 40 3) pm) None) = Raise ProtectionInvalid /\
    snd (unprotect sym_aead ex_B (apply_tamper (TOptBit 2 0) pm) None) = Raise ProtectionInvalid /\
    snd (unprotect sym_aead ex_A pm None) = Raise ProtectionInvalid /\
    (* Group flag set by a bit flip: DecodeError *)
    snd (unprotect sym_aead ex_B (apply_tamper (TOptBit 0 5) pm) None) = Raise DecodeError.
Proof.
  split. { unfold matched_keys. repeat split; reflexivity. }
  split. { unfold matched. repeat split; reflexivity. }
  split. { unfold admissible_ctx, Proofs.C12.Inv. cbn. repeat split; lia. }
  split. { unfold small_alg. cbn. lia. }
  split; [reflexivity|].
  do 6 eexists.
  split. { vm_compute. reflexivity. }
  split; [reflexivity|]. split; [reflexivity|]. split; [vm_compute; reflexivity|].
  split. { unfold small_rid. cbn. lia. }
  split. { right. reflexivity. }
  split. { vm_compute. discriminate. }
  split. { vm_compute. reflexivity. }
  split; [reflexivity|].
  repeat split; vm_compute; reflexivity.
Qed.
Print Assumptions C11_hypotheses_satisfiable.


(* ---------------------------------------------------------------- refuted: field-level changes of the OSCORE option that ARE accepted *)
Definition ex_resp : msg := {| code := 69; opts := [(12, [])]; payload := [111; 107] |}.
Definition ex_rid : rid := {| rid_kid := [1]; rid_piv := [255; 255]; can_reuse_nonce := false; code_style := (CODE_FETCH, CODE_CONTENT) |}.
(* (a) K flag of a request cleared (1a ff ff 02 37 cb 01 -> 12 ff ff 02 37 cb 01): the kid byte is left behind and ignored, the kid
   defaults to recipient_id; (b) KID and ID-context fields removed (-> 02 ff ff): both default; in each case the very same message
   and request identifiers come out as for the untouched request *)
Example C11_request_kid_idcontext_change_refuted :
  exists pm um r,
    snd (protect sym_aead ex_A ex_req None KcDefault) = Ok (pm, r) /\
    get_opt OPT_OSCORE (opts pm) = Some [26; 255; 255; 2; 55; 203; 1] /\
    snd (unprotect sym_aead ex_B pm None) = Ok um /\
    snd (unprotect sym_aead ex_B (apply_tamper (TOptSet [18; 255; 255; 2; 55; 203; 1]) pm) None) = Ok um /\
    snd (unprotect sym_aead ex_B (apply_tamper (TOptSet [2; 255; 255]) pm) None) = Ok um.
Proof. do 3 eexists. split; [vm_compute; reflexivity|]. split; [reflexivity|]. split; [vm_compute; reflexivity|]. split; vm_compute; reflexivity. Qed.
Print Assumptions C11_request_kid_idcontext_change_refuted.
(* (c) the own Partial IV of a response re-encoded with leading zero bytes (01 07 -> 03 00 00 07), (d) a KID field added (09 07 02 03):
   accepted with the same result *)
Example C11_response_piv_kid_change_refuted :
  exists pm um r,
    snd (protect sym_aead ex_B ex_resp (Some ex_rid) KcDefault) = Ok (pm, r) /\
    get_opt OPT_OSCORE (opts pm) = Some [1; 7] /\
    snd (unprotect sym_aead ex_A pm (Some ex_rid)) = Ok um /\
    snd (unprotect sym_aead ex_A (apply_tamper (TOptSet [3; 0; 0; 7]) pm) (Some ex_rid)) = Ok um /\
    snd (unprotect sym_aead ex_A (apply_tamper (TOptSet [9; 7; 2; 3]) pm) (Some ex_rid)) = Ok um.
Proof. do 3 eexists. split; [vm_compute; reflexivity|]. split; [reflexivity|]. split; [vm_compute; reflexivity|]. split; vm_compute; reflexivity. Qed.
Print Assumptions C11_response_piv_kid_change_refuted.
