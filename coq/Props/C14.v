(* C14 — NSTART=1: one open confirmable exchange per peer, FIFO backlog, none forgotten.
   Only statements here; every proof is [exact <lemma of Proofs/C14.v / Proofs/C14step.v>].

   Vocabulary (Model/C14.v, Proofs/C14.v): [run (init mid0 token0 rnd) es] executes an arbitrary event list
   (submissions of CON/NON requests and raw responses to any remotes, empty messages and responses from any
   remote, transport errors, timer firings, time advances, cancellations) from the initial state with arbitrary
   message-id/token counters and arbitrary random.uniform draws.  [exs r s] = the active exchanges with r,
   [count_r r s] their number, [backlog_of r s] the queue of r, [subm r tr] the confirmable messages handed to
   send_message for r in trace tr, [left r tr] those that left the queue (first transmission [Tx m false] or
   [Dropped m]), [reqs r s] the outstanding requests to r.
   Model/C14refuse.v is the same code for transports that may refuse a datagram synchronously (the error is reported
   from inside message_interface.send()): [rrun (s, l) es] runs events [Ev e] and [Refuse r on/off], l = the remotes
   currently refused; [quiet es] = the transport never starts refusing.  With l = [] it IS Model/C14.v
   (C14_accepting_transport_is_base_model).  The run-level theorems below hold for ARBITRARY refusals (they were
   refuted for the code before /repo commits 11456f9 and 8d04b7c: findings C14-R1 / C14-R2 in notes/C14.md). *)
From Verif Require Import Lib.Py Lib.Tactics Gen.c14_message_id Model.C14 Model.C14refuse Proofs.C14 Proofs.C14step Proofs.C14req Proofs.C14mid Proofs.C14refuse Proofs.C14drop Proofs.C14live Proofs.C14gen Proofs.C14R6 Proofs.C14R6b.
Import ListNotations.
Open Scope Z_scope.

(* ---- the general model without refusals is Model/C14.v: same final state, same trace *)
Theorem C14_accepting_transport_is_base_model : forall es s, Inv s -> quiet es = true ->
  fst (rrun (s, []) es) = (fst (run s (events_of es)), []) /\
  concat (snd (rrun (s, []) es)) = concat (snd (run s (events_of es))).
Proof. exact rrun_quiet. Qed.
Print Assumptions C14_accepting_transport_is_base_model.
Theorem C14_step_without_refusal : forall s e, Inv s -> step_ev [] s e = step s e.
Proof. exact step_without_refusal. Qed.
Print Assumptions C14_step_without_refusal.

(* ---- at every instant at most one confirmable message per remote awaits its acknowledgement — whatever the
   transport refuses and when *)
Theorem C14_one_exchange_per_remote : forall mid0 token0 rnd es r,
  let s := fst (fst (rrun (init mid0 token0 rnd, []) es)) in
  (count_r r s <= 1)%nat /\ (in_backlogs r s = true <-> count_r r s = 1%nat) /\
  Forall (fun m => m_mtype m = 0 /\ m_remote m = r) (backlog_of r s).
Proof. exact general_one_exchange_per_remote. Qed.
Print Assumptions C14_one_exchange_per_remote.
Theorem C14_general_inv : forall mid0 token0 rnd es, Inv (fst (fst (rrun (init mid0 token0 rnd, []) es))).
Proof. exact general_inv. Qed.
Print Assumptions C14_general_inv.
(* one event with any set l of refused remotes: invariant preserved, queues balanced, no internal error *)
Theorem C14_general_step : forall l s e, Inv s ->
  let s' := fst (step_ev l s e) in let o := snd (step_ev l s e) in
  Inv s' /\ (forall r, backlog_of r s ++ subm r o = left r o ++ backlog_of r s') /\ (forall x, ~ In (Crash x) o).
Proof. exact general_step. Qed.
Print Assumptions C14_general_step.

(* the invariant all step theorems below assume holds in every reachable state *)
Theorem C14_reachable_inv : forall mid0 token0 rnd es, Inv (fst (run (init mid0 token0 rnd) es)).
Proof. exact reachable_inv. Qed.
Print Assumptions C14_reachable_inv.
Theorem C14_inv_preserved : forall s e, Inv s -> Inv (fst (step s e)).
Proof. exact (fun s e H => proj1 (step_trans s e H)). Qed.
Print Assumptions C14_inv_preserved.

(* no exception leaves the modelled code: the AssertionError of _continue_backlog / send_message and the KeyErrors of
   _retransmit are unreachable, also with a transport that refuses datagrams from inside send(); and a responder's response
   never raises (before /repo fix 44c4a4c a refused non-last response raised TypeError in Pipe._add_event: finding C14-R3) *)
Theorem C14_no_internal_error : forall mid0 token0 rnd es e,
  ~ In (Crash e) (concat (snd (rrun (init mid0 token0 rnd, []) es))).
Proof. exact general_nocrash. Qed.
Print Assumptions C14_no_internal_error.

(* ---- FIFO refinement, none forgotten: for every remote, the confirmable messages submitted, in order, are
   exactly those that left the queue (first transmission, or discarded when the endpoint failed), in order,
   followed by the current backlog.  Equality of lists: each submission is accounted for exactly once. *)
Theorem C14_fifo : forall mid0 token0 rnd es r,
  let s := fst (fst (rrun (init mid0 token0 rnd, []) es)) in let tr := concat (snd (rrun (init mid0 token0 rnd, []) es)) in
  subm r tr = left r tr ++ backlog_of r s.
Proof. exact general_fifo. Qed.
Print Assumptions C14_fifo.
(* ... and a message is discarded ([Dropped]: from the queue on give-up / transport error / refusal, or because its own
   first transmission was refused) only in a step after which no request to its remote is outstanding and no responder
   for its remote is alive any more; no step other than a request submission adds an outstanding request, none other than
   process_request a responder.  (Entries leave outgoing_requests only through
   tm_dispatch_error / call_monitor / tm_process_response / Cancel, which emit Fail / Deliver / Cancelled for them by
   definition; that every outstanding request to the remote gets its Fail in that step is C14_dropped_when_failed.) *)
Theorem C14_discarded_only_with_requests_failed : forall l s e, Inv s ->
  (forall m, In (Dropped m) (snd (step_ev l s e)) ->
     reqs (m_remote m) (fst (step_ev l s e)) = [] /\ served_from (m_remote m) (fst (step_ev l s e)) = []) /\
  ((forall q r mt maxre, e <> Request q r mt maxre) -> forall r en, In en (reqs r (fst (step_ev l s e))) -> In en (reqs r s)) /\
  ((forall k r tok mt, e <> Serve k r tok mt) -> forall v, In v (incoming_requests (fst (step_ev l s e))) -> In v (incoming_requests s)).
Proof. exact step_ev_drop_clears. Qed.
Print Assumptions C14_discarded_only_with_requests_failed.
(* a refusal is, literally, the transport-error step: C14_dropped_when_failed describes what it does *)
Theorem C14_refusal_is_transport_error : forall l what r s, refuses l r = true ->
  send_via_transport l what r s = (fst (step s (TransportError r)), refused_ghost what ++ snd (step s (TransportError r))).
Proof. exact refusal_is_transport_error. Qed.
Print Assumptions C14_refusal_is_transport_error.

(* ---- released as soon as, and only when, the exchange ahead is acknowledged or reset:
   (a) an ACK/RST from r with the message ID of the open exchange puts the head of r's queue on the wire in the
       very same step, opens its exchange (counter 0) and keeps the rest queued; an empty queue entry is removed; *)
Theorem C14_released_when_acked : forall s e r q, Inv s -> acks s e r = true -> aget r (backlogs s) = Some q ->
  let s' := fst (step s e) in let o := snd (step s e) in
  subm r o = [] /\
  match q with
  | m :: rest => In (Tx m false) o /\ left r o = [m] /\ aget r (backlogs s') = Some rest /\
                 exists x', exs r s' = [x'] /\ x_msg x' = m /\ x_counter x' = 0
  | [] => left r o = [] /\ aget r (backlogs s') = None /\ exs r s' = []
  end.
Proof. exact released_when_acked. Qed.
Print Assumptions C14_released_when_acked.

(* (b) a transport error for r, or the final time-out of the exchange with r, discards the whole queue of r without
       transmitting anything, fails every request to r that is still outstanding (in particular those of the
       held-back messages), and leaves neither exchange nor queue nor outstanding request for r; *)
Theorem C14_dropped_when_failed : forall s e r q, Inv s -> fails s e r = true -> aget r (backlogs s) = Some q ->
  let s' := fst (step s e) in let o := snd (step s e) in
  left r o = q /\ subm r o = [] /\ (forall m, In m q -> In (Dropped m) o) /\ (forall m b, ~ In (Tx m b) o) /\
  (forall en, In en (reqs r s) -> exists err, In (Fail (q_of en) err) o) /\
  aget r (backlogs s') = None /\ exs r s' = [] /\ reqs r s' = [] /\
  (forall v, In v (served_from r s) -> In (Ended (v_k v)) o) /\ served_from r s' = [].
Proof. exact dropped_when_failed. Qed.
Print Assumptions C14_dropped_when_failed.
(* held-back messages that are not requests (CON notifications / separate responses, [m_sub m = Resp j k]) have no request
   to fail; what "failed" means for them is that their responder is stopped: every entry of TokenManager.incoming_requests
   for r — [respond] sends to the remote of the responder's own entry, so these are the responders whose messages wait in
   r's queue — loses its pipe in that step ([Ended k]: handler cancelled, entry deleted).  A responder that has already
   produced its last response is not in incoming_requests any more: nothing is left to notify. *)
Theorem C14_dropped_response_stopped : forall s e r q, Inv s -> fails s e r = true -> aget r (backlogs s) = Some q ->
  (forall v, In v (incoming_requests s) -> v_remote v = r -> In (Ended (v_k v)) (snd (step s e))) /\
  served_from r (fst (step s e)) = [].
Proof. exact dropped_response_stopped. Qed.
Print Assumptions C14_dropped_response_stopped.

(* (c) any other event — whatever it is and whichever remote it concerns — leaves every queued message queued, in
       order, behind the same outstanding message (new submissions are appended), and puts no confirmable message
       for r on the wire for the first time. *)
Theorem C14_held_otherwise : forall s e r q, Inv s -> aget r (backlogs s) = Some q -> acks s e r = false -> fails s e r = false ->
  let s' := fst (step s e) in let o := snd (step s e) in
  aget r (backlogs s') = Some (q ++ subm r o) /\ left r o = [] /\
  exists x x', exs r s = [x] /\ exs r s' = [x'] /\ x_msg x' = x_msg x.
Proof. exact held_otherwise. Qed.
Print Assumptions C14_held_otherwise.

(* ---- not delayed: a non-confirmable message, and a confirmable one to a remote with nothing outstanding, goes on
   the wire in the step in which it is submitted (no hypothesis on the state at all) ... *)
Theorem C14_not_delayed : forall s e who r mt, submits e = Some (who, r, mt) ->
  (resolve_mtype mt <> 0 \/ in_backlogs r s = false) ->
  exists m, snd (step s e) = [Submitted m; Tx m false] /\ m_sub m = who /\ m_remote m = r /\ m_mtype m = resolve_mtype mt.
Proof. exact not_delayed. Qed.
Print Assumptions C14_not_delayed.

(* ... whereas a confirmable one to a busy remote is appended to its queue and nothing is sent *)
Theorem C14_held_back_when_busy : forall s e who r mt q, Inv s -> submits e = Some (who, r, mt) -> resolve_mtype mt = 0 ->
  aget r (backlogs s) = Some q ->
  exists m, snd (step s e) = [Submitted m] /\ aget r (backlogs (fst (step s e))) = Some (q ++ [m]) /\
    exs r (fst (step s e)) = exs r s /\ m_sub m = who /\ m_remote m = r /\ m_mtype m = 0.
Proof. exact held_back_when_busy. Qed.
Print Assumptions C14_held_back_when_busy.

(* ---- exchanges with different endpoints do not influence each other: an event that is about remote r' (a
   submission to r', a datagram from r', an error for r', the timer of an exchange with r') leaves the exchange
   and the queue of every other remote r exactly as they are and emits nothing that concerns r *)
Theorem C14_other_remotes_untouched : forall s e r, Inv s -> touches s e r = false ->
  exs r (fst (step s e)) = exs r s /\ aget r (backlogs (fst (step s e))) = aget r (backlogs s) /\
  silent r (snd (step s e)) = true.
Proof. exact step_frame. Qed.
Print Assumptions C14_other_remotes_untouched.

(* ---- on the wire: a confirmable message to a remote that has something outstanding is transmitted for the first
   time only in a step in which that outstanding exchange is acknowledged or reset *)
Theorem C14_first_transmission_only_when_idle_or_acked : forall s e r m, Inv s ->
  In (Tx m false) (snd (step s e)) -> con_to r m = true -> in_backlogs r s = true -> acks s e r = true.
Proof. exact first_transmission_only_when_idle_or_acked. Qed.
Print Assumptions C14_first_transmission_only_when_idle_or_acked.

(* ---- ... and the outstanding requests of every other remote stay exactly as they are (none failed, none forgotten) *)
Theorem C14_requests_to_other_remotes_untouched : forall s e r, Inv s -> touches s e r = false -> (forall q, e <> Cancel q) ->
  reqs r (fst (step s e)) = reqs r s.
Proof. exact requests_to_other_remotes_untouched. Qed.
Print Assumptions C14_requests_to_other_remotes_untouched.

(* ---- eventually, for EVERY schedule (any interleaving of submissions, datagrams, errors, timers on any remotes):
   a message held back at position k of r's queue has left the queue — put on the wire, or discarded with its request
   failed (C14_dropped_when_failed) — as soon as the schedule contains [budget r k s] progress steps of the exchange
   ahead of it: steps in which that exchange is acknowledged/reset, fails, or its retransmission timer fires.
   The measure is the retransmission budget: what is left for the exchange ahead + (1 + MAX_RETRANSMIT) for each
   message queued ahead. *)
Theorem C14_eventually_transmitted_or_failed : forall es s r k m, Inv s -> nth_error (backlog_of r s) k = Some m ->
  (budget r k s <= count_progress s es r)%nat -> In m (left r (concat (snd (run s es)))).
Proof. exact eventually_leaves. Qed.
Print Assumptions C14_eventually_transmitted_or_failed.

(* fairness hypothesis, explicit: in the infinite schedule [sch], from every point on there is a later step at which the
   exchange open with r is acknowledged/reset, fails or has its timer fired, or nothing is outstanding at r ("timers
   keep firing").  Then every held-back message is eventually transmitted or its request failed. *)
Theorem C14_fair_schedule_eventually : forall sch s r k m, Inv s -> nth_error (backlog_of r s) k = Some m ->
  fair sch s r -> exists n, In m (left r (trace_to sch s n)).
Proof. exact fair_eventually_leaves. Qed.
Print Assumptions C14_fair_schedule_eventually.
Theorem C14_timers_only_schedule_is_fair : forall s r, Inv s -> fair (fun _ => Fire) s r.
Proof. exact timers_only_schedule_is_fair. Qed.
Print Assumptions C14_timers_only_schedule_is_fair.

(* ---- the per-step theorems and the liveness bound under refusals (round 5).  An event about remote r hands datagrams only
   to r, so as long as r itself is not refused the general step is the base step, whatever else is refused; an event
   about another remote leaves r alone even if that remote is refused.  Hence, for every remote r that is not refused: *)
Theorem C14_general_step_about_accepted_remote : forall l r, refuses l r = false -> forall s e, Inv s -> touches s e r = true ->
  step_ev l s e = step s e.
Proof. exact step_ev_touched. Qed.
Print Assumptions C14_general_step_about_accepted_remote.
Theorem C14_general_other_remotes_untouched : forall l s e r, Inv s -> touches s e r = false ->
  exs r (fst (step_ev l s e)) = exs r s /\ aget r (backlogs (fst (step_ev l s e))) = aget r (backlogs s) /\
  silent r (snd (step_ev l s e)) = true.
Proof. exact step_ev_frame. Qed.
Print Assumptions C14_general_other_remotes_untouched.
Theorem C14_general_released_when_acked : forall l r, refuses l r = false -> forall s e q, Inv s -> acks s e r = true ->
  aget r (backlogs s) = Some q ->
  let s' := fst (step_ev l s e) in let o := snd (step_ev l s e) in
  subm r o = [] /\
  match q with
  | m :: rest => In (Tx m false) o /\ left r o = [m] /\ aget r (backlogs s') = Some rest /\
                 exists x', exs r s' = [x'] /\ x_msg x' = m /\ x_counter x' = 0
  | [] => left r o = [] /\ aget r (backlogs s') = None /\ exs r s' = []
  end.
Proof. exact general_released_when_acked. Qed.
Print Assumptions C14_general_released_when_acked.
Theorem C14_general_dropped_when_failed : forall l r, refuses l r = false -> forall s e q, Inv s -> fails s e r = true ->
  aget r (backlogs s) = Some q -> failed_outcome r q s (fst (step_ev l s e)) (snd (step_ev l s e)).
Proof. exact general_dropped_when_failed. Qed.
Print Assumptions C14_general_dropped_when_failed.
Theorem C14_general_held_otherwise : forall l r, refuses l r = false -> forall s e q, Inv s -> aget r (backlogs s) = Some q ->
  acks s e r = false -> fails s e r = false ->
  let s' := fst (step_ev l s e) in let o := snd (step_ev l s e) in
  aget r (backlogs s') = Some (q ++ subm r o) /\ left r o = [] /\
  exists x x', exs r s = [x] /\ exs r s' = [x'] /\ x_msg x' = x_msg x /\
    (if fires_on s e r then x_counter x' = x_counter x + 1 /\ x_counter x < m_maxre (x_msg x) else x' = x).
Proof. exact general_held_otherwise_detail. Qed.
Print Assumptions C14_general_held_otherwise.
(* liveness over [rrun], for every schedule in which r itself is never refused (other remotes may be refused and accepted
   again at will): same budget, same notion of progress ([gcount] counts ACK/RST, failure and timer steps of r's exchange).
   Residue: if r itself is refused, an attempted send to r is the transport-error step for r (C14_refusal_is_transport_error)
   and discards the queue at once; that case split ("was a send attempted in this step?") is not carried through here. *)
Theorem C14_general_eventually : forall es s l r k m, Inv s -> refuses l r = false -> never_refuses r es = true ->
  nth_error (backlog_of r s) k = Some m -> (budget r k s <= gcount (s, l) es r)%nat ->
  In m (left r (concat (snd (rrun (s, l) es)))).
Proof. exact general_eventually_leaves. Qed.
Print Assumptions C14_general_eventually.

(* ---- round 6: history-level statements (run level; r is never refused, every other remote may be refused and accepted
   again at will).  [first_con_tx r m o]: the confirmable message m for r is put on the wire for the first time in o. *)
(* the first transmission of a confirmable message opens the exchange for exactly that message *)
Theorem C14_first_tx_opens_exchange : forall l r, refuses l r = false -> forall s e m, Inv s ->
  first_con_tx r m (snd (step_ev l s e)) -> exists x, exs r (fst (step_ev l s e)) = [x] /\ x_msg x = m.
Proof. exact general_first_tx_opens_exchange. Qed.
Print Assumptions C14_first_tx_opens_exchange.
(* at most one confirmable message per remote in flight, as a statement about histories: from ANY reachable state, after a
   step that puts CON m1 for r on the wire, through any run in which no step acknowledges/resets that exchange or fails r
   ([quiet_for]), m1 stays the one in flight, no other CON for r is put on the wire, and a step that then does put another
   one on the wire is an ACK/RST carrying the message ID of m1's exchange *)
Theorem C14_one_confirmable_in_flight_history : forall mid0 token0 rnd es0 es r e1 m1 e2 m2,
  let s := fst (fst (rrun (init mid0 token0 rnd, []) es0)) in let l := snd (fst (rrun (init mid0 token0 rnd, []) es0)) in
  refuses l r = false -> never_refuses r es = true ->
  first_con_tx r m1 (snd (step_ev l s e1)) ->
  let s1 := fst (step_ev l s e1) in
  quiet_for r (s1, l) es = true ->
  let s2 := fst (fst (rrun (s1, l) es)) in let l2 := snd (fst (rrun (s1, l) es)) in
  (forall m, ~ first_con_tx r m (concat (snd (rrun (s1, l) es)))) /\
  (exists x, exs r s2 = [x] /\ x_msg x = m1) /\
  (first_con_tx r m2 (snd (step_ev l2 s2 e2)) -> acks s2 e2 r = true).
Proof. exact reachable_one_confirmable_in_flight_history. Qed.
Print Assumptions C14_one_confirmable_in_flight_history.
(* ... and, with no hypothesis on what happens in between: two first transmissions of confirmable messages to r are always
   separated by a step that acknowledges/resets the open exchange or fails r (the second one's own step included) *)
Theorem C14_two_first_transmissions_are_separated : forall mid0 token0 rnd es0 es r e1 m1 e2 m2,
  let s := fst (fst (rrun (init mid0 token0 rnd, []) es0)) in let l := snd (fst (rrun (init mid0 token0 rnd, []) es0)) in
  refuses l r = false -> never_refuses r es = true ->
  first_con_tx r m1 (snd (step_ev l s e1)) ->
  let s1 := fst (step_ev l s e1) in
  let s2 := fst (fst (rrun (s1, l) es)) in let l2 := snd (fst (rrun (s1, l) es)) in
  first_con_tx r m2 (snd (step_ev l2 s2 e2)) ->
  quiet_for r (s1, l) (es ++ [Ev e2]) = false.
Proof. exact two_first_transmissions_are_separated. Qed.
Print Assumptions C14_two_first_transmissions_are_separated.
(* fairness over infinite schedules of the general model (events and refusals of other remotes), from any reachable state:
   if from every point on a later step acknowledges/resets/fails r's exchange or fires its timer, or nothing is outstanding
   at r, every held-back message has eventually left the queue *)
Theorem C14_general_fair_schedule_eventually : forall mid0 token0 rnd es0 sch r k m,
  let s := fst (fst (rrun (init mid0 token0 rnd, []) es0)) in let l := snd (fst (rrun (init mid0 token0 rnd, []) es0)) in
  refuses l r = false -> never_refused_in r sch -> nth_error (backlog_of r s) k = Some m -> rfair sch (s, l) r ->
  exists n, In m (left r (rtrace_to sch (s, l) n)).
Proof. exact reachable_general_fair_eventually_leaves. Qed.
Print Assumptions C14_general_fair_schedule_eventually.
(* none forgotten, from submission on, unconditional: from ANY reachable state, a confirmable message handed to
   send_message for r ([Submitted m]) has left r's queue — on the wire, or discarded with the requests to r failed — once the
   schedule that follows contains [budget] progress steps (ACK/RST, failure, timer of the exchange ahead); the budget is
   the retransmission budget of the exchange ahead plus that of everything queued at submission *)
Theorem C14_submitted_eventually_leaves : forall mid0 token0 rnd es0 es e r m,
  let s := fst (fst (rrun (init mid0 token0 rnd, []) es0)) in let l := snd (fst (rrun (init mid0 token0 rnd, []) es0)) in
  refuses l r = false -> never_refuses r es = true ->
  In (Submitted m) (snd (step_ev l s e)) -> con_to r m = true ->
  let s1 := fst (step_ev l s e) in
  (budget r (length (backlog_of r s1)) s1 <= gcount (s1, l) es r)%nat ->
  In m (left r (snd (step_ev l s e) ++ concat (snd (rrun (s1, l) es)))).
Proof. exact reachable_submitted_eventually_leaves. Qed.
Print Assumptions C14_submitted_eventually_leaves.

(* the remote itself refused (the residue of round 5), one event kind: when the exchange of a refused remote is ended by an
   empty ACK / RST, the release of the head is refused and the whole queue is discarded in that very step — nothing is
   transmitted, nothing raises (before /repo fix 8d04b7c this was the KeyError of finding C14-R2).  Partial: the same
   dichotomy "queue kept or entirely discarded" for the other event kinds about a refused remote is not proved. *)
Theorem C14_refused_release_discards_queue_partial : forall l r, refuses l r = true -> forall s mt mid q x, Inv s ->
  (mt = 2 \/ mt = 3) -> xget r mid (active_exchanges s) = Some x -> aget r (backlogs s) = Some q ->
  let s' := fst (step_ev l s (RecvEmpty r mt mid)) in let o := snd (step_ev l s (RecvEmpty r mt mid)) in
  Inv s' /\ aget r (backlogs s') = None /\ exs r s' = [] /\ (forall m, In m q -> In m (left r o)) /\
  (forall m b, ~ In (Tx m b) o) /\ subm r o = [].
Proof. exact refused_release_step. Qed.
Print Assumptions C14_refused_release_discards_queue_partial.

(* the special case of silent peers, with the explicit bound [measure s] on the number of firings *)
Theorem C14_quiesces_when_peers_silent : forall s, Inv s ->
  let s' := fst (run s (repeat Fire (measure s))) in let tr := concat (snd (run s (repeat Fire (measure s)))) in
  active_exchanges s' = [] /\ backlogs s' = [] /\ forall r, left r tr = backlog_of r s.
Proof. exact quiesces_when_peers_silent. Qed.
Print Assumptions C14_quiesces_when_peers_silent.

(* ---- tie T: the model's message-ID counter is the code of MessageManager._next_message_id as translated from the
   source on this run (Gen/c14_message_id.v), and 65536 consecutive IDs are pairwise distinct — a queued message
   never shares its (remote, mid) key with the exchange ahead of it *)
Theorem C14_next_message_id_is_source : forall s,
  Gen.c14_message_id.next_message_id {| mmids_message_id := message_id s |} =
  Ok ({| mmids_message_id := message_id (snd (Model.C14.next_message_id s)) |}, fst (Model.C14.next_message_id s)).
Proof. exact next_message_id_is_source. Qed.
Print Assumptions C14_next_message_id_is_source.
Theorem C14_ids_distinct_within_65536 : forall m j k, 0 <= m < 65536 -> Z.of_nat j < Z.of_nat k < Z.of_nat j + 65536 ->
  nth_id j m <> nth_id k m.
Proof. exact ids_distinct_within_65536. Qed.
Print Assumptions C14_ids_distinct_within_65536.

(* ---- non-vacuity: a reachable state with a queue of two behind an open exchange, on which the hypotheses of the
   step theorems hold for concrete events *)
Definition busy := fst (run (init 65535 7 [2500000]) [Request 1 0 0 0; Request 2 0 4 0; RawSend 3 0 8 99 1; Request 4 1 6 4; Request 5 0 1 0]).
Example C14_busy_is_nontrivial :
  Inv busy /\ map m_sub (backlog_of 0 busy) = [Req 2; Raw 3] /\ map (fun x => m_mid (x_msg x)) (exs 0 busy) = [65535] /\
  acks busy (RecvEmpty 0 2 65535) 0 = true /\ acks busy (RecvResp 0 3 65535 8) 0 = true /\ acks busy (RecvEmpty 1 2 65535) 0 = false /\
  acks busy (RecvEmpty 0 2 0) 0 = false /\ fails busy (TransportError 0) 0 = true /\ fails busy Fire 1 = false /\
  touches busy Fire 0 = false /\ touches busy (TransportError 1) 0 = false /\ measure busy = 6%nat /\
  nth_error (backlog_of 0 busy) 1 = Some {| m_sub := Raw 3; m_remote := 0; m_mtype := 0; m_code := 69; m_mid := 1; m_tok := 99; m_maxre := 1 |} /\
  budget 0 1 busy = 2%nat /\ count_progress busy [RecvEmpty 0 2 65535; Request 6 0 0 0; Fire; Fire] 0 = 2%nat.
Proof. split; [apply reachable_inv|]. vm_compute. repeat split. Qed.
Example C14_scenario :
  let tr := concat (snd (run busy [RecvEmpty 0 3 65535; Fire; Fire; RecvEmpty 0 2 0; Fire])) in
  map m_sub (left 0 tr) = [Req 2; Raw 3] /\
  tr = [Fail 1 MessageError;
        Tx {| m_sub := Req 2; m_remote := 0; m_mtype := 0; m_code := 1; m_mid := 0; m_tok := 9; m_maxre := 0 |} false;
        Fired 1 2; Tx {| m_sub := Req 4; m_remote := 1; m_mtype := 0; m_code := 1; m_mid := 2; m_tok := 10; m_maxre := 4 |} true;
        Fired 0 0; Dropped {| m_sub := Raw 3; m_remote := 0; m_mtype := 0; m_code := 69; m_mid := 1; m_tok := 99; m_maxre := 1 |};
        Fail 2 ConRetransmitsExceeded; Fail 5 ConRetransmitsExceeded;
        Fired 1 2; Tx {| m_sub := Req 4; m_remote := 1; m_mtype := 0; m_code := 1; m_mid := 2; m_tok := 10; m_maxre := 4 |} true].
Proof. vm_compute. split; reflexivity. Qed.

Example C14_history_nontrivial :
  let m1 := {| m_sub := Req 1; m_remote := 0; m_mtype := 0; m_code := 1; m_mid := 0; m_tok := 1; m_maxre := 1 |} in
  let es := [Ev (Request 2 0 0 1); Refuse 1 true; Ev (Request 3 1 0 0); Ev Fire; Ev (RecvEmpty 0 2 5)] in
  let s1 := fst (step_ev [] (init 0 0 []) (Request 1 0 0 1)) in
  first_con_tx 0 m1 (snd (step_ev [] (init 0 0 []) (Request 1 0 0 1))) /\ quiet_for 0 (s1, []) es = true /\
  never_refuses 0 es = true /\ map m_sub (backlog_of 0 (fst (fst (rrun (s1, []) es)))) = [Req 2] /\
  acks (fst (fst (rrun (s1, []) es))) (RecvEmpty 0 2 0) 0 = true /\
  gcount (s1, []) (es ++ [Ev (RecvEmpty 0 2 0); Ev Fire; Ev Fire]) 0 = 4%nat.
Proof. split; [split; [cbn; auto|reflexivity]|]. vm_compute. repeat split. Qed.

(* ---- round 7: the remote r ITSELF is refused by the transport (whatever else is refused).  Vocabulary (Proofs/C14R7.v):
   [wsil r o]: no output in o is a datagram handed successfully to the transport for r ([Tx m _] with m_remote m = r, or
   [TxEmpty r _ _]).  For the step s --e--> (s', o) under refusals l:
   [Discarded l r s e]: aget r (backlogs s') = None /\ exs r s' = [] /\ left r o = backlog_of r s ++ subm r o
     (exchange and queue entry gone; the whole queue and whatever confirmable message was submitted in this step left the
     accounting in this step — with [wsil], as [Dropped], not on the wire);
   [Kept l r s e]: exs r s' = exs r s /\ left r o = [] /\ backlog_of r s' = backlog_of r s ++ subm r o /\
     (aget r (backlogs s') = None <-> aget r (backlogs s) = None)
     (same exchange, nothing left the queue, queue = old queue ++ the confirmable submissions of this step).
   [attempts s e r]: e hands a datagram for r to the transport or ends r's exchange — submission of a NON or of a CON that is
   not held back (request, raw response, responder's response), a CON from r (answered by an empty ACK/RST), an ACK/RST with
   the message ID of the open exchange, a transport error for r, the timer of r's exchange firing. *)
From Verif Require Import Proofs.C14R7.
(* every event, every state satisfying the invariant: kept or entirely discarded, nothing for r on the wire, no exception *)
Theorem C14_refused_remote_every_event : forall l r, refuses l r = true -> forall s e, Inv s ->
  let s' := fst (step_ev l s e) in let o := snd (step_ev l s e) in
  Inv s' /\ (forall x, ~ In (Crash x) o) /\ wsil r o /\ (Discarded l r s e \/ Kept l r s e).
Proof. exact refused_remote_step. Qed.
Print Assumptions C14_refused_remote_every_event.
(* which of the two: decided by the event and the state before *)
Theorem C14_refused_remote_discarded_iff_attempt : forall l r, refuses l r = true -> forall s e, Inv s ->
  if attempts s e r then Discarded l r s e else Kept l r s e.
Proof. exact refused_remote_step_which. Qed.
Print Assumptions C14_refused_remote_discarded_iff_attempt.
(* liveness for a refused remote: ONE progress step (ACK/RST of the open exchange, failure, its timer firing) and every
   held-back message has left the queue *)
Theorem C14_refused_progress_discards : forall l r s e, refuses l r = true -> Inv s -> progress s e r = true ->
  Discarded l r s e /\ forall m, In m (backlog_of r s) -> In m (left r (snd (step_ev l s e))).
Proof. exact refused_progress_discards. Qed.
Print Assumptions C14_refused_progress_discards.
(* all of it from any reachable state of the general model: no hypothesis but "r is refused now" *)
Theorem C14_refused_remote_reachable : forall mid0 token0 rnd es r e,
  let s := fst (fst (rrun (init mid0 token0 rnd, []) es)) in let l := snd (fst (rrun (init mid0 token0 rnd, []) es)) in
  refuses l r = true ->
  let s' := fst (step_ev l s e) in let o := snd (step_ev l s e) in
  Inv s' /\ (forall x, ~ In (Crash x) o) /\ wsil r o /\ (if attempts s e r then Discarded l r s e else Kept l r s e) /\
  (progress s e r = true -> forall m, In m (backlog_of r s) -> In m (left r o)).
Proof. exact refused_remote_reachable. Qed.
Print Assumptions C14_refused_remote_reachable.
(* non-vacuity: Proofs/C14R7.v [refused_remote_step_nontrivial] (vm_compute): on a reachable state with remote 0 refused and
   one message queued, [attempts] takes both values, the timer / a NON / a CON response discard the queue, a further CON is
   appended, an event about another remote keeps it *)
Example C14_refused_remote_nontrivial : Inv s_busy /\ refuses [0] 0 = true /\ map m_sub (backlog_of 0 s_busy) = [Req 2] /\
  attempts s_busy Fire 0 = true /\ attempts s_busy (Request 3 0 0 4) 0 = false /\ progress s_busy Fire 0 = true.
Proof. split; [exact s_busy_inv|]. vm_compute. repeat split. Qed.
