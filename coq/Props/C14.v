(* C14 — NSTART=1: one open confirmable exchange per peer, FIFO backlog, none forgotten.
   Only statements here; every proof is [exact <lemma of Proofs/C14.v / Proofs/C14step.v>].

   Vocabulary (Model/C14.v, Proofs/C14.v): [run (init mid0 token0 rnd) es] executes an arbitrary event list
   (submissions of CON/NON requests and raw responses to any remotes, empty messages and responses from any
   remote, transport errors, timer firings, time advances, cancellations) from the initial state with arbitrary
   message-id/token counters and arbitrary random.uniform draws.  [exs r s] = the active exchanges with r,
   [count_r r s] their number, [backlog_of r s] the queue of r, [subm r tr] the confirmable messages handed to
   send_message for r in trace tr, [left r tr] those that left the queue (first transmission [Tx m false] or
   [Dropped m]), [reqs r s] the outstanding requests to r. *)
From Verif Require Import Lib.Py Lib.Tactics Gen.c14_message_id Model.C14 Proofs.C14 Proofs.C14step Proofs.C14req Proofs.C14mid.
Import ListNotations.
Open Scope Z_scope.

(* ---- at every instant at most one confirmable message per remote awaits its acknowledgement *)
Theorem C14_one_exchange_per_remote : forall mid0 token0 rnd es r,
  let s := fst (run (init mid0 token0 rnd) es) in
  (count_r r s <= 1)%nat /\ (in_backlogs r s = true <-> count_r r s = 1%nat) /\
  Forall (fun m => m_mtype m = 0 /\ m_remote m = r) (backlog_of r s).
Proof. exact one_exchange_per_remote. Qed.
Print Assumptions C14_one_exchange_per_remote.

(* the invariant all step theorems below assume holds in every reachable state *)
Theorem C14_reachable_inv : forall mid0 token0 rnd es, Inv (fst (run (init mid0 token0 rnd) es)).
Proof. exact reachable_inv. Qed.
Print Assumptions C14_reachable_inv.
Theorem C14_inv_preserved : forall s e, Inv s -> Inv (fst (step s e)).
Proof. exact (fun s e H => proj1 (step_trans s e H)). Qed.
Print Assumptions C14_inv_preserved.

(* the AssertionError of _continue_backlog / send_message and the KeyErrors of _retransmit are unreachable *)
Theorem C14_no_internal_error : forall mid0 token0 rnd es e,
  ~ In (Crash e) (concat (snd (run (init mid0 token0 rnd) es))).
Proof. exact reachable_nocrash. Qed.
Print Assumptions C14_no_internal_error.

(* ---- FIFO refinement, none forgotten: for every remote, the confirmable messages submitted, in order, are
   exactly those that left the queue (first transmission, or discarded when the endpoint failed), in order,
   followed by the current backlog.  Equality of lists: each submission is accounted for exactly once. *)
Theorem C14_fifo : forall mid0 token0 rnd es r,
  let s := fst (run (init mid0 token0 rnd) es) in let tr := concat (snd (run (init mid0 token0 rnd) es)) in
  subm r tr = left r tr ++ backlog_of r s.
Proof. exact reachable_fifo. Qed.
Print Assumptions C14_fifo.

(* ---- released as soon as, and only when, the exchange ahead is acknowledged or reset:
   (a) an ACK/RST from r with the message ID of the open exchange puts the head of r's queue on the wire in the
       very same step, opens its exchange (counter 0) and keeps the rest queued; an empty queue entry is removed; *)
Theorem C14_released_when_acked : forall s e r q, Inv s -> acks s e r = true -> aget r (backlogs s) = Some q ->
  let s' := fst (step s e) in let o := snd (step s e) in
  subm r o = [] /\
  match q with
  | m :: rest => In (Tx m false) o /\ left r o = [m] /\ aget r (backlogs s') = Some rest /\
                 exists x', exs r s' = [x'] /\ x_msg x' = m /\ x_counter x' = 0
  | [] => left r o = [] /\ aget r (backlogs s') = None /\ exs r s' = []
  end.
Proof. exact released_when_acked. Qed.
Print Assumptions C14_released_when_acked.

(* (b) a transport error for r, or the final time-out of the exchange with r, discards the whole queue of r without
       transmitting anything, fails every request to r that is still outstanding (in particular those of the
       held-back messages), and leaves neither exchange nor queue nor outstanding request for r; *)
Theorem C14_dropped_when_failed : forall s e r q, Inv s -> fails s e r = true -> aget r (backlogs s) = Some q ->
  let s' := fst (step s e) in let o := snd (step s e) in
  left r o = q /\ subm r o = [] /\ (forall m, In m q -> In (Dropped m) o) /\ (forall m b, ~ In (Tx m b) o) /\
  (forall en, In en (reqs r s) -> exists err, In (Fail (q_of en) err) o) /\
  aget r (backlogs s') = None /\ exs r s' = [] /\ reqs r s' = [].
Proof. exact dropped_when_failed. Qed.
Print Assumptions C14_dropped_when_failed.

(* (c) any other event — whatever it is and whichever remote it concerns — leaves every queued message queued, in
       order, behind the same outstanding message (new submissions are appended), and puts no confirmable message
       for r on the wire for the first time. *)
Theorem C14_held_otherwise : forall s e r q, Inv s -> aget r (backlogs s) = Some q -> acks s e r = false -> fails s e r = false ->
  let s' := fst (step s e) in let o := snd (step s e) in
  aget r (backlogs s') = Some (q ++ subm r o) /\ left r o = [] /\
  exists x x', exs r s = [x] /\ exs r s' = [x'] /\ x_msg x' = x_msg x.
Proof. exact held_otherwise. Qed.
Print Assumptions C14_held_otherwise.

(* ---- not delayed: a non-confirmable message, and a confirmable one to a remote with nothing outstanding, goes on
   the wire in the step in which it is submitted (no hypothesis on the state at all) ... *)
Theorem C14_not_delayed : forall s e who r mt, submits e = Some (who, r, mt) ->
  (resolve_mtype mt <> 0 \/ in_backlogs r s = false) ->
  exists m, snd (step s e) = [Submitted m; Tx m false] /\ m_sub m = who /\ m_remote m = r /\ m_mtype m = resolve_mtype mt.
Proof. exact not_delayed. Qed.
Print Assumptions C14_not_delayed.

(* ... whereas a confirmable one to a busy remote is appended to its queue and nothing is sent *)
Theorem C14_held_back_when_busy : forall s e who r mt q, Inv s -> submits e = Some (who, r, mt) -> resolve_mtype mt = 0 ->
  aget r (backlogs s) = Some q ->
  exists m, snd (step s e) = [Submitted m] /\ aget r (backlogs (fst (step s e))) = Some (q ++ [m]) /\
    exs r (fst (step s e)) = exs r s /\ m_sub m = who /\ m_remote m = r /\ m_mtype m = 0.
Proof. exact held_back_when_busy. Qed.
Print Assumptions C14_held_back_when_busy.

(* ---- exchanges with different endpoints do not influence each other: an event that is about remote r' (a
   submission to r', a datagram from r', an error for r', the timer of an exchange with r') leaves the exchange
   and the queue of every other remote r exactly as they are and emits nothing that concerns r *)
Theorem C14_other_remotes_untouched : forall s e r, Inv s -> touches s e r = false ->
  exs r (fst (step s e)) = exs r s /\ aget r (backlogs (fst (step s e))) = aget r (backlogs s) /\
  silent r (snd (step s e)) = true.
Proof. exact step_frame. Qed.
Print Assumptions C14_other_remotes_untouched.

(* ---- on the wire: a confirmable message to a remote that has something outstanding is transmitted for the first
   time only in a step in which that outstanding exchange is acknowledged or reset *)
Theorem C14_first_transmission_only_when_idle_or_acked : forall s e r m, Inv s ->
  In (Tx m false) (snd (step s e)) -> con_to r m = true -> in_backlogs r s = true -> acks s e r = true.
Proof. exact first_transmission_only_when_idle_or_acked. Qed.
Print Assumptions C14_first_transmission_only_when_idle_or_acked.

(* ---- ... and the outstanding requests of every other remote stay exactly as they are (none failed, none forgotten) *)
Theorem C14_requests_to_other_remotes_untouched : forall s e r, Inv s -> touches s e r = false -> (forall q, e <> Cancel q) ->
  reqs r (fst (step s e)) = reqs r s.
Proof. exact requests_to_other_remotes_untouched. Qed.
Print Assumptions C14_requests_to_other_remotes_untouched.

(* ---- eventually: if the peers stay silent, firing the pending timers [measure s] times (one per transmission
   still allowed) ends every exchange and empties every queue; every message that was held back in s has by then
   left its queue (here: been discarded, its request failed by C14_dropped_when_failed).
   Partial with respect to the property's "eventually" for arbitrary schedules: for those, progress is the trichotomy
   (a)/(b)/(c) above plus the fact that a queue entry exists only behind an active exchange, whose timer is pending. *)
Theorem C14_quiesces_when_peers_silent_partial : forall s, Inv s ->
  let s' := fst (run s (repeat Fire (measure s))) in let tr := concat (snd (run s (repeat Fire (measure s)))) in
  active_exchanges s' = [] /\ backlogs s' = [] /\ forall r, left r tr = backlog_of r s.
Proof. exact quiesces_when_peers_silent. Qed.
Print Assumptions C14_quiesces_when_peers_silent_partial.

(* ---- tie T: the model's message-ID counter is the code of MessageManager._next_message_id as translated from the
   source on this run (Gen/c14_message_id.v), and 65536 consecutive IDs are pairwise distinct — a queued message
   never shares its (remote, mid) key with the exchange ahead of it *)
Theorem C14_next_message_id_is_source : forall s,
  Gen.c14_message_id.next_message_id {| mmids_message_id := message_id s |} =
  Ok ({| mmids_message_id := message_id (snd (Model.C14.next_message_id s)) |}, fst (Model.C14.next_message_id s)).
Proof. exact next_message_id_is_source. Qed.
Print Assumptions C14_next_message_id_is_source.
Theorem C14_ids_distinct_within_65536 : forall m j k, 0 <= m < 65536 -> Z.of_nat j < Z.of_nat k < Z.of_nat j + 65536 ->
  nth_id j m <> nth_id k m.
Proof. exact ids_distinct_within_65536. Qed.
Print Assumptions C14_ids_distinct_within_65536.

(* ---- non-vacuity: a reachable state with a queue of two behind an open exchange, on which the hypotheses of the
   step theorems hold for concrete events *)
Definition busy := fst (run (init 65535 7 [2500000]) [Request 1 0 0 0; Request 2 0 4 0; RawSend 3 0 8 99 1; Request 4 1 6 4; Request 5 0 1 0]).
Example C14_busy_is_nontrivial :
  Inv busy /\ map m_sub (backlog_of 0 busy) = [Req 2; Raw 3] /\ map (fun x => m_mid (x_msg x)) (exs 0 busy) = [65535] /\
  acks busy (RecvEmpty 0 2 65535) 0 = true /\ acks busy (RecvResp 0 3 65535 8) 0 = true /\ acks busy (RecvEmpty 1 2 65535) 0 = false /\
  acks busy (RecvEmpty 0 2 0) 0 = false /\ fails busy (TransportError 0) 0 = true /\ fails busy Fire 1 = false /\
  touches busy Fire 0 = false /\ touches busy (TransportError 1) 0 = false /\ measure busy = 6%nat.
Proof. split; [apply reachable_inv|]. vm_compute. repeat split. Qed.
Example C14_scenario :
  let tr := concat (snd (run busy [RecvEmpty 0 3 65535; Fire; Fire; RecvEmpty 0 2 0; Fire])) in
  map m_sub (left 0 tr) = [Req 2; Raw 3] /\
  tr = [Fail 1 MessageError;
        Tx {| m_sub := Req 2; m_remote := 0; m_mtype := 0; m_code := 1; m_mid := 0; m_tok := 9; m_maxre := 0 |} false;
        Fired 1 2; Tx {| m_sub := Req 4; m_remote := 1; m_mtype := 0; m_code := 1; m_mid := 2; m_tok := 10; m_maxre := 4 |} true;
        Fired 0 0; Dropped {| m_sub := Raw 3; m_remote := 0; m_mtype := 0; m_code := 69; m_mid := 1; m_tok := 99; m_maxre := 1 |};
        Fail 2 ConRetransmitsExceeded; Fail 5 ConRetransmitsExceeded;
        Fired 1 2; Tx {| m_sub := Req 4; m_remote := 1; m_mtype := 0; m_code := 1; m_mid := 2; m_tok := 10; m_maxre := 4 |} true].
Proof. vm_compute. split; reflexivity. Qed.

