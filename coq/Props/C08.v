(* C08 — observe server. Only statements here; every proof is [exact <lemma of Proofs/C08*.v>]. *)
From Verif Require Import Lib.Py Lib.Tactics Model.C08 Proofs.C08.
Open Scope Z_scope.

(* The resource's bookkeeping, for every history of requests, observer reactions, losses, timers, triggers,
   transport errors and shutdown, for any number of simultaneous registrations: the live registrations are exactly
   the resource's observers; add_observation ran once per accepted registration; the cancellation callback ran
   exactly once for every registration that is no longer an observer and never for one that still is; every
   update_observation_count call reported the true number of observers (so ending a registration brings the count
   back to what it was before that registration was accepted). *)
Theorem C08_cancel_exactly_once_count_restored : forall mid0 es, let s := run (init mid0) es in
  map g_gid (s_regs s) = s_observers s /\ NoDup (s_observers s) /\
  (forall g, count_add g (s_hist s) = if in_range g (s_gidctr s) then 1%nat else 0%nat) /\
  (forall g, count_cancel g (s_hist s) = if in_range g (s_gidctr s) && negb (memZ g (s_observers s)) then 1%nat else 0%nat) /\
  counts_ok (s_hist s) /\ Z.of_nat (length (s_observers s)) = balance (s_hist s).
Proof. exact bookkeeping_lemma. Qed.
Print Assumptions C08_cancel_exactly_once_count_restored.
