(* C08 — observe server. Only statements here; every proof is [exact <lemma of Proofs/C08*.v>]. *)
From Verif Require Import Lib.Py Lib.Tactics Model.C08 Proofs.C08 Proofs.C08Silent Proofs.C08Ends Proofs.C08Observe Proofs.C08Wire Proofs.C08Latest Proofs.C08Progress Proofs.C08R6 Proofs.C08R6b.
Open Scope Z_scope.

(* The resource's bookkeeping, for every history of requests, observer reactions, losses, timers, triggers,
   transport errors and shutdown, for any number of simultaneous registrations: the live registrations are exactly
   the resource's observers; add_observation ran once per accepted registration; the cancellation callback ran
   exactly once for every registration that is no longer an observer and never for one that still is; every
   update_observation_count call reported the true number of observers (so ending a registration brings the count
   back to what it was before that registration was accepted). *)
Theorem C08_cancel_exactly_once_count_restored : forall mid0 es, let s := run (init mid0) es in
  map g_gid (s_regs s) = s_observers s /\ NoDup (s_observers s) /\
  (forall g, count_add g (s_hist s) = if in_range g (s_gidctr s) then 1%nat else 0%nat) /\
  (forall g, count_cancel g (s_hist s) = if in_range g (s_gidctr s) && negb (memZ g (s_observers s)) then 1%nat else 0%nat) /\
  counts_ok (s_hist s) /\ Z.of_nat (length (s_observers s)) = balance (s_hist s).
Proof. exact bookkeeping_lemma. Qed.
(* assumptions of C08_cancel_exactly_once_count_restored: printed once, together with the other history-level theorems, at the end of this file *)

(* ---- once ended: silence.  For a registration g that has ended (it is not in incoming_requests and its number has been
   issued), one event of any kind: it stays ended; nothing is handed to the message layer for it; the only datagrams
   transmitted for the first time for it are ones that were waiting in the per-endpoint backlog when the event began; and its
   share of the backlog does not grow. *)
Theorem C08_silent_after_end_step : forall s e g, 0 <= g -> okreg g s -> Q (queued_for g s) g s (step s e).
Proof. exact silent_step. Qed.
(* assumptions of C08_silent_after_end_step: printed once, together with the other history-level theorems, at the end of this file *)
(* over every continuation of the history *)
Theorem C08_silent_after_end : forall es s g, 0 <= g -> okreg g s ->
  okreg g (run s es) /\
  (exists l, s_prod (run s es) = l ++ s_prod s /\ Forall (fun m => m_gid m <> g) l) /\
  (exists h, s_hist (run s es) = h ++ s_hist s /\ forall m, In (OSend m false) h -> m_gid m = g -> queued_for g s m).
Proof. exact silent_run. Qed.
(* assumptions of C08_silent_after_end: printed once, together with the other history-level theorems, at the end of this file *)
(* the unconditional statement "no datagram for it is ever sent again" is false of the faithful model (finding F16) *)
Theorem C08_silent_on_wire_refuted :
  let s1 := run (init 0) (firstn 3 f16_events) in let s2 := run (init 0) f16_events in
  live 0 s1 /\ ~ live 0 s2 /\ count_cancel 0 (s_hist s2) = 1%nat /\
  notif 0 (s_hist s1) = [(1, 0); (0, 1)] /\ notif 0 (s_hist s2) = [(1, 0); (0, 1); (1, 2)].
Proof. exact silent_on_wire_refuted. Qed.
Print Assumptions C08_silent_on_wire_refuted.

(* ---- what ends a registration (together with the first theorem: callback exactly once, count restored) *)
Theorem C08_ends_on_same_token_request : forall s r con mid tok obs g0,
  find_key s r tok = Some g0 -> s_down s = false -> in_recent s r mid = None -> 0 <= g_gid g0 < s_gidctr s ->
  ~ live (g_gid g0) (step s (ERequest r con mid tok obs)).
Proof. exact ends_on_same_token. Qed.
(* assumptions of C08_ends_on_same_token_request: printed once, together with the other history-level theorems, at the end of this file *)
(* Reset: case split — a notification that has an exchange entry, i.e. a confirmable one ... *)
Theorem C08_ends_on_reset_of_confirmable : forall s r mid x,
  find (fun x => (x_remote x =? r) && (x_mid x =? mid)) (s_exch s) = Some x -> s_down s = false -> 0 <= x_gid x < s_gidctr s ->
  ~ live (x_gid x) (step s (ERst r mid)).
Proof. exact ends_on_rst_con. Qed.
Print Assumptions C08_ends_on_reset_of_confirmable.
(* ... while for a non-confirmable notification the statement is false of the faithful model (finding F15) *)
Theorem C08_ends_on_reset_of_nonconfirmable_refuted :
  let s := run (init 0) f15_events in
  live 0 s /\ s_observers s = [0] /\ count_cancel 0 (s_hist s) = 0%nat /\ notif 0 (s_hist s) = [(0, 0); (1, 1); (2, 2)].
Proof. exact rst_on_non_refuted. Qed.
Print Assumptions C08_ends_on_reset_of_nonconfirmable_refuted.
Theorem C08_ends_on_transport_error : forall s r g0,
  In g0 (s_regs s) -> g_remote g0 = r -> s_down s = false -> 0 <= g_gid g0 < s_gidctr s ->
  ~ live (g_gid g0) (step s (ETransportError r)).
Proof. exact ends_on_transport_error. Qed.
Print Assumptions C08_ends_on_transport_error.
Theorem C08_ends_on_notification_timeout : forall s m t g0,
  In g0 (s_regs s) -> g_remote g0 = m_remote m -> 0 <= g_gid g0 < s_gidctr s ->
  ~ live (g_gid g0) (flush_cancels (fire s (KRetrans m t MAX_RETRANSMIT))).
Proof. exact ends_on_timeout. Qed.
Print Assumptions C08_ends_on_notification_timeout.
Theorem C08_ends_on_shutdown : forall s, s_down s = false -> s_regs (step s EShutdown) = [].
Proof. exact ends_on_shutdown. Qed.
Print Assumptions C08_ends_on_shutdown.
Theorem C08_ends_on_unsuccessful_or_last : forall cont s g0 res,
  0 <= g_gid g0 < s_gidctr s ->
  match res with RResp code _ _ => g_late g0 || negb (successful code) = true | RRaise _ _ _ => True end ->
  ~ live (g_gid g0) (after_response cont s g0 res).
Proof. exact ends_on_final. Qed.
Print Assumptions C08_ends_on_unsuccessful_or_last.
Theorem C08_ends_on_unsuccessful_first_response : forall s g0 res,
  match res with RResp code _ _ => successful code = false | RRaise _ _ _ => True end ->
  ~ live (g_gid g0) (first_render_done s g0 res).
Proof. exact ends_on_first_unsuccessful. Qed.
Print Assumptions C08_ends_on_unsuccessful_first_response.

(* ---- token and strictly rising Observe numbers ON THE WIRE, for every history and every registration number g:
   (FIFO) the datagrams transmitted for the first time for g, in order, followed by those still waiting in the per-endpoint
   backlog, are a prefix of what the render task produced — all of it while g is live;
   their Observe values are 0,1,2,... (only the very last one may carry none: the final notification), hence strictly rising;
   all of them carry one endpoint and one token, those of the live registration. *)
Theorem C08_wire_token_and_strictly_increasing_observe : forall mid0 es g, 0 <= g -> let s := run (init mid0) es in
  (exists D, prodl g s = wirel g s ++ queuel g s ++ D) /\
  consec 0 (observes (wirel g s)) /\
  Sorted.StronglySorted Z.lt (obs_values (observes (wirel g s))) /\
  (forall m1 m2, In m1 (wirel g s) -> In m2 (wirel g s) -> m_remote m1 = m_remote m2 /\ m_token m1 = m_token m2) /\
  (forall g0, In g0 (s_regs s) -> g_gid g0 = g ->
     prodl g s = wirel g s ++ queuel g s /\
     observes (prodl g s) = somes (g_next g0 + 1) /\
     forall m, In m (wirel g s) -> m_remote m = g_remote g0 /\ m_token m = g_token g0).
Proof. exact wire_lemma. Qed.
(* assumptions of C08_wire_token_and_strictly_increasing_observe: printed once, together with the other history-level theorems, at the end of this file *)
(* the invariant behind it holds in every reachable state (backlog entries are CON and have an exchange for their endpoint,
   a NON registration never queues, a pending piggy-back opportunity means nothing was produced yet, ...) *)
Theorem C08_backlog_fifo_invariant : forall mid0 es, FI None (run (init mid0) es).
Proof. intros. apply run_FI, FI_init. Qed.
(* assumptions of C08_backlog_fifo_invariant: printed once, together with the other history-level theorems, at the end of this file *)
Example C08_wire_nonvacuous :
  let s := run (init 0) [ERequest 1 true 1 1 (Some 0); ETrigger [] [(TRender, false)]; ETrigger [] [(TRender, false)]; ETrigger [] [(TRender, false)]; EAck 1 0] in
  map m_observe (wirel 0 s) = [Some 0; Some 1; Some 2] /\ map m_observe (queuel 0 s) = [Some 3] /\ exists g0, In g0 (s_regs s) /\ g_gid g0 = 0.
Proof. vm_compute. repeat split. eexists. split; [left; reflexivity | reflexivity]. Qed.

(* the code-level facts the invariant rests on (one pass of the notification loop) *)
Theorem C08_notification_token_and_observe_loop : forall s g code o pk pv,
  exists m, s_prod (emit s g code o pk pv) = m :: s_prod s /\
            m_token m = g_token g /\ m_remote m = g_remote g /\ m_observe m = o /\ m_gid m = g_gid g /\ m_code m = code /\ m_pk m = pk /\ m_pv m = pv.
Proof. exact emit_spec. Qed.
Print Assumptions C08_notification_token_and_observe_loop.
Theorem C08_first_response_observe_zero_loop : forall s g code pk pv, successful code = true ->
  first_render_done s g (RResp code pk pv) = run_loop 2 (emit s (set_next g 0) code (Some 0) pk pv) (set_next g 0).
Proof. exact first_response_observe_zero. Qed.
Print Assumptions C08_first_response_observe_zero_loop.
Theorem C08_observe_strictly_increasing_loop : forall cont s g code pk pv, g_late g = false -> successful code = true ->
  after_response cont s g (RResp code pk pv) =
  cont (emit s (set_next g (g_next g + 1)) code (Some (g_next g + 1)) pk pv) (set_next g (g_next g + 1)).
Proof. exact notification_observe_next. Qed.
Print Assumptions C08_observe_strictly_increasing_loop.
(* ---- latest state sent, over whole histories.  For every event list from the initial state and every LIVE registration g0
   (an ended one is the property's "or the registration ended"), under the fairness hypotheses
     - no render of g0 is in progress at the end (its task waits for the next trigger: g_phase g0 = PWait), and
     - nothing of g0 waits in the backlog (the peer has acknowledged what was sent before: queuel = []),
   there is a datagram for g0 on the wire, no trigger is pending, and the LAST datagram transmitted for g0 is the notification
   produced last; if it was rendered (m_pk = 1) it carries the resource's current version, i.e. it was rendered at or after
   the last trigger (s_version is changed by ETrigger only, once per state change). An explicit response (m_pk = 2) is the
   value the application passed; that the lossy future keeps the last one is C08_trigger_keeps_latest_loop. *)
Theorem C08_latest_state_sent : forall mid0 es g0, let s := run (init mid0) es in
  In g0 (s_regs s) -> g_phase g0 = PWait -> queuel (g_gid g0) s = [] ->
  g_trig g0 = None /\
  exists m, last_wire (g_gid g0) s = Some m /\ lastp (g_gid g0) s = Some m /\ (m_pk m = 1 -> m_pv m = s_version s).
Proof. exact latest_lemma. Qed.
(* assumptions of C08_latest_state_sent: printed once, together with the other history-level theorems, at the end of this file *)
(* the invariant behind it, for every registration in every reachable state: an idle task has no pending trigger and its last
   produced notification is current; a render in progress without a newer trigger pending was started at the current version
   (so the notification it will produce is current; with a newer trigger pending another render follows) *)
Theorem C08_latest_state_invariant : forall mid0 es g0, In g0 (s_regs (run (init mid0) es)) -> QV (run (init mid0) es) g0.
Proof. intros mid0 es. exact (latest_invariant mid0 es). Qed.
(* assumptions of C08_latest_state_invariant: printed once, together with the other history-level theorems, at the end of this file *)
(* the fairness hypotheses are satisfiable: slow renders, a burst of changes during a render, a notification waiting in the
   backlog until the previous one is acknowledged — then idle, nothing queued, and the last datagram carries version 3 = now *)
Example C08_latest_state_fair_example :
  let s := run (init 0) [ERequest 1 true 1 1 (Some 0); ESetGate true; ETrigger [] [(TRender, false)];
                         ETrigger [] [(TRender, false); (TRender, false)]; ERenderDone 1 1; ERenderDone 1 1; EAck 1 0; EAck 1 1] in
  (exists g0, In g0 (s_regs s) /\ g_gid g0 = 0 /\ g_phase g0 = PWait) /\ queuel 0 s = [] /\ s_version s = 3 /\
  map m_pv (wirel 0 s) = [0; 1; 3] /\ option_map m_pv (last_wire 0 s) = Some 3.
Proof. vm_compute. split; [eexists; split; [left; reflexivity | split; reflexivity] | repeat split].  Qed.
(* before the acknowledgement the newest notification still waits in the backlog: the hypothesis is not vacuous either way *)
Example C08_latest_state_unfair_example :
  let s := run (init 0) [ERequest 1 true 1 1 (Some 0); ESetGate true; ETrigger [] [(TRender, false)];
                         ETrigger [] [(TRender, false); (TRender, false)]; ERenderDone 1 1; ERenderDone 1 1] in
  map m_pv (queuel 0 s) = [3] /\ option_map m_pv (last_wire 0 s) = Some 1 /\ s_version s = 3.
Proof. vm_compute. repeat split. Qed.

(* ---- the liveness half (round 5): the fairness state is REACHED.  From every reachable state that is not shut down, for
   every live registration, a finite list of progress events — renders stop being slow, the render in progress completes, the
   peer acknowledges what is in flight (no state change, no loss) — leads, without changing the resource's version, to a state
   where the registration has ended or is idle with nothing of it in the backlog; there the last datagram on the wire is current. *)
Theorem C08_latest_state_reached : forall mid0 es g0, let s := run (init mid0) es in
  In g0 (s_regs s) -> s_down s = false ->
  exists es', Forall progress_event es' /\ let s' := run s es' in
    s_version s' = s_version s /\
    (~ live (g_gid g0) s' \/
     exists g1, In g1 (s_regs s') /\ g_gid g1 = g_gid g0 /\ g_phase g1 = PWait /\ queuel (g_gid g0) s' = []).
Proof. exact progress_lemma. Qed.
Theorem C08_latest_state_eventually_sent : forall mid0 es g0, let s := run (init mid0) es in
  In g0 (s_regs s) -> s_down s = false ->
  exists es', Forall progress_event es' /\ let s' := run s es' in
    s_version s' = s_version s /\
    (~ live (g_gid g0) s' \/ exists m, last_wire (g_gid g0) s' = Some m /\ (m_pk m = 1 -> m_pv m = s_version s)).
Proof. exact eventually_sent_lemma. Qed.

(* code-level fact: a burst of triggers before the task runs leaves exactly the last value in the (lossy) future, with a sticky is_last *)
Theorem C08_trigger_keeps_latest_loop : forall s gid g tv1 l1 tv2 l2, find_reg s gid = Some g ->
  find_reg (trigger (trigger s gid tv1 l1) gid tv2 l2) gid = Some (set_trig g (Some tv2) (g_late g || l1 || l2)).
Proof. exact trigger_overwrites. Qed.
Print Assumptions C08_trigger_keeps_latest_loop.

(* ---- round 6.  (A) The "ends on ..." theorems for REACHABLE states: the side condition on registration numbers
   (0 <= gid < counter) of the one-step versions above is derived from reachability, so these are unconditional. *)
Theorem C08_ends_on_same_token_request_reachable : forall mid0 es r con mid tok obs g0, let s := run (init mid0) es in
  find_key s r tok = Some g0 -> s_down s = false -> in_recent s r mid = None -> ~ live (g_gid g0) (step s (ERequest r con mid tok obs)).
Proof. exact r_ends_on_same_token. Qed.
Theorem C08_ends_on_reset_of_confirmable_reachable : forall mid0 es r mid x, let s := run (init mid0) es in
  find (fun x => (x_remote x =? r) && (x_mid x =? mid)) (s_exch s) = Some x -> s_down s = false -> ~ live (x_gid x) (step s (ERst r mid)).
Proof. exact r_ends_on_rst_con. Qed.
Theorem C08_ends_on_transport_error_reachable : forall mid0 es r g0, let s := run (init mid0) es in
  In g0 (s_regs s) -> g_remote g0 = r -> s_down s = false -> ~ live (g_gid g0) (step s (ETransportError r)).
Proof. exact r_ends_on_transport_error. Qed.
Theorem C08_ends_on_notification_timeout_reachable : forall mid0 es m t g0, let s := run (init mid0) es in
  In g0 (s_regs s) -> g_remote g0 = m_remote m -> ~ live (g_gid g0) (flush_cancels (fire s (KRetrans m t MAX_RETRANSMIT))).
Proof. exact r_ends_on_timeout. Qed.
(* (B) "ends when a notification is unsuccessful or marked last" at the level of the EVENT, for every reachable state: a state
   change announced with is_last, or with an unsuccessful explicit response, ends every registration whose task is idle (the
   others end when their render completes: C08_ends_on_unsuccessful_or_last), whatever the other observers' tasks do first *)
Theorem C08_ends_on_last_or_unsuccessful_trigger : forall mid0 es g0 perm tv l, let s := run (init mid0) es in
  In g0 (s_regs s) -> g_phase g0 = PWait -> (tv = TRender -> s_gate s = false) ->
  (l = true \/ exists code k, tv = TResp code k /\ successful code = false) ->
  ~ live (g_gid g0) (step s (ETrigger perm [(tv, l)])).
Proof. exact ends_on_trigger_event. Qed.
Example C08_ends_on_last_trigger_example :
  let s := run (init 0) [ERequest 1 true 1 1 (Some 0); ERequest 2 false 2 1 (Some 0)] in
  (exists g0, In g0 (s_regs s) /\ g_gid g0 = 1 /\ g_phase g0 = PWait) /\ s_gate s = false /\
  s_observers (step s (ETrigger [1%nat] [(TRender, true)])) = [].
Proof. vm_compute. split; [eexists; split; [right; left; reflexivity | split; reflexivity] | split; reflexivity]. Qed.
(* (C) the only "internal error" outcome of the model — [advance] running out of fuel with timers still due — is unreachable:
   in ANY state, after step (EAdvance dt) every remaining timer is due later than the new clock *)
Theorem C08_advance_fires_all_due_timers : forall s dt tm, In tm (s_timers (step s (EAdvance dt))) -> s_now s + dt < t_due tm.
Proof. exact advance_event_drains. Qed.
Print Assumptions C08_advance_fires_all_due_timers.

(* ---- non-vacuity: concrete reachable states satisfy the hypotheses *)
Example C08_nonvacuous_reset :
  let s := run (init 0) [ERequest 1 true 1 1 (Some 0); ETrigger [] [(TRender, false)]] in
  exists x, find (fun x => (x_remote x =? 1) && (x_mid x =? 0)) (s_exch s) = Some x /\ s_down s = false /\ 0 <= x_gid x < s_gidctr s /\ live (x_gid x) s.
Proof. vm_compute. eexists. repeat split; try reflexivity; try discriminate. left. reflexivity. Qed.
Example C08_nonvacuous_ended :
  let s := run (init 0) f16_events in okreg 0 s /\ exists m, queued_for 0 (run (init 0) (firstn 3 f16_events)) m.
Proof. vm_compute. split; [split; [intros [] | reflexivity]|]. eexists. split; [left; reflexivity | reflexivity]. Qed.
Example C08_rst_on_con_example :
  let s := run (init 0) [ERequest 1 true 1 1 (Some 0); ETrigger [] [(TRender, false)]; ERst 1 0; ETrigger [] [(TRender, false)]] in
  ~ live 0 s /\ s_observers s = [] /\ count_cancel 0 (s_hist s) = 1%nat /\ notif 0 (s_hist s) = [(1, 0); (0, 1)].
Proof. exact rst_on_con_example. Qed.

(* The history-level theorems share most of their (large) proof terms; their assumptions are printed in one traversal
   (one Print Assumptions per theorem costs 2-8 s each, 40 s in all, which does not fit the quick tier). The term below
   mentions every one of them, so any axiom any of them depended on would be listed here. *)
Definition C08_history_level_theorems :=
  (C08_wire_token_and_strictly_increasing_observe,
   C08_backlog_fifo_invariant,
   C08_latest_state_sent,
   C08_latest_state_invariant,
   C08_latest_state_reached,
   C08_latest_state_eventually_sent,
   C08_ends_on_same_token_request_reachable,
   C08_ends_on_reset_of_confirmable_reachable,
   C08_ends_on_transport_error_reachable,
   C08_ends_on_notification_timeout_reachable,
   C08_ends_on_last_or_unsuccessful_trigger,
   C08_cancel_exactly_once_count_restored,
   C08_silent_after_end_step,
   C08_silent_after_end,
   C08_ends_on_same_token_request).
Print Assumptions C08_history_level_theorems.

(* ---- round 7: the model's transport constants and message-ID successor are the translated source's
   (Gen/c03_constants.v <- numbers/constants.py TransportTuning, microseconds = seconds * 10^6; Gen/c14_message_id.v <- MessageManager._next_message_id) *)
From Verif Require Gen.c03_constants Gen.c14_message_id.
From Verif Require Proofs.C08Tie.
Theorem C08_exchange_lifetime_is_source :
  QArith_base.Qeq (QArith_base.inject_Z EXCHANGE_LIFETIME_US) (QArith_base.Qmult (c03_constants.EXCHANGE_LIFETIME c03_constants.default_transport_tuning) (QArith_base.inject_Z 1000000)).
Proof. exact C08Tie.exchange_lifetime_is_source. Qed.
Print Assumptions C08_exchange_lifetime_is_source.
Theorem C08_empty_ack_delay_is_source :
  QArith_base.Qeq (QArith_base.inject_Z EMPTY_ACK_DELAY_US) (QArith_base.Qmult (c03_constants.tt_EMPTY_ACK_DELAY c03_constants.default_transport_tuning) (QArith_base.inject_Z 1000000)).
Proof. exact C08Tie.empty_ack_delay_is_source. Qed.
Print Assumptions C08_empty_ack_delay_is_source.
Theorem C08_ack_timeout_is_source :
  QArith_base.Qeq (QArith_base.inject_Z ACK_TIMEOUT_US) (QArith_base.Qmult (c03_constants.tt_ACK_TIMEOUT c03_constants.default_transport_tuning) (QArith_base.inject_Z 1000000)).
Proof. exact C08Tie.ack_timeout_is_source. Qed.
Print Assumptions C08_ack_timeout_is_source.
Theorem C08_max_retransmit_is_source :
  MAX_RETRANSMIT = c03_constants.tt_MAX_RETRANSMIT c03_constants.default_transport_tuning.
Proof. exact C08Tie.max_retransmit_is_source. Qed.
Print Assumptions C08_max_retransmit_is_source.
Theorem C08_next_message_id_is_source :
  forall mid, c14_message_id.next_message_id {| c14_message_id.mmids_message_id := mid |} = Ok ({| c14_message_id.mmids_message_id := (1 + mid) mod 65536 |}, mid).
Proof. exact C08Tie.next_message_id_is_source. Qed.
Print Assumptions C08_next_message_id_is_source.
