(* C04 — duplicate requests are executed at most once and re-answered identically.
   Only statements here; every proof is [exact <lemma of Proofs/C04.v>].

   Vocabulary (Model/C04.v): [step]/[run] = the message layer reacting to events (datagram arrival, timer
   firing, passage of time, a handler answering); [outs] = time-stamped log of datagrams sent and of requests
   handed to the application ([Start]); [log_since s s'] = what was logged between two states;
   [starts k l] = times of the hand-overs of requests with key k = (remote, message id) in l;
   [last_reply k l None] = the last ACK/RST sent to that remote under that message id in l;
   [Inv] = invariant of all reachable states (C04_reachable). *)
From Verif Require Import Lib.Py Lib.Tactics Model.C04 Proofs.C04 Proofs.C04Ack Proofs.C04R6 Proofs.C04R6b Proofs.C04R6c.
Import ListNotations.
Open Scope Z_scope.

(* every state reachable from the initial one by any event list satisfies the invariant *)
Theorem C04_reachable : forall mid0 u evs, Inv (run (init mid0 u) evs).
Proof. exact reachable_inv. Qed.
Print Assumptions C04_reachable.
Theorem C04_invariant_preserved : forall evs s, Inv s -> Inv (run s evs).
Proof. exact run_inv. Qed.
Print Assumptions C04_invariant_preserved.

(* 0. No internal error: from the initial state, over every event list (datagrams of any kind, timers, clock, handlers
      answering or failing, the transport refusing datagrams or reporting errors), none of the model's KeyError /
      AssertionError branches (on_timeout, _retransmit, _continue_backlog, _send_initially without monitor, the expiry
      callback) is ever taken. [Q] = exchange keys unique, one key per remote, every exchange's remote has a backlog,
      every pending retransmission / empty-ACK timer is the one registered in its exchange / piggy-back opportunity. *)
Theorem C04_no_exception : forall mid0 u evs t e, ~ In (Exn t e) (outs (run (init mid0 u) evs)).
Proof. exact no_exception_lemma. Qed.
Print Assumptions C04_no_exception.
Theorem C04_tables_consistent : forall mid0 u evs, Q (run (init mid0 u) evs).
Proof. exact Q_reachable. Qed.
Print Assumptions C04_tables_consistent.
Theorem C04_tables_consistent_preserved : forall s e, Inv s -> Q s -> Q (step s e).
Proof. exact Q_step. Qed.
Print Assumptions C04_tables_consistent_preserved.

(* 1. At most once: over any event list (any number and timing of copies, timers, handler completions, other
      peers), the hand-overs of requests with one key (remote, mid) are pairwise at least EXCHANGE_LIFETIME apart. *)
Theorem C04_handler_at_most_once : forall k evs s, Inv s ->
  spaced EXCHANGE_LIFETIME (starts k (log_since s (run s evs))).
Proof. exact handler_at_most_once_lemma. Qed.
Print Assumptions C04_handler_at_most_once.
Theorem C04_handler_at_most_once_nth : forall k evs s i j t1 t2, Inv s -> (i < j)%nat ->
  nth_error (starts k (log_since s (run s evs))) i = Some t1 ->
  nth_error (starts k (log_since s (run s evs))) j = Some t2 ->
  t1 + EXCHANGE_LIFETIME <= t2.
Proof. exact handler_at_most_once_nth. Qed.
Print Assumptions C04_handler_at_most_once_nth.

(* 2. Re-answered identically: m arrives first at s0 (key unknown); after ANY further events, as long as the clock
      is below first arrival + EXCHANGE_LIFETIME, a copy [dup] (same remote and mid, any token/payload/type) changes
      nothing but the log, to which it adds: for CON exactly the last ACK/RST sent under that key since the first
      arrival (same record = byte-identical datagram), nothing if none was sent; for NON nothing. No Start, no
      exception, no new timer. *)
Theorem C04_dup_con_reanswered : forall s0 m evs dup, Inv s0 ->
  is_request (i_code m) = true -> aget key_eqb (msg_key m) (recent s0) = None ->
  let s1 := step s0 (Recv m) in let s2 := run s1 evs in
  now s2 < now s0 + EXCHANGE_LIFETIME ->
  is_request (i_code dup) = true -> msg_key dup = msg_key m ->
  is_refused (i_remote dup) s2 = false ->   (* else the transport's refusal of the repeated reply additionally ends the
                                               exchanges with that remote (mm_dispatch_error); see C04_event_frame *)
  step s2 (Recv dup) =
  set_outs (outs s2 ++ match i_type dup, last_reply (msg_key m) (log_since s0 s2) None with
                       | CON, Some (r, w) => [Send (now s2) r w]
                       | _, _ => [] end) s2.
Proof. exact dup_con_reanswered_lemma. Qed.
Print Assumptions C04_dup_con_reanswered.
(* ... and that reply is an ACK or RST that was handed to the transport for this endpoint under this message id
   ([Send] = message_interface.send was called; a refusing transport additionally logs [Refused]) *)
Theorem C04_repeated_reply_was_sent : forall k l r w, last_reply k l None = Some (r, w) ->
  r = fst k /\ w_mid w = snd k /\ is_ackrst (w_type w) = true /\ exists t, In (Send t r w) l.
Proof. exact last_reply_sent. Qed.
Print Assumptions C04_repeated_reply_was_sent.
Theorem C04_stored_reply_wellformed : forall mid0 u evs k r w,
  aget key_eqb k (recent (run (init mid0 u) evs)) = Some (Some (r, w)) ->
  r = fst k /\ w_mid w = snd k /\ is_ackrst (w_type w) = true.
Proof. exact stored_reply_wellformed_lemma. Qed.
Print Assumptions C04_stored_reply_wellformed.

(* ... and it is an ACK (the piggy-backed response or the empty ACK), not an RST, provided the peer does not reuse the
   live message id for a confirmable non-request (ping, unmatched CON response) — RFC 7252 4.4 forbids that reuse.
   [BOK] (only CONs wait in the NSTART backlog) holds of every reachable state (C04_backlog_reachable). *)
Theorem C04_dup_reply_is_ack : forall s0 m evs r w, Inv s0 -> BOK s0 ->
  is_request (i_code m) = true -> aget key_eqb (msg_key m) (recent s0) = None ->
  let s2 := run (step s0 (Recv m)) evs in
  now s2 < now s0 + EXCHANGE_LIFETIME ->
  Forall (polite (msg_key m)) evs ->
  last_reply (msg_key m) (log_since s0 s2) None = Some (r, w) -> w_type w = ACK.
Proof. exact dup_reply_is_ack_lemma. Qed.
Print Assumptions C04_dup_reply_is_ack.
Theorem C04_backlog_reachable : forall mid0 u evs, BOK (run (init mid0 u) evs).
Proof. intros. apply BOK_run; [apply Inv_init | apply BOK_init]. Qed.
Print Assumptions C04_backlog_reachable.

(* "THE acknowledgement": from the initial state, over any history evs0, first arrival m, any further events inside the
   lifetime — all ACK-typed messages sent to m's endpoint under m's message id ([acks]: piggy-backed response, empty ACK,
   every repetition for a copy) are one and the same message ([allsame]). No side condition on the peer. Rests on [W]:
   no piggy-back opportunity outlives the key it was created for (its empty-ACK timer is due before the key's expiry). *)
Theorem C04_single_ack : forall mid0 u evs0 m evs,
  let s0 := run (init mid0 u) evs0 in
  is_request (i_code m) = true -> aget key_eqb (msg_key m) (recent s0) = None ->
  let s2 := run (step s0 (Recv m)) evs in
  now s2 < now s0 + EXCHANGE_LIFETIME ->
  allsame (acks (msg_key m) (log_since s0 s2)).
Proof. exact single_ack_lemma. Qed.
Print Assumptions C04_single_ack.
Theorem C04_no_stale_opportunity : forall mid0 u evs k,
  let s := run (init mid0 u) evs in aget key_eqb k (recent s) = None -> cnt k s = 0%nat.
Proof. intros mid0 u evs k s G. apply cnt_unknown; [apply reachable_inv | apply W_reachable | exact G]. Qed.
Print Assumptions C04_no_stale_opportunity.

(* 3. Lifetime. (a) inside the lifetime the key is known and nothing with that key is started; *)
Theorem C04_within_lifetime_is_duplicate : forall s0 m evs, Inv s0 ->
  is_request (i_code m) = true -> aget key_eqb (msg_key m) (recent s0) = None ->
  let s2 := run (step s0 (Recv m)) evs in
  now s2 < now s0 + EXCHANGE_LIFETIME ->
  aget key_eqb (msg_key m) (recent s2) <> None /\ starts (msg_key m) (log_since (step s0 (Recv m)) s2) = [].
Proof. exact within_lifetime_is_duplicate_lemma. Qed.
Print Assumptions C04_within_lifetime_is_duplicate.
(* (b) the key with expiry timer due at D stays known exactly until that timer fires, which happens no later than
       the clock passing D: afterwards (absent new arrivals of the key) it is unknown *)
Theorem C04_expiry_exact : forall k evs s D q, Inv s -> In (D, q, k) (forgets s) -> Forall (no_arrival k) evs ->
  let s2 := run s evs in
  (aget key_eqb k (recent s2) <> None /\ now s2 <= D /\ In (D, q, k) (forgets s2))
  \/ (aget key_eqb k (recent s2) = None /\ D <= now s2).
Proof. exact expiry_exact_lemma. Qed.
Print Assumptions C04_expiry_exact.
(* (b') with copies in the history: inside the lifetime the key has exactly one expiry timer, the one armed at the first
       arrival — copies neither extend nor shorten the lifetime; *)
Theorem C04_expiry_fixed_at_first_arrival : forall s0 m evs, Inv s0 ->
  is_request (i_code m) = true -> aget key_eqb (msg_key m) (recent s0) = None ->
  let s2 := run (step s0 (Recv m)) evs in
  now s2 < now s0 + EXCHANGE_LIFETIME ->
  exists q, In (now s0 + EXCHANGE_LIFETIME, q, msg_key m) (forgets s2)
    /\ forall D' q', In (D', q', msg_key m) (forgets s2) -> D' = now s0 + EXCHANGE_LIFETIME.
Proof. exact expiry_fixed_at_first_arrival_lemma. Qed.
Print Assumptions C04_expiry_fixed_at_first_arrival.
(* (b'') after ANY history inside the lifetime (evs1, copies included), once the clock has passed first arrival +
       EXCHANGE_LIFETIME without a further arrival of the key in between (evs2), the identifier is forgotten; by (c) the
       next copy is then processed as a new request *)
Theorem C04_forgotten_after_lifetime : forall s0 m evs1 evs2, Inv s0 ->
  is_request (i_code m) = true -> aget key_eqb (msg_key m) (recent s0) = None ->
  let s2 := run (step s0 (Recv m)) evs1 in
  now s2 < now s0 + EXCHANGE_LIFETIME ->
  Forall (no_arrival (msg_key m)) evs2 ->
  let s3 := run s2 evs2 in
  now s0 + EXCHANGE_LIFETIME < now s3 ->
  aget key_eqb (msg_key m) (recent s3) = None.
Proof. exact forgotten_after_lifetime_lemma. Qed.
Print Assumptions C04_forgotten_after_lifetime.
(* (c) a request-coded message whose key is unknown — never seen, seen from another endpoint only, or forgotten —
       is remembered for EXCHANGE_LIFETIME from now and, if CON or NON, handed to the application exactly once now *)
Theorem C04_unknown_key_is_executed : forall s m, Inv s ->
  is_request (i_code m) = true -> aget key_eqb (msg_key m) (recent s) = None ->
  let k := msg_key m in let s' := step s (Recv m) in
  exists new q, outs s' = outs s ++ new /\ now s' = now s /\ Forall (fun o => out_time o = now s) new
    /\ starts k new = (if negb (is_ackrst (i_type m)) then [now s] else [])
    /\ aget key_eqb k (recent s') = Some (last_reply k new None)
    /\ In (now s + EXCHANGE_LIFETIME, q, k) (forgets s').
Proof. exact step_fresh. Qed.
Print Assumptions C04_unknown_key_is_executed.

(* 4. Endpoints are independent: a datagram with another (remote, mid) starts nothing for k and changes the entry
      of k only through ACK/RSTs sent to k's remote under k's mid (relation R) *)
Theorem C04_other_keys_untouched : forall s m k, Inv s -> msg_key m <> k -> R k s (step s (Recv m)).
Proof. exact other_keys_untouched_lemma. Qed.
Print Assumptions C04_other_keys_untouched.
(* sharper for datagrams: one with another key never removes or resets k's entry nor its expiry timer *)
Theorem C04_other_keys_keep_entry : forall s m k v, Inv s -> msg_key m <> k ->
  aget key_eqb k (recent s) = Some v ->
  exists new, outs (step s (Recv m)) = outs s ++ new /\ starts k new = [] /\
    aget key_eqb k (recent (step s (Recv m))) = Some (last_reply k new v) /\
    forall D q, In (D, q, k) (forgets s) -> In (D, q, k) (forgets (step s (Recv m))).
Proof. exact other_keys_keep_entry_lemma. Qed.
Print Assumptions C04_other_keys_keep_entry.
(* a key of which no request-coded datagram arrives stays unknown and is never started, whatever other endpoints do with
   the same message id — so the hypothesis of C04_unknown_key_is_executed holds for (r2, mid) while (r1, mid) is live *)
Theorem C04_not_arrived_stays_unknown : forall k evs s, Inv s -> aget key_eqb k (recent s) = None ->
  Forall (no_arrival k) evs ->
  aget key_eqb k (recent (run s evs)) = None /\ starts k (log_since s (run s evs)) = [].
Proof. exact not_arrived_stays_unknown_lemma. Qed.
Print Assumptions C04_not_arrived_stays_unknown.
(* every event (timer, clock, handler answer or failure, transport refusal or error, datagram) that is not a first arrival
   of k: relation R (no Start for k; entry follows the ACK/RSTs sent under k, or is removed with its timer due) *)
Theorem C04_event_frame : forall s e k, Inv s -> ~ fresh_for k s e -> R k s (step s e).
Proof. exact event_frame_lemma. Qed.
Print Assumptions C04_event_frame.

(* ------------------------------------------------------------------ non-vacuity *)
Definition req (r : Z) (t : mtype) (mid : Z) (tok : list Z) (p : hkind) : inmsg :=
  {| i_remote := r; i_type := t; i_code := 1; i_mid := mid; i_token := tok; i_path := p; i_nr := None; i_payload := [] |}.
Definition ack (mid : Z) (code : Z) (tok pay : list Z) : wire :=
  {| w_type := ACK; w_code := code; w_mid := mid; w_token := tok; w_payload := pay |}.

(* the hypotheses of theorem 2 hold of a concrete history, and its conclusion is the piggy-backed response again *)
Example C04_fast_dup :
  let s0 := init 7 2000000 in let m := req 0 CON 7 [1] HFast in
  Inv s0 /\ aget key_eqb (msg_key m) (recent s0) = None /\
  now (run (step s0 (Recv m)) [Advance 246999999]) < now s0 + EXCHANGE_LIFETIME /\
  outs (run s0 [Recv m; Advance 246999999; Recv m]) =
    [Start 0 0 0 7 [1]; Send 0 0 (ack 7 69 [1] [0]); Send 246999999 0 (ack 7 69 [1] [0])].
Proof. split; [apply Inv_init|]. vm_compute. repeat split; reflexivity. Qed.

(* the pattern of the repaired defect F2: the endpoint's own message id equals the peer's; the separate response
   (CON, own mid 7) does not replace the remembered empty ACK, the copy is answered with the empty ACK *)
Example C04_aligned_mid :
  outs (run (init 7 2000000)
         [Recv (req 0 CON 7 [1] HSlow); Advance 100000;
          Respond 0 {| a_code := 69; a_payload := [170]; a_nr := None; a_rel := None |};
          Recv (req 0 CON 7 [1] HSlow)]) =
    [Start 0 0 0 7 [1]; Send 100000 0 (ack 7 0 [] []);
     Send 100000 0 {| w_type := CON; w_code := 69; w_mid := 7; w_token := [1]; w_payload := [170] |};
     Send 100000 0 (ack 7 0 [] [])].
Proof. vm_compute. reflexivity. Qed.

(* expiry: one microsecond before the lifetime ends the copy is a duplicate, at the end it is executed again;
   the same mid from another endpoint is executed independently; NON copies are silent *)
Example C04_lifetime_boundary :
  starts (0, 7) (outs (run (init 0 2000000)
      [Recv (req 0 NON 7 [1] HFast); Recv (req 1 NON 7 [1] HFast); Recv (req 0 NON 7 [1] HFast);
       Advance 246999999; Recv (req 0 NON 7 [1] HFast); Advance 1; Recv (req 0 NON 7 [1] HFast)]))
  = [0; 247000000]
  /\ starts (1, 7) (outs (run (init 0 2000000)
      [Recv (req 0 NON 7 [1] HFast); Recv (req 1 NON 7 [1] HFast); Recv (req 0 NON 7 [1] HFast)])) = [0]
  /\ length (outs (run (init 0 2000000)
      [Recv (req 0 NON 7 [1] HFast); Recv (req 0 NON 7 [1] HFast); Recv (req 0 NON 7 [1] HFast)])) = 2%nat.
Proof. vm_compute. repeat split; reflexivity. Qed.

(* the politeness hypothesis of C04_dup_reply_is_ack is needed: a peer that pings with the live message id makes the
   remembered reply the RST of the ping (observation, outside the property's quantifier) *)
Example C04_impolite_peer_gets_rst :
  let ping := {| i_remote := 0; i_type := CON; i_code := 0; i_mid := 7; i_token := []; i_path := HFast; i_nr := None; i_payload := [] |} in
  polite (0, 7) (Recv ping) = (true = false) /\
  outs (run (init 0 2000000) [Recv (req 0 CON 7 [1] HFast); Recv ping; Recv (req 0 CON 7 [1] HFast)]) =
    [Start 0 0 0 7 [1]; Send 0 0 (ack 7 69 [1] [0]);
     Send 0 0 {| w_type := RST; w_code := 0; w_mid := 7; w_token := []; w_payload := [] |};
     Send 0 0 {| w_type := RST; w_code := 0; w_mid := 7; w_token := []; w_payload := [] |}].
Proof. split; vm_compute; reflexivity. Qed.

(* a transport that refuses the datagrams to a peer (udp6 sendmsg failing) reports it from inside send(): the attempt is
   logged, the exchange and backlog of that peer end; copies are still not executed again and get the remembered ACK
   offered to the transport again *)
Example C04_refusing_transport :
  outs (run (init 7 2000000)
         [Recv (req 0 CON 7 [1] HSlow); Advance 100000; Refuse 0 true;
          Respond 0 {| a_code := 69; a_payload := [170]; a_nr := None; a_rel := None |};
          Recv (req 0 CON 7 [1] HSlow); Advance 10000000; Refuse 0 false; Recv (req 0 CON 7 [1] HSlow)]) =
    [Start 0 0 0 7 [1]; Send 100000 0 (ack 7 0 [] []);
     Send 100000 0 {| w_type := CON; w_code := 69; w_mid := 7; w_token := [1]; w_payload := [170] |}; Refused 100000 0;
     Send 100000 0 (ack 7 0 [] []); Refused 100000 0;
     Send 10100000 0 (ack 7 0 [] [])].
Proof. vm_compute. reflexivity. Qed.

(* a resource that returns ONE pre-built response object for every request (the defect repaired in 75465d6: the remembered
   reply used to be that object itself): each copy gets the ACK of ITS request, to ITS endpoint, with ITS token *)
Example C04_reused_response_object :
  outs (run (init 100 2000000)
         [Recv (req 0 CON 7 [1] HCached); Recv (req 1 CON 7 [2] HCached); Recv (req 0 CON 8 [3] HCached);
          Recv (req 0 CON 7 [1] HCached); Recv (req 1 CON 7 [2] HCached)]) =
    [Start 0 0 0 7 [1]; Send 0 0 (ack 7 69 [1] [99; 97; 99; 104; 101; 100]);
     Start 0 1 1 7 [2]; Send 0 1 (ack 7 69 [2] [99; 97; 99; 104; 101; 100]);
     Start 0 2 0 8 [3]; Send 0 0 (ack 8 69 [3] [99; 97; 99; 104; 101; 100]);
     Send 0 0 (ack 7 69 [1] [99; 97; 99; 104; 101; 100]);
     Send 0 1 (ack 7 69 [2] [99; 97; 99; 104; 101; 100])].
Proof. vm_compute. reflexivity. Qed.

(* acks / allsame are not vacuous: a slow request gets the empty ACK, the separate response is not an ACK, two copies repeat it *)
Example C04_single_ack_instance :
  acks (0, 7) (outs (run (init 7 2000000)
         [Recv (req 0 CON 7 [1] HSlow); Advance 100000;
          Respond 0 {| a_code := 69; a_payload := [170]; a_nr := None; a_rel := None |};
          Recv (req 0 CON 7 [1] HSlow); Recv (req 0 CON 7 [1] HSlow)])) = [ack 7 0 [] []; ack 7 0 [] []; ack 7 0 [] []].
Proof. vm_compute. reflexivity. Qed.

(* ---- round 7: the model's transport constants and message-ID successor are the translated source's
   (Gen/c03_constants.v <- numbers/constants.py TransportTuning, microseconds = seconds * 10^6; Gen/c14_message_id.v <- MessageManager._next_message_id) *)
From Verif Require Gen.c03_constants Gen.c14_message_id.
From Verif Require Proofs.C04Tie.
Theorem C04_exchange_lifetime_is_source :
  QArith_base.Qeq (QArith_base.inject_Z EXCHANGE_LIFETIME) (QArith_base.Qmult (c03_constants.EXCHANGE_LIFETIME c03_constants.default_transport_tuning) (QArith_base.inject_Z 1000000)).
Proof. exact C04Tie.exchange_lifetime_is_source. Qed.
Print Assumptions C04_exchange_lifetime_is_source.
Theorem C04_empty_ack_delay_is_source :
  QArith_base.Qeq (QArith_base.inject_Z EMPTY_ACK_DELAY) (QArith_base.Qmult (c03_constants.tt_EMPTY_ACK_DELAY c03_constants.default_transport_tuning) (QArith_base.inject_Z 1000000)).
Proof. exact C04Tie.empty_ack_delay_is_source. Qed.
Print Assumptions C04_empty_ack_delay_is_source.
Theorem C04_max_retransmit_is_source :
  MAX_RETRANSMIT = c03_constants.tt_MAX_RETRANSMIT c03_constants.default_transport_tuning.
Proof. exact C04Tie.max_retransmit_is_source. Qed.
Print Assumptions C04_max_retransmit_is_source.
Theorem C04_next_message_id_is_source :
  forall s, c14_message_id.next_message_id {| c14_message_id.mmids_message_id := message_id s |} = Ok ({| c14_message_id.mmids_message_id := message_id (fst (_next_message_id s)) |}, snd (_next_message_id s)).
Proof. exact C04Tie.next_message_id_is_source. Qed.
Print Assumptions C04_next_message_id_is_source.
