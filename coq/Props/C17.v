(* C17 — Site routing: exact match, longest prefix for nested sites, 4.04; add/remove effective at once; the handler can
   reconstruct the original request path; /.well-known/core lists exactly the non-hidden resources; RFC 6690 filters.
   Only statements here; every proof is [exact <lemma of Proofs/C17*.v>].
   find_child_and_pathstripped_message, add_resource, remove_resource, expand_upa are GENERATED from aiocoap/resource.py
   on every check (Gen/resource_site.v). *)
From Verif Require Import Lib.Py Lib.Tactics Model.C17Base Gen.resource_site Model.C17 Proofs.C17 Proofs.C17Reg Proofs.C17Wkc Proofs.C17List Proofs.C17R6 Proofs.C17R6b.
Open Scope Z_scope.
Open Scope list_scope.

(* ---- 1. the translated lookup code is the functional specification: exact resource first, then the PathCapable child at the
        longest non-empty proper prefix (scan from length-1 down to 1) with the rest ([""] -> []), else KeyError; for every
        site, whatever the children are, and every message (so: never OutOfFuel, never IndexError) *)
Theorem C17_lookup_is_spec : forall R S (self : site R S) (m : msg),
  find_child_and_pathstripped_message self m =
  match dict_get_opt (resources self) (uri_path m) with
  | Some r => Ok (ChildResource r, strip m [])
  | None => match scan (subsites self) (uri_path m) (List.length (uri_path m) - 1) with
            | Some (s, rest) => Ok (ChildSubsite s, strip m rest)
            | None => Raise KeyError
            end
  end.
Proof. exact find_child_eq. Qed.
Print Assumptions C17_lookup_is_spec.

(* ---- 2. refinement to the declarative Route relation, for every nested-site tree, via Site.render and Site.render_to_pipe *)
Theorem C17_route_refinement : forall n pipe m, uri_path_abbrev m = None ->
  forall t, Route n (uri_path m) t <-> leaf_target (render pipe n m) = Some t.
Proof. exact render_route. Qed.
Print Assumptions C17_route_refinement.

Theorem C17_not_found_iff_no_route : forall n pipe m, uri_path_abbrev m = None ->
  (forall t, ~ Route n (uri_path m) t) <-> render pipe n m = LeafExn NotFound.
Proof. exact render_not_found. Qed.
Print Assumptions C17_not_found_iff_no_route.

Theorem C17_route_deterministic : forall n p t1 t2, Route n p t1 -> Route n p t2 -> t1 = t2.
Proof. exact Route_deterministic. Qed.
Print Assumptions C17_route_deterministic.

(* Route at a site, computed: exact resource, else longest non-empty proper prefix, else nothing *)
Theorem C17_route_at_site : forall rs ss p t,
  Route (NSite rs ss) p t <->
  match dict_get_opt rs p with
  | Some r => t = TgtRes r
  | None => match scan ss p (List.length p - 1) with
            | Some (c, rest) => Route c rest t
            | None => False
            end
  end.
Proof. exact Route_site_iff. Qed.
Print Assumptions C17_route_at_site.

(* ---- 2b. the literal reading of the property (RouteSpec: longest PROPER prefix, the empty prefix included).  The code's relation is always
        contained in it and coincides with it exactly on the trees without a nested site at an empty path; on those the dispatch refines
        the literal specification.  With such a site the literal specification routes and the code answers 4.04 (open finding
        C17:empty-prefix-subsite-ignored; formerly observation O2). *)
Theorem C17_route_within_literal_spec : forall n p t, Route n p t -> RouteSpec n p t.
Proof. exact Route_RouteSpec. Qed.
Print Assumptions C17_route_within_literal_spec.
Theorem C17_literal_spec_iff_route : forall n p t, no_empty_subsite n = true -> (RouteSpec n p t <-> Route n p t).
Proof. exact RouteSpec_iff_Route. Qed.
Print Assumptions C17_literal_spec_iff_route.
Theorem C17_route_refinement_literal_partial : forall n pipe m, uri_path_abbrev m = None -> no_empty_subsite n = true ->
  forall t, RouteSpec n (uri_path m) t <-> leaf_target (render pipe n m) = Some t.
Proof. exact render_route_spec. Qed.
Print Assumptions C17_route_refinement_literal_partial.
Theorem C17_empty_prefix_subsite_refuted :
  let r := RHandler 1 (Some []) in
  let n := NSite [] [([], NSite [(["x"%string], r)] [])] in
  RouteSpec n ["x"%string] (TgtRes r) /\ render false n (new_request ["x"%string] None) = LeafExn NotFound /\
  get_resources_as_linkheader n = Some [("//x"%string, [])].
Proof. exact empty_prefix_subsite_ignored. Qed.
Print Assumptions C17_empty_prefix_subsite_refuted.

(* ---- 3. the handler sees the path with the matched part removed and the original path, at every nesting depth *)
Theorem C17_handler_message : forall n pipe m, uri_path_abbrev m = None ->
  match render pipe n m with
  | LeafRes r m' => uri_path m' = [] /\ original_request_path m' = Some (orig_of m) /\ uri_path_abbrev m' = None
  | LeafOpaque id m' => orig_of m' = orig_of m /\ uri_path_abbrev m' = None /\
                        ((exists rs ss, n = NSite rs ss) \/ original_request_path m = Some (orig_of m) ->
                         original_request_path m' = Some (orig_of m))
  | LeafExn e => e = NotFound
  end.
Proof. exact render_msg. Qed.
Print Assumptions C17_handler_message.

Theorem C17_original_request_uri_kept : forall n pipe m, uri_path_abbrev m = None ->
  match render pipe n m with
  | LeafRes _ m' | LeafOpaque _ m' => get_request_uri_path m' = Ok (uri_segments (orig_of m))
  | LeafExn _ => True
  end.
Proof. exact request_uri_kept. Qed.
Print Assumptions C17_original_request_uri_kept.

(* the same, at the level of what a registration history observes for a request *)
Theorem C17_request_handled : forall pipe root m q id seen orig uri, uri_path_abbrev m = None ->
  request pipe root m q = RHandled id seen orig uri ->
  ((exists d, Route root (uri_path m) (TgtRes (RHandler id d)) /\ seen = []) \/ Route root (uri_path m) (TgtOpaque id seen)) /\
  uri = Ok (uri_segments (orig_of m)) /\
  ((exists rs ss, root = NSite rs ss) -> orig = Some (orig_of m)).
Proof. exact request_handled. Qed.
Print Assumptions C17_request_handled.
Theorem C17_request_routed : forall pipe root m q id d, uri_path_abbrev m = None ->
  Route root (uri_path m) (TgtRes (RHandler id d)) ->
  request pipe root m q = RHandled id [] (Some (orig_of m)) (Ok (uri_segments (orig_of m))).
Proof. exact request_routed. Qed.
Print Assumptions C17_request_routed.
Theorem C17_request_not_found : forall pipe root m q, uri_path_abbrev m = None ->
  (forall t, ~ Route root (uri_path m) t) -> request pipe root m q = RExn NotFound.
Proof. exact request_not_found. Qed.
Print Assumptions C17_request_not_found.

(* Site.render_to_pipe: Uri-Path-Abbrev is expanded once (4.02 on conflict / unknown value), then plain dispatch *)
Theorem C17_render_to_pipe_expands_abbrev : forall rs ss m,
  render true (NSite rs ss) m =
  match expand_upa m with Raise e => LeafExn e | Ok m0 => render false (NSite rs ss) m0 end.
Proof. exact render_pipe_upa. Qed.
Print Assumptions C17_render_to_pipe_expands_abbrev.
Theorem C17_expand_upa_spec : forall m,
  expand_upa m =
  match uri_path_abbrev m with
  | None => Ok m
  | Some n => if truthy (uri_path m) then Raise BadOption
              else match zmap_get upa_map n with
                   | Ok p => Ok (set_uri_path_abbrev (set_uri_path m p) None)
                   | Raise _ => Raise BadOption
                   end
  end.
Proof. exact expand_upa_spec. Qed.
Print Assumptions C17_expand_upa_spec.

(* ---- 4. add / remove take effect for the next request and touch nothing else *)
Theorem C17_add_then_lookup : forall R S (s s' : site R S) p (r : R) m,
  add_resource s p (ChildResource r) = Ok s' -> uri_path m = p ->
  find_child_and_pathstripped_message s' m = Ok (ChildResource r, strip m []).
Proof. exact add_then_lookup. Qed.
Print Assumptions C17_add_then_lookup.
Theorem C17_add_never_fails : forall R S (s : site R S) p c, exists s', add_resource s p c = Ok s'.
Proof. exact add_resource_ok. Qed.
Print Assumptions C17_add_never_fails.
Theorem C17_add_frame : forall R S (s s' : site R S) p c,
  add_resource s p c = Ok s' ->
  forall q, q <> p -> dict_get_opt (resources s') q = dict_get_opt (resources s) q /\
                      dict_get_opt (subsites s') q = dict_get_opt (subsites s) q.
Proof. exact add_frame. Qed.
Print Assumptions C17_add_frame.
Theorem C17_add_subsite_lookup : forall R S (s s' : site R S) p (c : S), add_resource s p (ChildSubsite c) = Ok s' ->
  dict_get_opt (subsites s') p = Some c /\ resources s' = resources s.
Proof. exact add_sub_lookup. Qed.
Print Assumptions C17_add_subsite_lookup.
Theorem C17_remove_effect : forall R S (s : site R S) p, site_wf s = true ->
  match remove_resource s p with
  | Raise e => e = KeyError /\ dict_get_opt (subsites s) p = None /\ dict_get_opt (resources s) p = None
  | Ok s' =>
      site_wf s' = true /\
      (forall q, q <> p -> dict_get_opt (resources s') q = dict_get_opt (resources s) q /\
                           dict_get_opt (subsites s') q = dict_get_opt (subsites s) q) /\
      match dict_get_opt (subsites s) p with
      | Some _ => dict_get_opt (subsites s') p = None /\ resources s' = resources s
      | None => dict_get_opt (resources s) p <> None /\ dict_get_opt (resources s') p = None /\ subsites s' = subsites s
      end
  end.
Proof. exact remove_resource_effect. Qed.
Print Assumptions C17_remove_effect.
(* every tree reachable by ANY sequence of add/remove/request/list operations (at any addresses) keeps all registries proper dicts:
   the well-formedness hypothesis of C17_remove_effect holds in every reachable state *)
Theorem C17_histories_keep_registries_wf : forall ops root, node_wf root = true -> node_wf (fst (run root ops)) = true.
Proof. exact run_wf. Qed.
Print Assumptions C17_histories_keep_registries_wf.
Theorem C17_update_reaches_addressed_site : forall addr f n n', update_at addr f n = Some (Ok n') ->
  exists rs ss s', site_at addr n = Some (NSite rs ss) /\ f (site_of rs ss) = Ok s' /\
                   site_at addr n' = Some (NSite (resources s') (subsites s')).
Proof. exact site_at_update_at. Qed.
Print Assumptions C17_update_reaches_addressed_site.
Theorem C17_request_after_add : forall rs ss p id d pipe q root',
  fst (step (NSite rs ss) (OAdd [] p (TRes (RHandler id d)))) = root' ->
  request pipe root' (new_request p None) q = RHandled id [] (Some p) (Ok (uri_segments p)).
Proof. exact request_after_add. Qed.
Print Assumptions C17_request_after_add.
Theorem C17_request_after_remove : forall rs ss p pipe q root', dict_wf rs = true ->
  dict_get_opt rs p <> None -> dict_get_opt ss p = None ->
  (forall pre rest, p = pre ++ rest -> pre <> [] -> rest <> [] -> dict_get_opt ss pre = None) ->
  fst (step (NSite rs ss) (ORemove [] p)) = root' ->
  request pipe root' (new_request p None) q = RExn NotFound.
Proof. exact request_after_remove. Qed.
Print Assumptions C17_request_after_remove.

(* tree level: an add/remove at one site address leaves every site at an unrelated address (neither address a prefix of the other) unchanged;
   an add at ANY address is served by the next request (in a tree where nothing shadows the path) *)
Theorem C17_update_frame : forall addr f n n' addr', update_at addr f n = Some (Ok n') ->
  addr_prefix addr addr' = false -> addr_prefix addr' addr = false -> site_at addr' n' = site_at addr' n.
Proof. exact update_frame. Qed.
Print Assumptions C17_update_frame.
Theorem C17_add_remove_frame_in_histories : forall root o root' addr', step root o = (root', RDone) ->
  match o with
  | OAdd addr _ _ | ORemove addr _ => addr_prefix addr addr' = false /\ addr_prefix addr' addr = false
  | _ => False
  end -> site_at addr' root' = site_at addr' root.
Proof. exact step_add_remove_frame. Qed.
Print Assumptions C17_add_remove_frame_in_histories.
Theorem C17_request_after_add_nested : forall root addr p id d root' pipe q,
  step root (OAdd addr p (TRes (RHandler id d))) = (root', RDone) -> node_wf root' = true -> node_sep false root' = true ->
  let P := chain_path (addr ++ [p]) in
  request pipe root' (new_request P None) q = RHandled id [] (Some P) (Ok (uri_segments P)).
Proof. exact request_after_add_nested. Qed.
Print Assumptions C17_request_after_add_nested.

(* ---- 4b. (round 6) run level.  In EVERY history of add / remove / alias / request / locate / list / probe operations, from ANY tree, the
        i-th answer can be an exception only as follows: KeyError for a remove (nothing registered there), NotFound for a request, BadOption
        for a request through render_to_pipe (Uri-Path-Abbrev).  No OutOfFuel, IndexError, TypeError, AttributeError or any other internal
        error of the model/translation is reachable; add, alias, locate, list and probe never answer with an exception. *)
Theorem C17_histories_exception_per_operation : forall ops root, Forall2 (fun o r => forall e, r = RExn e ->
    match o with
    | ORemove _ _ => e = KeyError
    | ORequest pipe _ _ => e = NotFound \/ (pipe = true /\ e = BadOption)
    | _ => False
    end) ops (snd (run root ops)).
Proof. exact run_exn. Qed.
Print Assumptions C17_histories_exception_per_operation.
Theorem C17_histories_no_internal_error : forall ops root e, In (RExn e) (snd (run root ops)) -> e = KeyError \/ e = NotFound \/ e = BadOption.
Proof. exact run_no_internal_error. Qed.
Print Assumptions C17_histories_no_internal_error.
(* removing a plain resource at ANY site address: the next request for its path is answered 4.04 (when nothing else shadows the path);
   more generally nothing routable at path q of the addressed site means nothing routable at the corresponding request path of the tree *)
Theorem C17_request_after_remove_nested : forall root addr p root' pipe q rs ss,
  node_wf root = true -> step root (ORemove addr p) = (root', RDone) -> node_sep false root' = true ->
  site_at addr root = Some (NSite rs ss) -> dict_get_opt ss p = None ->
  (forall pre rest, p = pre ++ rest -> pre <> [] -> rest <> [] -> dict_get_opt ss pre = None) ->
  (addr <> [] -> p <> [""%string]) ->
  request pipe root' (new_request (addr_path addr p) None) q = RExn NotFound.
Proof. exact request_after_remove_nested. Qed.
Print Assumptions C17_request_after_remove_nested.
Theorem C17_not_found_at_address : forall addr n nested rs ss q, node_wf n = true -> node_sep nested n = true ->
  site_at addr n = Some (NSite rs ss) -> (addr <> [] -> q <> [""%string]) ->
  (forall t, ~ Route (NSite rs ss) q t) -> forall t, ~ Route n (addr_path addr q) t.
Proof. exact not_found_at_addr. Qed.
Print Assumptions C17_not_found_at_address.
Theorem C17_addr_path_is_chain_path : forall addr p, addr_path addr p = chain_path (addr ++ [p]).
Proof. exact addr_path_chain. Qed.
Print Assumptions C17_addr_path_is_chain_path.
(* the nested-add theorem on every tree a history reaches: well-formedness is derived from reachability, not assumed *)
Theorem C17_request_after_add_nested_reachable : forall ops addr p id d root' pipe q,
  step (fst (run (NSite [] []) ops)) (OAdd addr p (TRes (RHandler id d))) = (root', RDone) -> node_sep false root' = true ->
  let P := chain_path (addr ++ [p]) in
  request pipe root' (new_request P None) q = RHandled id [] (Some P) (Ok (uri_segments P)).
Proof. exact request_after_add_nested_reachable. Qed.
Print Assumptions C17_request_after_add_nested_reachable.
Theorem C17_listed_is_routable_in_histories : forall ops ls h d, let n := fst (run (NSite [] []) ops) in
  node_sep false n = true -> get_resources_as_linkheader n = Some ls -> In (h, d) ls ->
  exists ch r, In (ch, r) (entries n) /\ get_link_description r = Some d /\ h = href_of_path (chain_path ch) /\
               Route n (chain_path ch) (TgtRes r).
Proof. exact listed_routable_reachable. Qed.
Print Assumptions C17_listed_is_routable_in_histories.
Example C17_remove_nested_nonvacuous :
  let root := NSite [] [(["a"%string], NSite [(["x"%string], RHandler 1 (Some [])); ([], RHandler 2 (Some []))] [(["b"%string], NSite [(["y"%string], RHandler 3 None)] [])])] in
  snd (run root [ORequest false (new_request ["a"; "b"; "y"]%string None) []; ORemove [["a"]; ["b"]]%string ["y"%string];
                 ORequest true (new_request (addr_path [["a"]; ["b"]]%string ["y"%string]) None) []; ORemove [["a"%string]] [];
                 ORequest false (new_request (addr_path [["a"%string]] []) None) []; ORemove [["a"%string]] []])
  = [RHandled 3 [] (Some ["a"; "b"; "y"]%string) (Ok ["a"; "b"; "y"]%string); RDone; RExn NotFound; RDone; RExn NotFound; RExn KeyError]
  /\ node_wf root = true /\ node_sep false root = true.
Proof. vm_compute. repeat split. Qed.

(* ---- 5. the listing names exactly the registered resources that do not hide themselves, with full hrefs through nested sites *)
Theorem C17_listing_exact : forall n ls, get_resources_as_linkheader n = Some ls ->
  forall h d, In (h, d) ls <-> Listed n h d.
Proof. exact linkheader_exact. Qed.
Print Assumptions C17_listing_exact.
Theorem C17_wkc_without_filter : forall ls impl, wkc_render_get ls impl [] = Ok (ls ++ impl_info_links impl).
Proof. exact wkc_no_filter. Qed.
Print Assumptions C17_wkc_without_filter.
Theorem C17_wkc_queries_without_equals : forall ls impl qs, relevant qs = [] -> wkc_render_get ls impl qs = Ok (ls ++ impl_info_links impl).
Proof. exact wkc_no_relevant. Qed.
Print Assumptions C17_wkc_queries_without_equals.
Theorem C17_href_through_nested_site : forall p q, p <> [] -> q <> [] -> (href_of_path p ++ href_of_path q)%string = href_of_path (p ++ q).
Proof. exact href_of_path_app. Qed.
Print Assumptions C17_href_through_nested_site.
Theorem C17_href_of_subsite_root : forall p, p <> [] -> (href_of_path p ++ href_of_path [])%string = href_of_path (p ++ [""%string]).
Proof. exact href_of_path_root. Qed.
Print Assumptions C17_href_of_subsite_root.

(* ---- 5b. order and multiplicity: the listing IS the registration-order enumeration of the tree (own resources in dict order, then
        sub-site after sub-site), hidden resources dropped; each registered resource is enumerated exactly once — in every tree with
        proper dicts, hence after every add/remove/alias history *)
Theorem C17_listing_is_enumeration : forall n ls, get_resources_as_linkheader n = Some ls -> ls = filter_map entry_link (entries n).
Proof. exact listing_is_entries. Qed.
Print Assumptions C17_listing_is_enumeration.
Theorem C17_each_resource_enumerated_once : forall n, node_wf n = true -> NoDup (map fst (entries n)).
Proof. exact entries_nodup. Qed.
Print Assumptions C17_each_resource_enumerated_once.
Theorem C17_histories_enumerate_each_resource_once : forall ops, NoDup (map fst (entries (fst (run (NSite [] []) ops)))).
Proof. exact reachable_entries_nodup. Qed.
Print Assumptions C17_histories_enumerate_each_resource_once.

(* ---- 5c. listing and routing agree.  Every resource some request path is routed to, unless it hides itself, is listed under the href
        of exactly that path — in EVERY tree.  Conversely every listed link stems from an entry whose request path is routed to that very
        resource — provided nothing shadows a sub-site prefix (node_sep: sub-site keys non-empty [O2], not extended by another key of the
        same site, no resource at [""] inside a nested site).  Without that proviso the converse is false of the code (witness below). *)
Theorem C17_routable_is_listed : forall n p r d ls, Route n p (TgtRes r) -> get_link_description r = Some d ->
  get_resources_as_linkheader n = Some ls -> In (href_of_path p, d) ls.
Proof. exact routable_in_listing. Qed.
Print Assumptions C17_routable_is_listed.
Theorem C17_listed_is_routable : forall n ls h d, node_wf n = true -> node_sep false n = true ->
  get_resources_as_linkheader n = Some ls -> In (h, d) ls ->
  exists ch r, In (ch, r) (entries n) /\ get_link_description r = Some d /\ h = href_of_path (chain_path ch) /\
               Route n (chain_path ch) (TgtRes r).
Proof. exact listed_routable. Qed.
Print Assumptions C17_listed_is_routable.
Example C17_listed_is_routable_unconditional_refuted :
  let n := NSite [(["a"; "b"]%string, RHandler 1 (Some []))] [(["a"%string], NSite [(["b"%string], RHandler 2 (Some []))] [])] in
  get_resources_as_linkheader n = Some [("/a/b"%string, []); ("/a/b"%string, [])] /\ node_wf n = true /\ node_sep false n = false /\
  forall t, Route n ["a"; "b"]%string t -> t = TgtRes (RHandler 1 (Some [])).
Proof.
  cbv zeta. split; [vm_compute; reflexivity|]. split; [vm_compute; reflexivity|]. split; [vm_compute; reflexivity|].
  intros t Ht. apply (render_route _ false (new_request ["a"; "b"]%string None) eq_refl) in Ht. vm_compute in Ht. congruence.
Qed.
Example C17_separated_nonvacuous :
  let n := NSite [(["r"%string], RHandler 1 (Some [])); ([], RHandler 2 (Some []))]
                 [(["s"; "t"]%string, NSite [([], RHandler 3 (Some [])); (["x"; ""]%string, RHandler 4 None)] [(["u"%string], NSite [(["v"%string], RHandler 5 (Some []))] [])])] in
  node_wf n = true /\ node_sep false n = true /\
  get_resources_as_linkheader n = Some [("/r", []); ("/", []); ("/s/t/", []); ("/s/t/u/v", [])]%string /\
  map fst (entries n) = [[["r"]]; [[]]; [["s"; "t"]; []]; [["s"; "t"]; ["x"; ""]]; [["s"; "t"]; ["u"]; ["v"]]]%string.
Proof. vm_compute. repeat split. Qed.

(* ---- 5d. Site.needs_blockwise_assembly and Site.add_observation look the child up with the same function: they ask exactly the child
        render would render with, with the same stripped message, and take their default exactly where render answers 4.04 *)
Theorem C17_locate_same_dispatch_as_render : forall n m,
  locate n m = match render false n m with LeafExn NotFound => LeafExn KeyError | x => x end.
Proof. exact locate_render. Qed.
Print Assumptions C17_locate_same_dispatch_as_render.
Theorem C17_locate_route : forall n m, uri_path_abbrev m = None ->
  forall t, Route n (uri_path m) t <-> leaf_target (locate n m) = Some t.
Proof. exact locate_route. Qed.
Print Assumptions C17_locate_route.
Theorem C17_located_same_as_request : forall obs root m q id seen orig uri, uri_path_abbrev m = None ->
  request false root m q = RHandled id seen orig uri <-> located obs root m = RHandled id seen orig uri.
Proof. exact located_same_as_request. Qed.
Print Assumptions C17_located_same_as_request.
Theorem C17_located_default_when_no_route : forall obs root m, uri_path_abbrev m = None ->
  (forall t, ~ Route root (uri_path m) t) -> located obs root m = RDefault.
Proof. exact located_default. Qed.
Print Assumptions C17_located_default_when_no_route.

(* ---- 6. ONE RFC 6690 filter criterion returns exactly the matching subset — unconditionally (every name, every pattern, every list
        of links; since the fix f691489 of the four filter defects this check found).  Matches k v l: some candidate x of l for the
        name k (the href; or a value — for rt/if/ct/rel a space-separated item of a value — of an attribute named k, names
        case-insensitive, valueless or missing attributes denote nothing) equals v, or starts with v minus the star. *)
Theorem C17_wkc_filter_single : forall k v ls l, In l (filter_links k v ls) <-> In l ls /\ Matches k v l.
Proof. exact filter_links_spec. Qed.
Print Assumptions C17_wkc_filter_single.
Theorem C17_wkc_filter_keeps_order : forall k v ls, exists keep : link -> bool,
  filter_links k v ls = filter keep ls /\ forall l, keep l = true <-> Matches k v l.
Proof. exact filter_links_sublist. Qed.
Print Assumptions C17_wkc_filter_keeps_order.
(* the Uri-Query options of a request: those with "=" are the filter criteria (relevant_in: In (k, v) (relevant qs) <-> some q in qs splits into k=v) *)
Theorem C17_relevant_queries : forall qs k v, In (k, v) (relevant qs) <-> exists q, In q qs /\ split_eq q = Some (k, v).
Proof. exact relevant_in. Qed.
Print Assumptions C17_relevant_queries.
Theorem C17_wkc_filter_applies_to_listing : forall ls impl qs k v, relevant qs = [(k, v)] ->
  wkc_render_get ls impl qs = Ok (filter_links k v (ls ++ impl_info_links impl)).
Proof. exact wkc_single. Qed.
Print Assumptions C17_wkc_filter_applies_to_listing.
(* ANY number of criteria: the answer is the listing restricted, in order, to the links matching EVERY criterion; it never fails
   (unconditional since /repo f7c02cb; the late-binding defect this check found is fixed, oracle signature C17:filter-several-criteria stays armed) *)
Theorem C17_wkc_filter_conjunction : forall ls impl qs r, wkc_render_get ls impl qs = Ok r ->
  forall l, In l r <-> In l (ls ++ impl_info_links impl) /\ forall k v, In (k, v) (relevant qs) -> Matches k v l.
Proof. exact wkc_conjunction. Qed.
Print Assumptions C17_wkc_filter_conjunction.
Theorem C17_wkc_answer_is_ordered_sublist : forall ls impl qs,
  wkc_render_get ls impl qs =
  Ok (filter (fun l => forallb (fun kv : string * string => link_matches (fst kv) (snd kv) l) (relevant qs)) (ls ++ impl_info_links impl)).
Proof. exact wkc_is_filter. Qed.
Print Assumptions C17_wkc_answer_is_ordered_sublist.
Theorem C17_wkc_never_fails : forall ls impl qs, exists r, wkc_render_get ls impl qs = Ok r.
Proof. exact wkc_total. Qed.
Print Assumptions C17_wkc_never_fails.
(* the former refutation witnesses, now positive *)
Example C17_wkc_filter_several_criteria :
  let r1 := ("/r1", [("rt", Some "foo"); ("if", Some "i1")])%string in
  let r2 := ("/r2", [("rt", Some "bar"); ("if", Some "i1")])%string in
  let r3 := ("/r3", [("rt", Some "foo"); ("if", Some "i2")])%string in
  wkc_render_get [r1; r2; r3] None ["rt=foo"; "if=i1"]%string = Ok [r1] /\
  wkc_render_get [r1; r2; r3] None ["rt=fo*"; "href=/r1"]%string = Ok [r1] /\
  wkc_render_get [r1; r2; r3] None ["href=/r1"; "rt=fo*"]%string = Ok [r1] /\
  wkc_render_get [r1; r2; r3] None ["rt=foo"; "obs"; "if=i*"]%string = Ok [r1; r3] /\
  wkc_render_get [r1; r2; r3] None ["href=/r*"; "to_py=x*"]%string = Ok [].
Proof. vm_compute. repeat split. Qed.

(* at request level: a request routed to the WKC resource answers the (filtered) listing of the root *)
Theorem C17_request_to_wkc : forall pipe root m qs impl ls, uri_path_abbrev m = None ->
  Route root (uri_path m) (TgtRes (RWkc impl)) -> get_resources_as_linkheader root = Some ls ->
  request pipe root m qs = links_result (wkc_render_get ls impl qs).
Proof. exact request_wkc. Qed.
Print Assumptions C17_request_to_wkc.
Theorem C17_request_to_wkc_single_filter : forall pipe root m qs impl ls k v, uri_path_abbrev m = None ->
  Route root (uri_path m) (TgtRes (RWkc impl)) -> get_resources_as_linkheader root = Some ls -> relevant qs = [(k, v)] ->
  request pipe root m qs = links_result (Ok (filter_links k v (ls ++ impl_info_links impl))).
Proof. exact request_wkc_single. Qed.
Print Assumptions C17_request_to_wkc_single_filter.

(* the four former findings (fixed: C17:filter-crash-valueless-attribute, -single-valued-attr-by-character,
   -empty-pattern-matches-missing-attribute, -crash-python-attribute-name), now positive *)
Example C17_filter_valueless_attribute :
  filter_links "obs" "*" [("/o"%string, [("obs"%string, None)])] = [].
Proof. vm_compute. reflexivity. Qed.
Example C17_filter_single_valued_attribute :
  let l := ("/a"%string, [("title"%string, Some "hello"%string)]) in
  filter_links "title" "hello" [l] = [l] /\ filter_links "title" "h" [l] = [] /\ filter_links "Title" "hel*" [l] = [l] /\
  filter_links "rel" "impl-info" (impl_info_links (Some "u"%string)) = impl_info_links (Some "u"%string).
Proof. vm_compute. repeat split. Qed.
Example C17_filter_empty_pattern :
  filter_links "rt" "*" [("/a"%string, []); ("/b"%string, [("rt"%string, Some ""%string)])] = [("/b"%string, [("rt"%string, Some ""%string)])] /\
  filter_links "rt" "" [("/a"%string, [])] = [].
Proof. vm_compute. split; reflexivity. Qed.
Example C17_filter_python_attribute_name :
  filter_links "to_py" "x" [("/a"%string, [])] = [] /\
  filter_links "attr_pairs" "x*" [("/a"%string, [("rt"%string, Some "x"%string)])] = [].
Proof. vm_compute. split; reflexivity. Qed.

(* ---- non-vacuity *)
Definition ex_tree : node :=
  NSite [(["a"%string], RHandler 1 (Some [("rt"%string, Some "x y"%string)]));
         ([".well-known"; "core"]%string, RWkc None);
         (["a"; "b"; "c"]%string, RHandler 5 None)]
        [(["a"; "b"]%string, NSite [([], RHandler 2 (Some [("ct"%string, Some "40"%string)])); (["c"; ""]%string, RHandler 3 (Some []))]
                                   [(["d"]%string, NOpaque 4)]);
         (["a"]%string, NSite [(["b"; "zz"]%string, RHandler 6 (Some []))] [])].
Example C17_routes_nonvacuous :
  Route ex_tree ["a"; "b"; ""]%string (TgtRes (RHandler 2 (Some [("ct"%string, Some "40"%string)]))) /\   (* trailing slash = sub-site root *)
  Route ex_tree ["a"; "b"; "c"]%string (TgtRes (RHandler 5 None)) /\                                       (* exact resource shadows the sub-site *)
  Route ex_tree ["a"; "b"; "d"; "e"; "f"]%string (TgtOpaque 4 ["e"; "f"]%string) /\                         (* two levels, remaining components *)
  (forall t, ~ Route ex_tree ["a"; "b"; "zz"]%string t) /\                                                  (* longest prefix a/b wins; no backtracking to a *)
  (forall t, ~ Route ex_tree ["a"; "b"]%string t).                                                          (* a sub-site never answers for its own path without slash *)
Proof.
  assert (H : forall p t, Route ex_tree p t <-> leaf_target (render false ex_tree (new_request p None)) = Some t)
    by (intros p t; apply (render_route ex_tree false (new_request p None) eq_refl)).
  repeat split; try (apply H; vm_compute; reflexivity); intros t Ht; apply H in Ht; vm_compute in Ht; discriminate.
Qed.
(* O2 (now finding C17:empty-prefix-subsite-ignored): a sub-site registered at the empty path is never consulted by the code's relation *)
Example C17_O2_empty_path_subsite_unreachable :
  forall t, ~ Route (NSite [] [([], NSite [(["x"%string], RHandler 1 (Some []))] [])]) ["x"%string] t.
Proof.
  intros t Ht. apply (render_route _ false (new_request ["x"%string] None) eq_refl) in Ht. vm_compute in Ht. discriminate.
Qed.
Example C17_listing_nonvacuous :
  get_resources_as_linkheader ex_tree =
  Some [("/a", [("rt", Some "x y")]); ("/.well-known/core", [("ct", Some "40")]); ("/a/b/", [("ct", Some "40")]); ("/a/b/c/", []); ("/a/b/zz", [])]%string
  /\ node_wf ex_tree = true.
Proof. vm_compute. split; reflexivity. Qed.
Example C17_filter_nonvacuous :
  let ls := [("/a", [("rt", Some "x y")]); ("/b", [("rt", Some "temp")]); ("/c", [("ct", Some "40")])]%string in
  filter_links "rt" "x" ls = [("/a", [("rt", Some "x y")])]%string /\ filter_links "rt" "te*" ls = [("/b", [("rt", Some "temp")])]%string /\
  filter_links "href" "/*" ls = ls /\ Matches "rt" "y" ("/a", [("rt", Some "x y")])%string.
Proof.
  cbv zeta. split; [|split; [|split]]; try (vm_compute; reflexivity).
  apply link_matches_spec. vm_compute. reflexivity.
Qed.
Example C17_history_nonvacuous :
  snd (run (NSite [] [])
        [OAdd [] ["s"%string] TSite; OAdd [["s"%string]] ["r"%string] (TRes (RHandler 7 (Some [])));
         ORequest true (new_request ["s"; "r"]%string None) [];
         ORemove [["s"%string]] ["r"%string];
         ORequest true (new_request ["s"; "r"]%string None) [];
         ORemove [] ["nope"%string]])
  = [RDone; RDone; RHandled 7 [] (Some ["s"; "r"]%string) (Ok ["s"; "r"]%string); RDone; RExn NotFound; RExn KeyError].
Proof. vm_compute. reflexivity. Qed.
