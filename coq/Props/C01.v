(* C01 — CoAP datagram codec: lossless round trip, RFC 7252 section 3 format, total parsing.
   Only statements here; every proof is [exact <lemma of Proofs/C01*.v>].
   Code model: Model/C01.v (Message_encode / Message_decode / Options_* / value codecs; the extended-field kernels,
   _to_minimum_bytes and the format table are Gen/*.v, regenerated from /repo on every check).
   Specification: Model/C01Rfc.v (rfc_encode, WellFormed, rfc_interp — written from the RFCs) and Model/C01Utf8.v. *)
From Verif Require Import Lib.Py Lib.Tactics Gen.options_ext Gen.optiontypes_min Gen.optnum_table Model.C01Types Model.C01Utf8 Model.C01 Model.C01Rfc Model.C01Views Proofs.C01Utf8 Proofs.C01Ext Proofs.C01 Gen.decode_handlers Proofs.C01More Proofs.C01Parse.
From Coq Require Import String.
From Coq Require Import Permutation Sorted.
Open Scope Z_scope.

(* ---------------------------------------------------------------- 1. extended delta / length fields (translated code) *)
(* the writer produces the RFC's nibble + extension bytes on the whole range the format can express, 0..65804 = 65535 + 269 ... *)
Theorem C01_write_ext_is_rfc : forall v, 0 <= v <= EXT_MAX -> write_extended_field_value v = Ok (nibble v, extended v).
Proof. exact write_ext_spec. Qed.
Print Assumptions C01_write_ext_is_rfc.
(* ... and raises ValueError everywhere else *)
Theorem C01_write_ext_reject : forall v, v < 0 \/ EXT_MAX < v -> write_extended_field_value v = Raise ValueError.
Proof. intros v H. apply write_ext_reject. unfold EXT_MAX in H. lia. Qed.
Print Assumptions C01_write_ext_reject.
(* the reader inverts the RFC encoding on the whole range 0..65804, whatever follows *)
Theorem C01_read_ext_roundtrip : forall v rest, 0 <= v <= 65804 ->
  read_extended_field_value (nibble v) (extended v ++ rest) = Ok (v, rest).
Proof. exact read_ext_spec. Qed.
Print Assumptions C01_read_ext_roundtrip.
(* every outcome of the reader: UnparsableMessage, or exactly the inverse of the RFC encoding (no IndexError etc.) *)
Theorem C01_read_ext_total : forall nib raw, bytes_ok raw = true -> 0 <= nib < 16 ->
  read_extended_field_value nib raw = Raise UnparsableMessage \/
  exists v rest, read_extended_field_value nib raw = Ok (v, rest) /\ 0 <= v <= 65804 /\ nib = nibble v /\ raw = extended v ++ rest.
Proof. exact read_ext_total. Qed.
Print Assumptions C01_read_ext_total.

(* ---------------------------------------------------------------- 2. option values and the format table *)
(* the number -> class table extracted from optionnumbers.py is the table of the RFCs, for every option number *)
Theorem C01_table_matches_rfc : forall n, get_format n = class_of (rfc_format_of n).
Proof. exact table_matches_rfc. Qed.
Print Assumptions C01_table_matches_rfc.
(* _to_minimum_bytes is the RFC's minimal big-endian uint *)
Theorem C01_uint_is_rfc : forall n, 0 <= n -> to_minimum_bytes_py n = Ok (rfc_uint n) /\ from_bytes_big (rfc_uint n) = n.
Proof. intros n H. split; [exact (to_minimum_bytes_is_rfc n H)|exact (from_bytes_rfc_uint n H)]. Qed.
Print Assumptions C01_uint_is_rfc.
(* every legal value of every format is encoded to the RFC's bytes and decoded back to itself *)
Theorem C01_value_roundtrip : forall n v, legal (get_format n) v = true ->
  option_encode v = Ok (rfc_value v) /\ create_option_decode n (rfc_value v) = Ok v.
Proof. intros n v H. split; [exact (proj1 (option_encode_is_rfc _ _ H))|exact (create_option_decode_rfc_value n v H)]. Qed.
Print Assumptions C01_value_roundtrip.
(* every outcome of decoding a value: UnicodeDecodeError exactly when a string option is not UTF-8, else the RFC's reading,
   which is a legal value whose encoding is not longer than what was read *)
Theorem C01_value_decode_total : forall n raw, bytes_ok raw = true ->
  (create_option_decode n raw = Raise UnicodeDecodeError /\ rfc_interp n raw = None) \/
  exists v, create_option_decode n raw = Ok v /\ rfc_interp n raw = Some v /\ legal (get_format n) v = true /\ blen (rfc_value v) <= blen raw.
Proof. exact create_option_decode_total. Qed.
Print Assumptions C01_value_decode_total.
(* UTF-8 (the model standing for CPython's codec): a bijection between lists of scalar values and accepted byte strings *)
Theorem C01_utf8_roundtrip : forall s, forallb scalar s = true ->
  exists b, utf8_encode s = Ok b /\ utf8_decode b = Ok s /\ bytes_ok b = true.
Proof. exact utf8_roundtrip. Qed.
Print Assumptions C01_utf8_roundtrip.
Theorem C01_utf8_decode_canonical : forall b s, utf8_decode b = Ok s -> utf8_encode s = Ok b /\ forallb scalar s = true.
Proof. exact utf8_encode_decode. Qed.
Print Assumptions C01_utf8_decode_canonical.

(* ---------------------------------------------------------------- 3. option order: option_list is the stable sort by number *)
Theorem C01_option_list_stable_sort : forall l,
  Permutation (option_list l) l /\ Sorted (fun a b => fst a <= fst b) (option_list l) /\
  forall n, filter (fun o => fst o =? n) (option_list l) = filter (fun o => fst o =? n) l.
Proof. intros l. split; [exact (option_list_perm l)|split; [exact (option_list_sorted l)|intros n; exact (option_list_stable n l)]]. Qed.
Print Assumptions C01_option_list_stable_sort.

(* sorting again changes nothing: what option_list() of a parsed message yields is the m_opt the theorems below return *)
Theorem C01_option_list_idempotent : forall l, option_list (option_list l) = option_list l.
Proof. exact option_list_idempotent. Qed.
Print Assumptions C01_option_list_idempotent.

(* ---------------------------------------------------------------- 4. serialising: exactly the RFC 7252 section 3 format *)
(* wf m: type 0..3, code 0..255, 16-bit mid, token of 0..8 bytes, and — in wire order — every option value legal for the format
   of its number, every delta and value length at most 65804 (all that RFC 7252 section 3.1 can express) *)
Theorem C01_encode_is_rfc : forall m, wf m = true -> Message_encode m = Ok (rfc_encode (canonical m)).
Proof. exact encode_is_rfc. Qed.
Print Assumptions C01_encode_is_rfc.
(* ... and what it emits is a well-formed datagram under the parse relation written from the RFC *)
Theorem C01_encode_wellformed : forall m, wf m = true ->
  WellFormed (rfc_encode (canonical m))
    {| r_type := m_type m; r_code := m_code m; r_mid := m_mid m; r_token := m_token m;
       r_options := map (fun o => (fst o, rfc_value (snd o))) (option_list (m_opt m)); r_payload := m_payload m |}.
Proof. exact rfc_encode_WellFormed. Qed.
Print Assumptions C01_encode_wellformed.

(* the same bytes when option objects are of another class than the one registered for their number (e.g. an application's
   UintOption under an unregistered number): options_ok_any asks for a value legal for SOME class.  Only the encode half: such
   a value is parsed back as the class of the number (C01_decode_wellformed), so the round trip is about registered classes. *)
Theorem C01_encode_is_rfc_any_class : forall m, header_ok 8 m = true -> options_ok_any EXT_MAX 0 (option_list (m_opt m)) = true ->
  Message_encode m = Ok (rfc_encode (canonical m)).
Proof. exact encode_is_rfc_any_class. Qed.
Print Assumptions C01_encode_is_rfc_any_class.
(* outside what section 3 can carry — a delta below 0 or above 65804, a value longer than 65804 bytes — with a legal header and
   legal values, Message.encode raises ValueError: it never emits a truncated or mis-framed datagram *)
Theorem C01_encode_inexpressible_any : forall m, header_ok 8 m = true -> Forall (fun o => legal_any (snd o) = true) (m_opt m) ->
  options_ok_any EXT_MAX 0 (option_list (m_opt m)) = false -> Message_encode m = Raise ValueError.
Proof. exact encode_inexpressible_any. Qed.
Print Assumptions C01_encode_inexpressible_any.
Theorem C01_encode_inexpressible : forall m, header_ok 8 m = true ->
  Forall (fun o => legal (get_format (fst o)) (snd o) = true) (m_opt m) -> wf m = false -> Message_encode m = Raise ValueError.
Proof. exact encode_inexpressible. Qed.
Print Assumptions C01_encode_inexpressible.

(* ---------------------------------------------------------------- 5. lossless round trip *)
(* parsing the serialisation gives back every field, the options in option_list order (stable by number) *)
Theorem C01_roundtrip : forall m, wf m = true -> bind (Message_encode m) Message_decode = Ok (canonical m).
Proof. exact roundtrip. Qed.
Print Assumptions C01_roundtrip.

(* read through option_list(), as an application (and the harness) reads a message *)
Theorem C01_roundtrip_canonical : forall m, wf m = true ->
  exists m', bind (Message_encode m) Message_decode = Ok m' /\ canonical m' = canonical m /\ option_list (m_opt m') = option_list (m_opt m).
Proof. exact roundtrip_canonical. Qed.
Print Assumptions C01_roundtrip_canonical.

(* ---------------------------------------------------------------- 6. every RFC-well-formed datagram parses to the RFC's fields *)
(* (TKL <= 8, no reserved nibble 15, payload marker only before a non-empty payload, option values read by the format of their
   number); the only well-formed datagrams that are rejected are those with a string option that is not UTF-8 *)
Theorem C01_decode_wellformed : forall bs rm, WellFormed bs rm -> bytes_ok bs = true ->
  Message_decode bs =
  match rfc_interp_options (r_options rm) with
  | Some os => Ok {| m_type := r_type rm; m_code := r_code rm; m_mid := r_mid rm; m_token := r_token rm; m_opt := os; m_payload := r_payload rm |}
  | None => Raise UnparsableMessage
  end.
Proof. exact decode_wellformed. Qed.
Print Assumptions C01_decode_wellformed.

(* the relation WellFormed is exactly what the executable parser rfc_parse (Model/C01Rfc.v) accepts, with the same fields; the
   decode streams compare rfc_parse with the oracle's Python parser, i.e. the two readings of section 3 with each other *)
Theorem C01_rfc_parse_iff : forall bs rm, bytes_ok bs = true -> (rfc_parse bs = Some rm <-> WellFormed bs rm).
Proof. exact rfc_parse_iff. Qed.
Print Assumptions C01_rfc_parse_iff.

(* ---------------------------------------------------------------- 7. total parsing *)
(* For EVERY byte string: Message.decode raises UnparsableMessage — never IndexError, struct.error, ValueError,
   UnicodeDecodeError, nor does the loop run out of fuel S(len) — or returns a message m that is re-encoded to the RFC format and
   parsed back to m itself (this includes the lenient cases TKL 9..15 and marker-without-payload). *)
Theorem C01_decode_total : forall data, bytes_ok data = true ->
  Message_decode data = Raise UnparsableMessage \/
  exists m, Message_decode data = Ok m /\ Message_encode m = Ok (rfc_encode m) /\ Message_decode (rfc_encode m) = Ok m.
Proof. exact decode_total. Qed.
Print Assumptions C01_decode_total.

(* ---------------------------------------------------------------- 8. the receive paths around Message.decode *)
(* Extracted from source on every run (Gen/decode_handlers.v; the extraction fails unless each site is
   `try: message = Message.decode(..) / except <classes>: log.warning(..); return / ... dispatch_message(message)`):
   udp6.py and generic_udp.py (the anchors), tinydtls.py, slipmux.py.  Each handles exactly error.UnparsableMessage ... *)
Theorem C01_transports_catch_only_unparsable :
  forallb catches_only_unparsable decode_sites = true /\ map fst decode_dispatch = map fst decode_sites /\
  map fst site_handlers = map fst decode_sites /\ (4 <= List.length decode_sites)%nat.
Proof. exact decode_sites_catch_only. Qed.
Print Assumptions C01_transports_catch_only_unparsable.
(* ... so, with received_datagram (Model/C01.v) instantiated with each site's generated except-clause: for every datagram the
   path either drops it (exactly when the parser raises UnparsableMessage) or dispatches the parsed message; nothing escapes *)
Theorem C01_received_never_escapes :
  Forall (fun s => forall data, bytes_ok data = true ->
    (Message_decode data = Raise UnparsableMessage /\ received_datagram (snd s) data = Dropped) \/
    exists m, Message_decode data = Ok m /\ received_datagram (snd s) data = Dispatched m) site_handlers.
Proof. exact received_never_escapes. Qed.
Print Assumptions C01_received_never_escapes.
(* "drop only": no site's except clause swallows any other exception class *)
Theorem C01_received_drops_only_unparsable :
  Forall (fun s => forall e, snd s e = true -> e = UnparsableMessage) site_handlers.
Proof. exact received_only_unparsable_dropped. Qed.
Print Assumptions C01_received_drops_only_unparsable.

(* boundary (former finding C01:ext-field-65804-unencodable, fixed in 96b3185): a delta of exactly 65804 = E0 FF FF parses and
   round-trips; a message whose option needs delta 65804 is serialised; 65805 is the first value the writer rejects *)
Example C01_ext_max_boundary :
  let m := {| m_type := 0; m_code := 1; m_mid := 1; m_token := []; m_opt := [(65804, VOpaque [])]; m_payload := [] |} in
  wf m = true /\ Message_decode [64; 1; 0; 1; 224; 255; 255] = Ok m /\ Message_encode m = Ok [64; 1; 0; 1; 224; 255; 255] /\
  write_extended_field_value 65804 = Ok (14, [255; 255]) /\ write_extended_field_value 65805 = Raise ValueError /\
  Message_encode {| m_type := 0; m_code := 1; m_mid := 1; m_token := []; m_opt := [(65805, VOpaque [])]; m_payload := [] |} = Raise ValueError.
Proof. cbv zeta. split; [vm_compute; reflexivity|]. repeat split; vm_compute; reflexivity. Qed.

(* ---------------------------------------------------------------- non-vacuity *)
Definition example_msg : msg :=
  {| m_type := 0; m_code := 1; m_mid := 4660; m_token := [170; 187];
     m_opt := [(15, VString [107; 61; 233]); (11, VString [97]); (12, VContentFormat 50); (11, VString [98]);
               (23, VBlock 3 true 6); (60, VUint 70000); (65000, VOpaque [1; 2; 3])];
     m_payload := [255; 1] |}.
Example C01_wf_nonvacuous : wf example_msg = true /\ canonical example_msg <> example_msg.
Proof. split; [vm_compute; reflexivity|vm_compute; discriminate]. Qed.
Example C01_roundtrip_example :
  Message_encode example_msg = Ok (rfc_encode (canonical example_msg)) /\
  bind (Message_encode example_msg) Message_decode = Ok (canonical example_msg) /\
  map fst (m_opt (canonical example_msg)) = [11; 11; 12; 15; 23; 60; 65000].
Proof. repeat split; vm_compute; reflexivity. Qed.
(* RFC 7252 appendix-style datagram: CON GET mid 0x7d34, token 0x20, Uri-Path "temperature" *)
Example C01_wellformed_example :
  WellFormed ([65; 1; 125; 52; 32; 187] ++ [116; 101; 109; 112; 101; 114; 97; 116; 117; 114; 101])
    {| r_type := 0; r_code := 1; r_mid := 125 * 256 + 52; r_token := [32];
       r_options := [(0 + 11, [116; 101; 109; 112; 101; 114; 97; 116; 117; 114; 101])]; r_payload := [] |}.
Proof.
  apply (WF_datagram 0 1 1 125 52 [32] ([187] ++ [116; 101; 109; 112; 101; 114; 97; 116; 117; 114; 101] ++ [])); try lia; [reflexivity|].
  apply (OWF_option 0 11 11 [] [] 11 11 [116; 101; 109; 112; 101; 114; 97; 116; 117; 114; 101] [] [] []);
    [constructor; lia|constructor; lia|reflexivity|constructor].
Qed.
(* hypotheses of the round-5 theorems are inhabited: a UintOption under the unregistered number 65000 (encode is the RFC's bytes,
   the parser reads it back as opaque), a delta of 70000 or 65805 / a negative number (ValueError; a 65805-byte value is in the corpus), and the receive path on both outcomes *)
Example C01_any_class_example :
  let m := {| m_type := 0; m_code := 1; m_mid := 1; m_token := []; m_opt := [(65000, VUint 5)]; m_payload := [] |} in
  wf m = false /\ options_ok_any EXT_MAX 0 (option_list (m_opt m)) = true /\ Message_encode m = Ok [64; 1; 0; 1; 225; 252; 219; 5] /\
  mmap m_opt (Message_decode [64; 1; 0; 1; 225; 252; 219; 5]) = Ok [(65000, VOpaque [5])].
Proof. cbv zeta. repeat split; vm_compute; reflexivity. Qed.
Example C01_inexpressible_example :
  let mk o := {| m_type := 0; m_code := 1; m_mid := 1; m_token := []; m_opt := o; m_payload := [] |} in
  options_ok_any EXT_MAX 0 (option_list (m_opt (mk [(70000, VOpaque [])]))) = false /\ Message_encode (mk [(70000, VOpaque [])]) = Raise ValueError /\
  options_ok_any EXT_MAX 0 (option_list (m_opt (mk [(-1, VOpaque [])]))) = false /\ Message_encode (mk [(-1, VOpaque [])]) = Raise ValueError /\
  wf (mk [(2000, VOpaque []); (2000 + 65805, VOpaque [1])]) = false /\
  Message_encode (mk [(2000, VOpaque []); (2000 + 65805, VOpaque [1])]) = Raise ValueError.
Proof. cbv zeta. repeat split; vm_compute; reflexivity. Qed.
Example C01_received_example :
  received_datagram handles_udp6 [64; 1; 0; 1; 177; 255] = Dropped /\
  (exists m, received_datagram handles_generic_udp [64; 1; 0; 1; 177; 97] = Dispatched m /\ m_opt m = [(11, VString [97])]) /\
  received_datagram (fun _ => false) [64; 1] = Escaped UnparsableMessage /\
  rfc_parse [64; 1; 0; 1; 177; 255] <> None /\ rfc_parse [73; 1; 0; 1; 1; 2; 3; 4; 5; 6; 7; 8; 9] = None.
Proof.
  split; [vm_compute; reflexivity|]. split; [eexists; split; [reflexivity|reflexivity]|].
  split; [vm_compute; reflexivity|]. split; [vm_compute; discriminate|vm_compute; reflexivity].
Qed.

(* both outcomes of C01_decode_total occur, also for the leniently accepted datagrams *)
Example C01_total_cases :
  Message_decode [64; 1; 0; 1; 177; 255] = Raise UnparsableMessage /\                       (* F1: string option FF *)
  Message_decode [64; 1] = Raise UnparsableMessage /\
  is_ok (Message_decode [79; 1; 0; 1; 170]) = true /\                                        (* TKL 15, one token byte *)
  is_ok (Message_decode [64; 1; 0; 1; 255]) = true.                                          (* marker, empty payload *)
Proof. repeat split; vm_compute; reflexivity. Qed.
