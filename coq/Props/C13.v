(* C13 — OSCORE nonces are never reused across restarts, crashes and exhaustion.
   Only statements here; every proof is [exact <lemma of Proofs/C13*.v>].
   [run w evs] executes an event list (Protect / Seq / Unprotect / CleanStop, each optionally with a crash after its
   k-th file-system effect; Kill; Reload) on a world = live process state (or none) + disk state (Model/C13.v). *)
From Verif Require Import Lib.Py Lib.Tactics Gen.oscore_replay Model.C12 Model.C13 Proofs.C12 Proofs.C13 Proofs.C13replay Proofs.C13reuse Proofs.C13Kernel.
From Verif Require Gen.oscore_seqno Gen.oscore_rwchanged.
From Coq Require Import Sorted.
Open Scope Z_scope.

(* Over every event list — any number of lifetimes, a crash after any file-system effect of any operation, kills, clean
   stops, reloads with any non-negative chunk parameters — the numbers handed out, in the order they are handed out over
   the WHOLE history, strictly increase.  [SInv w hi]: every number issued before is < hi <= bound on disk. *)
Theorem C13_issued_strictly_increasing : forall w hi evs, SInv w hi -> Forall ev_ok evs ->
  StronglySorted Z.lt (issued (snd (run w evs))).
Proof. exact issued_strictly_increasing. Qed.
Print Assumptions C13_issued_strictly_increasing.

(* hence no sender sequence number is issued twice ... *)
Theorem C13_issued_nodup : forall w hi evs, SInv w hi -> Forall ev_ok evs -> NoDup (issued (snd (run w evs))).
Proof. exact issued_nodup. Qed.
Print Assumptions C13_issued_nodup.
(* ... starting from any content of the directory with no process running *)
Theorem C13_issued_nodup_from_any_disk : forall size seq evs, Forall ev_ok evs ->
  NoDup (issued (snd (run (initial_world size seq) evs))).
Proof. exact issued_nodup_initial. Qed.
Print Assumptions C13_issued_nodup_from_any_disk.
(* ... and no 5-byte Partial IV (the only varying nonce input under one key and sender ID) either *)
Theorem C13_nonces_nodup : forall w hi evs, SInv w hi -> 0 <= hi -> Forall ev_ok evs ->
  NoDup (map piv (issued (snd (run w evs)))).
Proof. exact nonces_nodup. Qed.
Print Assumptions C13_nonces_nodup.

(* the invariant behind it, at every point of every history: whatever has been handed out is below the "next-to-send"
   a reload would start from, so a crash at this very point cannot lead to a reissue *)
Theorem C13_issued_below_persisted : forall w hi evs, SInv w hi -> Forall ev_ok evs ->
  Forall (fun v => hi <= v < dbound (w_disk (fst (run w evs)))) (issued (snd (run w evs))).
Proof. exact issued_below_persisted. Qed.
Print Assumptions C13_issued_below_persisted.

(* exhaustion: at 2^40-1 protection is refused, nothing changes, and no number >= 2^40-1 is ever handed out *)
Theorem C13_exhaustion_refused : forall p d a, MAX_SEQNO <= ssn p ->
  new_sequence_number p d a = (p, d, Exn ContextUnavailable).
Proof. exact nsn_exhausted. Qed.
Print Assumptions C13_exhaustion_refused.
Theorem C13_issued_below_max : forall w hi evs, SInv w hi -> Forall ev_ok evs ->
  Forall (fun v => v < 2 ^ 40 - 1) (issued (snd (run w evs))).
Proof. exact issued_below_max. Qed.
Print Assumptions C13_issued_below_max.

(* ---- persisted replay state ----
   [ROK w A]: the live window (if initialised) and the window a reload would read from sequence.json (unless that says
   "unknown"/null) both mark every number in A as seen.  [fresh_echo_run w [] evs]: whenever the window is uninitialised and
   a request carries this lifetime's Echo value, its number is above every number accepted before — what RFC 8613 B.1.2
   relies on: the Echo value cannot occur in a message created before this lifetime, and the peer's numbers increase. *)

(* over every history with crash points, clean stops and reloads, no request number is accepted twice *)
Theorem C13_accepted_nodup : forall w evs, ROK w [] -> Forall ev_ok2 evs -> fresh_echo_run w [] evs ->
  NoDup (accepted evs (snd (run w evs))).
Proof. exact accepted_nodup. Qed.
Print Assumptions C13_accepted_nodup.

(* stated on the input alone: if no request carries the Echo value of any lifetime (E = the values lifetimes may draw;
   recorded messages replayed after a restart are of this kind), then over every history nothing is accepted twice —
   "requests seen before the crash are not accepted again without a fresh Echo exchange" *)
Theorem C13_accepted_nodup_without_echo : forall (E : Z -> Prop) sz seq evs, 0 < sz -> disk_wf sz seq ->
  Forall ev_ok2 evs -> Forall (ev_noecho E) evs ->
  NoDup (accepted evs (snd (run (initial_world sz seq) evs))).
Proof. exact accepted_nodup_without_echo. Qed.
Print Assumptions C13_accepted_nodup_without_echo.

(* at the end of ANY history — e.g. directly after a crash at any file-system step, or after a clean stop — sequence.json
   either says unknown/null (the reloaded window is uninitialised) or holds a window rejecting every accepted number *)
Theorem C13_persisted_state_safe : forall w evs, ROK w [] -> Forall ev_ok2 evs -> fresh_echo_run w [] evs ->
  let w' := fst (run w evs) in
  match load_window (w_size w') (w_disk w') with
  | None => True
  | Some win => Inv win /\ rw_size win = w_size w' /\ forall n, In n (accepted evs (snd (run w evs))) -> seen win n = true
  end.
Proof. exact persisted_state_safe. Qed.
Print Assumptions C13_persisted_state_safe.

(* the context a Reload then builds satisfies C12's context invariant, has the fresh Echo value e, and is either
   uninitialised (C12_uninitialised_requires_echo / _never_accepts_without_echo apply: nothing is accepted without e) or
   has seen every accepted number (C12_seen_never_accepted applies: none of them is ever accepted again) *)
Theorem C13_reloaded_context_safe : forall w evs start lim e, ROK w [] -> Forall ev_ok2 evs -> fresh_echo_run w [] evs ->
  let w' := fst (run w evs) in
  let c := uc (load (w_size w') start lim e (fs_create_lock (w_disk w'))) in
  CtxInv c /\ echo_recovery c = Some e /\
  (window c = None \/ forall n, In n (accepted evs (snd (run w evs))) -> cseen c n).
Proof. exact reloaded_context_safe. Qed.
Print Assumptions C13_reloaded_context_safe.

(* unclean stop: an acceptance through the window check has already turned sequence.json to "unknown" when it returns,
   so a crash at any later point reloads an uninitialised window *)
Theorem C13_unclean_stop_unknown : forall sz p d a r A p' d', 0 < sz -> ProcOK sz p d A -> DiskOK sz d A -> 0 <= seqno r ->
  window (uc p) <> None -> unprotect p d a r = (p', d', Val Accept) ->
  load_window sz d' = None /\ wpers p' = false.
Proof. exact accept_marks_unknown. Qed.
Print Assumptions C13_unclean_stop_unknown.

(* clean stop: the exact live window and the exact live counter are what the next lifetime starts from *)
Theorem C13_clean_stop_preserves : forall sz p d A d', 0 < sz -> ProcOK sz p d A -> DiskOK sz d A ->
  _destroy p d None = (d', false) ->
  load_window sz d' = window (uc p) /\ load_wpers d' = true /\ dbound d' = ssn p /\ d_lock d' = false.
Proof. exact clean_stop_exact. Qed.
Print Assumptions C13_clean_stop_preserves.

(* ---- nonces of requests reused for responses (round 5, audit gap 1) ----
   unprotect hands on request identifiers with can_reuse_nonce; [Respond] = protect(..., request_id=...) encrypts the response
   under the request's nonce exactly when that flag is set (output [OReused n]) and clears it, otherwise takes an own number.
   Over every history: no request's nonce is used for two responses, and only for requests accepted through the window check —
   with C13_issued_nodup (own numbers) this is "no AEAD nonce under the sender key twice" for everything the context encrypts. *)
Theorem C13_reused_nonces_nodup : forall w evs, ROK w [] -> w_proc w = None -> Forall ev_ok2 evs -> fresh_echo_run w [] evs ->
  NoDup (reused (snd (run w evs))) /\
  (forall n, In n (reused (snd (run w evs))) -> In n (accepted evs (snd (run w evs)))).
Proof. exact reused_nodup. Qed.
Print Assumptions C13_reused_nonces_nodup.
(* identifiers built while the replay state is unknown (Echo challenge, Echo recovery) or for a rejected request never allow reuse *)
Theorem C13_no_reuse_unless_window_accepts : forall c r, CtxInv c -> 0 <= seqno r ->
  (window c = None \/ snd (unprotect_request c r) <> Accept) ->
  forall n, pend_of c r (snd (unprotect_request c r)) <> Some (n, true).
Proof. exact no_reuse_unless_window_accepts. Qed.
Print Assumptions C13_no_reuse_unless_window_accepts.

(* sequence.json only ever changes by the rename of a temp file whose content had been fsynced *)
Theorem C13_sequence_json_durable : forall w evs, d_durable (w_disk w) = true -> d_durable (w_disk (fst (run w evs))) = true.
Proof. exact run_durable. Qed.
Print Assumptions C13_sequence_json_durable.

(* non-vacuity *)
Example C13_sinv_nonvacuous :
  SInv (initial_world 32 None) 0 /\
  SInv (initial_world 32 (Some {| sf_next := 30; sf_recv := RUnknown |})) 30 /\
  ev_ok (Reload 10 10000 1000).
Proof. unfold SInv, ev_ok; cbn. lia. Qed.
(* a crash after the rename in the 11th protect, reload, continue: 0..9 then 20.. (10..29, persisted ahead, are skipped — never reused) *)
Example C13_doctest :
  issued (snd (run (initial_world 32 None)
     [Reload 10 10000 1000; Seq 10 None; Protect (Some 4); Reload 10 10000 1002; Protect None; Protect None; CleanStop None;
      Reload 10 10000 1007; Protect None]))
  = [0; 1; 2; 3; 4; 5; 6; 7; 8; 9; 30; 31; 32].
Proof. vm_compute. reflexivity. Qed.

Definition C13_example_history : list event :=
  [Reload 10 10000 1000; Unprotect {| seqno := 5; authentic := true; echo := None |} None; Protect None; Kill;
   Reload 10 10000 1004; Unprotect {| seqno := 5; authentic := true; echo := None |} None;
   Unprotect {| seqno := 6; authentic := true; echo := Some 1004 |} None;
   Unprotect {| seqno := 5; authentic := true; echo := None |} None; CleanStop None;
   Reload 10 10000 1009; Unprotect {| seqno := 6; authentic := true; echo := Some 1004 |} None].
(* the hypotheses of the replay theorems hold for a history with a crash, an Echo recovery and a clean stop ... *)
Example C13_rok_nonvacuous :
  ROK (initial_world 32 None) [] /\ Forall ev_ok2 C13_example_history /\
  fresh_echo_run (initial_world 32 None) [] C13_example_history.
Proof.
  split; [apply initial_rok; [lia|exact I]|]. split; [repeat constructor; cbn; lia|].
  cbv. repeat split; intros; try discriminate; try contradiction.
  match goal with H : _ \/ False |- _ => destruct H as [<-|[]] end. reflexivity.
Qed.
(* ... in which 5 is accepted, replayed after the crash (Echo demanded), 6 recovers with the Echo value, 5 stays rejected,
   and after the clean stop 6 is rejected by the persisted window *)
Example C13_example_outcomes :
  snd (run (initial_world 32 None) C13_example_history) =
  [OLoaded 0 true; OUnprot Accept; OIssued 0; ODied; OLoaded 10 false; OUnprot RejectEcho; OUnprot Accept;
   OUnprot RejectReplay; OStopped; OLoaded 10 true; OUnprot RejectReplay].
Proof. vm_compute. reflexivity. Qed.
(* chunk parameters must be non-negative: a negative chunk size lowers the bound on disk and numbers are reissued *)
Example C13_negative_chunk_refuted :
  issued (snd (run (initial_world 32 None)
     [Reload 10 10000 1000; Seq 10 None; Kill; Reload (-20) 10000 1003; Protect None; Kill; Reload 10 10000 1006; Seq 11 None]))
  = [0; 1; 2; 3; 4; 5; 6; 7; 8; 9; -10; -9; -8; -7; -6; -5; -4; -3; -2; -1; 0].
Proof. vm_compute. reflexivity. Qed.
(* the input-only hypothesis is satisfiable by a history with acceptances, a crash, a clean stop and replays *)
Example C13_noecho_nonvacuous :
  Forall (ev_noecho (fun e => 1000 <= e))
    [Reload 10 10000 1000; Unprotect {| seqno := 5; authentic := true; echo := None |} None; Kill;
     Reload 10 10000 1003; Unprotect {| seqno := 5; authentic := true; echo := Some 7 |} (Some 2); CleanStop None].
Proof. repeat constructor; cbn; intros; try lia; try discriminate. intros H1; injection H1 as <-. lia. Qed.

(* ---- tie T (removable section: depends on Proofs/C13Kernel.v and the translator job oscore_seqno) ----
   The model's sender sequence number kernels are the code of aiocoap/oscore.py as translated on this run:
   [proj] projects the process record onto the four counters, [store_cb p d a] is self._store() instantiated with the
   model's file-system steps on disk d under crash plan a (dying inside it = exception [Crashed]), [lift] maps
   (state, disk, Val v / Exn e / Died) to Ok (proj state, v) / Raise e / Raise Crashed; the second conjunct says what the
   model does besides: replay state untouched, disk = result of the one _store call if the code reaches it. *)
Theorem C13_post_seqnoincrease_is_source : forall p d a,
  oscore_seqno.post_seqnoincrease (store_cb p d a) (proj p) = lift (fun p' u => (proj p', u)) (C13.post_seqnoincrease p d a) /\
  (let '(p', d', _) := C13.post_seqnoincrease p d a in
   uc p' = uc p /\ wpers p' = wpers p /\ d' = if ssn p >? persisted p then fst (_store p' d a) else d).
Proof. exact post_seqnoincrease_is_source. Qed.
Print Assumptions C13_post_seqnoincrease_is_source.
Theorem C13_new_sequence_number_is_source : forall p d a,
  oscore_seqno.new_sequence_number (store_cb p d a) (proj p) = lift (fun p' v => (proj p', v)) (C13.new_sequence_number p d a) /\
  (let '(p', d', _) := C13.new_sequence_number p d a in
   uc p' = uc p /\ wpers p' = wpers p /\
   d' = if ssn p >=? C13.MAX_SEQNO then d else if ssn p + 1 >? persisted p then fst (_store p' d a) else d).
Proof. exact new_sequence_number_is_source. Qed.
Print Assumptions C13_new_sequence_number_is_source.
(* likewise _replay_window_changed (job oscore_rwchanged): the flag is cleared before the one write, so that write says "unknown" *)
Theorem C13_replay_window_changed_is_source : forall p d a,
  oscore_rwchanged.replay_window_changed (store_cbw p d a) (projw p) =
    (let '(p', _, died) := C13._replay_window_changed p d a in if died then Raise Crashed else Ok (projw p', tt)) /\
  (let '(p', d', _) := C13._replay_window_changed p d a in
   p' = (if wpers p then set_wpers p false else p) /\ d' = if wpers p then fst (_store p' d a) else d).
Proof. exact replay_window_changed_is_source. Qed.
Print Assumptions C13_replay_window_changed_is_source.
Theorem C13_max_seqno_is_source : oscore_seqno.MAX_SEQNO = 2 ^ 40 - 1.
Proof. exact max_seqno_is_source. Qed.
Print Assumptions C13_max_seqno_is_source.
(* the translated code itself on the 11th call of a lifetime (chunk 10 used up): persists 10 -> 30, chunk 20 -> 40 *)
Example C13_kernel_doctest :
  oscore_seqno.new_sequence_number (fun s => Ok s)
    {| oscore_seqno.fsc_sender_sequence_number := 10; oscore_seqno.fsc_sequence_number_persisted := 10;
       oscore_seqno.fsc_sequence_number_chunksize := 20; oscore_seqno.fsc_sequence_number_chunksize_limit := 10000 |}
  = Ok ({| oscore_seqno.fsc_sender_sequence_number := 11; oscore_seqno.fsc_sequence_number_persisted := 30;
           oscore_seqno.fsc_sequence_number_chunksize := 40; oscore_seqno.fsc_sequence_number_chunksize_limit := 10000 |}, 10).
Proof. vm_compute. reflexivity. Qed.

(* ---- _store raising OSError instead of dying (round 5 / 5b; fixed in /repo 304561f: the callers roll back) ----
   ProtectFails k / UnprotectFails r k are ordinary events of every theorem above ([ev_ok], [ev_ok2] do not exclude them). *)
(* protect() during which _store raises: either no write was needed and the number is within the reservation, or nothing is
   handed out and "persisted = bound on disk" still holds (the reservation is rolled back) *)
Theorem C13_store_error_rolled_back : forall p d k hi, hi <= dbound d -> PInv p d hi ->
  match new_sequence_number_fails p d k with
  | (p', d', Val v) => v = ssn p /\ v < MAX_SEQNO /\ PInv p' d' (v + 1) /\ v + 1 <= dbound d'
  | (p', d', Exn e) => PInv p' d' hi /\ hi <= dbound d'
  | (p', d', Died) => hi <= dbound d'
  end.
Proof. exact nsn_fails_step. Qed.
Print Assumptions C13_store_error_rolled_back.
(* unprotect during which the "unknown" write fails: not accepted, flag set again, sequence.json untouched *)
Theorem C13_store_error_window_flag_rolled_back : forall p d k r,
  strikes (uc p) (snd (unprotect_request (uc p) r)) = true -> wpers p = true ->
  match unprotect_fails p d k r with
  | (p', d', res) => res = Exn OSError /\ wpers p' = true /\ d_seq d' = d_seq d /\ d_durable d' = d_durable d
  end.
Proof. exact unprotect_fails_rolled_back. Qed.
Print Assumptions C13_store_error_window_flag_rolled_back.
(* the two histories that were refutation witnesses before the fix: 10 is not handed out, 11..15 come from a fresh reservation
   (bound 30 on disk), the reload starts at 30; and 6 is written off as "unknown" when accepted, so it is not accepted again *)
Example C13_store_error_doctest :
  issued (snd (run (initial_world 32 None)
     [Reload 10 10000 1000; Seq 10 None; ProtectFails 1; Seq 5 None; Kill; Reload 10 10000 1005; Seq 2 None]))
  = [0; 1; 2; 3; 4; 5; 6; 7; 8; 9;  11; 12; 13; 14; 15;  30; 31].
Proof. vm_compute. reflexivity. Qed.
Example C13_store_error_replay_doctest :
  let evs := [Reload 10 10000 1000; UnprotectFails {| seqno := 5; authentic := true; echo := None |} 0;
              Unprotect {| seqno := 6; authentic := true; echo := None |} None; Kill;
              Reload 10 10000 1004; Unprotect {| seqno := 6; authentic := true; echo := None |} None;
              Unprotect {| seqno := 7; authentic := true; echo := Some 1004 |} None] in
  snd (run (initial_world 32 None) evs) =
  [OLoaded 0 true; OExn OSError; OUnprot Accept; ODied; OLoaded 0 false; OUnprot RejectEcho; OUnprot Accept].
Proof. vm_compute. reflexivity. Qed.
(* a response to a window-accepted request reuses its nonce once; the Echo challenge and the Echo-recovered request never do *)
Example C13_reuse_doctest :
  snd (run (initial_world 32 None)
    [Reload 10 10000 1000; Unprotect {| seqno := 5; authentic := true; echo := None |} None; Respond None; Respond None; Kill;
     Reload 10 10000 1005; Unprotect {| seqno := 5; authentic := true; echo := None |} None; Respond None;
     Unprotect {| seqno := 7; authentic := true; echo := Some 1005 |} None; Respond None])
  = [OLoaded 0 true; OUnprot Accept; OReused 5; OIssued 0; ODied;
     OLoaded 10 false; OUnprot RejectEcho; OIssued 10; OUnprot Accept; OIssued 11].
Proof. vm_compute. reflexivity. Qed.
