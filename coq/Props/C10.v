(* C10 — message-layer reactions follow the RFC 7252 type rules.
   Only statements here; every proof is [exact <lemma of Proofs/C10.v>] (or a vm_compute witness). *)
From Verif Require Import Lib.Py Lib.Tactics Model.C10 Proofs.C10 Proofs.C10Acks Proofs.C10Live Proofs.C10Gone Proofs.C10R6.
Open Scope Z_scope.

(* 1. The reaction table: type x code class x token known x received on multicast, for every state reachable-or-not that satisfies
      the backlog invariant BInv (preserved by every step, see C10_BInv_invariant) and every message that is not a duplicate.
      [replies] are the ACK/RST-typed datagrams of the step. *)
Theorem C10_reaction_table : forall s r m s' o, BInv s -> fresh s r m -> dispatch_message s r m = (s', o) ->
  match table (mtype m) (classify (code m)) (known s r m) (is_multicast_locally r) with
  | Reset => replies o = [Send (as_response_address r) (empty_msg RST (mid m))]
  | EmptyAcknowledgement => replies o = [Send (as_response_address r) (empty_msg ACK (mid m))]
  | NoReply => replies o = []
  | ToHandler => exists s0, piggy s0 = piggy s /\ atimers s0 = atimers s /\ incoming s0 = incoming s /\ now s0 = now s /\
                            _process_request s0 r m = (s', o)
  end.
Proof. exact reaction_table. Qed.
Print Assumptions C10_reaction_table.

(* the table itself, cell by cell (4 types x 5 code classes x known x multicast = 80 cells) *)
Example C10_table_cells :
  (forall k mcst, table CON CEmpty k mcst = Reset) /\
  (forall t k mcst, t <> CON -> table t CEmpty k mcst = NoReply) /\
  (forall k mcst, table CON CRequest k mcst = ToHandler /\ table NON CRequest k mcst = ToHandler /\
                  table ACK CRequest k mcst = NoReply /\ table RST CRequest k mcst = NoReply) /\
  (forall mcst, table CON CResponse true mcst = EmptyAcknowledgement) /\
  table CON CResponse false false = Reset /\ table CON CResponse false true = NoReply /\
  (forall t k mcst, t <> CON -> table t CResponse k mcst = NoReply) /\
  (forall t k mcst, table t CReserved k mcst = NoReply /\ table t CSignalling k mcst = NoReply).
Proof. repeat split; intros; try (destruct t); try (destruct k); try (destruct mcst); try reflexivity; congruence. Qed.
Example C10_classify_cells :
  classify 0 = CEmpty /\ classify 1 = CRequest /\ classify 31 = CRequest /\ classify 32 = CReserved /\ classify 63 = CReserved /\
  classify 64 = CResponse /\ classify 191 = CResponse /\ classify 192 = CReserved /\ classify 223 = CReserved /\
  classify 224 = CSignalling /\ classify 255 = CSignalling.
Proof. vm_compute. repeat split. Qed.

(* every cell of the table without a reply is also silent towards the layers above (no handler started or cancelled, nothing delivered);
   response codes are excepted because a matched NON/ACK response is delivered to its request *)
Theorem C10_misfit_no_upward : forall s r m s' o, BInv s -> fresh s r m -> dispatch_message s r m = (s', o) ->
  table (mtype m) (classify (code m)) (known s r m) (is_multicast_locally r) = NoReply ->
  classify (code m) <> CResponse -> upward o = [].
Proof. exact misfit_no_upward. Qed.
Print Assumptions C10_misfit_no_upward.
(* messages whose code and type do not fit (NON empty; CON/NON with a reserved or signalling code) change nothing and send nothing *)
Theorem C10_dont_fit_ignored : forall s r m,
  (mtype m = NON /\ code m = 0) \/
  ((mtype m = CON \/ mtype m = NON) /\ code m <> 0 /\ is_request (code m) = false /\ is_response (code m) = false) ->
  dispatch_message s r m = (s, []).
Proof. exact dont_fit_ignored. Qed.
Print Assumptions C10_dont_fit_ignored.

(* 2. Invariant over all histories and its consequence: no confirmable message is ever sent to a multicast destination *)
Theorem C10_BInv_invariant : forall es s s' os, run s es = (s', os) -> BInv s -> BInv s' /\ Forall ok_out (outputs_of os).
Proof. exact run_ok. Qed.
Print Assumptions C10_BInv_invariant.
Theorem C10_never_con_to_multicast : forall es m0 t0 r m,
  In (Send r m) (outputs_of (snd (run (init m0 t0) es))) -> mtype m = CON -> is_multicast r = false.
Proof. exact never_con_to_multicast. Qed.
Print Assumptions C10_never_con_to_multicast.
Theorem C10_con_to_multicast_refused : forall s r a mon rq,
  a_mtype a = Some CON -> is_multicast r = true -> is_response (a_code a) = false -> send_message s r a mon rq = (s, [], Some ConToMulticast).
Proof. exact con_to_multicast_refused. Qed.
Print Assumptions C10_con_to_multicast_refused.

(* 3. A CON request is acknowledged exactly once under its message ID.
      AT MOST ONCE is proved for every history: every ACK under (peer, mid) consumes one recorded piggy-back opportunity
      ([cnt p M (piggy s)] counts them), whatever the interleaving of datagrams, handler answers, client requests, timers and waiting —
      provided the history contains no other message from that peer with that message ID (a duplicate is answered by replaying the
      stored ACK, C04) and the application does not itself send ACK-typed requests ([ev_ok]). *)
Theorem C10_acks_bounded : forall es s s' os p M, run s es = (s', os) -> BInv s -> Forall (ev_ok p M) es ->
  (acks p M (outputs_of os) + cnt p M (piggy s') <= cnt p M (piggy s))%nat.
Proof. exact acks_bounded. Qed.
Print Assumptions C10_acks_bounded.
Theorem C10_con_request_acked_at_most_once : forall s r m s1 o1 es s' os,
  BInv s -> mtype m = CON -> path m = 0 -> 1 <= code m <= 7 ->
  aget zz_eqb (recent s) (rpeer r, mid m) = None ->                       (* not a duplicate *)
  aget pk_eqb (piggy s) (rpeer r, token m) = None ->                       (* side condition O3: token not in use by an unacknowledged request *)
  cnt (rpeer r) (mid m) (piggy s) = 0%nat ->                               (* no opportunity recorded under this (peer, mid) *)
  dispatch_message s r m = (s1, o1) -> run s1 es = (s', os) -> Forall (ev_ok (rpeer r) (mid m)) es ->
  acks (rpeer r) (mid m) o1 = 0%nat /\ (acks (rpeer r) (mid m) (outputs_of os) <= 1)%nat.
Proof. exact con_request_acked_at_most_once. Qed.
Print Assumptions C10_con_request_acked_at_most_once.
Example C10_acked_at_most_once_nonvacuous :   (* the hypotheses hold in the initial state, and the bound is attained *)
  let s := init 0 0 in let r := uni 0 in let m := creq CON 7 [1] 0 None in
  BInv s /\ aget zz_eqb (recent s) (rpeer r, mid m) = None /\ aget pk_eqb (piggy s) (rpeer r, token m) = None /\
  cnt (rpeer r) (mid m) (piggy s) = 0%nat /\
  Forall (ev_ok 0 7) [Wait 100000; Fire; Respond 0 69 None [5]] /\
  acks 0 7 (outputs_of (snd (run (fst (dispatch_message s r m)) [Wait 100000; Fire; Respond 0 69 None [5]]))) = 1%nat.
Proof. split; [apply BInv_init|]. vm_compute. repeat split; repeat constructor. Qed.
(*    EXACTLY ONCE over whole histories.  Second invariant [AInv] (proved along every history from the initial state): every pending
      empty-ACK handle is not overdue (now <= due), has a handle number below the counter and is the handle stored in exactly one
      recorded opportunity; every opportunity has its pending handle; handle numbers are unique.
      Time in the model: [Fire] runs the pending handle with the least (due, creation number) and sets the clock to max(now, due);
      [Wait d] advances the clock by d but never past the due time of a pending handle.  "The clock has passed arrival +
      EMPTY_ACK_DELAY" is [now s + EMPTY_ACK_DELAY < now s'].
      Shutdown is outside the model (no event for it; C18) — the theorems speak about histories without Context.shutdown, and without
      transport errors (MessageManager.dispatch_error is not modelled either). *)
(* third invariant [RI] (Proofs/C10R6.v, along every history from the initial state): an opportunity's (peer, mid) is registered for
   deduplication; its empty-ACK handle is due strictly before the Forget handle of that registration; at most one pending Forget handle
   per registered (peer, mid) and none otherwise; one opportunity per (peer, token).  Consequence: a message that is not a duplicate has
   no opportunity recorded under its (peer, message ID) — the former hypothesis [cnt ... = 0] of the theorems below. *)
Theorem C10_fresh_no_opportunity : forall es m0 t0 s os p M, run (init m0 t0) es = (s, os) ->
  aget zz_eqb (recent s) (p, M) = None -> cnt p M (piggy s) = 0%nat.
Proof. exact fresh_no_opportunity. Qed.
Print Assumptions C10_fresh_no_opportunity.
Example C10_RI_nonvacuous :      (* a reachable state with an opportunity, its registration and the two handles 0.1 s / 247 s *)
  let s := fst (run (init 0 0) [Recv (uni 0) (creq CON 7 [1] 0 None); Wait 5]) in
  RI s /\ piggy s = [((0, [1]), (7, 1))] /\ map due (atimers s) = [100000] /\ map due (forgets (rtimers s)) = [247000000].
Proof.
  split; [|vm_compute; repeat split].
  destruct (run (init 0 0) [Recv (uni 0) (creq CON 7 [1] 0 None); Wait 5]) as [s os] eqn:E.
  exact (RI_run _ _ _ _ E (RI_init 0 0) (AInv_init 0 0)).
Qed.
(* the model's internal-error output of on_timeout (KeyError) is unreachable: the next empty-ACK handle to fire always has its opportunity *)
Theorem C10_on_timeout_keyerror_unreachable : forall es m0 t0 s os t, run (init m0 t0) es = (s, os) -> next_timer s = Some (true, t) ->
  exists r tok pm, kind t = EmptyAck r tok /\ aget pk_eqb (piggy s) (rpeer r, tok) = Some (pm, tid t) /\
                   forall e, ~ In (LoopException e) (snd (step s Fire)).
Proof. exact on_timeout_keyerror_unreachable. Qed.
Print Assumptions C10_on_timeout_keyerror_unreachable.
Theorem C10_AInv_invariant : forall es m0 t0 s os, run (init m0 t0) es = (s, os) -> AInv s.
Proof. intros es m0 t0 s os H. eapply AInv_run; [exact H|apply AInv_init]. Qed.
Print Assumptions C10_AInv_invariant.
Example C10_AInv_nonvacuous :      (* a reachable state with two recorded opportunities and their two pending handles *)
  let s := fst (run (init 0 0) [Recv (uni 0) (creq CON 7 [1] 0 None); Wait 5; Recv (uni 1) (creq CON 7 [1] 0 None)]) in
  AInv s /\ length (piggy s) = 2%nat /\ map due (atimers s) = [100000; 100005].
Proof.
  split; [|vm_compute; split; reflexivity].
  destruct (run (init 0 0) [Recv (uni 0) (creq CON 7 [1] 0 None); Wait 5; Recv (uni 1) (creq CON 7 [1] 0 None)]) as [s os] eqn:E.
  exact (AInv_run _ _ _ _ E (AInv_init 0 0)).
Qed.
(* for every history [pre] from the initial state and every continuation [post]: a fresh CON request (any request code, any resource,
   whatever its handler does or fails to do) has received at most one ACK-typed message under its message ID at any time, and exactly
   one as soon as the clock has passed arrival + EMPTY_ACK_DELAY — hence none afterwards.  (Round 6: the former hypothesis "no opportunity
   recorded under this (peer, mid)" is now derived from reachability, C10_fresh_no_opportunity.)  Hypotheses: not a duplicate; O3 (the
   (peer, token) pair is not in use by an unacknowledged request, and no later CON request reuses it: [ev_live]); no other message
   from that peer carries this message ID and the application sends no ACK-typed requests ([ev_ok]). *)
Theorem C10_con_request_acked_exactly_once : forall pre m0 t0 s os0 r m s1 o1 post s' os,
  run (init m0 t0) pre = (s, os0) ->
  mtype m = CON -> is_request (code m) = true ->
  aget zz_eqb (recent s) (rpeer r, mid m) = None ->
  aget pk_eqb (piggy s) (rpeer r, token m) = None ->
  dispatch_message s r m = (s1, o1) -> run s1 post = (s', os) ->
  Forall (ev_ok (rpeer r) (mid m)) post -> Forall (ev_live (rpeer r) (token m)) post ->
  let n := acks (rpeer r) (mid m) (o1 ++ outputs_of os) in
  (n <= 1)%nat /\ (now s + EMPTY_ACK_DELAY < now s' -> n = 1%nat).
Proof. exact con_request_acked_exactly_once'. Qed.
Print Assumptions C10_con_request_acked_exactly_once.
Example C10_acked_exactly_once_nonvacuous :   (* all hypotheses hold for a request arriving in the middle of other traffic *)
  let pre := [Request 1 None false; Recv (uni 1) (creq CON 3 [9] 1 None); Wait 7] in
  let s := fst (run (init 0 0) pre) in let r := uni 0 in let m := creq CON 7 [1] 0 None in
  let post := [Recv (uni 0) (creq NON 8 [2] 1 None); Wait 100000; Fire; Wait 1; Respond 0 69 None [5]] in
  let s1 := fst (dispatch_message s r m) in
  aget zz_eqb (recent s) (rpeer r, mid m) = None /\ aget pk_eqb (piggy s) (rpeer r, token m) = None /\
  cnt (rpeer r) (mid m) (piggy s) = 0%nat /\
  Forall (ev_ok (rpeer r) (mid m)) post /\ Forall (ev_live (rpeer r) (token m)) post /\
  now s + EMPTY_ACK_DELAY < now (fst (run s1 post)) /\
  acks 0 7 (snd (dispatch_message s r m) ++ outputs_of (snd (run s1 post))) = 1%nat.
Proof.
  vm_compute. repeat split; try reflexivity; repeat constructor; try (intros H; discriminate H); try (intros [_ H]; discriminate H); try (intros [H _]; discriminate H).
Qed.
(* piggy-backed iff the response is ready strictly before arrival + EMPTY_ACK_DELAY (for the slow resource, whose handler k0 answers when
   the harness says so): see the comment at con_response_timing in Proofs/C10Live.v.  [strict]: no other request reuses the
   (peer, token) pair and handler k0 has not answered yet. *)
Theorem C10_con_response_timing : forall pre m0 t0 s os0 r m s1 o1 es1 s2 os1,
  run (init m0 t0) pre = (s, os0) ->
  mtype m = CON -> path m = 0 -> 1 <= code m <= 7 ->
  aget zz_eqb (recent s) (rpeer r, mid m) = None -> aget pk_eqb (piggy s) (rpeer r, token m) = None ->
  dispatch_message s r m = (s1, o1) -> run s1 es1 = (s2, os1) ->
  let k0 := next_srv s in let d := now s + EMPTY_ACK_DELAY in
  Forall (strict r m k0) es1 -> Forall (ev_ok (rpeer r) (mid m)) es1 ->
  In (StartHandler k0) o1 /\
  (now s2 < d ->
     acks (rpeer r) (mid m) (o1 ++ outputs_of os1) = 0%nat /\
     forall c rnr pl s3 o3, is_response c = true -> handler_respond s2 k0 c rnr pl = (s3, o3) ->
       let eff := match rnr with Some v => Some v | None => nr m end in
       let a := {| a_mtype := None; a_code := c; a_token := token m; a_nr := eff; a_obs := None; a_payload := pl |} in
       (find_srv (incoming s2) k0 = None /\ o3 = []) \/
       (no_response_of a = false /\ o3 = [Send (as_response_address r) (mk_wire a ACK (mid m))]) \/
       (no_response_of a = true /\ o3 = [Send (as_response_address r) (empty_msg ACK (mid m))])) /\
  ((1 <= acks (rpeer r) (mid m) (o1 ++ outputs_of os1))%nat -> d <= now s2).
Proof. exact con_response_timing'. Qed.
Print Assumptions C10_con_response_timing.
Example C10_response_timing_nonvacuous :
  let s := init 0 0 in let r := uni 0 in let m := creq CON 7 [1] 0 None in
  let es1 := [Recv (uni 0) (creq NON 8 [2] 1 None); Wait 99999; Request 1 None false] in
  Forall (strict r m (next_srv s)) es1 /\ Forall (ev_ok (rpeer r) (mid m)) es1 /\
  now (fst (run (fst (dispatch_message s r m)) es1)) < now s + EMPTY_ACK_DELAY.
Proof. vm_compute. repeat split; repeat constructor; try (intros [_ H]; discriminate H); try (intros H; discriminate H). Qed.
(* "... otherwise by an empty ACK followed by a separate response with a fresh message ID and the request's token", over histories
   (same setting as C10_con_response_timing; comment at con_separate_response in Proofs/C10Gone.v): before handler k0 answers, either
   nothing was sent under the request's message ID and the clock has not passed d, or the EMPTY ACK is in the trace, the clock is at
   least d, and the handler's answer is then exactly one CON/NON datagram with the request's token and the next message ID of our own
   counter (dropped if suppressed by No-Response; a CON may wait in the NSTART backlog; nothing if the handler was cancelled).
   "Fresh" = taken from our own 16-bit counter, which advances with every message (C10_separate_response: next_mid s' = next_mid s + 1
   mod 2^16); that no other exchange of ours is alive under that number is C14's business. *)
Theorem C10_con_separate_response : forall pre m0 t0 s os0 r m s1 o1 es1 s2 os1,
  run (init m0 t0) pre = (s, os0) ->
  mtype m = CON -> path m = 0 -> 1 <= code m <= 7 ->
  aget zz_eqb (recent s) (rpeer r, mid m) = None -> aget pk_eqb (piggy s) (rpeer r, token m) = None ->
  dispatch_message s r m = (s1, o1) -> run s1 es1 = (s2, os1) ->
  let k0 := next_srv s in let d := now s + EMPTY_ACK_DELAY in
  Forall (strict r m k0) es1 -> Forall (ev_ok (rpeer r) (mid m)) es1 ->
  (acks (rpeer r) (mid m) (o1 ++ outputs_of os1) = 0%nat /\ now s2 <= d) \/
  (In (Send (as_response_address r) (empty_msg ACK (mid m))) (outputs_of os1) /\ d <= now s2 /\
   forall c rnr pl s3 o3, is_response c = true -> handler_respond s2 k0 c rnr pl = (s3, o3) ->
     let eff := match rnr with Some v => Some v | None => nr m end in
     let a := {| a_mtype := None; a_code := c; a_token := token m; a_nr := eff; a_obs := None; a_payload := pl |} in
     let t := select_mtype None (as_response_address r) (Some (mtype m)) in
     (find_srv (incoming s2) k0 = None /\ o3 = []) \/
     (no_response_of a = true /\ o3 = []) \/
     (no_response_of a = false /\
      (o3 = [Send (as_response_address r) (mk_wire a t (next_mid s2))] \/ (o3 = [] /\ t = CON /\ amem Z.eqb (backlogs s2) (rpeer r) = true)))).
Proof. exact con_separate_response'. Qed.
Print Assumptions C10_con_separate_response.
Example C10_separate_response_nonvacuous :   (* the second alternative is reached: timer fired at 100 000 us, other traffic in between *)
  let s := init 0 0 in let r := uni 0 in let m := creq CON 7 [1] 0 None in
  let es1 := [Wait 100000; Fire; Recv (uni 0) (creq NON 8 [2] 1 None); Request 1 None false] in
  let s2 := fst (run (fst (dispatch_message s r m)) es1) in
  Forall (strict r m (next_srv s)) es1 /\ Forall (ev_ok (rpeer r) (mid m)) es1 /\ now s + EMPTY_ACK_DELAY <= now s2 /\
  sends (snd (handler_respond s2 0 69 None [5])) =
    [(uni 0, {| mtype := CON; code := 69; mid := 2; token := [1]; nr := None; obs := None; path := -1; payload := [5] |})].
Proof. vm_compute. repeat split; repeat constructor; try (intros [_ H]; discriminate H); try (intros H; discriminate H). Qed.
(* after the ACK (no opportunity left under the request's (peer, token)): the handler's answer is a separate message with a fresh
   message ID from our own counter and the request's token — CON for a CON request from a unicast peer, NON otherwise; suppressed by
   No-Response it is not sent; a CON may wait in the NSTART backlog (C14) *)
Theorem C10_respond_after_ack : forall s r m k0 key sv c rnr pl s' o,
  find_srv (incoming s) k0 = Some (key, sv) -> sv_remote sv = r -> sv_req sv = m ->
  aget pk_eqb (piggy s) (rpeer r, token m) = None -> is_response c = true ->
  handler_respond s k0 c rnr pl = (s', o) ->
  let eff := match rnr with Some v => Some v | None => nr m end in
  let a := {| a_mtype := None; a_code := c; a_token := token m; a_nr := eff; a_obs := None; a_payload := pl |} in
  let t := select_mtype None (as_response_address r) (Some (mtype m)) in
  (no_response_of a = true /\ o = []) \/
  (no_response_of a = false /\
   (o = [Send (as_response_address r) (mk_wire a t (next_mid s))] \/ (o = [] /\ t = CON /\ amem Z.eqb (backlogs s) (rpeer r) = true))).
Proof. exact respond_after_ack. Qed.
Print Assumptions C10_respond_after_ack.
(* a NON request is never acknowledged: no ACK-typed message under its (peer, message ID) in the step of its arrival nor in any
   continuation (same hypotheses on the continuation as above; the NON request records no opportunity) *)
Theorem C10_non_request_never_acked : forall s r m s1 o1 es s' os,
  BInv s -> mtype m = NON -> is_request (code m) = true ->
  aget zz_eqb (recent s) (rpeer r, mid m) = None -> cnt (rpeer r) (mid m) (piggy s) = 0%nat ->
  dispatch_message s r m = (s1, o1) -> run s1 es = (s', os) -> Forall (ev_ok (rpeer r) (mid m)) es ->
  acks (rpeer r) (mid m) (o1 ++ outputs_of os) = 0%nat.
Proof. exact non_request_never_acked. Qed.
Print Assumptions C10_non_request_never_acked.
Theorem C10_non_request_never_acked_reachable : forall pre m0 t0 s os0 r m s1 o1 es s' os,
  run (init m0 t0) pre = (s, os0) -> mtype m = NON -> is_request (code m) = true ->
  aget zz_eqb (recent s) (rpeer r, mid m) = None ->
  dispatch_message s r m = (s1, o1) -> run s1 es = (s', os) -> Forall (ev_ok (rpeer r) (mid m)) es ->
  acks (rpeer r) (mid m) (o1 ++ outputs_of os) = 0%nat.
Proof. exact non_request_never_acked'. Qed.
Print Assumptions C10_non_request_never_acked_reachable.
Example C10_non_request_never_acked_nonvacuous :
  let s := init 0 0 in let r := uni 0 in let m := creq NON 7 [1] 0 None in
  let es := [Wait 100000; Fire; Respond 0 69 None [5]; Recv (uni 0) (creq CON 8 [1] 1 None)] in
  BInv s /\ aget zz_eqb (recent s) (rpeer r, mid m) = None /\ cnt (rpeer r) (mid m) (piggy s) = 0%nat /\ Forall (ev_ok 0 7) es /\
  sends (snd (dispatch_message s r m) ++ outputs_of (snd (run (fst (dispatch_message s r m)) es))) <> [].
Proof. split; [apply BInv_init|]. vm_compute. repeat split; repeat constructor; try (intros H; discriminate H). Qed.
(* a CON request answered at once — absent resource (4.04), unknown method (4.05), fast resource, raising resource (5.00) — is
   acknowledged in the very step of its arrival by exactly one ACK-typed message under its message ID (the piggy-backed answer, or the
   empty ACK if No-Response suppresses it) and leaves no opportunity behind; with C10_con_request_acked_exactly_once: none later *)
Theorem C10_immediate_answer_piggybacked : forall s r m s1 o1, mtype m = CON -> is_request (code m) = true ->
  path m <> 0 \/ ~ (1 <= code m <= 7) -> fresh s r m -> aget pk_eqb (piggy s) (rpeer r, token m) = None ->
  dispatch_message s r m = (s1, o1) ->
  acks (rpeer r) (mid m) o1 = 1%nat /\ aget pk_eqb (piggy s1) (rpeer r, token m) = None.
Proof. exact immediate_answer_piggybacked. Qed.
Print Assumptions C10_immediate_answer_piggybacked.
(*    The single-step facts behind these theorems, for every state: *)
Theorem C10_con_request_step_arms : forall s r m s' o, mtype m = CON -> path m = 0 -> 1 <= code m <= 7 ->
  aget pk_eqb (piggy s) (rpeer r, token m) = None -> _process_request s r m = (s', o) ->
  aget pk_eqb (piggy s') (rpeer r, token m) = Some (mid m, seq s) /\
  atimers s' = atimers s ++ [{| due := now s + EMPTY_ACK_DELAY; tid := seq s; kind := EmptyAck r (token m) |}] /\
  (forall x, In x o -> exists k, x = StartHandler k \/ x = CancelHandler k).
Proof. exact request_arms_timer. Qed.
Print Assumptions C10_con_request_step_arms.
(* the response is ready first: it travels in the ACK under the request's message ID; opportunity and timer are removed *)
Theorem C10_con_request_step_piggyback : forall s r a mon rq pmid h,
  is_response (a_code a) = true -> aget pk_eqb (piggy s) (rpeer r, a_token a) = Some (pmid, h) -> no_response_of a = false ->
  exists s', send_message s r a mon rq = (s', [Send r (mk_wire a ACK pmid)], None) /\
             piggy s' = adel pk_eqb (piggy s) (rpeer r, a_token a) /\ atimers s' = cancel (atimers s) h.
Proof. exact send_message_piggyback. Qed.
Print Assumptions C10_con_request_step_piggyback.
(* the timer fires first: an empty ACK under the request's message ID; the opportunity is removed *)
Theorem C10_con_request_step_timeout : forall s r tok pmid h, aget pk_eqb (piggy s) (rpeer r, tok) = Some (pmid, h) ->
  exists s', on_timeout s r tok = (s', [Send (as_response_address r) (empty_msg ACK pmid)]) /\
             aget pk_eqb (piggy s') (rpeer r, tok) = None.
Proof. exact on_timeout_acks. Qed.
Print Assumptions C10_con_request_step_timeout.
(* ... after which the response is separate: fresh message ID from our own counter, the request's token, NON for a NON request or a
   multicast peer and CON otherwise (a CON may first wait in the NSTART backlog, C14) *)
Theorem C10_separate_response : forall s r a mon rq s' o e,
  a_mtype a = None -> (is_response (a_code a) = true -> aget pk_eqb (piggy s) (rpeer r, a_token a) = None /\ no_response_of a = false) ->
  send_message s r a mon rq = (s', o, e) ->
  let t := select_mtype None r rq in
  e = None /\ next_mid s' = Z.land 65535 (1 + next_mid s) /\
  (o = [Send r (mk_wire a t (next_mid s))] \/ (o = [] /\ t = CON /\ amem Z.eqb (backlogs s) (rpeer r) = true)).
Proof. exact send_message_separate. Qed.
Print Assumptions C10_separate_response.
Theorem C10_non_request_never_arms : forall s r m, mtype m = NON -> _process_request s r m = tm_process_request s r m.
Proof. exact non_request_arms_nothing. Qed.
Print Assumptions C10_non_request_never_arms.
Theorem C10_non_by_default : forall r, select_mtype None r (Some NON) = NON.
Proof. exact non_by_default. Qed.
Print Assumptions C10_non_by_default.
Theorem C10_non_to_multicast : forall r rq, is_multicast r = true -> select_mtype None r rq = NON.
Proof. exact non_to_multicast. Qed.
Print Assumptions C10_non_to_multicast.

(* 4. No-Response (RFC 7967): a suppressed response is not sent; a CON request still gets its empty ACK — on every local address *)
Theorem C10_no_response_suppressed_ack : forall s r a mon rq pmid h,
  is_response (a_code a) = true -> aget pk_eqb (piggy s) (rpeer r, a_token a) = Some (pmid, h) -> no_response_of a = true ->
  exists s', send_message s r a mon rq = (s', [Send (as_response_address r) (empty_msg ACK pmid)], None) /\
             piggy s' = adel pk_eqb (piggy s) (rpeer r, a_token a) /\ atimers s' = cancel (atimers s) h.
Proof. exact send_message_suppressed_ack. Qed.
Print Assumptions C10_no_response_suppressed_ack.
(* the address a reply goes to never carries the multicast address the request was received on, and stripping is idempotent *)
Theorem C10_as_response_address : forall r,
  is_multicast_locally (as_response_address r) = false /\ as_response_address (as_response_address r) = as_response_address r /\
  rpeer (as_response_address r) = rpeer r.
Proof. intros r. split; [apply as_response_address_not_multicast_locally|split; [apply as_response_address_idempotent|apply rpeer_ara]]. Qed.
Print Assumptions C10_as_response_address.
(* the bit the local / peer kinds abstract, on packed addresses (tied to udp6.py by the `addr` stream): ff00::/8 and the IPv4-mapped
   form of 224.0.0.0/4 are groups, e.g. ::ffff:224.0.1.187 (All CoAP Nodes over the dual-stack socket); ::ffff:192.0.2.1, the
   IPv4-compatible ::224.0.1.187 and fe80:: are not *)
Example C10_packed_is_multicast_cells :
  packed_is_multicast [255;2;0;0;0;0;0;0;0;0;0;0;0;0;0;253] = true /\
  packed_is_multicast [0;0;0;0;0;0;0;0;0;0;255;255;224;0;1;187] = true /\
  packed_is_multicast [0;0;0;0;0;0;0;0;0;0;255;255;239;255;255;250] = true /\
  packed_is_multicast [0;0;0;0;0;0;0;0;0;0;255;255;240;0;0;1] = false /\
  packed_is_multicast [0;0;0;0;0;0;0;0;0;0;255;255;223;255;255;255] = false /\
  packed_is_multicast [0;0;0;0;0;0;0;0;0;0;255;255;192;0;2;1] = false /\
  packed_is_multicast [0;0;0;0;0;0;0;0;0;0;0;0;224;0;1;187] = false /\
  packed_is_multicast [254;128;0;0;0;0;0;0;0;0;0;0;0;0;0;1] = false.
Proof. vm_compute. repeat split. Qed.
(* responses built from exceptions (4.04, 4.05, 5.00) are subject to the request's No-Response option like any other *)
Theorem C10_error_response_inherits_no_response : forall s r req c pl,
  send_response s r req c None pl =
  (let '(s1, o, _) := send_message s (as_response_address r)
      {| a_mtype := None; a_code := c; a_token := token req; a_nr := nr req; a_obs := None; a_payload := pl |} MonResp (Some (mtype req)) in (s1, o)).
Proof. exact error_response_inherits_no_response. Qed.
Print Assumptions C10_error_response_inherits_no_response.
Theorem C10_no_response_suppressed_silent : forall s r a mon rq,
  is_response (a_code a) = true -> aget pk_eqb (piggy s) (rpeer r, a_token a) = None -> no_response_of a = true ->
  send_message s r a mon rq = (s, [], None).
Proof. exact send_message_suppressed_silent. Qed.
Print Assumptions C10_no_response_suppressed_silent.
Example C10_no_response_mask :   (* 26 = 2.xx + 4.xx + 5.xx; 2 = 2.xx only; 8 = 4.xx only *)
  let a c n := {| a_mtype := None; a_code := c; a_token := []; a_nr := n; a_obs := None; a_payload := [] |} in
  no_response_of (a 69 (Some 26)) = true /\ no_response_of (a 132 (Some 26)) = true /\ no_response_of (a 160 (Some 26)) = true /\
  no_response_of (a 69 (Some 2)) = true /\ no_response_of (a 132 (Some 2)) = false /\ no_response_of (a 132 (Some 8)) = true /\
  no_response_of (a 69 (Some 0)) = false /\ no_response_of (a 69 None) = false.
Proof. vm_compute. repeat split. Qed.

(* ---- witnesses (vm_compute on concrete histories; the correspondence run replays the same scripts on the implementation) *)
(* non-vacuity of the piggy-back theorems: response after 99 999 us travels in the ACK (exactly one ACK, nothing left to fire) *)
Example C10_witness_piggyback :
  let es := [Recv (uni 0) (creq CON 7 [1] 0 None); Wait 99999; Respond 0 69 None [5]; Wait 1; Fire] in
  acks 0 7 (trace es) = 1%nat /\ sends (trace es) = [(uni 0, {| mtype := ACK; code := 69; mid := 7; token := [1]; nr := None; obs := None; path := -1; payload := [5] |})].
Proof. vm_compute. split; reflexivity. Qed.
(* the timer fires at exactly 100 000 us: empty ACK, then a separate CON response with our own message ID 0 and the request's token *)
Example C10_witness_empty_ack_then_separate :
  let es := [Recv (uni 0) (creq CON 7 [1] 0 None); Wait 100000; Fire; Respond 0 69 None [5]] in
  acks 0 7 (trace es) = 1%nat /\
  sends (trace es) = [(uni 0, empty_msg ACK 7);
                      (uni 0, {| mtype := CON; code := 69; mid := 0; token := [1]; nr := None; obs := None; path := -1; payload := [5] |})].
Proof. vm_compute. split; reflexivity. Qed.
(* NON request: never acknowledged, answered NON *)
Example C10_witness_non :
  let es := [Recv (uni 0) (creq NON 7 [1] 0 None); Wait 100000; Fire; Respond 0 69 None [5]] in
  acks 0 7 (trace es) = 0%nat /\
  sends (trace es) = [(uni 0, {| mtype := NON; code := 69; mid := 0; token := [1]; nr := None; obs := None; path := -1; payload := [5] |})].
Proof. vm_compute. split; reflexivity. Qed.
(* No-Response 26 on a CON request received on a unicast address: only the empty ACK *)
Example C10_witness_no_response :
  let es := [Recv (uni 0) (creq CON 7 [1] 0 (Some 26)); Wait 5; Respond 0 69 None [5]; Wait 100000; Fire] in
  sends (trace es) = [(uni 0, empty_msg ACK 7)].
Proof. vm_compute. reflexivity. Qed.
(* O3 (documented side condition, not a violation): a second CON request reusing the token before the first is acknowledged cancels the
   first one's timer — the unconditional "acknowledged exactly once" statement is refuted by the model, faithfully to messagemanager.py:389-397 *)
Example C10_acked_once_unconditional_refuted :
  exists es, acks 0 7 (trace es) = 0%nat /\ final_now es > 2 * EMPTY_ACK_DELAY /\
             In (Recv (uni 0) (creq CON 7 [1] 0 None)) es.
Proof.
  exists [Recv (uni 0) (creq CON 7 [1] 0 None); Wait 10; Recv (uni 0) (creq CON 8 [1] 0 None); Wait 100000; Fire; Wait 150000].
  vm_compute. split; [reflexivity|]. split; [reflexivity|]. left. reflexivity.
Qed.
(* fixed findings, now positive: a suppressed response for a CON request received on a multicast address yields the empty ACK (sent
   from the stripped address), and a 4.04 built from an exception honours No-Response 26 *)
Example C10_witness_no_response_received_on_multicast :
  let es := [Recv (mc 0) (creq CON 7 [1] 0 (Some 26)); Wait 5; Respond 0 69 None [5]; Wait 100000; Fire; Wait 100000] in
  acks 0 7 (trace es) = 1%nat /\ sends (trace es) = [({| rpeer := 0; rlocal := 0 |}, empty_msg ACK 7)].
Proof. vm_compute. split; reflexivity. Qed.
Example C10_witness_error_response_honours_no_response :
  sends (trace [Recv (uni 0) (creq CON 7 [1] 2 (Some 26))]) = [(uni 0, empty_msg ACK 7)] /\
  sends (trace [Recv (uni 0) (creq NON 7 [1] 2 (Some 8))]) = [] /\
  sends (trace [Recv (uni 0) (creq CON 7 [1] 2 (Some 2))]) =
    [(uni 0, {| mtype := ACK; code := 132; mid := 7; token := [1]; nr := None; obs := None; path := -1; payload := [] |})].
Proof. vm_compute. repeat split. Qed.
(* giving up on a CON while a multicast request is pending fails exactly the requests to that peer, without an exception in the loop *)
Example C10_witness_give_up_with_multicast_request_pending :
  let es := [Request 0 None false; Request 100 None false; Fire; Fire; Fire; Fire; Fire] in
  filter (fun o => match o with Fail _ _ | LoopException _ => true | _ => false end) (trace es) = [Fail 0 ConRetransmitsExceeded].
Proof. vm_compute. reflexivity. Qed.
(* BInv is not vacuous: it holds initially and in a state with a backlogged CON and a pending retransmission *)
Example C10_BInv_nonvacuous :
  BInv (init 0 0) /\
  let s := fst (run (init 0 0) [Request 0 None false; Request 0 None false]) in
  BInv s /\ backlogs s <> [] /\ rtimers s <> [].
Proof.
  split; [apply BInv_init|]. split; [|vm_compute; split; discriminate].
  destruct (run (init 0 0) [Request 0 None false; Request 0 None false]) as [s os] eqn:E.
  exact (proj1 (run_ok _ _ _ _ E (BInv_init 0 0))).
Qed.

(* ---- round 7: the model's transport constants and message-ID successor are the translated source's
   (Gen/c03_constants.v <- numbers/constants.py TransportTuning, microseconds = seconds * 10^6; Gen/c14_message_id.v <- MessageManager._next_message_id) *)
From Verif Require Gen.c03_constants Gen.c14_message_id.
From Verif Require Proofs.C10Tie.
Theorem C10_exchange_lifetime_is_source :
  QArith_base.Qeq (QArith_base.inject_Z EXCHANGE_LIFETIME) (QArith_base.Qmult (c03_constants.EXCHANGE_LIFETIME c03_constants.default_transport_tuning) (QArith_base.inject_Z 1000000)).
Proof. exact C10Tie.exchange_lifetime_is_source. Qed.
Print Assumptions C10_exchange_lifetime_is_source.
Theorem C10_empty_ack_delay_is_source :
  QArith_base.Qeq (QArith_base.inject_Z EMPTY_ACK_DELAY) (QArith_base.Qmult (c03_constants.tt_EMPTY_ACK_DELAY c03_constants.default_transport_tuning) (QArith_base.inject_Z 1000000)).
Proof. exact C10Tie.empty_ack_delay_is_source. Qed.
Print Assumptions C10_empty_ack_delay_is_source.
Theorem C10_ack_timeout_is_source :
  QArith_base.Qeq (QArith_base.inject_Z ACK_TIMEOUT) (QArith_base.Qmult (c03_constants.tt_ACK_TIMEOUT c03_constants.default_transport_tuning) (QArith_base.inject_Z 1000000)).
Proof. exact C10Tie.ack_timeout_is_source. Qed.
Print Assumptions C10_ack_timeout_is_source.
Theorem C10_max_retransmit_is_source :
  MAX_RETRANSMIT = c03_constants.tt_MAX_RETRANSMIT c03_constants.default_transport_tuning.
Proof. exact C10Tie.max_retransmit_is_source. Qed.
Print Assumptions C10_max_retransmit_is_source.
Theorem C10_next_message_id_is_source :
  forall s, c14_message_id.next_message_id {| c14_message_id.mmids_message_id := next_mid s |} = Ok ({| c14_message_id.mmids_message_id := next_mid (fst (_next_message_id s)) |}, snd (_next_message_id s)).
Proof. exact C10Tie.next_message_id_is_source. Qed.
Print Assumptions C10_next_message_id_is_source.

(* ---- round 7 *)
(* the model's internal-error outputs (_retransmit KeyError, _continue_backlog AssertionError; with round 6's on_timeout KeyError: every
   LoopException output) are unreachable from the initial state under every event history (Proofs/C10R7.v, invariant XI) *)
From Verif Require Import Proofs.C10R7.
Theorem C10_exchange_invariant : forall es m0 t0 s os, run (init m0 t0) es = (s, os) -> XI s.
Proof. exact exchange_invariant. Qed.
Print Assumptions C10_exchange_invariant.
Theorem C10_retransmit_keyerror_unreachable : forall es m0 t0 s os t r m to c, run (init m0 t0) es = (s, os) ->
  next_timer s = Some (false, t) -> kind t = Retransmit r m to c ->
  (exists mon, aget zz_eqb (exch s) (rpeer r, mid m) = Some (mon, tid t)) /\ amem Z.eqb (backlogs s) (rpeer r) = true /\
  forall e, ~ In (LoopException e) (snd (step s Fire)).
Proof. exact retransmit_keyerror_unreachable. Qed.
Print Assumptions C10_retransmit_keyerror_unreachable.
Theorem C10_continue_backlog_assertion_unreachable : forall es m0 t0 s os, run (init m0 t0) es = (s, os) ->
  (forall p M v, aget zz_eqb (exch s) (p, M) = Some v -> aget Z.eqb (backlogs s) p <> None) /\
  (forall r m e, ~ In (LoopException e) (snd (_remove_exchange s r m))) /\
  (forall r m e, ~ In (LoopException e) (snd (step s (Recv r m)))).
Proof. exact continue_backlog_assertion_unreachable. Qed.
Print Assumptions C10_continue_backlog_assertion_unreachable.
Theorem C10_no_loop_exception : forall es m0 t0 s os, run (init m0 t0) es = (s, os) -> forall e, ~ In (LoopException e) (outputs_of os).
Proof. exact no_loop_exception. Qed.
Print Assumptions C10_no_loop_exception.
Theorem C10_one_exchange_per_peer : forall es m0 t0 s os p M M', run (init m0 t0) es = (s, os) ->
  aget zz_eqb (exch s) (p, M) <> None -> aget zz_eqb (exch s) (p, M') <> None -> M = M'.
Proof. exact one_exchange_per_peer. Qed.
Print Assumptions C10_one_exchange_per_peer.
