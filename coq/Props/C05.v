(* C05 — block-wise client transfers deliver both bodies intact or fail loudly.
   Only statements here; every proof is [exact <lemma of Proofs/C05.v>].
   extract_block, bt_* are TRANSLATED from aiocoap/message.py and aiocoap/optiontypes.py on every check (Gen/block_kernels.v);
   run / block1_loop / complete_by_requesting_block2 (Model/C05.v) model protocol.py BlockwiseRequest._run and
   _complete_by_requesting_block2; serve_ref (Model/C05Server.v) is the RFC 7959 reference server; serve_script is the server that
   answers with an arbitrary given list of responses.  bsize szx = 2^(szx+4).  Theorems 1-10 are about the regular size exponents 0..6, theorems 11-14 about size exponent 7 (BERT, RFC 8323). *)
From Verif Require Import Lib.Py Lib.PyLemmas Lib.Tactics Gen.block_kernels Model.C05 Model.C05Server Model.C05Retry Proofs.C05 Proofs.C05Retry Proofs.C05Bert Proofs.C05Audit Proofs.C05R6.
Open Scope Z_scope.

(* 1. _extract_block partitions the body: block NUM is exactly the bytes at offset NUM*size, it has the full size and the more-flag
      exactly when bytes remain after it, the final block is non-empty and ends at the end of the body, and BadRequest is raised
      exactly for blocks that start at or beyond the end. *)
Theorem C05_extract_blocks_partition : forall body szx mbs n, 0 <= szx <= 6 -> 0 <= n ->
  (blen body <= n * bsize szx -> extract_block body n szx mbs = Raise BadRequest) /\
  (n * bsize szx < blen body -> exists pl more,
      extract_block body n szx mbs = Ok (pl, (n, more, szx)) /\
      bto body (n * bsize szx) ++ pl = bto body (n * bsize szx + blen pl) /\
      (more = true -> blen pl = bsize szx /\ n * bsize szx + bsize szx < blen body) /\
      (more = false -> 0 < blen pl <= bsize szx /\ n * bsize szx + blen pl = blen body)).
Proof. exact extract_blocks_partition_lemma. Qed.
Print Assumptions C05_extract_blocks_partition.

(* 2. On the wire, against ANY server (any state type, any reaction, responses as Message.decode can produce them), for every body,
      every client maximum exponent 0..6 and every fuel: the requests of a run are either one unfragmented request carrying the whole
      body (body not longer than the threshold), or a Block1 chain from offset 0 (b1_chain): NUM * size = bytes sent so far, the
      payload is exactly the next bytes of the body, more-flag exactly on non-final blocks, non-final blocks full, the size exponent
      never grows and never exceeds the client's maximum, Size1 = body length on block 0 only, and no Block1 option after the chain. *)
Theorem C05_block1_wire_consistent : forall (S : Type) (serve : S -> request -> S * sresult),
  (forall s rq s' r, req_wf rq = true -> serve s rq = (s', SResp r) -> resp_wf r = true) ->
  forall cfg fuel s s' tr o,
  0 <= c_mbse cfg <= 6 -> 0 <= c_mps cfg -> bt_wf6 (c_block2 cfg) = true ->
  run serve fuel s cfg = (s', tr, o) -> wire_ok cfg tr.
Proof. exact @run_wire_ok. Qed.
Print Assumptions C05_block1_wire_consistent.

(* 3. Client x reference server: for every request body, every representation, every client maximum exponent 0..6, every policy of
      the server (ANY sequence of non-negative exponents for its Block1 acknowledgements and for its Block2 blocks — late and
      mid-transfer reductions, also non-monotone ones; atomic or stateless acknowledgement) the run terminates with a successful
      response, the server has reassembled exactly one body and it is the payload handed to the request API, the body returned is
      the server's representation with its ETag, and the wire is consistent. *)
Theorem C05_transfer_correct : forall scf e rep, honest_cfg scf e rep ->
  forall cfg, 0 <= c_mbse cfg <= 6 -> 0 <= c_mps cfg ->
  (c_block2 cfg = None \/ exists m2 s2, c_block2 cfg = Some (0, m2, s2) /\ 0 <= s2 <= 6) ->
  forall fuel, (Z.to_nat (blen (c_body cfg)) + Z.to_nat (blen rep) + 1 < fuel)%nat ->
  exists st tr r, run (serve_ref scf) fuel sstate0 cfg = (st, tr, Done r) /\
    sv_bodies st = [c_body cfg] /\ rs_payload r = rep /\ rs_etag r = e /\ is_successful (rs_code r) = true /\
    rs_block1 r = None /\ wire_ok cfg tr.
Proof. exact transfer_correct_lemma. Qed.
Print Assumptions C05_transfer_correct.

(* 4. Block2 assembly against ANY list of responses: a response handed to the caller is the first response itself (no Block2, or block 0
      with the more-flag clear — a later block only if the application itself asked for a later block), or — by design, protocol.py:1123 —
      a later response without Block2 option, or the in-order concatenation of a chain in which every block starts exactly where the
      assembled bytes end (NUM * size = length so far), carries the ETag of the first block, is exactly one block long when more follow
      and at most one block long when final (b2_chain). *)
Theorem C05_block2_assembly_exact : forall fuel script t initial mbse rest tr r,
  complete_by_requesting_block2 serve_script fuel script t initial mbse = (rest, tr, Done r) ->
  (r = initial /\ rs_block2 initial = None /\ rest = script) \/
  (exists b, rs_block2 initial = Some b /\ bt_more b = false /\
             (bt_num b = 0 \/ exists rb, rq_block2 t = Some rb /\ bt_num rb <> 0) /\
             r = clear_block2 initial /\ rest = script) \/
  (exists szx consumed, rs_block2 initial = Some (0, true, szx) /\ script = map SResp consumed ++ rest /\
                        b2_chain initial consumed r /\ length tr = length consumed).
Proof. exact block2_assembly_exact_lemma. Qed.
Print Assumptions C05_block2_assembly_exact.

(* 4a. The guard of Message._append_response_block is TRANSLATED from source (Gen/block_kernels.append_response_block_guard) and is an OFFSET
       comparison: a block is appended only if NUM * size equals the number of bytes assembled so far (not merely if NUM equals the
       rounded-down quotient — a server that grows the size exponent mid-transfer cannot get a block accepted that starts before the end of
       the assembled bytes), its payload size fits its option and its ETag is that of the first block. *)
Theorem C05_append_only_at_assembled_length : forall acc x n m szx acc',
  rs_block2 x = Some (n, m, szx) -> append_response_block acc x = Ok acc' ->
  n * bsize (Z.min szx 6) = blen (rs_payload acc) /\ etag_eqb (rs_etag x) (rs_etag acc) = true /\
  (szx <> 7 -> if m then blen (rs_payload x) = bsize (Z.min szx 6) else blen (rs_payload x) <= bsize (Z.min szx 6)) /\
  acc' = appended acc x (n, m, szx).
Proof. exact append_ok. Qed.
Print Assumptions C05_append_only_at_assembled_length.

(* 4b. (defect fixed in 69c1201) a first response that names a later block — final or not — ends the request with UnexpectedBlock2,
       unless the application itself asked for a later block. *)
Theorem C05_first_block2_number_checked : forall (S : Type) (serve : S -> request -> S * sresult) fuel s t initial mbse b,
  rs_block2 initial = Some b -> bt_num b <> 0 ->
  (rq_block2 t = None \/ exists rb, rq_block2 t = Some rb /\ bt_num rb = 0) ->
  complete_by_requesting_block2 serve fuel s t initial mbse = (s, [], Err UnexpectedBlock2).
Proof. exact @first_block2_number_checked_lemma. Qed.
Print Assumptions C05_first_block2_number_checked.

(* 5. ... hence, whenever and however often the representation changes during the transfer: if every block the server sends is a slice
      of one of its representations tagged with that representation's ETag (ETags distinct), a body handed to the caller is one of
      the representations, whole — never truncated, duplicated or mixed. *)
Theorem C05_block2_never_mixed : forall reps, NoDup (map fst reps) ->
  forall fuel script t initial mbse rest tr r e rep szx,
  In (e, rep) reps -> rs_etag initial = Some e -> rs_block2 initial = Some (0, true, szx) -> 0 <= szx <= 6 ->
  rs_payload initial = bto rep (bsize szx) -> bsize szx < blen rep ->
  (forall x, In (SResp x) script -> slice_of reps x) ->
  complete_by_requesting_block2 serve_script fuel script t initial mbse = (rest, tr, Done r) ->
  exists e' rep', In (e', rep') reps /\ rs_payload r = rep'.
Proof. exact block2_never_mixed_lemma. Qed.
Print Assumptions C05_block2_never_mixed.

(* 6. A later block that is not exactly one block long while more follow / longer than one block when final, that does not continue at
      the assembled length, or whose ETag differs, ends the request at once with UnexpectedBlock2 / NotImplemented / ResourceChanged. *)
Theorem C05_block2_server_errors : forall (S : Type) (serve : S -> request -> S * sresult) f s t acc mbse rq s1 x n m szx,
  generate_next_block2_request t acc mbse = Ok rq -> serve s rq = (s1, SResp x) ->
  rs_block2 x = Some (n, m, szx) -> 0 <= szx <= 6 ->
  let valid := if m then blen (rs_payload x) =? bsize szx else blen (rs_payload x) <=? bsize szx in
  (valid = false -> block2_loop serve (Datatypes.S f) s t acc mbse = (s1, [rq], Err UnexpectedBlock2)) /\
  (valid = true -> n * bsize szx <> blen (rs_payload acc) ->
     block2_loop serve (Datatypes.S f) s t acc mbse = (s1, [rq], Err NotImplementedError)) /\
  (valid = true -> n * bsize szx = blen (rs_payload acc) -> etag_eqb (rs_etag x) (rs_etag acc) = false ->
     block2_loop serve (Datatypes.S f) s t acc mbse = (s1, [rq], Err ResourceChanged)).
Proof. exact @block2_server_errors_lemma. Qed.
Print Assumptions C05_block2_server_errors.

(* 7. A wrong block number in a Block1 acknowledgement, or the more-flag / 2.31 on the acknowledgement of the final block, ends the
      request at once with UnexpectedBlock1Option; a transport failure of a sub-request ends it with that failure. *)
Theorem C05_block1_server_errors : forall (S : Type) (serve : S -> request -> S * sresult) cfg f s cursor size_exp mbse rq s1 resp cb b1,
  block1_request cfg cursor size_exp = Ok rq -> serve s rq = (s1, SResp resp) ->
  rq_block1 rq = Some cb -> rs_block1 resp = Some b1 ->
  (bt_num b1 <> bt_num cb \/ (bt_more cb = false /\ (bt_more b1 = true \/ rs_code resp = CONTINUE))) ->
  block1_loop serve (Datatypes.S f) s cfg cursor size_exp mbse = (s1, [rq], Err UnexpectedBlock1Option).
Proof. exact @block1_server_errors_lemma. Qed.
Print Assumptions C05_block1_server_errors.
Theorem C05_block1_transport_failure : forall (S : Type) (serve : S -> request -> S * sresult) cfg f s cursor size_exp mbse rq s1,
  block1_request cfg cursor size_exp = Ok rq -> serve s rq = (s1, SFail) ->
  block1_loop serve (Datatypes.S f) s cfg cursor size_exp mbse = (s1, [rq], Err NetworkError).
Proof. exact @block1_transport_failure. Qed.
Print Assumptions C05_block1_transport_failure.

(* 9. Loss and duplication of the individual block exchanges.  The block-wise client runs on the CoAP message layer: a lost request or
      response is retransmitted with the SAME message id; the server's message layer passes the first copy of a request to the
      application and answers further copies from its store (deduplication: RFC 7252 4.5, property C04 for aiocoap's own server); the
      client's sub-request is completed by the first copy of the response, later copies find no exchange (C02/C10).  Model/C05Retry.v
      puts ANY application-level server behind exactly this layer (serve_retried), driven by an arbitrary schedule of how many extra copies
      of every request reach the server and how many extra copies of every response reach the client.
      For every server, request, fuel and schedule without a dead exchange: the transcript (every request with its block options and
      payload), the outcome and the final state of the application-level server are those of the run in which every message is
      delivered exactly once. *)
Theorem C05_retried_exchanges_invisible : forall (S : Type) (serve : S -> request -> S * sresult) cfg fuel s sched s' tr o,
  forallb is_delivered sched = true ->
  run serve fuel s cfg = (s', tr, o) ->
  exists st', run (serve_retried serve) fuel (rinit s sched) cfg = (st', tr, o) /\ r_inner st' = s'.
Proof. exact @retried_run_unchanged. Qed.
Print Assumptions C05_retried_exchanges_invisible.

(* ... what the deduplicating layer hands out for one exchange: whatever the number of copies of the request that arrive, the application is
   invoked once and every copy is answered with that one answer (round 5: replaces a statement that was a tautology about [repeat]) *)
Theorem C05_retried_copies_from_one_answer : forall (S : Type) (serve : S -> request -> S * sresult) st mid rq n,
  lookup mid (r_cache st) = None ->
  exists r, snd (deliver_n serve (Datatypes.S n) st mid rq) = repeat r (Datatypes.S n) /\
            r = snd (serve (r_inner st) rq) /\ r_inner (fst (deliver_n serve (Datatypes.S n) st mid rq)) = fst (serve (r_inner st) rq).
Proof. exact @retried_copies_from_one_answer. Qed.
Print Assumptions C05_retried_copies_from_one_answer.

(* ... hence theorem 3 over the lossy / duplicating network: exactly one reassembled body, the right one, and the right representation *)
Theorem C05_transfer_correct_under_retries : forall scf e rep, honest_cfg scf e rep ->
  forall cfg, 0 <= c_mbse cfg <= 6 -> 0 <= c_mps cfg ->
  (c_block2 cfg = None \/ exists m2 s2, c_block2 cfg = Some (0, m2, s2) /\ 0 <= s2 <= 6) ->
  forall sched, forallb is_delivered sched = true ->
  forall fuel, (Z.to_nat (blen (c_body cfg)) + Z.to_nat (blen rep) + 1 < fuel)%nat ->
  exists st tr r, run (serve_retried (serve_ref scf)) fuel (rinit sstate0 sched) cfg = (st, tr, Done r) /\
    sv_bodies (r_inner st) = [c_body cfg] /\ rs_payload r = rep /\ rs_etag r = e /\ is_successful (rs_code r) = true /\
    rs_block1 r = None /\ wire_ok cfg tr.
Proof. exact transfer_correct_under_retries_lemma. Qed.
Print Assumptions C05_transfer_correct_under_retries.

(* ... an exchange that dies (retransmissions exhausted) fails the sub-request — and with theorem 7 the request — and does not touch the
   application-level server when it was the request that got lost *)
Theorem C05_retried_dead_exchange : forall (S : Type) (serve : S -> request -> S * sresult) st rq arrived rest,
  r_sched st = Dead arrived :: rest ->
  snd (serve_retried serve st rq) = SFail /\
  (arrived = false -> r_inner (fst (serve_retried serve st rq)) = r_inner st).
Proof. exact @retried_dead. Qed.
Print Assumptions C05_retried_dead_exchange.

(* ... and the guarantee really is the deduplicating layer's (C04), not the block-wise code's: without it a single duplicated datagram
   makes the reference server act on the same request body twice. *)
Theorem C05_without_dedup_body_twice_refuted : exists scf cfg st tr r,
  honest_cfg scf (Some 10) (mkbody 5 1) /\
  run (serve_nodedup (serve_ref scf)) 5 (sstate0, [Delivered 1 0]) cfg = (st, tr, Done r) /\
  sv_bodies (fst st) = [c_body cfg; c_body cfg] /\ length tr = 1%nat.
Proof. exact without_dedup_body_twice_witness. Qed.
Print Assumptions C05_without_dedup_body_twice_refuted.

(* 10. OBSERVATION (the request ends loudly, so C05 holds; the error is an accident): a non-zero Observe option on the acknowledgement of a
       non-final Block1 block ends the request with AttributeError (protocol.py:986 `blockrequest.observe.cancel()`; the attribute is
       called `observation`) instead of cancelling the erroneous observation and continuing as the comment there intends. *)
Theorem C05_early_observe_ends_request : forall (S : Type) (serve : S -> request -> S * sresult) cfg f s cursor size_exp mbse rq s1 resp cb b1,
  block1_request cfg cursor size_exp = Ok rq -> serve s rq = (s1, SResp resp) ->
  rq_block1 rq = Some cb -> rs_block1 resp = Some b1 -> bt_num b1 = bt_num cb -> bt_more cb = true -> rs_observe resp = true ->
  block1_loop serve (Datatypes.S f) s cfg cursor size_exp mbse = (s1, [rq], Err AttributeError).
Proof. exact @block1_early_observe_lemma. Qed.
Print Assumptions C05_early_observe_ends_request.

(* ---- round 5 (clause audit): run-level statements.  Theorems 4-7 above are about the loops at arbitrary states / about serve_script; the
        following lift them to [run] against an arbitrary server and cover the client's Block2 follow-up requests. *)

(* 15. One Block2 follow-up request (exponents 0..7): NUM x size = bytes assembled so far, the exponent is min(server's last exponent, limit),
       more-flag clear, no Block1 option, no payload, Size1 as on the request it repeats. *)
Theorem C05_block2_request_consistent : forall t acc mbse rq n m szx,
  rs_block2 acc = Some (n, m, szx) -> 0 <= szx <= 7 -> 0 <= mbse ->
  generate_next_block2_request t acc mbse = Ok rq ->
  exists n', rq_block2 rq = Some (n', false, Z.min szx mbse) /\
             n' * bsize (Z.min (Z.min szx mbse) 6) = blen (rs_payload acc) /\
             rq_block1 rq = None /\ rq_payload rq = [] /\ rq_size1 rq = rq_size1 t.
Proof. exact block2_request_consistent_lemma. Qed.
Print Assumptions C05_block2_request_consistent.

(* 16. ... and over whole runs, against ANY server (answers as Message.decode produces them, remotes with a non-negative exponent): the trace is
       the Block1 phase (every request carries the application's own Block2 option) followed by the Block2 follow-ups, each of which names a
       non-negative block with the more-flag clear, carries neither Block1 option nor payload, and never exceeds the client's maximum
       exponent (the hand-over of the local limit to the response's remote, protocol.py:930-937). *)
Theorem C05_run_block2_requests_wire : forall (S : Type) (serve : S -> request -> S * sresult) cfg fuel s s' tr o,
  (forall s rq s' r, serve s rq = (s', SResp r) -> resp_wf2 r) -> 0 <= c_mbse cfg ->
  run serve fuel s cfg = (s', tr, o) ->
  exists tr1 tr2, tr = tr1 ++ tr2 /\ Forall (fun q => rq_block2 q = c_block2 cfg) tr1 /\ Forall (b2req_ok (c_mbse cfg)) tr2.
Proof. exact @run_block2_requests_wire_lemma. Qed.
Print Assumptions C05_run_block2_requests_wire.

(* 17. Every run against any server is a run against the list of answers that server gave (makes "serve_script is the general server" a
       theorem), and every response handed to the caller by a run comes out of complete_by_requesting_block2 applied to the last answer of
       the Block1 phase (the auditor's statements). *)
Theorem C05_any_server_is_a_script : forall (S : Type) (serve : S -> request -> S * sresult) cfg fuel s s' tr o,
  run serve fuel s cfg = (s', tr, o) ->
  exists script, length script = length tr /\ run serve_script fuel script cfg = ([], tr, o).
Proof. exact @any_server_is_a_script_lemma. Qed.
Print Assumptions C05_any_server_is_a_script.
Theorem C05_run_done_is_block2_completion : forall (S : Type) (serve : S -> request -> S * sresult) cfg fuel s s' tr r,
  run serve fuel s cfg = (s', tr, Done r) ->
  exists f s1 rq resp mbse cursor size_exp tr1 tr2,
    tr = tr1 ++ rq :: tr2 /\ block1_request cfg cursor size_exp = Ok rq /\
    block1_react rq resp cursor size_exp = B1Break /\
    complete_by_requesting_block2 serve f s1 rq (clear_block1 resp) mbse = (s', tr2, Done r).
Proof. exact @run_done_is_block2_completion_lemma. Qed.
Print Assumptions C05_run_done_is_block2_completion.

(* 18. Theorem 4 at run level, for ANY server: a response handed to the caller by any run is the last answer of the Block1 phase itself (no
       Block2 option, or block 0 — a later block only if the application asked for one — with the more-flag clear), or the exact in-order
       concatenation of a consistent chain (b2_chain) made of the server's own answers to the follow-up requests, one per request. *)
Theorem C05_run_done_exact : forall (S : Type) (serve : S -> request -> S * sresult) cfg fuel s s' tr r,
  run serve fuel s cfg = (s', tr, Done r) ->
  exists rq resp tr1 tr2, tr = tr1 ++ rq :: tr2 /\ serve_answered serve rq resp /\ rq_block2 rq = c_block2 cfg /\
    let initial := clear_block1 resp in
    (r = initial /\ rs_block2 initial = None /\ tr2 = []) \/
    (exists b, rs_block2 initial = Some b /\ bt_more b = false /\
               (bt_num b = 0 \/ exists rb, c_block2 cfg = Some rb /\ bt_num rb <> 0) /\ r = clear_block2 initial /\ tr2 = []) \/
    (exists szx consumed, rs_block2 initial = Some (0, true, szx) /\ b2_chain initial consumed r /\ Forall2 (serve_answered serve) tr2 consumed).
Proof. exact @run_done_exact_lemma. Qed.
Print Assumptions C05_run_done_exact.

(* 19. Theorem 5 at run level, for ANY server and any number of representation changes: if every answer of the server that carries a Block2
       option is a slice of one of its representations tagged with that representation's ETag (ETags distinct) and the application did not
       ask for a later block, then a body handed to the caller by any run is one whole representation — or, by design (protocol.py:1123),
       it is one single answer of the server that carried no Block2 option at all. *)
Theorem C05_run_never_mixed : forall (S : Type) (serve : S -> request -> S * sresult) reps cfg fuel s s' tr r, NoDup (map fst reps) ->
  (forall rq x, serve_answered serve rq x -> rs_block2 x <> None -> slice_of reps x) ->
  (c_block2 cfg = None \/ exists m2 s2, c_block2 cfg = Some (0, m2, s2)) ->
  run serve fuel s cfg = (s', tr, Done r) ->
  (exists e rep, In (e, rep) reps /\ rs_payload r = rep) \/
  (exists rq x, serve_answered serve rq x /\ rs_block2 x = None /\ (r = x \/ r = clear_block1 x)).
Proof. exact @run_never_mixed_lemma. Qed.
Print Assumptions C05_run_never_mixed.

(* 20. "Missing payload bytes" on the FIRST Block2 block (the last answer of the Block1 phase): a first block with the more-flag whose payload
       is not a whole number of blocks ends the request at once — with AssertionError (message.py:512), loud but unspecific.
       A transport failure of a Block2 follow-up ends the request with that failure (the auditor's statements). *)
Theorem C05_first_block2_partial_payload_errors : forall (S : Type) (serve : S -> request -> S * sresult) f s t initial mbse szx,
  rs_block2 initial = Some (0, true, szx) -> 0 <= szx <= 6 ->
  blen (rs_payload initial) mod bsize szx <> 0 ->
  complete_by_requesting_block2 serve (Datatypes.S f) s t initial mbse = (s, [], Err AssertionError).
Proof. exact @first_block2_partial_payload_lemma. Qed.
Print Assumptions C05_first_block2_partial_payload_errors.
Theorem C05_block2_transport_failure : forall (S : Type) (serve : S -> request -> S * sresult) f s t acc mbse rq s1,
  generate_next_block2_request t acc mbse = Ok rq -> serve s rq = (s1, SFail) ->
  block2_loop serve (Datatypes.S f) s t acc mbse = (s1, [rq], Err NetworkError).
Proof. exact @block2_transport_failure_lemma. Qed.
Print Assumptions C05_block2_transport_failure.

(* ---- round 6: dead exchanges at run level, and which errors a run can end in *)

(* 21. Theorem 9 without its hypothesis.  For every application-level server, every request and EVERY schedule of the retrying network — any mix of
       duplicated requests, duplicated responses and exchanges that die in either direction — the run is the loss-free run (same transcript,
       same outcome, same server state), or it ends in NetworkError and its transcript is a non-empty prefix of the loss-free transcript:
       nothing is sent that the loss-free run would not have sent, and no outcome other than the loss-free one or the transport error arises.
       (Proved from a general simulation-until-failure lemma for the client machine, Proofs/C05R6.run_cut.) *)
Theorem C05_retried_any_schedule : forall (S : Type) (serve : S -> request -> S * sresult) cfg fuel s sched s' tr o,
  run serve fuel s cfg = (s', tr, o) ->
  exists st' tr2 o2, run (serve_retried serve) fuel (rinit s sched) cfg = (st', tr2, o2) /\
    ((tr2 = tr /\ o2 = o /\ r_inner st' = s') \/ (o2 = Err NetworkError /\ tr2 <> [] /\ exists tl, tr = tr2 ++ tl)).
Proof. exact @retried_any_schedule. Qed.
Print Assumptions C05_retried_any_schedule.

(* ... hence theorem 3 over ANY network schedule: the transfer completes exactly as specified, or the request ends in NetworkError *)
Theorem C05_transfer_any_schedule : forall scf e rep, honest_cfg scf e rep ->
  forall cfg, 0 <= c_mbse cfg <= 6 -> 0 <= c_mps cfg ->
  (c_block2 cfg = None \/ exists m2 s2, c_block2 cfg = Some (0, m2, s2) /\ 0 <= s2 <= 6) ->
  forall sched fuel, (Z.to_nat (blen (c_body cfg)) + Z.to_nat (blen rep) + 1 < fuel)%nat ->
  exists st tr o, run (serve_retried (serve_ref scf)) fuel (rinit sstate0 sched) cfg = (st, tr, o) /\
    ((exists r, o = Done r /\ sv_bodies (r_inner st) = [c_body cfg] /\ rs_payload r = rep /\ rs_etag r = e /\
                is_successful (rs_code r) = true /\ wire_ok cfg tr) \/
     o = Err NetworkError).
Proof. exact transfer_any_schedule_lemma. Qed.
Print Assumptions C05_transfer_any_schedule.

(* 22. "Fail loudly" classified, for ANY server (answers as Message.decode produces them), any fuel: a run ends in a response, in running out
       of fuel, or in one of seven errors — the transport failure, the five protocol errors of theorems 6, 7, 8 and the two loud-but-unspecific
       exits (AssertionError: ragged first Block2 block; AttributeError: Block1 / Observe on an answer where none belongs).  In particular
       BadRequest — _extract_block asked for a block beyond the end of the body (DESIGN section 10 `no_out_of_bounds`, the symptom of the cursor
       defects) — and every other exception of the translated arithmetic are unreachable. *)
Theorem C05_run_error_classes : forall (S : Type) (serve : S -> request -> S * sresult),
  (forall s rq s' r, req_wf rq = true -> serve s rq = (s', SResp r) -> resp_wf r = true) ->
  forall cfg fuel s s' tr o, 0 <= c_mbse cfg <= 6 -> 0 <= c_mps cfg -> bt_wf6 (c_block2 cfg) = true ->
  run serve fuel s cfg = (s', tr, o) ->
  match o with Err e => In e [NetworkError; UnexpectedBlock1Option; UnexpectedBlock2; NotImplementedError; ResourceChanged; AssertionError; AttributeError] | _ => True end.
Proof. exact @run_classified. Qed.
Print Assumptions C05_run_error_classes.

(* ---- tier B: size exponent 7 / BERT for remotes on reliable transports (maximum_block_size_exp = 7; a message carries
        bert_size mps = 1024 * (maximum_payload_size / 1024) bytes; NUM counts 1024-byte blocks) *)

(* 11. Theorem 1 for size exponent 7. *)
Theorem C05_extract_blocks_partition_bert : forall body mbs n, 1024 <= mbs -> 0 <= n ->
  (blen body <= n * 1024 -> extract_block body n 7 mbs = Raise BadRequest) /\
  (n * 1024 < blen body -> exists pl more,
      extract_block body n 7 mbs = Ok (pl, (n, more, 7)) /\
      bto body (n * 1024) ++ pl = bto body (n * 1024 + blen pl) /\
      (more = true -> blen pl = bert_size mbs /\ n * 1024 + bert_size mbs < blen body) /\
      (more = false -> 0 < blen pl <= bert_size mbs /\ n * 1024 + blen pl = blen body)).
Proof. exact extract_blocks_partition_bert_lemma. Qed.
Print Assumptions C05_extract_blocks_partition_bert.

(* 12. Theorem 2 for a client that starts at size exponent 7, against ANY server (responses as Message.decode can produce them — the server
       may lower the exponent from 7 at any time, to any value): the requests are one unfragmented request (body not longer than
       maximum_payload_size) or a chain (g_chain) in which NUM * unit = bytes sent so far (unit 1024 for exponents 7 and 6, 2^(szx+4)
       below), the payload is the next bytes, the full message / block size and the more-flag exactly on non-final requests, the exponent
       never grows, Size1 on the first request only.  (Before fix 166eafe this failed when an acknowledgement lowered the exponent from 7.) *)
Theorem C05_block1_wire_consistent_bert : forall (S : Type) (serve : S -> request -> S * sresult),
  (forall s rq s' r, bt_wf (rq_block1 rq) = true -> bt_wf (rq_block2 rq) = true -> serve s rq = (s', SResp r) -> resp_wf r = true) ->
  forall cfg fuel s s' tr o, c_mbse cfg = 7 -> 1024 <= c_mps cfg -> bt_wf6 (c_block2 cfg) = true ->
  run serve fuel s cfg = (s', tr, o) -> bert_wire_ok cfg tr.
Proof. exact @run_bert_wire_ok. Qed.
Print Assumptions C05_block1_wire_consistent_bert.

(* 13. Theorem 3 for a client that starts at size exponent 7: client x BERT reference server with ANY acknowledgement policy (any list of
       non-negative exponents: the server may keep 7 or lower it at once, later, repeatedly), any BERT message size of the server, atomic
       or stateless acknowledgement; every body, every representation: terminates with a 2.xx response, the server holds exactly the body,
       the caller exactly the representation, the wire is consistent.  (The Block2 policy keeps exponent 7, see honest_bert_cfg; a Block2
       phase that mixes BERT and regular blocks is covered by the correspondence streams only.) *)
Theorem C05_transfer_correct_bert : forall scf e rep, honest_bert_cfg scf e rep ->
  forall cfg, c_mbse cfg = 7 -> 1024 <= c_mps cfg -> c_block2 cfg = None ->
  forall fuel, (Z.to_nat (blen (c_body cfg)) + Z.to_nat (blen rep) + 1 < fuel)%nat ->
  exists st tr r, run (serve_ref scf) fuel sstate0 cfg = (st, tr, Done r) /\
    sv_bodies st = [c_body cfg] /\ rs_payload r = rep /\ rs_etag r = e /\ is_successful (rs_code r) = true /\
    rs_block1 r = None /\ bert_wire_ok cfg tr.
Proof. exact transfer_correct_bert_lemma. Qed.
Print Assumptions C05_transfer_correct_bert.

(* ---- non-vacuity: the hypotheses are satisfiable by concrete non-trivial instances *)
Definition ex_scf : scfg := {| s_policy1 := [2; 0]; s_policy2 := [5; 1]; s_reps := [(Some 10, mkbody 300 1)]; s_rep_at := [];
                               s_atomic := true; s_mis := None; s_bert := 0 |}.
Definition ex_cfg : ccfg := {| c_body := mkbody 1200 3; c_mps := 1124; c_mbse := 6; c_block2 := None |}.
Example ex_honest : honest_cfg ex_scf (Some 10) (mkbody 300 1).
Proof. split; try reflexivity; repeat constructor; lia. Qed.
(* a transfer with mid-transfer reductions 6 -> 2 -> 0 (9 Block1 requests) and a Block2 phase at size exponent 1 (9 more requests) *)
Example ex_transfer : (let '(st, tr, o) := run (serve_ref ex_scf) 2000 sstate0 ex_cfg in
  (length tr, map rq_block1 (firstn 3 tr), beqb (hd [] (sv_bodies st)) (mkbody 1200 3), match o with Done r => blen (rs_payload r) | _ => -1 end))
  = (18%nat, [Some (0, true, 6); Some (16, true, 2); Some (68, true, 0)], true, 300).
Proof. vm_compute. reflexivity. Qed.
(* the reference server satisfies the well-formedness hypothesis of theorem 2 *)
Example ex_serve_wf : forall st rq st' r, req_wf rq = true -> serve_ref ex_scf st rq = (st', SResp r) -> resp_wf r = true.
Proof. apply serve_ref_wf; try reflexivity; repeat constructor; lia. Qed.
(* a chain of three blocks of a tagged representation, assembled *)
Definition ex_rep := mkbody 40 9.
Definition ex_block (n : Z) (m : bool) : response :=
  {| rs_code := 69; rs_block1 := None; rs_block2 := Some (n, m, 0); rs_etag := Some 7; rs_payload := bslice ex_rep (n * 16) (n * 16 + 16); rs_maxexp := 6; rs_observe := false |}.
Example ex_block2_premises :
  NoDup (map fst [(7, ex_rep)]) /\ (forall x, In (SResp x) [SResp (ex_block 1 true); SResp (ex_block 2 false)] -> slice_of [(7, ex_rep)] x) /\
  exists tr r, complete_by_requesting_block2 serve_script 5 [SResp (ex_block 1 true); SResp (ex_block 2 false)]
                 {| rq_block1 := None; rq_block2 := None; rq_size1 := None; rq_payload := [] |} (ex_block 0 true) 6 = ([], tr, Done r)
               /\ rs_payload r = ex_rep.
Proof.
  split; [repeat constructor; cbn; tauto|]. split.
  - intros x [H|[H|[]]]; inv H; exists 7, ex_rep; (split; [left; reflexivity|]); (split; [reflexivity|]); cbn [ex_block rs_block2 rs_payload]; repeat split; try lia; reflexivity.
  - eexists _, _. split; vm_compute; reflexivity.
Qed.
(* a violated acknowledgement: premises of theorem 7 on a concrete exchange *)
Example ex_block1_error : exists rq, block1_request ex_cfg 0 6 = Ok rq /\ rq_block1 rq = Some (0, true, 6) /\
  block1_loop serve_script 3 [SResp {| rs_code := 95; rs_block1 := Some (1, true, 6); rs_block2 := None; rs_etag := None; rs_payload := []; rs_maxexp := 6; rs_observe := false |}]
     ex_cfg 0 6 6 = ([], [rq], Err UnexpectedBlock1Option).
Proof. eexists. split; [vm_compute; reflexivity|]. split; vm_compute; reflexivity. Qed.
(* premises of theorem 4b: the formerly accepted response 2.05 Block2 2/0/512 is now refused *)
Example ex_first_block_refused :
  run_script [SResp {| rs_code := 69; rs_block1 := None; rs_block2 := Some (2, false, 5); rs_etag := Some 4; rs_payload := mkbody 87 148; rs_maxexp := 6; rs_observe := false |}]
             {| c_body := []; c_mps := 1124; c_mbse := 5; c_block2 := None |}
  = ([{| rq_block1 := None; rq_block2 := None; rq_size1 := None; rq_payload := [] |}], Err UnexpectedBlock2).
Proof. vm_compute. reflexivity. Qed.
(* a schedule with duplicated requests and responses on every exchange: same transcript and body as ex_transfer *)
Example ex_retried : (let '(st, tr, o) := run (serve_retried (serve_ref ex_scf)) 2000 (rinit sstate0 [Delivered 2 1; Delivered 0 3; Delivered 4 0; Delivered 1 1]) ex_cfg in
  (length tr, map rq_block1 (firstn 3 tr), beqb (hd [] (sv_bodies (r_inner st))) (mkbody 1200 3), length (sv_bodies (r_inner st)), match o with Done r => blen (rs_payload r) | _ => -1 end))
  = (18%nat, [Some (0, true, 6); Some (16, true, 2); Some (68, true, 0)], true, 1%nat, 300).
Proof. vm_compute. reflexivity. Qed.
(* BERT: a server sending 2 blocks per message, exponent 7 kept; 5000-byte body in messages of 2048, 3000-byte representation *)
Definition ex_bert_scf : scfg := {| s_policy1 := [7]; s_policy2 := [7]; s_reps := [(Some 10, mkbody 3000 1)]; s_rep_at := [];
                                    s_atomic := true; s_mis := None; s_bert := 2 |}.
Example ex_bert_honest : honest_bert_cfg ex_bert_scf (Some 10) (mkbody 3000 1).
Proof. split; try reflexivity; try (repeat constructor; lia); intros k; unfold pol; cbn [ex_bert_scf s_policy1 s_policy2 last]; destruct (Z.to_nat k) as [|[|?]]; cbn; lia. Qed.
Example ex_bert_transfer : (let '(st, tr, o) := run (serve_ref ex_bert_scf) 100 sstate0 {| c_body := mkbody 5000 3; c_mps := 2048; c_mbse := 7; c_block2 := None |} in
  (map (fun r => (rq_block1 r, rq_block2 r, blen (rq_payload r))) tr, beqb (hd [] (sv_bodies st)) (mkbody 5000 3), match o with Done r => blen (rs_payload r) | _ => -1 end))
  = ([(Some (0, true, 7), None, 2048); (Some (2, true, 7), None, 2048); (Some (4, false, 7), None, 904); (None, Some (2, false, 7), 0)], true, 3000).
Proof. vm_compute. reflexivity. Qed.
(* the scenario of the defect fixed in 166eafe: the first BERT message (2048 bytes) is acknowledged with exponent 6; the client goes on at
   NUM 2 = offset 2048 in 1024-byte blocks and the conforming server completes the body (it used to continue at NUM 4 and get 4.08) *)
Example ex_bert_reduction : exists scf cfg st tr r,
  s_mis scf = None /\ c_mbse cfg = 7 /\
  run (serve_ref scf) 10 sstate0 cfg = (st, tr, Done r) /\
  map rq_block1 tr = [Some (0, true, 7); Some (2, true, 6); Some (3, true, 6); Some (4, false, 6)] /\
  sv_bodies st = [c_body cfg] /\ rs_code r = CHANGED.
Proof. exact bert_reduction_example. Qed.
(* premises of theorem 13 with an acknowledgement policy that lowers the exponent twice *)
Definition ex_bert_scf2 : scfg := {| s_policy1 := [7; 6; 3]; s_policy2 := [7]; s_reps := [(Some 10, mkbody 3000 1)]; s_rep_at := [];
                                     s_atomic := false; s_mis := None; s_bert := 1 |}.
Example ex_bert_honest2 : honest_bert_cfg ex_bert_scf2 (Some 10) (mkbody 3000 1).
Proof. split; try reflexivity; try (repeat constructor; lia); intros k; unfold pol; cbn [ex_bert_scf2 s_policy2 last]; destruct (Z.to_nat k) as [|[|?]]; cbn; lia. Qed.
(* the shape of seeded change C05b: 192 bytes received in three 64-byte blocks, then the request for block 3 is answered with a FINAL block
   NUM 1 / SZX 3 (offset 128, 102 bytes): refused with NotImplemented — the body with bytes 128..191 doubled is never returned *)
Definition ex_grow_block (n : Z) (m : bool) (s from to : Z) : sresult :=
  SResp {| rs_code := 69; rs_block1 := None; rs_block2 := Some (n, m, s); rs_etag := Some 4; rs_payload := bslice (mkbody 230 9) from to; rs_maxexp := 6; rs_observe := false |}.
Example ex_block2_size_grows_refused :
  let '(tr, o) := run_script [ex_grow_block 0 true 2 0 64; ex_grow_block 1 true 2 64 128; ex_grow_block 2 true 2 128 192; ex_grow_block 1 false 3 128 230]
                             {| c_body := []; c_mps := 1124; c_mbse := 6; c_block2 := None |} in
  (map rq_block2 tr, o) = ([None; Some (1, false, 2); Some (2, false, 2); Some (3, false, 2)], Err NotImplementedError).
Proof. vm_compute. reflexivity. Qed.
(* ... while a grown block that starts exactly at the assembled length (128 bytes, NUM 1 / SZX 3) is consistent and is assembled *)
Example ex_block2_size_grows_aligned :
  let '(tr, o) := run_script [ex_grow_block 0 true 2 0 64; ex_grow_block 1 true 2 64 128; ex_grow_block 1 false 3 128 230]
                             {| c_body := []; c_mps := 1124; c_mbse := 6; c_block2 := None |} in
  match o with Done r => beqb (rs_payload r) (mkbody 230 9) | _ => false end = true.
Proof. vm_compute. reflexivity. Qed.
(* round 5: the application asks for a later block itself (Block2 2/0/64): a final block 2 is handed over as it is (22 bytes), a non-final one
   cannot be continued and is refused (protocol.py:1112-1113) *)
Example ex_application_asks_later_block :
  (let '(_, o) := run_script [SResp {| rs_code := 69; rs_block1 := None; rs_block2 := Some (2, false, 2); rs_etag := Some 4; rs_payload := bslice (mkbody 150 9) 128 150; rs_maxexp := 6; rs_observe := false |}]
                             {| c_body := []; c_mps := 1124; c_mbse := 6; c_block2 := Some (2, false, 2) |} in
   match o with Done r => blen (rs_payload r) | _ => -1 end) = 22 /\
  snd (run_script [SResp {| rs_code := 69; rs_block1 := None; rs_block2 := Some (2, true, 2); rs_etag := Some 4; rs_payload := bslice (mkbody 300 9) 128 192; rs_maxexp := 6; rs_observe := false |}]
                  {| c_body := []; c_mps := 1124; c_mbse := 6; c_block2 := Some (2, false, 2) |}) = Err UnexpectedBlock2.
Proof. split; vm_compute; reflexivity. Qed.
(* premises of theorem 19 are satisfiable: a server that answers everything with the whole of ex_rep as block 0 / final *)
Definition ex_whole : response :=
  {| rs_code := 69; rs_block1 := None; rs_block2 := Some (0, false, 6); rs_etag := Some 7; rs_payload := ex_rep; rs_maxexp := 6; rs_observe := false |}.
Definition ex_const_server (s : unit) (_ : request) : unit * sresult := (s, SResp ex_whole).
Example ex_run_never_mixed_premise :
  (forall rq x, serve_answered ex_const_server rq x -> rs_block2 x <> None -> slice_of [(7, ex_rep)] x) /\
  exists tr r, run ex_const_server 5 tt {| c_body := [1; 2; 3]; c_mps := 1124; c_mbse := 6; c_block2 := None |} = (tt, tr, Done r) /\ rs_payload r = ex_rep.
Proof.
  split.
  - intros rq x (s & s1 & H) _. inv H. exists 7, ex_rep. split; [left; reflexivity|]. split; [reflexivity|].
    cbn [ex_whole rs_block2 rs_payload]. split; [lia|]. split; [lia|]. split; vm_compute; reflexivity.
  - eexists _, _. split; vm_compute; reflexivity.
Qed.
(* round 6: a schedule that duplicates, then kills the third exchange (its request never arrives): NetworkError after three requests, a prefix
   of the loss-free transcript of ex_transfer *)
Example ex_dead_exchange : (let '(st, tr, o) := run (serve_retried (serve_ref ex_scf)) 2000 (rinit sstate0 [Delivered 2 1; Delivered 0 3; Dead false; Delivered 1 1]) ex_cfg in
  (map rq_block1 tr, o, sv_bodies (r_inner st))) = ([Some (0, true, 6); Some (16, true, 2); Some (68, true, 0)], Err NetworkError, []).
Proof. vm_compute. reflexivity. Qed.
