(* C05 — block-wise client transfers deliver both bodies intact or fail loudly.
   Only statements here; every proof is [exact <lemma of Proofs/C05.v>].
   extract_block, bt_* are TRANSLATED from aiocoap/message.py and aiocoap/optiontypes.py on every check (Gen/block_kernels.v);
   run / block1_loop / complete_by_requesting_block2 (Model/C05.v) model protocol.py BlockwiseRequest._run and
   _complete_by_requesting_block2; serve_ref (Model/C05Server.v) is the RFC 7959 reference server; serve_script is the server that
   answers with an arbitrary given list of responses.  bsize szx = 2^(szx+4).  Size exponent 7 (BERT) is not covered (tier B). *)
From Verif Require Import Lib.Py Lib.PyLemmas Lib.Tactics Gen.block_kernels Model.C05 Model.C05Server Proofs.C05.
Open Scope Z_scope.

(* 1. _extract_block partitions the body: block NUM is exactly the bytes at offset NUM*size, it has the full size and the more-flag
      exactly when bytes remain after it, the final block is non-empty and ends at the end of the body, and BadRequest is raised
      exactly for blocks that start at or beyond the end. *)
Theorem C05_extract_blocks_partition : forall body szx mbs n, 0 <= szx <= 6 -> 0 <= n ->
  (blen body <= n * bsize szx -> extract_block body n szx mbs = Raise BadRequest) /\
  (n * bsize szx < blen body -> exists pl more,
      extract_block body n szx mbs = Ok (pl, (n, more, szx)) /\
      bto body (n * bsize szx) ++ pl = bto body (n * bsize szx + blen pl) /\
      (more = true -> blen pl = bsize szx /\ n * bsize szx + bsize szx < blen body) /\
      (more = false -> 0 < blen pl <= bsize szx /\ n * bsize szx + blen pl = blen body)).
Proof. exact extract_blocks_partition_lemma. Qed.
Print Assumptions C05_extract_blocks_partition.

(* 2. On the wire, against ANY server (any state type, any reaction, responses as Message.decode can produce them), for every body,
      every client maximum exponent 0..6 and every fuel: the requests of a run are either one unfragmented request carrying the whole
      body (body not longer than the threshold), or a Block1 chain from offset 0 (b1_chain): NUM * size = bytes sent so far, the
      payload is exactly the next bytes of the body, more-flag exactly on non-final blocks, non-final blocks full, the size exponent
      never grows and never exceeds the client's maximum, Size1 = body length on block 0 only, and no Block1 option after the chain. *)
Theorem C05_block1_wire_consistent : forall (S : Type) (serve : S -> request -> S * sresult),
  (forall s rq s' r, req_wf rq = true -> serve s rq = (s', SResp r) -> resp_wf r = true) ->
  forall cfg fuel s s' tr o,
  0 <= c_mbse cfg <= 6 -> 0 <= c_mps cfg -> bt_wf (c_block2 cfg) = true ->
  run serve fuel s cfg = (s', tr, o) -> wire_ok cfg tr.
Proof. exact @run_wire_ok. Qed.
Print Assumptions C05_block1_wire_consistent.

(* 3. Client x reference server: for every request body, every representation, every client maximum exponent 0..6, every policy of
      the server (ANY sequence of non-negative exponents for its Block1 acknowledgements and for its Block2 blocks — late and
      mid-transfer reductions, also non-monotone ones; atomic or stateless acknowledgement) the run terminates with a successful
      response, the server has reassembled exactly one body and it is the payload handed to the request API, the body returned is
      the server's representation with its ETag, and the wire is consistent. *)
Theorem C05_transfer_correct : forall scf e rep, honest_cfg scf e rep ->
  forall cfg, 0 <= c_mbse cfg <= 6 -> 0 <= c_mps cfg ->
  (c_block2 cfg = None \/ exists m2 s2, c_block2 cfg = Some (0, m2, s2) /\ 0 <= s2 <= 6) ->
  forall fuel, (Z.to_nat (blen (c_body cfg)) + Z.to_nat (blen rep) + 1 < fuel)%nat ->
  exists st tr r, run (serve_ref scf) fuel sstate0 cfg = (st, tr, Done r) /\
    sv_bodies st = [c_body cfg] /\ rs_payload r = rep /\ rs_etag r = e /\ is_successful (rs_code r) = true /\
    rs_block1 r = None /\ wire_ok cfg tr.
Proof. exact transfer_correct_lemma. Qed.
Print Assumptions C05_transfer_correct.

(* 4. Block2 assembly against ANY list of responses: a response handed to the caller is the first response itself (no Block2, or block 0
      with the more-flag clear — a later block only if the application itself asked for a later block), or — by design, protocol.py:1123 —
      a later response without Block2 option, or the in-order concatenation of a chain in which every block starts exactly where the
      assembled bytes end (NUM * size = length so far), carries the ETag of the first block, is exactly one block long when more follow
      and at most one block long when final (b2_chain). *)
Theorem C05_block2_assembly_exact : forall fuel script t initial mbse rest tr r,
  complete_by_requesting_block2 serve_script fuel script t initial mbse = (rest, tr, Done r) ->
  (r = initial /\ rs_block2 initial = None /\ rest = script) \/
  (exists b, rs_block2 initial = Some b /\ bt_more b = false /\
             (bt_num b = 0 \/ exists rb, rq_block2 t = Some rb /\ bt_num rb <> 0) /\
             r = clear_block2 initial /\ rest = script) \/
  (exists szx consumed, rs_block2 initial = Some (0, true, szx) /\ script = map SResp consumed ++ rest /\
                        b2_chain initial consumed r /\ length tr = length consumed).
Proof. exact block2_assembly_exact_lemma. Qed.
Print Assumptions C05_block2_assembly_exact.

(* 4b. (defect fixed in 69c1201) a first response that names a later block — final or not — ends the request with UnexpectedBlock2,
       unless the application itself asked for a later block. *)
Theorem C05_first_block2_number_checked : forall (S : Type) (serve : S -> request -> S * sresult) fuel s t initial mbse b,
  rs_block2 initial = Some b -> bt_num b <> 0 ->
  (rq_block2 t = None \/ exists rb, rq_block2 t = Some rb /\ bt_num rb = 0) ->
  complete_by_requesting_block2 serve fuel s t initial mbse = (s, [], Err UnexpectedBlock2).
Proof. exact @first_block2_number_checked_lemma. Qed.
Print Assumptions C05_first_block2_number_checked.

(* 5. ... hence, whenever and however often the representation changes during the transfer: if every block the server sends is a slice
      of one of its representations tagged with that representation's ETag (ETags distinct), a body handed to the caller is one of
      the representations, whole — never truncated, duplicated or mixed. *)
Theorem C05_block2_never_mixed : forall reps, NoDup (map fst reps) ->
  forall fuel script t initial mbse rest tr r e rep szx,
  In (e, rep) reps -> rs_etag initial = Some e -> rs_block2 initial = Some (0, true, szx) -> 0 <= szx <= 6 ->
  rs_payload initial = bto rep (bsize szx) -> bsize szx < blen rep ->
  (forall x, In (SResp x) script -> slice_of reps x) ->
  complete_by_requesting_block2 serve_script fuel script t initial mbse = (rest, tr, Done r) ->
  exists e' rep', In (e', rep') reps /\ rs_payload r = rep'.
Proof. exact block2_never_mixed_lemma. Qed.
Print Assumptions C05_block2_never_mixed.

(* 6. A later block that is not exactly one block long while more follow / longer than one block when final, that does not continue at
      the assembled length, or whose ETag differs, ends the request at once with UnexpectedBlock2 / NotImplemented / ResourceChanged. *)
Theorem C05_block2_server_errors : forall (S : Type) (serve : S -> request -> S * sresult) f s t acc mbse rq s1 x n m szx,
  generate_next_block2_request t acc mbse = Ok rq -> serve s rq = (s1, SResp x) ->
  rs_block2 x = Some (n, m, szx) -> 0 <= szx <= 6 ->
  let valid := if m then blen (rs_payload x) =? bsize szx else blen (rs_payload x) <=? bsize szx in
  (valid = false -> block2_loop serve (Datatypes.S f) s t acc mbse = (s1, [rq], Err UnexpectedBlock2)) /\
  (valid = true -> n * bsize szx <> blen (rs_payload acc) ->
     block2_loop serve (Datatypes.S f) s t acc mbse = (s1, [rq], Err NotImplementedError)) /\
  (valid = true -> n * bsize szx = blen (rs_payload acc) -> etag_eqb (rs_etag x) (rs_etag acc) = false ->
     block2_loop serve (Datatypes.S f) s t acc mbse = (s1, [rq], Err ResourceChanged)).
Proof. exact @block2_server_errors_lemma. Qed.
Print Assumptions C05_block2_server_errors.

(* 7. A wrong block number in a Block1 acknowledgement, or the more-flag / 2.31 on the acknowledgement of the final block, ends the
      request at once with UnexpectedBlock1Option; a transport failure of a sub-request ends it with that failure. *)
Theorem C05_block1_server_errors : forall (S : Type) (serve : S -> request -> S * sresult) cfg f s cursor size_exp mbse rq s1 resp cb b1,
  block1_request cfg cursor size_exp = Ok rq -> serve s rq = (s1, SResp resp) ->
  rq_block1 rq = Some cb -> rs_block1 resp = Some b1 ->
  (bt_num b1 <> bt_num cb \/ (bt_more cb = false /\ (bt_more b1 = true \/ rs_code resp = CONTINUE))) ->
  block1_loop serve (Datatypes.S f) s cfg cursor size_exp mbse = (s1, [rq], Err UnexpectedBlock1Option).
Proof. exact @block1_server_errors_lemma. Qed.
Print Assumptions C05_block1_server_errors.
Theorem C05_block1_transport_failure : forall (S : Type) (serve : S -> request -> S * sresult) cfg f s cursor size_exp mbse rq s1,
  block1_request cfg cursor size_exp = Ok rq -> serve s rq = (s1, SFail) ->
  block1_loop serve (Datatypes.S f) s cfg cursor size_exp mbse = (s1, [rq], Err NetworkError).
Proof. exact @block1_transport_failure. Qed.
Print Assumptions C05_block1_transport_failure.

(* ---- non-vacuity: the hypotheses are satisfiable by concrete non-trivial instances *)
Definition ex_scf : scfg := {| s_policy1 := [2; 0]; s_policy2 := [5; 1]; s_reps := [(Some 10, mkbody 300 1)]; s_rep_at := [];
                               s_atomic := true; s_mis := None |}.
Definition ex_cfg : ccfg := {| c_body := mkbody 1200 3; c_mps := 1124; c_mbse := 6; c_block2 := None |}.
Example ex_honest : honest_cfg ex_scf (Some 10) (mkbody 300 1).
Proof. split; try reflexivity; repeat constructor; lia. Qed.
(* a transfer with mid-transfer reductions 6 -> 2 -> 0 (9 Block1 requests) and a Block2 phase at size exponent 1 (9 more requests) *)
Example ex_transfer : (let '(st, tr, o) := run (serve_ref ex_scf) 2000 sstate0 ex_cfg in
  (length tr, map rq_block1 (firstn 3 tr), beqb (hd [] (sv_bodies st)) (mkbody 1200 3), match o with Done r => blen (rs_payload r) | _ => -1 end))
  = (18%nat, [Some (0, true, 6); Some (16, true, 2); Some (68, true, 0)], true, 300).
Proof. vm_compute. reflexivity. Qed.
(* the reference server satisfies the well-formedness hypothesis of theorem 2 *)
Example ex_serve_wf : forall st rq st' r, req_wf rq = true -> serve_ref ex_scf st rq = (st', SResp r) -> resp_wf r = true.
Proof. apply serve_ref_wf; try reflexivity; repeat constructor; lia. Qed.
(* a chain of three blocks of a tagged representation, assembled *)
Definition ex_rep := mkbody 40 9.
Definition ex_block (n : Z) (m : bool) : response :=
  {| rs_code := 69; rs_block1 := None; rs_block2 := Some (n, m, 0); rs_etag := Some 7; rs_payload := bslice ex_rep (n * 16) (n * 16 + 16); rs_maxexp := 6 |}.
Example ex_block2_premises :
  NoDup (map fst [(7, ex_rep)]) /\ (forall x, In (SResp x) [SResp (ex_block 1 true); SResp (ex_block 2 false)] -> slice_of [(7, ex_rep)] x) /\
  exists tr r, complete_by_requesting_block2 serve_script 5 [SResp (ex_block 1 true); SResp (ex_block 2 false)]
                 {| rq_block1 := None; rq_block2 := None; rq_size1 := None; rq_payload := [] |} (ex_block 0 true) 6 = ([], tr, Done r)
               /\ rs_payload r = ex_rep.
Proof.
  split; [repeat constructor; cbn; tauto|]. split.
  - intros x [H|[H|[]]]; inv H; exists 7, ex_rep; (split; [left; reflexivity|]); (split; [reflexivity|]); cbn [ex_block rs_block2 rs_payload]; repeat split; try lia; reflexivity.
  - eexists _, _. split; vm_compute; reflexivity.
Qed.
(* a violated acknowledgement: premises of theorem 7 on a concrete exchange *)
Example ex_block1_error : exists rq, block1_request ex_cfg 0 6 = Ok rq /\ rq_block1 rq = Some (0, true, 6) /\
  block1_loop serve_script 3 [SResp {| rs_code := 95; rs_block1 := Some (1, true, 6); rs_block2 := None; rs_etag := None; rs_payload := []; rs_maxexp := 6 |}]
     ex_cfg 0 6 6 = ([], [rq], Err UnexpectedBlock1Option).
Proof. eexists. split; [vm_compute; reflexivity|]. split; vm_compute; reflexivity. Qed.
(* premises of theorem 4b: the formerly accepted response 2.05 Block2 2/0/512 is now refused *)
Example ex_first_block_refused :
  run_script [SResp {| rs_code := 69; rs_block1 := None; rs_block2 := Some (2, false, 5); rs_etag := Some 4; rs_payload := mkbody 87 148; rs_maxexp := 6 |}]
             {| c_body := []; c_mps := 1124; c_mbse := 5; c_block2 := None |}
  = ([{| rq_block1 := None; rq_block2 := None; rq_size1 := None; rq_payload := [] |}], Err UnexpectedBlock2).
Proof. vm_compute. reflexivity. Qed.
