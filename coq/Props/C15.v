(* C15 — CoAP over TCP (RFC 8323): framing independent of segmentation, signalling rules.
   Only statements here; every proof is [exact <lemma of Proofs/C15*.v>].
   extract_message_size / encode_length / read_ / write_extended_field_value are the definitions
   translated from tcp.py / options.py on every run (coq/Gen); the rest is Model/C15.v. *)
From Verif Require Import Lib.Py Lib.Tactics Gen.options_ext Gen.tcp_framing Model.C15 Model.C15Sys Proofs.C15 Proofs.C15Gate Proofs.C15Total Proofs.C15Interleave Proofs.C15Compose Proofs.C15Sys Proofs.C15R6 Proofs.C15R6b.
Open Scope Z_scope.

(* ---- RFC 8323 section 3.2 length coding *)
(* _encode_length produces exactly the RFC's Len nibble and Extended Length bytes, in every range
   (boundaries 13 / 269 / 65805), and overflows beyond 65805 + 2^32 - 1 *)
Theorem C15_encode_length_is_rfc8323 : forall n, 0 <= n < 65805 + 2 ^ 32 -> encode_length n = Ok (rfc8323_len n).
Proof. exact encode_length_rfc8323. Qed.
Print Assumptions C15_encode_length_is_rfc8323.

(* _extract_message_size never raises and is the header reader [header] *)
Theorem C15_extract_message_size_total : forall data, extract_message_size data = Ok (header data).
Proof. exact extract_message_size_spec. Qed.
Print Assumptions C15_extract_message_size_total.

(* what _encode_length wrote is read back by _extract_message_size, for every length, token length and continuation *)
Theorem C15_length_roundtrip : forall n tkl rest, 0 <= n < 65805 + 2 ^ 32 -> 0 <= tkl < 16 ->
  extract_message_size ((Z.lor (Z.shiftl (fst (rfc8323_len n)) 4) tkl :: snd (rfc8323_len n)) ++ rest)
  = Ok (Some (2 + blen (snd (rfc8323_len n)), tkl, n)).
Proof. exact extract_length_roundtrip. Qed.
Print Assumptions C15_length_roundtrip.

(* _serialize output is: (Len | TKL) byte, extended length, code, token, options, [0xFF payload] — for options
   added to the message in ANY order ([opts m] is the insertion sequence; option_list sorts it stably by number) *)
Theorem C15_serialize_is_rfc8323 : forall m b, serialize m = Ok b ->
  exists od, options_encode (option_list (opts m)) = Ok od /\
    let data := od ++ (match payload m with [] => [] | _ => 255 :: payload m end) in
    0 <= blen data < 65805 + 2 ^ 32 /\ blen (token m) <= 8 /\
    b = (Z.lor (Z.shiftl (fst (rfc8323_len (blen data))) 4) (blen (token m)) :: snd (rfc8323_len (blen data)))
        ++ [code m] ++ token m ++ data.
Proof. exact serialize_inv. Qed.
Print Assumptions C15_serialize_is_rfc8323.

(* decoding a serialised message gives back the message: code, token, options, payload *)
Theorem C15_decode_serialize : forall m b, msg_ok m = true -> serialize m = Ok b ->
  decode_message b = Ok m /\ bytes_ok b = true /\
  exists a l, header b = Some (a, blen (token m), l) /\ a + blen (token m) + l = blen b /\ 2 <= a.
Proof. exact decode_serialize. Qed.
Print Assumptions C15_decode_serialize.

(* the same for any insertion order of the options: the receiver sees them in option_list() order *)
Theorem C15_decode_serialize_any_order : forall m b, msg_ok (canon m) = true -> serialize m = Ok b ->
  decode_message b = Ok (canon m) /\ bytes_ok b = true /\
  exists a l, header b = Some (a, blen (token m), l) /\ a + blen (token m) + l = blen b /\ 2 <= a.
Proof. exact decode_serialize_any. Qed.
Print Assumptions C15_decode_serialize_any_order.
(* option_list() leaves options that were added in non-decreasing number order alone *)
Theorem C15_option_list_sorted_id : forall cur os, opts_ok cur os = true -> option_list os = os.
Proof. exact option_list_sorted_id. Qed.
Print Assumptions C15_option_list_sorted_id.

(* ---- segmentation independence *)
(* however a byte stream is cut into (a non-empty list of) chunks, the connection behaves, up to and
   including the first close() of the transport, as if the stream had arrived in one piece *)
Theorem C15_framing_chunk_independent : forall rest c d, closed c = false -> bytes_ok (spool c) = true ->
  bytes_ok d = true -> Forall (fun x => bytes_ok x = true) rest ->
  upto_close (snd (run c (map EData (d :: rest)))) = upto_close (snd (data_received c (concat (d :: rest)))).
Proof. exact chunking_nonempty. Qed.
Print Assumptions C15_framing_chunk_independent.

(* ... and since a close() is always the last thing a data_received call does (next theorem), the complete
   outputs are the same for every segmentation *)
Theorem C15_framing_chunk_independent_exact : forall rest c d, closed c = false -> bytes_ok (spool c) = true ->
  bytes_ok d = true -> Forall (fun x => bytes_ok x = true) rest ->
  snd (run c (map EData (d :: rest))) = snd (data_received c (concat (d :: rest))).
Proof. exact chunking_exact. Qed.
Print Assumptions C15_framing_chunk_independent_exact.

(* nothing is processed, written or dispatched after the endpoint closed the transport (own Abort, or
   the peer's Release/Abort): within a data_received call the Close is the last output *)
Theorem C15_nothing_after_close : forall c d, closed c = false -> bytes_ok (spool c) = true -> bytes_ok d = true ->
  upto_close (snd (data_received c d)) = snd (data_received c d).
Proof. exact data_received_close_last. Qed.
Print Assumptions C15_nothing_after_close.

(* ... also in histories that interleave data with outgoing messages and connection loss: cutting any data
   chunk in two (equivalently, merging two adjacent chunks) at any place of any history changes no output.
   Any two segmentations of the data between the same other events are connected by such steps. *)
Theorem C15_framing_chunk_independent_interleaved : forall pre post c a b, bytes_ok (spool c) = true ->
  Forall data_ok pre -> bytes_ok a = true -> bytes_ok b = true ->
  snd (run c (pre ++ EData (a ++ b) :: post)) = snd (run c (pre ++ EData a :: EData b :: post)).
Proof. exact split_chunk_anywhere. Qed.
Print Assumptions C15_framing_chunk_independent_interleaved.

(* the loop's fuel (spool length + 1) always suffices: more fuel changes nothing *)
Theorem C15_loop_fuel_irrelevant : forall n n' c, bytes_ok (spool c) = true ->
  (length (spool c) < n)%nat -> (length (spool c) < n')%nat -> data_received_loop n c = data_received_loop n' c.
Proof. exact loop_fuel. Qed.
Print Assumptions C15_loop_fuel_irrelevant.

(* the stream of the frames of any sequence of well-formed messages within the local size limit is
   processed exactly as the message sequence, message by message (outputs and final state but the spool) *)
Theorem C15_stream_processed_as_messages : forall ms c bs,
  Forall (fun m => msg_ok m = true) ms -> Forall (fun m => fits (my_max_message_size c) m = true) ms ->
  frames ms = Ok bs -> spool c = [] ->
  let '(c1, o1) := data_received c bs in let '(c2, o2) := process_messages c ms in
  o1 = o2 /\ set_spool c1 [] = set_spool c2 [].
Proof. exact stream_processed_as_messages. Qed.
Print Assumptions C15_stream_processed_as_messages.

(* ---- totality: nothing but UnparsableMessage leaves the parser, nothing leaves data_received *)
(* Options.decode on EVERY byte string: a result or UnparsableMessage; option numbers are bounded by the input length *)
Theorem C15_options_decode_total : forall fuel num raw, bytes_ok raw = true -> 0 <= num -> (length raw < fuel)%nat ->
  (exists os p, options_decode_loop fuel num raw = Ok (os, p) /\
     Forall (fun o => 0 <= fst o <= num + 65804 * blen raw) os) \/
  options_decode_loop fuel num raw = Raise UnparsableMessage.
Proof. exact options_decode_loop_total. Qed.
Print Assumptions C15_options_decode_total.

(* _decode_message on EVERY complete frame (what data_received passes to it): a message with a token of at most
   8 bytes, or UnparsableMessage — no IndexError, TypeError, UnicodeDecodeError, ... *)
Theorem C15_decode_message_total : forall f a t l, bytes_ok f = true -> header f = Some (a, t, l) -> a + t + l = blen f ->
  (exists m, decode_message f = Ok m /\ blen (token m) <= 8 /\
     Forall (fun o => 0 <= fst o <= 65804 * blen f) (opts m)) \/
  decode_message f = Raise UnparsableMessage.
Proof. exact decode_message_total. Qed.
Print Assumptions C15_decode_message_total.

(* for every connection state and every chunk of bytes: data_received yields outputs and a new state and no
   exception leaves it (local maximum message size at most 2^40; aiocoap's is 2^20): whatever the parser rejects
   has become Abort + close, and the Abort / Pong messages the endpoint builds itself always serialise *)
Theorem C15_no_exception_escapes : forall c d, bytes_ok (spool c) = true -> bytes_ok d = true ->
  my_max_message_size c <= 2 ^ 40 -> existsb is_escaped (snd (data_received c d)) = false.
Proof. exact data_received_no_esc. Qed.
Print Assumptions C15_no_exception_escapes.

(* ---- compositions (round 5) *)
(* clause 2 end to end: the frames of any sequence of requests / responses arriving after the CSM — in one
   piece; by C15_framing_chunk_independent_exact in any segmentation — make the endpoint hand exactly these
   messages to the token manager, in order, and leave the connection as it was *)
Theorem C15_dispatches_exactly_sent : forall ms c bs s, remote_settings c = Some s -> spool c = [] -> closed c = false ->
  Forall (plain_ok (my_max_message_size c)) ms -> frames ms = Ok bs ->
  data_received c bs = (c, map dispatch_out ms).
Proof. exact dispatches_exactly_sent. Qed.
Print Assumptions C15_dispatches_exactly_sent.

(* whatever follows a stream of good frames (any messages, signalling included, that leave the connection open) is
   processed from the state those messages lead to, its outputs appended *)
Theorem C15_after_good_prefix : forall ms c bs rest, spool c = [] -> closed c = false -> my_max_message_size c <= 2 ^ 40 ->
  Forall (fun m => msg_ok m = true) ms -> Forall (fun m => fits (my_max_message_size c) m = true) ms ->
  frames ms = Ok bs -> bytes_ok rest = true ->
  closed (fst (process_messages c ms)) = false ->
  snd (data_received c (bs ++ rest)) =
  snd (process_messages c ms) ++ snd (data_received (fst (process_messages c ms)) rest) /\
  spool (fst (process_messages c ms)) = [] /\
  my_max_message_size (fst (process_messages c ms)) = my_max_message_size c.
Proof. exact after_good_prefix. Qed.
Print Assumptions C15_after_good_prefix.

(* clauses 5 / 6 at ANY position of the stream: an oversized announcement, or a complete frame that does not
   parse, after any number of good messages: their outputs, then exactly Abort + close *)
Theorem C15_abort_after_good_prefix_oversize : forall ms c bs bad a t l, spool c = [] -> closed c = false ->
  my_max_message_size c <= 2 ^ 40 ->
  Forall (fun m => msg_ok m = true) ms -> Forall (fun m => fits (my_max_message_size c) m = true) ms ->
  frames ms = Ok bs -> bytes_ok bad = true -> closed (fst (process_messages c ms)) = false ->
  header bad = Some (a, t, l) -> a + t + l > my_max_message_size c ->
  snd (data_received c (bs ++ bad)) = snd (process_messages c ms) ++ [Write (abort_frame txt_overly_large); Close].
Proof. exact abort_after_good_prefix_oversize. Qed.
Print Assumptions C15_abort_after_good_prefix_oversize.
Theorem C15_abort_after_good_prefix_unparsable : forall ms c bs bad f r, spool c = [] -> closed c = false ->
  my_max_message_size c <= 2 ^ 40 ->
  Forall (fun m => msg_ok m = true) ms -> Forall (fun m => fits (my_max_message_size c) m = true) ms ->
  frames ms = Ok bs -> bytes_ok bad = true -> closed (fst (process_messages c ms)) = false ->
  view_of (my_max_message_size c) bad = VFrame f r -> decode_message f = Raise UnparsableMessage ->
  snd (data_received c (bs ++ bad)) = snd (process_messages c ms) ++ [Write (abort_frame txt_failed_to_parse); Close].
Proof. exact abort_after_good_prefix_unparsable. Qed.
Print Assumptions C15_abort_after_good_prefix_unparsable.

(* ---- the token-interface entry for outgoing messages, _TCPPooling.send_message (round 5) *)
Theorem C15_send_message_masked : forall c m, no_response_masked m = true -> pool_send_message c m = (c, [], true).
Proof. exact pool_send_masked. Qed.
Print Assumptions C15_send_message_masked.
Theorem C15_send_message_unmasked : forall c m, no_response_masked m = false ->
  pool_send_message c m = send_message c (strip_no_response m) /\
  Forall (fun o => fst o <> 258) (option_list (opts (strip_no_response m))) /\
  code (strip_no_response m) = code m /\ token (strip_no_response m) = token m /\ payload (strip_no_response m) = payload m.
Proof. exact pool_send_unmasked. Qed.
Print Assumptions C15_send_message_unmasked.

(* ---- clause 9 beyond the connection: pool and token manager (Model/C15Sys.v, round 5) *)
(* the exception handed to the requests is a NetworkError: RemoteServerShutdown as it is, None wrapped *)
Theorem C15_failure_is_network_error : forall x, delivered_is_network (tm_wrap x) = true.
Proof. exact tm_wrap_network. Qed.
Print Assumptions C15_failure_is_network_error.

(* the peer's Release / Abort: exactly one NetworkError for every request outstanding on that connection, in table
   order, then close; these requests leave the table, the connection leaves the pool, everything else is untouched *)
Theorem C15_peer_close_fails_pending : forall s id c m, code m = RELEASE \/ code m = ABORT -> has_critical (opts m) = false ->
  let k := if code m =? RELEASE then PeerReleased else PeerAborted in
  route_all id (snd (fst (handle_message c m))) s =
  ({| conns := conns s; pool := filter (fun i => negb (i =? id)) (pool s);
      outgoing := filter (fun r => negb (r_remote r =? id)) (outgoing s) |},
   map (fun r => SFail (r_token r) id (DAsIs (XShutdown k))) (filter (fun r => r_remote r =? id) (outgoing s)) ++ [SConn id Close]).
Proof. exact peer_close_fails_pending. Qed.
Print Assumptions C15_peer_close_fails_pending.

(* in general: whenever a connection reports the peer's Release / Abort or its loss anywhere among its outputs, every
   request that was outstanding on it has got a terminal event (its final response if that came first, else a
   NetworkError), none stays in the table, the connection is out of the pool, other connections' requests are untouched *)
Theorem C15_dead_connection_fails_pending : forall os id s k, In (DispatchError k) os ->
  let '(s1, x) := route_all id os s in
  (forall r, In r (outgoing s) -> r_remote r = id -> terminal id r x) /\
  (forall r, In r (outgoing s1) -> r_remote r <> id) /\ ~ In id (pool s1) /\
  filter (other id) (outgoing s1) = filter (other id) (outgoing s) /\
  (forall i, i <> id -> In i (pool s) -> In i (pool s1)) /\
  (forall t i d, In (SFail t i d) x -> i = id /\ delivered_is_network d = true).
Proof. exact dead_connection_fails_pending. Qed.
Print Assumptions C15_dead_connection_fails_pending.

(* ... for bytes arriving on a pooled connection, and for connection_lost (which is also what ends the requests
   after the endpoint's OWN Abort: asyncio calls connection_lost after close()) *)
Theorem C15_data_with_peer_close_fails_pending : forall s id c d k, get_conn id (conns s) = Some c -> closed c = false ->
  In (DispatchError k) (snd (data_received c d)) ->
  let '(s1, x) := sys_step s (PData id d) in
  (forall r, In r (outgoing s) -> r_remote r = id -> terminal id r x) /\
  (forall r, In r (outgoing s1) -> r_remote r <> id) /\ ~ In id (pool s1) /\
  filter (other id) (outgoing s1) = filter (other id) (outgoing s).
Proof. exact sys_step_data_dead. Qed.
Print Assumptions C15_data_with_peer_close_fails_pending.
Theorem C15_connection_lost_fails_pending : forall s id,
  let '(s1, x) := sys_step s (PLost id) in
  (forall r, In r (outgoing s) -> r_remote r = id -> terminal id r x) /\
  (forall r, In r (outgoing s1) -> r_remote r <> id) /\ ~ In id (pool s1) /\
  filter (other id) (outgoing s1) = filter (other id) (outgoing s).
Proof. exact sys_step_lost_dead. Qed.
Print Assumptions C15_connection_lost_fails_pending.
Theorem C15_release_abort_frames : forall c, spool c = [] -> 2 <= my_max_message_size c ->
  snd (data_received c [0; 228]) = [DispatchError PeerReleased; Close] /\
  snd (data_received c [0; 229]) = [DispatchError PeerAborted; Close].
Proof. exact release_frame. Qed.
Print Assumptions C15_release_abort_frames.

(* ---- histories of the endpoint (round 6) *)
(* whatever happened before — any requests, any bytes on any connection, in particular the endpoint's OWN Abort after a
   bad frame, which by itself fails nobody — once connection_lost is reported for a connection, every request that was
   in the table for it has received a terminal event (final response or NetworkError), none is left, it is out of the pool *)
Theorem C15_lost_ends_all_pending : forall es s id r, In r (outgoing s) -> r_remote r = id ->
  let '(s1, x) := sys_run s (es ++ [PLost id]) in
  terminal id r x /\ (forall q, In q (outgoing s1) -> r_remote q <> id) /\ ~ In id (pool s1).
Proof. exact lost_ends_all_pending. Qed.
Print Assumptions C15_lost_ends_all_pending.

(* over every history in which requests are issued under keys not in the table and (t, i) is not issued again: uniqueness
   of keys is kept; the request (t, i) gets AT MOST ONE terminal event; once it has, it is out of the table; a key that is
   not in the table gets no event at all (no response after a failure, no second failure) — [step_facts] *)
Theorem C15_at_most_one_terminal : forall es s t i, uniq s -> fresh_run s es -> existsb (requests t i) es = false ->
  let '(s1, x) := sys_run s es in
  uniq s1 /\ (tcnt t i s1 <= tcnt t i s)%nat /\ (tcnt t i s = 0%nat -> cnt (ev_is t i) x = 0%nat) /\
  (cnt (term_is t i) x <= 1)%nat /\ (cnt (term_is t i) x = 1%nat -> tcnt t i s1 = 0%nat).
Proof. exact at_most_one_terminal. Qed.
Print Assumptions C15_at_most_one_terminal.

(* the hypotheses follow from reachability: from an empty table, any history with pairwise distinct request keys
   (TokenManager.next_token is a counter) keeps the table a dict and issues only fresh keys ... *)
Theorem C15_fresh_from_distinct : forall es s, uniq s -> distinct_reqs es = true ->
  (forall t i, existsb (requests t i) es = true -> tcnt t i s = 0%nat) -> fresh_run s es.
Proof. exact fresh_from_distinct. Qed.
Print Assumptions C15_fresh_from_distinct.
(* ... so: at most one terminal event per request, unconditionally over such histories *)
Theorem C15_at_most_one_terminal_reachable : forall es1 es2 s t i, outgoing s = [] ->
  distinct_reqs (es1 ++ es2) = true -> existsb (requests t i) es2 = false ->
  (cnt (term_is t i) (snd (sys_run (fst (sys_run s es1)) es2)) <= 1)%nat.
Proof. exact at_most_one_terminal_reachable. Qed.
Print Assumptions C15_at_most_one_terminal_reachable.

(* ---- per message: dispatch, CSM gate, empty, Ping/Pong, Release/Abort *)
Theorem C15_dispatch_exact : forall c m s, remote_settings c = Some s -> is_signalling (code m) = false -> code m <> 0 ->
  handle_message c m = (c, [if is_response (code m) then Response m else Request m], Continue).
Proof. exact dispatch_exact. Qed.
Print Assumptions C15_dispatch_exact.

Theorem C15_csm_gate : forall c m, remote_settings c = None -> is_signalling (code m) = false ->
  handle_message c m = (set_closed c, [Write (abort_frame txt_no_csm); Close], Return).
Proof. exact csm_gate_message. Qed.
Print Assumptions C15_csm_gate.

Theorem C15_empty_ignored : forall c m s, remote_settings c = Some s -> code m = 0 -> handle_message c m = (c, [], Continue).
Proof. exact empty_ignored. Qed.
Print Assumptions C15_empty_ignored.

Theorem C15_ping_pong : forall c m, code m = PING -> has_critical (opts m) = false -> blen (token m) <= 8 ->
  process_signaling c m = (c, [Write ([blen (token m); PONG] ++ token m)], SOk).
Proof. exact ping_pong. Qed.
Print Assumptions C15_ping_pong.

Theorem C15_release_abort_fail_requests : forall c m, code m = RELEASE \/ code m = ABORT -> has_critical (opts m) = false ->
  handle_message c m =
  (set_closed c, [DispatchError (if code m =? RELEASE then PeerReleased else PeerAborted); Close], Return).
Proof. exact release_abort_close. Qed.
Print Assumptions C15_release_abort_fail_requests.

(* over EVERY history of data chunks (any segmentation), outgoing messages and connection loss:
   once set the settings stay set, and as long as they are unset (no CSM received) nothing at all
   has been handed to the token manager *)
Theorem C15_csm_gate_run : forall es c, bytes_ok (spool c) = true ->
  Forall (fun e => match e with EData d => bytes_ok d = true | _ => True end) es ->
  let '(c1, o1) := run c es in
  (remote_settings c <> None -> remote_settings c1 <> None) /\
  (remote_settings c1 = None -> existsb is_dispatch o1 = false).
Proof. exact csm_gate_run_stated. Qed.
Print Assumptions C15_csm_gate_run.

(* ---- Abort and close on the error conditions *)
Theorem C15_abort_on_oversize : forall c d a t l, header (spool c ++ d) = Some (a, t, l) -> a + t + l > my_max_message_size c ->
  data_received c d = (set_closed (feed c d), [Write (abort_frame txt_overly_large); Close]).
Proof. exact abort_on_oversize. Qed.
Print Assumptions C15_abort_on_oversize.

Theorem C15_abort_on_unparsable : forall c d f r, view_of (my_max_message_size c) (spool c ++ d) = VFrame f r ->
  decode_message f = Raise UnparsableMessage ->
  data_received c d = (set_closed (feed c d), [Write (abort_frame txt_failed_to_parse); Close]).
Proof. exact abort_on_unparsable. Qed.
Print Assumptions C15_abort_on_unparsable.

Theorem C15_tkl_above_8_unparsable : forall f a t l, header f = Some (a, t, l) -> t > 8 -> decode_message f = Raise UnparsableMessage.
Proof. exact tkl_above_8_unparsable. Qed.
Print Assumptions C15_tkl_above_8_unparsable.

(* an unknown critical option in Ping / Pong / Release / Abort: exactly Abort + close, the method returns
   (no Pong, no release handling, nothing further from the spool) — unconditional *)
Theorem C15_abort_on_critical_option : forall c m,
  code m = PING \/ code m = PONG \/ code m = RELEASE \/ code m = ABORT -> has_critical (opts m) = true ->
  handle_message c m = (set_closed c, [Write (abort_frame txt_unknown_critical_option); Close], Return).
Proof. exact critical_option_aborts. Qed.
Print Assumptions C15_abort_on_critical_option.

(* an unknown critical option in a CSM (numbers below 2^64, i.e. any that fits a frame): exactly one Abort
   carrying Bad-CSM-Option, close, return *)
Theorem C15_abort_on_critical_csm_option : forall c m n v, code m = CSM -> In (n, v) (opts m) -> is_critical n = true ->
  (forall n' v', In (n', v') (opts m) -> 0 <= n' < 2 ^ 64) ->
  exists c1 b n1, handle_message c m = (c1, [Write b; Close], Return) /\ closed c1 = true /\
    remote_settings c1 <> None /\ is_critical n1 = true /\
    serialize (abort_msg txt_option_not_supported (Some n1)) = Ok b.
Proof. exact csm_critical_option_aborts. Qed.
Print Assumptions C15_abort_on_critical_csm_option.

(* a signalling code the endpoint does not know: Abort + close, return (behaviour of the code; the property text is silent) *)
Theorem C15_abort_on_unknown_signalling_code : forall c m, is_signalling (code m) = true ->
  code m <> CSM -> code m <> PING -> code m <> PONG -> code m <> RELEASE -> code m <> ABORT ->
  handle_message c m = (set_closed c, [Write (abort_frame txt_unknown_signalling_code); Close], Return).
Proof. exact unknown_signalling_code_aborts. Qed.
Print Assumptions C15_abort_on_unknown_signalling_code.

(* ---- non-vacuity *)
Definition ex_get : msg := {| code := 1; token := [170; 187]; opts := [(11, [116; 101; 109; 112]); (12, []); (60, [1; 0])]; payload := [] |}.
Definition ex_content : msg := {| code := 69; token := [170; 187]; opts := [(12, [50])]; payload := [123; 125] |}.
Definition ex_unsorted : msg := {| code := 2; token := [1]; opts := [(60, [1; 0]); (11, [98]); (12, []); (11, [97])]; payload := [33] |}.
Definition ex_conn : conn := {| spool := []; remote_settings := Some {| max_message_size := Some 1152; block_wise_transfer := true |};
                                my_max_message_size := 1048576; closed := false |}.
Example C15_msg_ok_nonvacuous : msg_ok ex_get = true /\ msg_ok ex_content = true /\
  fits 1048576 ex_get = true /\ frames [ex_get; ex_content] = Ok ([162; 1; 170; 187; 180; 116; 101; 109; 112; 16; 210; 35; 1; 0] ++ [82; 69; 170; 187; 193; 50; 255; 123; 125]).
Proof. vm_compute. repeat split; reflexivity. Qed.
Example C15_unsorted_example : msg_ok (canon ex_unsorted) = true /\ msg_ok ex_unsorted = false /\
  opts (canon ex_unsorted) = [(11, [98]); (11, [97]); (12, []); (60, [1; 0])] /\
  match serialize ex_unsorted with Ok b => decode_message b = Ok (canon ex_unsorted) | Raise _ => False end.
Proof. vm_compute. repeat split; reflexivity. Qed.
(* CSM, GET, Ping with token, Release, one byte at a time: same as in one piece *)
Example C15_bytewise_example :
  let stream := [0; 225; 0; 1; 1; 226; 7; 0; 228] in
  snd (run (init 1048576) (map EData (map (fun b => [b]) stream))) = snd (data_received (init 1048576) stream) /\
  snd (data_received (init 1048576) stream) =
    [Request {| code := 1; token := []; opts := []; payload := [] |}; Write [1; 227; 7]; DispatchError PeerReleased; Close].
Proof. vm_compute. split; reflexivity. Qed.
Example C15_abort_frames :
  abort_frame txt_no_csm = [208; 3; 229; 255; 78; 111; 32; 67; 83; 77; 32; 114; 101; 99; 101; 105; 118; 101; 100] /\
  view_of 1048576 [9; 1; 0; 0; 0; 0; 0; 0; 0; 0; 0] = VFrame [9; 1; 0; 0; 0; 0; 0; 0; 0; 0; 0] [] /\
  header [240; 255; 255; 255; 255] = Some (6, 0, 65805 + 4294967295).
Proof. vm_compute. repeat split; reflexivity. Qed.
(* fixed finding (e207fa9): after its own Abort (critical option 1 in a CSM) the endpoint stops; the request
   that follows in the same segment stays in the spool and is not dispatched *)
Example C15_no_activity_after_own_abort :
  exists b, data_received (init 1048576) [16; 225; 16; 0; 1] =
    ({| spool := [0; 1]; remote_settings := Some {| max_message_size := None; block_wise_transfer := false |};
        my_max_message_size := 1048576; closed := true |}, [Write b; Close]).
Proof. eexists. vm_compute. reflexivity. Qed.

(* round 5: two requests on connection 0 (one answered in the same segment as the Release), one on connection 1 *)
Example C15_pending_example :
  let tA := [1] in let tB := [2] in let tC := [3] in
  let r := sys_run sys0 [PRequest 0 tA false; PRequest 1 tB false; PRequest 0 tC false;
                         PData 0 ([33; 69; 1; 255; 111] ++ [0; 228])] in
  pool (fst r) = [1] /\ outgoing (fst r) = [{| r_token := tB; r_remote := 1; r_observe := false |}] /\
  skipn 3 (snd r) = [SResponse tA 0 69 true; SFail tC 0 (DAsIs (XShutdown PeerReleased)); SConn 0 Close].
Proof. vm_compute. repeat split; reflexivity. Qed.
(* round 5: No-Response 0x02 masks a 2.05 but not a 4.04; the option never goes on the wire *)
Example C15_no_response_example :
  no_response_masked {| code := 69; token := []; opts := [(258, [2])]; payload := [] |} = true /\
  pool_send_message ex_conn {| code := 132; token := [9]; opts := [(258, [2]); (12, [])]; payload := [] |}
  = (ex_conn, [Write [17; 132; 9; 192]], true).
Proof. vm_compute. split; reflexivity. Qed.

(* round 6: own Abort (TKL 9) with a request outstanding fails nobody; the following connection_lost does, once *)
Example C15_own_abort_then_lost_example :
  let es := [PRequest 0 [1] false; PData 0 ([9; 69] ++ repeat 0 9); PLost 0] in
  distinct_reqs es = true /\ outgoing sys0 = [] /\
  cnt (term_is [1] 0) (snd (sys_run sys0 [PRequest 0 [1] false; PData 0 ([9; 69] ++ repeat 0 9)])) = 0%nat /\
  cnt (term_is [1] 0) (snd (sys_run sys0 es)) = 1%nat /\ outgoing (fst (sys_run sys0 es)) = [] /\ pool (fst (sys_run sys0 es)) = [1].
Proof. vm_compute. repeat split; reflexivity. Qed.
