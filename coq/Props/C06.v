(* C06 — block-wise server: handlers see only complete bodies, blocks are exact slices.
   Only statements here; every proof is [exact <lemma of Proofs/C06*.v>].
   Model: Model/C06.v (TimeoutDict, Block1Spool.feed_and_take, Block2Cache.extract_or_insert,
   Resource._render_to_pipe, a site of resources under virtual time). *)
From Verif Require Import Lib.Py Lib.Tactics Gen.block_kernels Model.C06 Proofs.C06TimeoutDict Proofs.C06 Proofs.C06Kernel Proofs.C06Lifetime.
Open Scope Z_scope.

(* ---- 0. every reachable server state satisfies the invariants: each stored assembly is the
   reassembly of the reference block list of its key, each stored rendering is the reference
   rendering of its key, reference block lists are in-order chains *)
Theorem C06_reachable_inv : forall T sv gh, reachable T sv gh -> server_inv gh sv.
Proof. exact reachable_inv. Qed.
Print Assumptions C06_reachable_inv.

(* for EVERY event history (requests of any endpoints / resources / methods / options in any
   interleaving, any idle times) every output satisfies the per-request specification [out_ok]
   relative to the time-free reference maps *)
Theorem C06_run_refines_reference : forall T n es, Forall wf_event es ->
  run_ok T (server_init n) ghost_init es (snd (run T (server_init n) es)).
Proof. intros T n es F. exact (run_refines T es (server_init n) ghost_init F (server_inv_init n)). Qed.
Print Assumptions C06_run_refines_reference.

(* ---- 1. the handler is invoked only with complete bodies: a request without Block1 is passed as
   is; otherwise it is the final block (M=0) of the reference chain [bs] of its block key —
   blocks of one endpoint, one method, one set of cache-key options, starting with a block 0,
   each next one starting exactly at the end of what was assembled — and the body handed to
   the handler is the concatenation of their payloads (options, endpoint, code of block 0) *)
Theorem C06_handler_sees_complete_bodies : forall T now ga gr s req rendering,
  wf_req req -> spool_inv ga (block1 s) -> cache_inv gr (block2 s) -> gasm_wf ga ->
  forall c, In c (snd (fst (render_to_pipe T now s req rendering))) ->
  match m_block1 req with
  | None => c = req
  | Some b =>
    b_more b = false /\
    exists bs, ghost1_step ga req (extract_block_key req) = Some bs /\ chain (extract_block_key req) bs /\
               last bs req = req /\ assembled_from c bs
  end.
Proof. exact handler_sees_complete_bodies_lemma. Qed.
Print Assumptions C06_handler_sees_complete_bodies.

(* the reference lists are chains whatever is fed *)
Theorem C06_reference_chains : forall g r, gasm_wf g -> gasm_wf (ghost1_step g r).
Proof. exact ghost1_step_wf. Qed.
Print Assumptions C06_reference_chains.

(* ---- 2. answers to Block1 requests, as a total decision table on the spool content:
   block 0 with M=1 -> 2.31 echoing the option; NUM>0 without an assembly (never started,
   expired) -> 4.08; with an assembly: M=1 and payload length contradicting the size -> 4.00,
   start <> assembled length (gap, overlap) -> 4.08, otherwise M=1 -> 2.31 echoing the option;
   the handler is not invoked in any of these; assemblies of other keys are untouched *)
Theorem C06_block1_responses : forall T now ga s req rendering b,
  m_block1 req = Some b -> spool_inv ga (block1 s) ->
  let k := extract_block_key req in
  let '(s', calls, res) := render_to_pipe T now s req rendering in
  (b_more b = true -> b_num b = 0 -> calls = [] /\ res = continue_resp b /\ kget k (block1 s') = Some req) /\
  (b_num b <> 0 -> kget k (block1 s) = None -> calls = [] /\ res = incomplete_resp /\ s' = s) /\
  (forall asm, b_num b <> 0 -> kget k (block1 s) = Some asm ->
     (size_ok b req = false -> calls = [] /\ res = bad_request_resp txt_size_mismatch /\ kget k (block1 s') = Some asm) /\
     (size_ok b req = true -> b_start b <> blen (m_payload asm) -> calls = [] /\ res = incomplete_resp /\ kget k (block1 s') = Some asm) /\
     (size_ok b req = true -> b_start b = blen (m_payload asm) -> b_more b = true ->
        calls = [] /\ res = continue_resp b /\ kget k (block1 s') = Some (appended asm req b))) /\
  (forall k', k' <> k -> kget k' (block1 s') = kget k' (block1 s)).
Proof. exact block1_responses_lemma. Qed.
Print Assumptions C06_block1_responses.

(* the server never answers 5.xx by itself, over every history (F3 would break this) *)
Theorem C06_no_5xx : forall T n es, Forall wf_event es -> Forall ev_code_ok es ->
  Forall out_code_ok (snd (run T (server_init n) es)).
Proof.
  intros T n es F C. apply (run_no_5xx T es (server_init n) ghost_init F C (server_inv_init n)).
  intros i k R H. discriminate.
Qed.
Print Assumptions C06_no_5xx.

(* ---- 3. Block2: a request for NUM>0 never invokes the handler; without a stored rendering it is
   answered 4.08; otherwise with the stored rendering Rn (= the reference rendering of the key):
   4.00 when the block starts at or beyond the end, else exactly Rn[start, start+size) with the
   more-flag set exactly when bytes remain (F4 would break this) *)
Theorem C06_block2_exact_slice : forall T now gr s req rendering b2,
  m_block1 req = None -> m_block2 req = Some b2 -> b_num b2 <> 0 -> cache_inv gr (block2 s) ->
  let k := extract_block_key req in
  let '(s', calls, res) := render_to_pipe T now s req rendering in
  calls = [] /\ block1 s' = block1 s /\
  match kget k (block2 s) with
  | None => res = incomplete_resp /\ s' = s
  | Some Rn =>
    gr k = Some Rn /\ kget k (block2 s') = Some Rn /\
    res = if b2_start (b_szx b2) (b_num b2) >=? blen (p_payload Rn) then bad_request_resp txt_out_of_bounds
          else slice_resp Rn (b_num b2) (b_szx b2) (m_mps req)
  end.
Proof. exact block2_exact_slice_lemma. Qed.
Print Assumptions C06_block2_exact_slice.

(* NUM>0 is answered 4.08 or from the rendering made for the LATEST rendering (block-0 / Block2-less)
   request of its key ([gl], advanced by [glatest_step] at every handler invocation, stored or not):
   never from an older one.  [stored_is_latest] holds in every reachable state (next theorem).
   False before commit d768e89 (finding C06:block2-stale-rendering, now fixed). *)
Theorem C06_block2_latest_rendering : forall T now gr gl s req rendering b2,
  m_block1 req = None -> m_block2 req = Some b2 -> b_num b2 <> 0 -> cache_inv gr (block2 s) -> stored_is_latest gr gl ->
  let k := extract_block_key req in
  let '(s', calls, res) := render_to_pipe T now s req rendering in
  calls = [] /\
  (res = incomplete_resp \/
   exists Rn, gl k = Some Rn /\
     res = if b2_start (b_szx b2) (b_num b2) >=? blen (p_payload Rn) then bad_request_resp txt_out_of_bounds
           else slice_resp Rn (b_num b2) (b_szx b2) (m_mps req)).
Proof. exact block2_latest_rendering_lemma. Qed.
Print Assumptions C06_block2_latest_rendering.
Theorem C06_stored_is_latest_reachable : forall T sv gh, reachable T sv gh ->
  forall i, cache_inv (g_rend gh i) (block2 (nth i (resources sv) rstate_empty)) /\ stored_is_latest (g_rend gh i) (g_latest gh i).
Proof. exact reachable_stored_is_latest. Qed.
Print Assumptions C06_stored_is_latest_reachable.
Theorem C06_latest_reference_step : forall g gl req1 rendering,
  stored_is_latest g gl -> stored_is_latest (ghost2_step g req1 rendering) (glatest_step gl req1 rendering).
Proof. exact stored_is_latest_step. Qed.
Print Assumptions C06_latest_reference_step.

(* a block-0 (or Block2-less) request invokes the handler exactly once; when the rendering needs
   chunking it is stored and its first block returned, otherwise it is returned whole and any
   older stored rendering of the key is evicted *)
Theorem C06_block2_first_block : forall T now s req rendering,
  m_block1 req = None -> match m_block2 req with Some b2 => b_num b2 = 0 | None => True end ->
  let k := extract_block_key req in
  let szx := match m_block2 req with Some b2 => b_szx b2 | None => m_mbse req end in
  let '(s', calls, res) := render_to_pipe T now s req rendering in
  calls = [req] /\
  if needs_chunking req rendering
  then kget k (block2 s') = Some rendering /\
       res = if 0 >=? blen (p_payload rendering) then bad_request_resp txt_out_of_bounds
             else slice_resp rendering 0 szx (m_mps req)
  else res = set_block1 rendering None /\ block2 s' = td_pop key_eqb k (block2 s).
Proof. exact block2_first_block_lemma. Qed.
Print Assumptions C06_block2_first_block.

(* Message._extract_block: exact slice arithmetic for every block number, size exponent (incl. BERT) *)
Theorem C06_extract_block_slice : forall R number szx mps,
  let start := b2_start szx number in let size := b2_size szx mps in
  extract_block R number szx mps =
    if start >=? blen (p_payload R) then RRaise (EBadRequest txt_out_of_bounds)
    else ROk {| p_code := p_code R; p_block1 := p_block1 R;
                p_block2 := Some {| b_num := number; b_more := start + size <? blen (p_payload R); b_szx := szx |};
                p_payload := bslice (p_payload R) start (start + size) |}.
Proof. exact extract_block_spec. Qed.
Print Assumptions C06_extract_block_slice.

(* ---- 4. TimeoutDict lifetime: over every history of lookups, assignments, pops and time advances (any
   keys, any idle times), with [last k] the time of the last successful access of [k] since its last pop: an entry is
   present whenever less than T has passed since, and every present entry was accessed less than 2T ago *)
Theorem C06_timeoutdict_lifetime : forall (K V : Type) (keqb : K -> K -> bool),
  (forall a b, keqb a b = true <-> a = b) -> forall T, 0 < T ->
  forall ops : list (@tdop K V), Forall nonneg_op ops ->
  let '(now, last, d) := td_run keqb T (0, (fun _ => None), td_empty) ops in
  (forall k a, last k = Some a -> now < a + T -> has keqb k d = true) /\
  (forall k, has keqb k d = true -> exists a, last k = Some a /\ a <= now /\ now < a + 2 * T).
Proof. exact @timeoutdict_lifetime. Qed.
Print Assumptions C06_timeoutdict_lifetime.

(* pop is not an idle-reset: the timer that is pending keeps its deadline (the code has one call_later handle per dict and
   pop does not touch it); an entry assigned after a pop that emptied the dict is recorded as recently accessed and survives
   the old timer's tick — part of C06_timeoutdict_lifetime (TPop), shown on the seeded history below *)
Theorem C06_timeoutdict_pop_keeps_timer : forall (K V : Type) (keqb : K -> K -> bool) k (d : td K V),
  td_timer (td_pop keqb k d) = td_timer d.
Proof. exact @td_pop_timer. Qed.
Print Assumptions C06_timeoutdict_pop_keeps_timer.
Example C06_timeoutdict_pop_scenario :
  let T := MAX_TRANSMIT_WAIT_us in
  match drun T (0, td_empty) [DSet 0 1; DAdv (T / 2); DPop 0; DAdv (T / 10); DSet 0 2; DAdv (7 * T / 10); DGet 0; DAdv (T - 1); DGet 0; DAdv (2 * T); DGet 0] with
  | [_; _; DOut (Some 1) [] (Some due_after_pop); _; DOut None [0] (Some due_after_set); DOut None [0] (Some due2); DOut (Some 2) [0] _; _; DOut (Some 2) [0] _; _; DOut None [] None] =>
      due_after_pop = T /\ due_after_set = T /\ due2 = 2 * T
  | _ => False
  end.
Proof. vm_compute. repeat split. Qed.

(* the two rounds of td_advance fire every due timer (fixed point of the loop) and keep the invariant *)
Theorem C06_timeoutdict_advance_settled : forall (K V : Type) (keqb : K -> K -> bool),
  (forall a b, keqb a b = true <-> a = b) -> forall T, 0 < T ->
  forall now target last (d : td K V), td_ginv keqb T now last d -> now <= target ->
  td_ginv keqb T target last (td_advance keqb T target d) /\ settled target (td_advance keqb T target d).
Proof. exact @td_ginv_advance. Qed.
Print Assumptions C06_timeoutdict_advance_settled.

(* ---- 5. lifetime at SERVER level.  [l_asm lg i k] / [l_rend lg i k] = the time of the last USE of the assembly /
   stored rendering of key k on resource i, computed along the event history by [last1_step] / [last2_step]
   (Proofs/C06Lifetime.v).  What counts as a use:
     assembly:  a block 0 of k with M=1; every continuation (NUM>0) of k that finds an assembly and is appended with M=1 (2.31)
                or REJECTED with 4.00 / 4.08 (gap, overlap): the lookup refreshes the timeout first; a block with M=0 that
                completes the assembly hands it to the handler and REMOVES it (6759bee; the ghost forgets the key);
                a continuation that finds nothing, or a request without Block1, is not a use;
     rendering: a block-0 / Block2-less request whose rendering is chunked (stored); a NUM>0 request that finds a
                rendering (served, or answered 4.00 beyond the end); a rendering request answered whole EVICTS the
                entry (the ghost forgets the key); a NUM>0 request that finds nothing is not a use; idle time never is.
   Model assumption as everywhere: handlers are atomic.  Advance steps are non-negative. *)
Theorem C06_reachable_life_inv : forall T sv gh lg, 0 < T -> reachable_life T sv gh lg -> server_inv gh sv /\ life_inv T lg sv.
Proof. exact reachable_life_inv. Qed.
Print Assumptions C06_reachable_life_inv.

(* for every event history of the multi-resource server: an entry used at [a] is present at every now < a + T, every
   present entry was used less than 2T ago, and an entry never used / evicted / used 2T or more ago is absent *)
Theorem C06_server_state_lifetime : forall T sv gh lg, 0 < T -> reachable_life T sv gh lg -> forall i k,
  let s := nth i (resources sv) rstate_empty in
  ((forall a, l_asm lg i k = Some a -> now sv < a + T -> kget k (block1 s) <> None) /\
   (kget k (block1 s) <> None -> exists a, l_asm lg i k = Some a /\ a <= now sv /\ now sv < a + 2 * T) /\
   (l_asm lg i k = None -> kget k (block1 s) = None) /\
   (forall a, l_asm lg i k = Some a -> a + 2 * T <= now sv -> kget k (block1 s) = None)) /\
  ((forall a, l_rend lg i k = Some a -> now sv < a + T -> kget k (block2 s) <> None) /\
   (kget k (block2 s) <> None -> exists a, l_rend lg i k = Some a /\ a <= now sv /\ now sv < a + 2 * T) /\
   (l_rend lg i k = None -> kget k (block2 s) = None) /\
   (forall a, l_rend lg i k = Some a -> a + 2 * T <= now sv -> kget k (block2 s) = None)).
Proof. exact server_state_lifetime_lemma. Qed.
Print Assumptions C06_server_state_lifetime.

(* observable: a continuation arriving less than T after the last use of its transfer finds the assembly and is
   answered 4.08 only for a gap / overlap (never for expiry); one arriving 2T or more after it (or for a transfer
   never started) is answered 4.08, the handler is not invoked and the state is unchanged.
   The hypotheses hold for every resource of every reachable server (C06_reachable_life_inv). *)
Theorem C06_continuation_expiry : forall T now g l s req rendering b,
  spool_inv g (block1 s) -> td_ginv key_eqb T now l (block1 s) -> m_block1 req = Some b -> b_num b <> 0 ->
  let k := extract_block_key req in
  (forall a, l k = Some a -> now < a + T ->
     exists asm, kget k (block1 s) = Some asm /\
       (forall sp', feed_and_take T now (block1 s) req = (sp', RRaise EIncomplete) ->
          size_ok b req = true /\ b_start b <> blen (m_payload asm)) /\
       (b_more b = true -> snd (render_to_pipe T now s req rendering) = incomplete_resp ->
          size_ok b req = true /\ b_start b <> blen (m_payload asm))) /\
  (l k = None \/ (exists a, l k = Some a /\ a + 2 * T <= now) ->
     render_to_pipe T now s req rendering = (s, [], incomplete_resp)).
Proof. exact continuation_expiry_lemma. Qed.
Print Assumptions C06_continuation_expiry.

(* the same for a later block of a response: less than T after the last use of the stored rendering it is served
   (exact slice, or 4.00 beyond the end) and never answered 4.08; 2T or more after it (or evicted / never stored): 4.08 *)
Theorem C06_later_block_expiry : forall T now gr l s req rendering b2,
  cache_inv gr (block2 s) -> td_ginv key_eqb T now l (block2 s) -> m_block1 req = None -> m_block2 req = Some b2 -> b_num b2 <> 0 ->
  let k := extract_block_key req in
  (forall a, l k = Some a -> now < a + T ->
     exists Rn, kget k (block2 s) = Some Rn /\ gr k = Some Rn /\
       snd (render_to_pipe T now s req rendering) =
         (if b2_start (b_szx b2) (b_num b2) >=? blen (p_payload Rn) then bad_request_resp txt_out_of_bounds
          else slice_resp Rn (b_num b2) (b_szx b2) (m_mps req)) /\
       snd (render_to_pipe T now s req rendering) <> incomplete_resp) /\
  (l k = None \/ (exists a, l k = Some a /\ a + 2 * T <= now) ->
     render_to_pipe T now s req rendering = (s, [], incomplete_resp)).
Proof. exact later_block_expiry_lemma. Qed.
Print Assumptions C06_later_block_expiry.

(* concrete requests / renderings used by the Examples below *)
Definition get_req (b2 : blockopt) (id : Z) : msg :=
  {| m_remote := 0; m_mps := 1124; m_mbse := 6; m_code := 1; m_opts := []; m_block1 := None; m_block2 := Some b2;
     m_payload := []; m_id := id |}.
Definition rend (seed : Z) : resp := {| p_code := 69; p_block1 := None; p_block2 := None; p_payload := mk_body seed 100 |}.
Definition put_req (b1 : blockopt) (pl : list Z) (id : Z) : msg :=
  {| m_remote := 0; m_mps := 1124; m_mbse := 6; m_code := 3; m_opts := [(15, [97; 61; 49]); (60, [id])];
     m_block1 := Some b1; m_block2 := None; m_payload := pl; m_id := id |}.

(* ---- round 5 (clause audit) ------------------------------------------------------------------------------------ *)
(* the decision tables at HISTORY level: for every resource of every reachable server (any event history), the answer to the
   next request; [step] of a request is [render_to_pipe] on that resource at the server's time *)
Theorem C06_step_is_render_to_pipe : forall T sv i req rendering,
  step T sv (Request i req rendering) =
  let '(s', calls, res) := render_to_pipe T (now sv) (nth i (resources sv) rstate_empty) req rendering in
  ({| now := now sv; resources := set_nth i s' (resources sv) |}, ORequest calls res (fst (rsizes s')) (snd (rsizes s'))).
Proof. exact step_request_eq. Qed.
Print Assumptions C06_step_is_render_to_pipe.
Theorem C06_reachable_block1_table : forall T sv gh i req rendering b, reachable T sv gh -> m_block1 req = Some b ->
  let s := nth i (resources sv) rstate_empty in
  let k := extract_block_key req in
  let '(s', calls, res) := render_to_pipe T (now sv) s req rendering in
  (b_more b = true -> b_num b = 0 -> calls = [] /\ res = continue_resp b /\ kget k (block1 s') = Some req) /\
  (b_num b <> 0 -> kget k (block1 s) = None -> calls = [] /\ res = incomplete_resp /\ s' = s) /\
  (forall asm, b_num b <> 0 -> kget k (block1 s) = Some asm ->
     (size_ok b req = false -> calls = [] /\ res = bad_request_resp txt_size_mismatch /\ kget k (block1 s') = Some asm) /\
     (size_ok b req = true -> b_start b <> blen (m_payload asm) -> calls = [] /\ res = incomplete_resp /\ kget k (block1 s') = Some asm) /\
     (size_ok b req = true -> b_start b = blen (m_payload asm) -> b_more b = true ->
        calls = [] /\ res = continue_resp b /\ kget k (block1 s') = Some (appended asm req b))) /\
  (forall k', k' <> k -> kget k' (block1 s') = kget k' (block1 s)).
Proof. exact reachable_block1_table. Qed.
Print Assumptions C06_reachable_block1_table.
Theorem C06_reachable_block2_table : forall T sv gh i req rendering b2, reachable T sv gh ->
  m_block1 req = None -> m_block2 req = Some b2 -> b_num b2 <> 0 ->
  let s := nth i (resources sv) rstate_empty in
  let k := extract_block_key req in
  let '(s', calls, res) := render_to_pipe T (now sv) s req rendering in
  calls = [] /\
  (res = incomplete_resp \/
   exists Rn, g_latest gh i k = Some Rn /\
     res = if b2_start (b_szx b2) (b_num b2) >=? blen (p_payload Rn) then bad_request_resp txt_out_of_bounds
           else slice_resp Rn (b_num b2) (b_szx b2) (m_mps req)).
Proof. exact reachable_block2_table. Qed.
Print Assumptions C06_reachable_block2_table.
Theorem C06_reachable_handler_bodies : forall T sv gh i req rendering, reachable T sv gh -> wf_req req ->
  forall c, In c (snd (fst (render_to_pipe T (now sv) (nth i (resources sv) rstate_empty) req rendering))) ->
  match m_block1 req with
  | None => c = req
  | Some b =>
    b_more b = false /\
    exists bs, ghost1_step (g_asm gh i) req (extract_block_key req) = Some bs /\ chain (extract_block_key req) bs /\
               last bs req = req /\ assembled_from c bs
  end.
Proof. exact reachable_handler_bodies. Qed.
Print Assumptions C06_reachable_handler_bodies.

(* no answer of ANY 5.xx class unless a handler rendering has one (C06_no_5xx is the special case 5.00), and where the code of
   an answer comes from *)
Theorem C06_no_5xx_any : forall T n es, Forall wf_event es -> Forall ev_class_ok es ->
  Forall out_class_ok (snd (run T (server_init n) es)).
Proof.
  intros T n es F C. apply (run_no_5xx_any T es (server_init n) ghost_init F C (server_inv_init n)).
  intros i k R H. discriminate.
Qed.
Print Assumptions C06_no_5xx_any.
Theorem C06_answer_code_origin : forall ga' gr req rendering calls res, resp_ok ga' gr req rendering calls res ->
  In (p_code res) [CONTINUE; BAD_REQUEST; REQUEST_ENTITY_INCOMPLETE] \/ p_code res = p_code rendering \/
  exists k Rn, gr k = Some Rn /\ p_code res = p_code Rn.
Proof. exact resp_ok_code. Qed.
Print Assumptions C06_answer_code_origin.

(* a request stopped by the spool (2.31 / 4.00 / 4.08) leaves the rendering cache untouched and invokes no handler *)
Theorem C06_spool_error_keeps_cache : forall T now s req rendering sp e,
  feed_and_take T now (block1 s) req = (sp, RRaise e) ->
  render_to_pipe T now s req rendering = ({| block1 := sp; block2 := block2 s |}, [], error_to_message e).
Proof. exact spool_error_keeps_cache. Qed.
Print Assumptions C06_spool_error_keeps_cache.

(* T of the model is the translated source constant; the length check of C06_block1_responses ([size_ok], M=1 and M=0) is the
   translated BlockwiseTuple.is_valid_for_payload_size *)
Theorem C06_T_is_source :
  QArith_base.Qeq (QArith_base.inject_Z MAX_TRANSMIT_WAIT_us)
      (QArith_base.Qmult (c03_constants.MAX_TRANSMIT_WAIT c03_constants.default_transport_tuning) (QArith_base.inject_Z 1000000)).
Proof. exact T_is_source. Qed.
Print Assumptions C06_T_is_source.
Theorem C06_size_check_is_source : forall b r,
  bt_is_valid_for_payload_size (b_num b) (b_more b) (b_szx b) (blen (m_payload r)) = Ok (size_ok b r).
Proof. exact size_ok_is_valid. Qed.
Print Assumptions C06_size_check_is_source.

(* the scenario of the former finding C06:final-block-oversize-accepted (fixed by 8f63ed9): a FINAL block of 40 bytes with block size
   16 is answered 4.00, the handler is not invoked, the assembly stays *)
Example C06_final_block_oversize_rejected :
  let es := [Request 0 (put_req {| b_num := 0; b_more := true; b_szx := 0 |} (mk_body 0 16) 1) (rend 0);
             Request 0 (put_req {| b_num := 1; b_more := false; b_szx := 0 |} (mk_body 0 40) 2) (rend 0)] in
  bt_is_valid_for_payload_size 1 false 0 40 = Ok false /\
  match snd (run MAX_TRANSMIT_WAIT_us (server_init 1) es) with
  | [ORequest [] r1 1 0; ORequest [] r2 1 0] => p_code r1 = CONTINUE /\ r2 = bad_request_resp txt_size_mismatch
  | _ => False
  end.
Proof. vm_compute. repeat split. Qed.

(* overlapping handler schedules (Model sstep/srun, requests without Block1).  With a handler that returns at once the
   schedule model IS the atomic model ... *)
Theorem C06_atomic_schedule_is_request : forall T st id req rendering, m_block1 req = None -> is_first req = true ->
  let '(st1, o1) := sstep T st (SBegin id req) in
  let '(st2, o2) := sstep T st1 (SFinish id rendering) in
  let '(s', calls, res) := render_to_pipe T (s_now st) (s_res st) req rendering in
  o1 = SOBegin calls /\ o2 = SOFinish (Some res) (snd (rsizes s')) /\ s_res st2 = s' /\ s_now st2 = s_now st.
Proof. exact atomic_schedule_is_request. Qed.
Print Assumptions C06_atomic_schedule_is_request.
(* ... and under overlap (3302d9e: only the builder started last for its key may store / evict) the stored rendering of a key is the one
   returned by the handler of the LATEST begun rendering request of that key: invariant over every schedule history ... *)
Theorem C06_schedule_inv : forall T es, Forall wf_sevent es ->
  sinv (fst (srun_state T sstate_init sghost_init es)) (snd (srun_state T sstate_init sghost_init es)).
Proof. intros T es F. exact (srun_state_inv T es sstate_init sghost_init F sinv_init). Qed.
Print Assumptions C06_schedule_inv.
(* ... so a later block, requested while no builder of its key is pending as the latest one, is answered 4.08 or is the exact slice of
   the rendering [Rn] that the handler of request [i] returned, [i] being the latest begun rendering request of the key *)
Theorem C06_schedule_later_block_latest : forall T st g req b2, sinv st g ->
  m_block1 req = None -> m_block2 req = Some b2 -> b_num b2 <> 0 -> marker st (extract_block_key req) = None ->
  match snd (sstep T st (SLater req)) with
  | SOLater calls res _ =>
    calls = [] /\
    (res = incomplete_resp \/
     exists i Rn, sg_fin g (extract_block_key req) = Some (i, Rn) /\ sg_latest g (extract_block_key req) = Some i /\
       res = if b2_start (b_szx b2) (b_num b2) >=? blen (p_payload Rn) then bad_request_resp txt_out_of_bounds
             else slice_resp Rn (b_num b2) (b_szx b2) (m_mps req))
  | _ => False
  end.
Proof. exact schedule_later_block_lemma. Qed.
Print Assumptions C06_schedule_later_block_latest.
(* the scenario of the former finding C06:overlap-older-rendering-served: request 1 starts rendering, request 2 of the same key starts
   and returns, then request 1 returns (answered from its own rendering, which is NOT stored); block 1 is a slice of rendering 2 *)
Example C06_overlapping_renderings_latest :
  let q := get_req {| b_num := 0; b_more := false; b_szx := 0 |} in
  let es := [SBegin 1 (q 1); SBegin 2 (q 2); SFinish 2 (rend 2); SFinish 1 (rend 1);
             SLater (get_req {| b_num := 1; b_more := false; b_szx := 0 |} 3)] in
  match srun MAX_TRANSMIT_WAIT_us sstate_init es with
  | [SOBegin [_]; SOBegin [_]; SOFinish (Some r2) 1; SOFinish (Some r1) 1; SOLater [] r3 1] =>
      p_payload r2 = bslice (mk_body 2 100) 0 16 /\ p_payload r1 = bslice (mk_body 1 100) 0 16 /\
      p_payload r3 = bslice (mk_body 2 100) 16 32 /\ p_payload r3 <> bslice (mk_body 1 100) 16 32
  | _ => False
  end.
Proof. vm_compute. repeat split. discriminate. Qed.

(* ---- the scenario of the former finding C06:block2-stale-rendering (corpus/C06/stale.json): after a
   block-0 request that is answered whole, a NUM>0 request gets 4.08 and nothing is kept *)
Example C06_block2_after_whole_answer :
  let es := [Request 0 (get_req {| b_num := 0; b_more := false; b_szx := 0 |} 1) (rend 1);
             Request 0 (get_req {| b_num := 2; b_more := false; b_szx := 0 |} 2) (rend 2);
             Request 0 (get_req {| b_num := 0; b_more := false; b_szx := 6 |} 3) (rend 3);
             Request 0 (get_req {| b_num := 2; b_more := false; b_szx := 0 |} 4) (rend 4)] in
  match snd (run MAX_TRANSMIT_WAIT_us (server_init 1) es) with
  | [ORequest [_] r1 0 1; ORequest [] r2 0 1; ORequest [_] r3 0 0; ORequest [] r4 0 0] =>
      p_payload r2 = bslice (mk_body 1 100) 32 48 /\ p_block2 r3 = None /\ p_payload r3 = mk_body 3 100 /\ r4 = incomplete_resp
  | _ => False
  end.
Proof. vm_compute. repeat split. Qed.

(* ---- non-vacuity *)
Example C06_wf_nonvacuous : wf_req (put_req {| b_num := 0; b_more := true; b_szx := 0 |} (mk_body 0 16) 1) /\
  reachable 93 (server_init 2) ghost_init /\ server_inv ghost_init (server_init 2).
Proof.
  split; [reflexivity|]. split; [|apply server_inv_init].
  exists 2%nat, []. split; [constructor|]. split; reflexivity.
Qed.
(* blocks 0,1 in order -> 2.31, then the handler sees the 21-byte concatenation; a gap -> 4.08; a wrong
   size -> 4.00; after 2*MAX_TRANSMIT_WAIT the assembly is gone and a continuation gets 4.08.
   Size1 (NoCacheKey) differs between the blocks without splitting the transfer. *)
Example C06_scenario :
  let es := [Request 0 (put_req {| b_num := 0; b_more := true; b_szx := 0 |} (mk_body 0 16) 1) (rend 0);
             Request 0 (put_req {| b_num := 2; b_more := false; b_szx := 0 |} (mk_body 9 5) 2) (rend 0);
             Request 0 (put_req {| b_num := 1; b_more := true; b_szx := 0 |} (mk_body 9 15) 3) (rend 0);
             Request 0 (put_req {| b_num := 1; b_more := false; b_szx := 0 |} (mk_body 16 5) 4) (rend 0);
             Advance (2 * MAX_TRANSMIT_WAIT_us);
             Request 0 (put_req {| b_num := 2; b_more := false; b_szx := 0 |} (mk_body 9 5) 5) (rend 0)] in
  match snd (run MAX_TRANSMIT_WAIT_us (server_init 1) es) with
  | [ORequest [] r1 1 0; ORequest [] r2 1 0; ORequest [] r3 1 0; ORequest [c] r4 0 0; OAdvance [(0, 0)]; ORequest [] r6 0 0] =>
      p_code r1 = CONTINUE /\ p_code r2 = REQUEST_ENTITY_INCOMPLETE /\ p_code r3 = BAD_REQUEST /\ p_code r4 = 69 /\
      m_payload c = mk_body 0 16 ++ mk_body 16 5 /\ m_id c = 4 /\ p_code r6 = REQUEST_ENTITY_INCOMPLETE
  | _ => False
  end.
Proof. vm_compute. repeat split. Qed.

(* ---- tie T: the slice arithmetic above is the arithmetic of the source.  The hand-written
   [extract_block], [b_size], [b_start] agree with the code translated from message.py
   Message._extract_block and optiontypes.py BlockwiseTuple.size/start (Gen/block_kernels.v,
   regenerated from the repository on every check). *)
Theorem C06_extract_block_is_source : forall R n szx mps,
  match block_kernels.extract_block (p_payload R) n szx mps with
  | Ok (pl, (num, more, sz)) =>
      C06.extract_block R n szx mps =
      ROk {| p_code := p_code R; p_block1 := p_block1 R;
             p_block2 := Some {| b_num := num; b_more := more; b_szx := sz |}; p_payload := pl |}
  | Raise BadRequest => C06.extract_block R n szx mps = RRaise (EBadRequest txt_out_of_bounds)
  | Raise _ => False
  end.
Proof. exact extract_block_is_source. Qed.
Print Assumptions C06_extract_block_is_source.
Theorem C06_block_size_start_is_source : forall b,
  bt_size (b_num b) (b_more b) (b_szx b) = Ok (b_size b) /\ bt_start (b_num b) (b_more b) (b_szx b) = Ok (b_start b).
Proof. intros b. split; [exact (b_size_is_source b)|exact (b_start_is_source b)]. Qed.
Print Assumptions C06_block_size_start_is_source.

(* a rejected continuation is a use: block 0 at 0, a gap (4.08) at T-1, and block 1 at 2T-2 — more than T after block 0,
   less than T after the rejected block — is still appended (2.31); the ghost records T-1 resp. 2T-2 as last use;
   after 2T more idle time a continuation gets 4.08 *)
Example C06_rejected_continuation_is_a_use :
  let T := MAX_TRANSMIT_WAIT_us in
  let r0 := put_req {| b_num := 0; b_more := true; b_szx := 0 |} (mk_body 0 16) 1 in
  let es := [Request 0 r0 (rend 0); Advance (T - 1);
             Request 0 (put_req {| b_num := 2; b_more := true; b_szx := 0 |} (mk_body 9 16) 2) (rend 0)] in
  let es2 := es ++ [Advance (T - 1); Request 0 (put_req {| b_num := 1; b_more := true; b_szx := 0 |} (mk_body 9 16) 3) (rend 0)] in
  let es3 := es2 ++ [Advance (2 * T); Request 0 (put_req {| b_num := 2; b_more := true; b_szx := 0 |} (mk_body 9 16) 4) (rend 0)] in
  l_asm (run_last T (server_init 1) lghost_init es) 0%nat (extract_block_key r0) = Some (T - 1) /\
  l_asm (run_last T (server_init 1) lghost_init es2) 0%nat (extract_block_key r0) = Some (2 * T - 2) /\
  match snd (run T (server_init 1) es3) with
  | [ORequest [] r1 1 0; OAdvance _; ORequest [] r2 1 0; OAdvance [(1, 0)]; ORequest [] r3 1 0; OAdvance [(0, 0)]; ORequest [] r4 0 0] =>
      p_code r1 = CONTINUE /\ r2 = incomplete_resp /\ p_code r3 = CONTINUE /\ r4 = incomplete_resp
  | _ => False
  end /\
  reachable_life T (fst (run T (server_init 1) es)) (run_ghost T (server_init 1) ghost_init es) (run_last T (server_init 1) lghost_init es).
Proof.
  cbn zeta. split; [vm_compute; reflexivity|]. split; [vm_compute; reflexivity|]. split; [vm_compute; repeat split|].
  exists 1%nat. eexists. split; [|split; [|split; [reflexivity|split; reflexivity]]].
  - repeat constructor.
  - repeat constructor; vm_compute; discriminate.
Qed.
