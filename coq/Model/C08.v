(* C08 — observe server. Hand-written executable model (tie C) of
     interfaces.ObservableResource._render_to_pipe        (interfaces.py:492-553)
     protocol.ServerObservation.trigger                    (protocol.py:1317-1363)
     resource.ObservableResource bookkeeping               (resource.py:154-183)
     TokenManager.process_request / dispatch_error / shutdown   (tokenmanager.py:44-175)
     Pipe interest handling, run_driving_pipe, error_to_message (pipe.py:107-284)
     the parts of MessageManager a notification passes through  (messagemanager.py)
   One [step] = one harness event followed by running the event loop until the ready queue is empty.
   No proofs in this file. *)
From Verif Require Import Lib.Py.
Open Scope Z_scope.

Inductive mtype := CON | NON | ACK | RST.
Definition mtype_z (t : mtype) : Z := match t with CON => 0 | NON => 1 | ACK => 2 | RST => 3 end.

(* a datagram of the server. [m_token] = -1: empty message. Payload descriptor: m_pk 0 none / 1 resource state version m_pv /
   2 explicit response number m_pv. [m_gid] is a ghost: the registration (number of the accepting add_observation call) the
   response was produced for, -1 for everything else. *)
Record msg := mkmsg { m_remote : Z; m_mtype : mtype; m_mid : Z; m_token : Z; m_code : Z; m_observe : option Z;
                      m_pk : Z; m_pv : Z; m_gid : Z }.
Definition set_type_mid (m : msg) (t : mtype) (mid : Z) : msg :=
  mkmsg (m_remote m) t mid (m_token m) (m_code m) (m_observe m) (m_pk m) (m_pv m) (m_gid m).

(* observable behaviour, in true order: datagrams on the wire ([retrans] = a copy of a message already sent),
   the resource's bookkeeping callbacks (update_observation_count after add / after the cancellation callback), render calls *)
Inductive output :=
| OSend (m : msg) (retrans : bool)
| OAdd (gid n r tok : Z) (con : bool)
| OCancel (gid n : Z)
| ORender (gid v : Z).

Inductive mode := MOk | MRet500 | MRaise404 | MRaise500.            (* what the test resource's render does *)
Inductive tval := TRender | TResp (code k : Z).                     (* trigger(None) / trigger(Message(code, payload k)) *)
Inductive phase := PFirst (v : Z) | PWait | PNotif (v : Z).         (* inside the first render / at `await servobs._trigger` / inside a later render *)

(* one accepted registration = one running ObservableResource._render_to_pipe task + its ServerObservation + its Pipe *)
Record reg := mkreg { g_remote : Z; g_token : Z; g_gid : Z; g_con : bool; g_phase : phase;
                      g_next : Z;                (* next_observation_number *)
                      g_trig : option tval;      (* Some v: servobs._trigger is done with result v *)
                      g_late : bool }.           (* servobs._late_deregister *)
Definition set_phase (g : reg) (p : phase) := mkreg (g_remote g) (g_token g) (g_gid g) (g_con g) p (g_next g) (g_trig g) (g_late g).
Definition set_next (g : reg) (n : Z) := mkreg (g_remote g) (g_token g) (g_gid g) (g_con g) (g_phase g) n (g_trig g) (g_late g).
Definition set_trig (g : reg) (t : option tval) (late : bool) := mkreg (g_remote g) (g_token g) (g_gid g) (g_con g) (g_phase g) (g_next g) t late.

Inductive tkind :=
| KEmptyAck (r tok : Z)                        (* messagemanager.py:375-387 *)
| KRetrans (m : msg) (timeout counter : Z)     (* messagemanager.py:310-330 *)
| KExpire (r mid : Z).                         (* messagemanager.py:217-220 *)
Record timer := mktimer { t_due : Z; t_seq : Z; t_kind : tkind }.
(* _active_exchanges entry; the messageerror_monitor is the `stop` of the pipe of registration x_gid *)
Record exch := mkexch { x_remote : Z; x_mid : Z; x_gid : Z }.

Record state := mkstate {
  s_now : Z;
  s_seq : Z;
  s_timers : list timer;
  s_mid : Z;
  s_recent : list (Z * Z * option msg);
  s_exch : list exch;
  s_backlog : list (msg * Z);
  s_piggy : list (Z * Z * Z);
  s_regs : list reg;
  s_observers : list Z;
  s_gidctr : Z;
  s_version : Z;
  s_mode : mode;
  s_gate : bool;
  s_down : bool;
  s_cancelq : list Z;
  s_hist : list output;
  s_prod : list msg
}.
Definition set_now (s : state) (v : Z) : state := mkstate v (s_seq s) (s_timers s) (s_mid s) (s_recent s) (s_exch s) (s_backlog s) (s_piggy s) (s_regs s) (s_observers s) (s_gidctr s) (s_version s) (s_mode s) (s_gate s) (s_down s) (s_cancelq s) (s_hist s) (s_prod s).
Definition set_seq (s : state) (v : Z) : state := mkstate (s_now s) v (s_timers s) (s_mid s) (s_recent s) (s_exch s) (s_backlog s) (s_piggy s) (s_regs s) (s_observers s) (s_gidctr s) (s_version s) (s_mode s) (s_gate s) (s_down s) (s_cancelq s) (s_hist s) (s_prod s).
Definition set_timers (s : state) (v : list timer) : state := mkstate (s_now s) (s_seq s) v (s_mid s) (s_recent s) (s_exch s) (s_backlog s) (s_piggy s) (s_regs s) (s_observers s) (s_gidctr s) (s_version s) (s_mode s) (s_gate s) (s_down s) (s_cancelq s) (s_hist s) (s_prod s).
Definition set_mid (s : state) (v : Z) : state := mkstate (s_now s) (s_seq s) (s_timers s) v (s_recent s) (s_exch s) (s_backlog s) (s_piggy s) (s_regs s) (s_observers s) (s_gidctr s) (s_version s) (s_mode s) (s_gate s) (s_down s) (s_cancelq s) (s_hist s) (s_prod s).
Definition set_recent (s : state) (v : list (Z * Z * option msg)) : state := mkstate (s_now s) (s_seq s) (s_timers s) (s_mid s) v (s_exch s) (s_backlog s) (s_piggy s) (s_regs s) (s_observers s) (s_gidctr s) (s_version s) (s_mode s) (s_gate s) (s_down s) (s_cancelq s) (s_hist s) (s_prod s).
Definition set_exch (s : state) (v : list exch) : state := mkstate (s_now s) (s_seq s) (s_timers s) (s_mid s) (s_recent s) v (s_backlog s) (s_piggy s) (s_regs s) (s_observers s) (s_gidctr s) (s_version s) (s_mode s) (s_gate s) (s_down s) (s_cancelq s) (s_hist s) (s_prod s).
Definition set_backlog (s : state) (v : list (msg * Z)) : state := mkstate (s_now s) (s_seq s) (s_timers s) (s_mid s) (s_recent s) (s_exch s) v (s_piggy s) (s_regs s) (s_observers s) (s_gidctr s) (s_version s) (s_mode s) (s_gate s) (s_down s) (s_cancelq s) (s_hist s) (s_prod s).
Definition set_piggy (s : state) (v : list (Z * Z * Z)) : state := mkstate (s_now s) (s_seq s) (s_timers s) (s_mid s) (s_recent s) (s_exch s) (s_backlog s) v (s_regs s) (s_observers s) (s_gidctr s) (s_version s) (s_mode s) (s_gate s) (s_down s) (s_cancelq s) (s_hist s) (s_prod s).
Definition set_regs (s : state) (v : list reg) : state := mkstate (s_now s) (s_seq s) (s_timers s) (s_mid s) (s_recent s) (s_exch s) (s_backlog s) (s_piggy s) v (s_observers s) (s_gidctr s) (s_version s) (s_mode s) (s_gate s) (s_down s) (s_cancelq s) (s_hist s) (s_prod s).
Definition set_observers (s : state) (v : list Z) : state := mkstate (s_now s) (s_seq s) (s_timers s) (s_mid s) (s_recent s) (s_exch s) (s_backlog s) (s_piggy s) (s_regs s) v (s_gidctr s) (s_version s) (s_mode s) (s_gate s) (s_down s) (s_cancelq s) (s_hist s) (s_prod s).
Definition set_gidctr (s : state) (v : Z) : state := mkstate (s_now s) (s_seq s) (s_timers s) (s_mid s) (s_recent s) (s_exch s) (s_backlog s) (s_piggy s) (s_regs s) (s_observers s) v (s_version s) (s_mode s) (s_gate s) (s_down s) (s_cancelq s) (s_hist s) (s_prod s).
Definition set_version (s : state) (v : Z) : state := mkstate (s_now s) (s_seq s) (s_timers s) (s_mid s) (s_recent s) (s_exch s) (s_backlog s) (s_piggy s) (s_regs s) (s_observers s) (s_gidctr s) v (s_mode s) (s_gate s) (s_down s) (s_cancelq s) (s_hist s) (s_prod s).
Definition set_mode (s : state) (v : mode) : state := mkstate (s_now s) (s_seq s) (s_timers s) (s_mid s) (s_recent s) (s_exch s) (s_backlog s) (s_piggy s) (s_regs s) (s_observers s) (s_gidctr s) (s_version s) v (s_gate s) (s_down s) (s_cancelq s) (s_hist s) (s_prod s).
Definition set_gate (s : state) (v : bool) : state := mkstate (s_now s) (s_seq s) (s_timers s) (s_mid s) (s_recent s) (s_exch s) (s_backlog s) (s_piggy s) (s_regs s) (s_observers s) (s_gidctr s) (s_version s) (s_mode s) v (s_down s) (s_cancelq s) (s_hist s) (s_prod s).
Definition set_down (s : state) (v : bool) : state := mkstate (s_now s) (s_seq s) (s_timers s) (s_mid s) (s_recent s) (s_exch s) (s_backlog s) (s_piggy s) (s_regs s) (s_observers s) (s_gidctr s) (s_version s) (s_mode s) (s_gate s) v (s_cancelq s) (s_hist s) (s_prod s).
Definition set_cancelq (s : state) (v : list Z) : state := mkstate (s_now s) (s_seq s) (s_timers s) (s_mid s) (s_recent s) (s_exch s) (s_backlog s) (s_piggy s) (s_regs s) (s_observers s) (s_gidctr s) (s_version s) (s_mode s) (s_gate s) (s_down s) v (s_hist s) (s_prod s).
Definition set_hist (s : state) (v : list output) : state := mkstate (s_now s) (s_seq s) (s_timers s) (s_mid s) (s_recent s) (s_exch s) (s_backlog s) (s_piggy s) (s_regs s) (s_observers s) (s_gidctr s) (s_version s) (s_mode s) (s_gate s) (s_down s) (s_cancelq s) v (s_prod s).
Definition set_prod (s : state) (v : list msg) : state := mkstate (s_now s) (s_seq s) (s_timers s) (s_mid s) (s_recent s) (s_exch s) (s_backlog s) (s_piggy s) (s_regs s) (s_observers s) (s_gidctr s) (s_version s) (s_mode s) (s_gate s) (s_down s) (s_cancelq s) (s_hist s) v.

Definition ACK_TIMEOUT_US := 2000000.        (* random.uniform patched to its lower bound ACK_TIMEOUT *)
Definition MAX_RETRANSMIT := 4.
Definition EMPTY_ACK_DELAY_US := 100000.
Definition EXCHANGE_LIFETIME_US := 247000000.

Definition init (mid0 : Z) : state :=
  mkstate 0 0 [] mid0 [] [] [] [] [] [] 0 0 MOk false false [] [] [].

Definition log (s : state) (o : output) : state := set_hist s (o :: s_hist s).

(* [s_hist]: everything observable so far, newest first. [s_prod] (ghost): every response handed to the message layer
   (send_message), newest first, with the type and message ID it was given. [s_cancelq]: render tasks whose cancellation has
   been requested but not yet delivered. *)
(* ------------------------------------------------------------------ timers (the virtual loop's call_later) *)
Definition add_timer (s : state) (delay : Z) (k : tkind) : state :=
  set_seq (set_timers s (s_timers s ++ [mktimer (s_now s + delay) (s_seq s) k])) (s_seq s + 1).
Definition cancel_timers (s : state) (p : tkind -> bool) : state :=
  set_timers s (filter (fun t => negb (p (t_kind t))) (s_timers s)).
Definition is_emptyack (r tok : Z) (k : tkind) : bool :=
  match k with KEmptyAck r' tok' => (r' =? r) && (tok' =? tok) | _ => false end.
Definition is_retrans (r mid : Z) (k : tkind) : bool :=
  match k with KRetrans m _ _ => (m_remote m =? r) && (m_mid m =? mid) | _ => false end.
Definition is_retrans_remote (r : Z) (k : tkind) : bool :=
  match k with KRetrans m _ _ => (m_remote m =? r) | _ => false end.
Definition is_any_retrans (k : tkind) : bool := match k with KRetrans _ _ _ => true | _ => false end.
Definition is_any_emptyack (k : tkind) : bool := match k with KEmptyAck _ _ => true | _ => false end.

(* ------------------------------------------------------------------ message manager, outgoing side *)
Definition send_via_transport (s : state) (m : msg) (retrans : bool) : state := log s (OSend m retrans).

(* _store_response_for_duplicates, messagemanager.py:224-236 *)
Definition store_response_for_duplicates (s : state) (m : msg) : state :=
  match m_mtype m with
  | ACK | RST =>
      set_recent s (map (fun e => match e with (r, mid, old) =>
                           if (r =? m_remote m) && (mid =? m_mid m) then (r, mid, Some m) else e end) (s_recent s))
  | _ => s
  end.

Definition has_exchange (s : state) (r : Z) : bool := existsb (fun x => x_remote x =? r) (s_exch s).

(* _add_exchange, messagemanager.py:242-263 *)
Definition add_exchange (s : state) (m : msg) (gid : Z) : state :=
  let s := add_timer s ACK_TIMEOUT_US (KRetrans m ACK_TIMEOUT_US 0) in
  set_exch s (s_exch s ++ [mkexch (m_remote m) (m_mid m) gid]).

(* _send_initially, messagemanager.py:519-532 *)
Definition send_initially (s : state) (m : msg) (gid : Z) (retrans : bool) : state :=
  let s := match m_mtype m with CON => add_exchange s m gid | _ => s end in
  let s := store_response_for_duplicates s m in
  send_via_transport s m retrans.

Definition piggy_find (s : state) (r tok : Z) : option Z :=
  match find (fun e => match e with (r', tok', _) => (r' =? r) && (tok' =? tok) end) (s_piggy s) with
  | Some (_, _, mid) => Some mid | None => None end.
Definition piggy_remove (s : state) (r tok : Z) : state :=
  set_piggy s (filter (fun e => match e with (r', tok', _) => negb ((r' =? r) && (tok' =? tok)) end) (s_piggy s)).

(* send_message for a response, messagemanager.py:423-517 ([m] arrives without type and mid; [req_con]: the request was CON;
   [gid]: whose `stop` is the messageerror_monitor). No-Response is never set by the test resource. *)
Definition send_message (s : state) (m : msg) (req_con : bool) (gid : Z) : state :=
  match piggy_find s (m_remote m) (m_token m) with
  | Some mid =>
      let s := cancel_timers (piggy_remove s (m_remote m) (m_token m)) (is_emptyack (m_remote m) (m_token m)) in
      let s := set_prod s (set_type_mid m ACK mid :: s_prod s) in
      send_initially s (set_type_mid m ACK mid) gid false
  | None =>
      let t := if s_down s then NON else if req_con then CON else NON in
      let mid := s_mid s in
      let s := set_mid s ((1 + mid) mod 65536) in                 (* _next_message_id *)
      let m := set_type_mid m t mid in
      let s := set_prod s (m :: s_prod s) in
      match t with
      | CON => if has_exchange s (m_remote m)                      (* `message.remote in self._backlogs` *)
               then set_backlog s (s_backlog s ++ [(m, gid)])
               else send_initially s m gid false
      | _ => send_initially s m gid false
      end
  end.

(* _continue_backlog, messagemanager.py:287-308 (every backlogged message is a CON, so the loop body runs at most once) *)
Definition continue_backlog (s : state) (r : Z) : state :=
  if has_exchange s r then s else
  match find (fun e => m_remote (fst e) =? r) (s_backlog s) with
  | None => s
  | Some (m, gid) =>
      let s := set_backlog s (let fix drop l := match l with [] => [] | e :: l' => if m_remote (fst e) =? r then l' else e :: drop l' end
                              in drop (s_backlog s)) in
      send_initially s m gid false
  end.
Definition purge_backlog (s : state) (r : Z) : state :=
  set_backlog s (filter (fun e => negb (m_remote (fst e) =? r)) (s_backlog s)).

(* ------------------------------------------------------------------ registrations: pipe / task / resource bookkeeping *)
Definition find_reg (s : state) (gid : Z) : option reg := find (fun g => g_gid g =? gid) (s_regs s).
Definition find_key (s : state) (r tok : Z) : option reg := find (fun g => (g_remote g =? r) && (g_token g =? tok)) (s_regs s).
Definition put_reg (s : state) (g : reg) : state :=
  set_regs s (map (fun g' => if g_gid g' =? g_gid g then g else g') (s_regs s)).
(* on_end, tokenmanager.py:160-164: the request leaves incoming_requests *)
Definition remove_reg (s : state) (gid : Z) : state := set_regs s (filter (fun g => negb (g_gid g =? gid)) (s_regs s)).

(* the `finally: servobs._cancellation_callback()` of interfaces.py:552 = resource.py:162-164 *)
Definition cancel_cb (s : state) (gid : Z) : state :=
  let s := set_observers s (filter (fun x => negb (x =? gid)) (s_observers s)) in
  log s (OCancel gid (Z.of_nat (length (s_observers s)))).

(* `stop`: the pipe loses its only interested handler (pipe.py:122-135): on_end removes the request from incoming_requests,
   run_driving_pipe's task.cancel() is scheduled — the CancelledError (and with it the finally clause) is delivered when the
   loop next runs the task, i.e. after the synchronous remainder of the current callback ([flush_cancels]). *)
Definition stop (s : state) (gid : Z) : state :=
  match find_reg s gid with
  | None => s                                   (* already ended: _unregister_on_event on an ended pipe does nothing *)
  | Some _ => set_cancelq (remove_reg s gid) (s_cancelq s ++ [gid])
  end.
Definition flush_cancels (s : state) : state :=
  set_cancelq (fold_left cancel_cb (s_cancelq s) s) [].

Definition successful (code : Z) : bool := (64 <=? code) && (code <? 96).

(* TokenManager.process_request.on_event -> send_message(m, stop), tokenmanager.py:128-158 *)
Definition emit (s : state) (g : reg) (code : Z) (observe : option Z) (pk pv : Z) : state :=
  send_message s (mkmsg (g_remote g) NON 0 (g_token g) code observe pk pv (g_gid g)) (g_con g) (g_gid g).

Inductive rres := RResp (code pk pv : Z) | RRaise (code pk pv : Z).
Definition render_outcome (md : mode) (v : Z) : rres :=
  match md with MOk => RResp 69 1 v | MRet500 => RResp 160 1 v | MRaise404 => RRaise 132 1 v | MRaise500 => RRaise 160 0 0 end.

(* a render (or an explicit response) is available inside the notification loop, interfaces.py:537-551;
   [cont] = the next iteration of `while True` *)
Definition after_response (cont : state -> reg -> state) (s : state) (g : reg) (res : rres) : state :=
  match res with
  | RRaise code pk pv =>                         (* exception: finally first, then run_driving_pipe/error_to_message answer *)
      let s := cancel_cb s (g_gid g) in
      let s := emit s g code None pk pv in
      remove_reg s (g_gid g)
  | RResp code pk pv =>
      if g_late g || negb (successful code)
      then let s := emit s g code None pk pv in   (* is_last: no Observe option *)
           let s := remove_reg s (g_gid g) in
           cancel_cb s (g_gid g)
      else let g := set_next g (g_next g + 1) in
           let s := emit s g code (Some (g_next g)) pk pv in
           cont s g
  end.

(* interfaces.py:528-535: `await servobs._trigger` and what follows *)
Fixpoint run_loop (fuel : nat) (s : state) (g : reg) : state :=
  match fuel with
  | O => put_reg s g
  | S f =>
    match g_trig g with
    | None => put_reg s (set_phase g PWait)
    | Some tv =>
        let g := set_trig g None (g_late g) in
        match tv with
        | TResp code k => after_response (run_loop f) s g (RResp code 2 k)
        | TRender =>
            let s := log s (ORender (g_gid g) (s_version s)) in
            if s_gate s then put_reg s (set_phase g (PNotif (s_version s)))
            else after_response (run_loop f) s g (render_outcome (s_mode s) (s_version s))
        end
    end
  end.

(* interfaces.py:506-526: the first response *)
Definition first_render_done (s : state) (g : reg) (res : rres) : state :=
  match res with
  | RRaise code pk pv =>
      let s := cancel_cb s (g_gid g) in
      let s := emit s g code None pk pv in
      remove_reg s (g_gid g)
  | RResp code pk pv =>
      if negb (successful code)
      then let s := emit s g code None pk pv in
           let s := remove_reg s (g_gid g) in
           cancel_cb s (g_gid g)
      else let g := set_next g 0 in
           let s := emit s g code (Some 0) pk pv in
           run_loop 2 s g
  end.

(* new render task for a GET with Observe:0 — add_observation (resource.py:159-167), then the first render *)
Definition accept (s : state) (r tok : Z) (con : bool) : state :=
  let gid := s_gidctr s in
  let s := set_gidctr s (gid + 1) in
  let s := set_observers s (s_observers s ++ [gid]) in
  let s := log s (OAdd gid (Z.of_nat (length (s_observers s))) r tok con) in
  let g := mkreg r tok gid con PWait (-1) None false in   (* next_observation_number not assigned yet *)
  let s := set_regs s (s_regs s ++ [g]) in
  let s := log s (ORender gid (s_version s)) in
  if s_gate s then put_reg s (set_phase g (PFirst (s_version s)))
  else first_render_done s g (render_outcome (s_mode s) (s_version s)).

(* request without Observe:0 — Resource._render_to_pipe, one final response; never gated by the test resource *)
Definition plain (s : state) (r tok : Z) (con : bool) : state :=
  let s := log s (ORender (-1) (s_version s)) in
  let m := fun code pk pv => mkmsg r NON 0 tok code None pk pv (-1) in
  match render_outcome (s_mode s) (s_version s) with
  | RResp code pk pv => send_message s (m code pk pv) con (-1)
  | RRaise code pk pv => send_message s (m code pk pv) con (-1)
  end.

(* ServerObservation.trigger, protocol.py:1350-1363 *)
Definition trigger (s : state) (gid : Z) (tv : tval) (last : bool) : state :=
  match find_reg s gid with
  | None => s
  | Some g => put_reg s (set_trig g (Some tv) (g_late g || last))
  end.

(* iteration order of the observer set: for each p in perm, element number (p mod remaining) of what is left; then the rest *)
Fixpoint pick_order (perm : list nat) (l : list Z) : list Z :=
  match perm, l with
  | _, [] => []
  | [], _ => l
  | p :: perm', x0 :: _ =>
      let i := Nat.modulo p (length l) in
      nth i l x0 :: pick_order perm' (firstn i l ++ skipn (S i) l)
  end.

(* ------------------------------------------------------------------ events *)
Inductive event :=
| ERequest (r : Z) (con : bool) (mid tok : Z) (obs : option Z)      (* GET /obs from observer r *)
| EAck (r mid : Z)
| ERst (r mid : Z)
| ETrigger (perm : list nat) (burst : list (tval * bool))            (* state changes, each followed by trigger(v, is_last) on every observer, no loop iteration in between *)
| ERenderDone (r tok : Z)
| ESetMode (m : mode)
| ESetGate (b : bool)
| EAdvance (dt : Z)
| ETransportError (r : Z)
| EShutdown.

(* _remove_exchange, messagemanager.py:265-285 *)
Definition remove_exchange (s : state) (r mid : Z) (is_rst : bool) : state :=
  match find (fun x => (x_remote x =? r) && (x_mid x =? mid)) (s_exch s) with
  | None => s                                   (* "could not match it to a running exchange" — in particular every NON notification (F15) *)
  | Some x =>
      let s := set_exch s (filter (fun x => negb ((x_remote x =? r) && (x_mid x =? mid))) (s_exch s)) in
      let s := cancel_timers s (is_retrans r mid) in
      let s := if is_rst then stop s (x_gid x) else s in
      continue_backlog s r
  end.

(* TokenManager.dispatch_error, tokenmanager.py:106-110: every unfinished incoming request of that remote is stopped *)
Definition stop_remote (s : state) (r : Z) : state :=
  fold_left stop (map g_gid (filter (fun g => g_remote g =? r) (s_regs s))) s.

(* MessageManager.dispatch_error, messagemanager.py:157-188 *)
Definition dispatch_error (s : state) (r : Z) : state :=
  if s_down s then s else
  let s := stop_remote s r in
  let s := set_exch s (filter (fun x => negb (x_remote x =? r)) (s_exch s)) in
  let s := cancel_timers s (is_retrans_remote r) in
  purge_backlog s r.

(* _retransmit, messagemanager.py:332-355 *)
Definition retransmit (s : state) (m : msg) (timeout counter : Z) : state :=
  if counter <? MAX_RETRANSMIT then
    let s := send_via_transport s m true in
    add_timer s (timeout * 2) (KRetrans m (timeout * 2) (counter + 1))
  else
    let s := set_exch s (filter (fun x => negb ((x_remote x =? m_remote m) && (x_mid x =? m_mid m))) (s_exch s)) in
    let s := purge_backlog s (m_remote m) in
    stop_remote s (m_remote m).

Definition fire (s : state) (k : tkind) : state :=
  match k with
  | KEmptyAck r tok =>
      match piggy_find s r tok with
      | None => s
      | Some mid => send_initially (piggy_remove s r tok) (mkmsg r ACK mid (-1) 0 None 0 0 (-1)) (-1) false
      end
  | KRetrans m timeout counter => retransmit s m timeout counter
  | KExpire r mid => set_recent s (filter (fun e => match e with (r', mid', _) => negb ((r' =? r) && (mid' =? mid)) end) (s_recent s))
  end.

(* the pending timer with the least (due, seq) *)
Definition timer_lt (a b : timer) : bool := (t_due a <? t_due b) || ((t_due a =? t_due b) && (t_seq a <? t_seq b)).
Fixpoint min_timer (l : list timer) : option timer :=
  match l with
  | [] => None
  | t :: l' => match min_timer l' with None => Some t | Some u => if timer_lt u t then Some u else Some t end
  end.
Fixpoint advance (fuel : nat) (s : state) (target : Z) : state :=
  match fuel with
  | O => s
  | S f =>
    match min_timer (s_timers s) with
    | None => s
    | Some t =>
        if t_due t <=? target then
          let s := set_timers s (filter (fun u => negb (t_seq u =? t_seq t)) (s_timers s)) in
          let s := set_now s (Z.max (s_now s) (t_due t)) in
          advance f (flush_cancels (fire s (t_kind t))) target
        else s
    end
  end.
Definition timer_weight (t : timer) : nat :=
  match t_kind t with KRetrans _ _ c => S (Z.to_nat (MAX_RETRANSMIT - c)) | _ => 1%nat end.
Definition advance_fuel (s : state) : nat := S (fold_left (fun a t => (a + timer_weight t)%nat) (s_timers s) 0%nat).

Definition process_request (s : state) (r : Z) (con : bool) (tok : Z) (obs : option Z) : state :=
  (* tokenmanager.py:112-122: a new request on the token of an unfinished one stops the old pipe *)
  let s := match find_key s r tok with Some g => stop s (g_gid g) | None => s end in
  let s := flush_cancels s in      (* the old task's cancellation runs before the new render task's first step *)
  match obs with
  | Some 0 => accept s r tok con
  | _ => plain s r tok con
  end.

Definition in_recent (s : state) (r mid : Z) : option (option msg) :=
  match find (fun e => match e with (r', mid', _) => (r' =? r) && (mid' =? mid) end) (s_recent s) with
  | Some (_, _, st) => Some st | None => None end.

(* resource.ObservableResource.updated_state (resource.py:173-178) once per state change of the burst *)
Definition trigger_burst (order : list Z) (burst : list (tval * bool)) (s : state) : state :=
  fold_left (fun s tb => let s := set_version s (s_version s + 1) in
                         fold_left (fun s gid => trigger s gid (fst tb) (snd tb)) order s) burst s.
Definition is_waiting (s : state) (gid : Z) : bool :=
  match find_reg s gid with Some g => match g_phase g with PWait => true | _ => false end | None => false end.
Definition wake (l : list Z) (s : state) : state :=
  fold_left (fun s gid => match find_reg s gid with Some g => run_loop 2 s g | None => s end) l s.

Definition step (s : state) (e : event) : state :=
  match e with
  | ERequest r con mid tok obs =>
      if s_down s then s else
      match in_recent s r mid with
      | Some stored =>                                            (* _deduplicate_message, messagemanager.py:194-222 *)
          if con then match stored with Some m => send_initially s m (-1) true | None => s end else s
      | None =>
          let s := add_timer s EXCHANGE_LIFETIME_US (KExpire r mid) in
          let s := set_recent s (s_recent s ++ [(r, mid, None)]) in
          let s :=                                                 (* _process_request, messagemanager.py:369-400 *)
            if con then
              let s := cancel_timers (piggy_remove s r tok) (is_emptyack r tok) in
              let s := add_timer s EMPTY_ACK_DELAY_US (KEmptyAck r tok) in
              set_piggy s (s_piggy s ++ [(r, tok, mid)])
            else s in
          flush_cancels (process_request s r con tok obs)
      end
  | EAck r mid => if s_down s then s else flush_cancels (remove_exchange s r mid false)
  | ERst r mid => if s_down s then s else flush_cancels (remove_exchange s r mid true)
  | ETrigger perm burst =>
      let order := pick_order perm (s_observers s) in
      let waiting := filter (is_waiting s) order in
      let s1 := trigger_burst order burst s in
      (* the tasks whose awaited future was resolved run in the order in which they were woken *)
      flush_cancels (match burst with [] => s1 | _ => wake waiting s1 end)
  | ERenderDone r tok =>
      match find_key s r tok with
      | None => s
      | Some g =>
          match g_phase g with
          | PFirst v => flush_cancels (first_render_done s g (render_outcome (s_mode s) v))
          | PNotif v => flush_cancels (after_response (run_loop 2) s g (render_outcome (s_mode s) v))
          | PWait => s
          end
      end
  | ESetMode m => set_mode s m
  | ESetGate b => set_gate s b
  | EAdvance dt =>
      let target := s_now s + dt in
      set_now (advance (advance_fuel s) s target) target
  | ETransportError r => flush_cancels (dispatch_error s r)
  | EShutdown =>
      if s_down s then s else
      (* TokenManager.shutdown (tokenmanager.py:44-54), then MessageManager.shutdown (messagemanager.py:78-91) *)
      let s := fold_left stop (map g_gid (s_regs s)) s in
      let s := cancel_timers s is_any_retrans in
      let s := set_exch s [] in
      let s := cancel_timers s is_any_emptyack in
      let s := set_piggy s [] in
      flush_cancels (set_down s true)
  end.

Definition run (s : state) (es : list event) : state := fold_left step es s.

(* ------------------------------------------------------------------ the harness's observers (script with relative addressing) *)
Inductive sevent := SAck (r : Z) (i : nat) | SRst (r : Z) (i : nat) | SEv (e : event).
Definition BOGUS_MID := 60000.
(* unanswered CON/NON messages the observers have seen, oldest first *)
Fixpoint view_add (v : list (Z * Z)) (outs : list output) : list (Z * Z) :=
  match outs with
  | [] => v
  | OSend m false :: r =>
      match m_mtype m with CON | NON => view_add (v ++ [(m_remote m, m_mid m)]) r | _ => view_add v r end
  | _ :: r => view_add v r
  end.
Definition view_pick (v : list (Z * Z)) (r : Z) (i : nat) : Z * list (Z * Z) :=
  let mine := rev (map snd (filter (fun e => fst e =? r) v)) in
  match nth_error mine i with
  | Some mid => (mid, filter (fun e => negb ((fst e =? r) && (snd e =? mid))) v)
  | None => (BOGUS_MID + Z.of_nat i, v)
  end.
Definition new_outputs (old new : state) : list output :=
  rev (firstn (length (s_hist new) - length (s_hist old)) (s_hist new)).

Definition out_z (o : output) : list Z :=
  match o with
  | OSend m rt => [0; m_remote m; mtype_z (m_mtype m); m_mid m; m_token m; m_code m;
                   match m_observe m with Some n => n | None => -1 end; m_pk m; m_pv m; m_gid m; if rt then 1 else 0]
  | OAdd gid n r tok con => [1; gid; n; r; tok; if con then 1 else 0]
  | OCancel gid n => [2; gid; n]
  | ORender gid v => [3; gid; v]
  end.

Fixpoint drive (s : state) (v : list (Z * Z)) (es : list sevent) : list (list (list Z) * Z) * state :=
  match es with
  | [] => ([], s)
  | e :: rest =>
      let '(ev, v1, resolved) :=
        match e with
        | SAck r i => let '(mid, v') := view_pick v r i in (EAck r mid, v', mid)
        | SRst r i => let '(mid, v') := view_pick v r i in (ERst r mid, v', mid)
        | SEv ev => (ev, v, -1)
        end in
      let s1 := step s ev in
      let outs := new_outputs s s1 in
      let '(more, sf) := drive s1 (view_add v1 outs) rest in
      ((map out_z outs, resolved) :: more, sf)
  end.

Definition phase_z (p : phase) : Z := match p with PFirst _ => 1 | PWait => 0 | PNotif _ => 2 end.
Definition summary (s : state) :=
  (s_observers s,
   map (fun g => [g_remote g; g_token g]) (s_regs s),
   map (fun g => [g_remote g; g_token g]) (filter (fun g => negb (phase_z (g_phase g) =? 0)) (s_regs s)),
   map (fun x => [x_remote x; x_mid x]) (s_exch s),
   map (fun e => [m_remote (fst e); m_mid (fst e)]) (s_backlog s),
   s_piggy s, s_version s, s_now s).

Definition run_script (mid0 : Z) (es : list sevent) :=
  let '(outs, s) := drive (init mid0) [] es in (outs, summary s).
