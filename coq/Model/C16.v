(* C16 — CoAP URIs <-> Uri-* options.  Hand-written executable model (tie C) of
     Message.set_request_uri   (aiocoap/message.py:672-761, RFC 7252 section 6.4)
     Message.get_request_uri   (aiocoap/message.py:553-670, section 6.5; request messages)
     UndecidedRemote.__new__   (aiocoap/message.py:838-847)
     hostportsplit             (aiocoap/util/__init__.py:132-155)
   on top of a model of the parts of urllib.parse (CPython 3.12) they call: urlsplit/urlparse,
   SplitResult.hostname/.port/.username/.password, unquote(errors="strict"), urlunparse.
   quote / quote_nonascii / hostportjoin and the safe sets are the TRANSLATED code (Gen/uri_kernels.v).
   The model is total on all strings (lists of code points); it raises [Unmodelled] exactly when the
   network location contains non-ASCII characters (there CPython consults Unicode tables: NFKC, str.lower).
   [ip_address] (ipaddress.ip_address followed by str()) is a parameter: trusted stdlib.
   No proofs in this file. *)
From Verif Require Import Lib.Py Model.C16Str Gen.uri_kernels.
Open Scope Z_scope.

Definition is_nil {A} (l : list A) : bool := match l with [] => true | _ => false end.
Fixpoint mapM {A B} (f : A -> M B) (l : list A) : M (list B) :=
  match l with [] => Ok [] | a :: r => b <- f a ;; rest <- mapM f r ;; Ok (b :: rest) end.

(* ------------------------------------------------------------------ urllib.parse.unquote(s, errors="strict") *)
(* _unquote_impl on an ASCII run: "%" followed by two hex digits is decoded, any other "%" is kept *)
Fixpoint unquote_impl (s : str) : list Z :=
  match s with
  | [] => []
  | c :: r =>
    if c =? 37 then
      match r with
      | h1 :: h2 :: r' =>
        match hexval h1, hexval h2 with
        | Some a, Some b => (a * 16 + b) :: unquote_impl r'
        | _, _ => 37 :: unquote_impl r
        end
      | _ => 37 :: unquote_impl r
      end
    else c :: unquote_impl r
  end.
Definition decode_run (run : str) : M str := utf8_decode (unquote_impl run).
(* _generate_unquoted_parts: every maximal ASCII run is unquoted and decoded strictly, non-ASCII text is kept *)
Fixpoint unquote_parts (s : str) (run_rev : str) : M str :=
  match s with
  | [] => decode_run (rev run_rev)
  | c :: r =>
    if is_ascii c then unquote_parts r (c :: run_rev)
    else d <- decode_run (rev run_rev) ;; rest <- unquote_parts r [] ;; Ok (d ++ c :: rest)
  end.
Definition unquote (s : str) : M str := unquote_parts s [].

(* ------------------------------------------------------------------ SplitResult accessors (urllib/parse.py _NetlocResultMixinStr) *)
(* _hostinfo: (hostname, port string or None) *)
Definition hostinfo_of (netloc : str) : str * option str :=
  let '(_, _, hostinfo) := rpartition 64 netloc in
  let '(_, have_open_br, bracketed) := partition 91 hostinfo in
  let '(hostname, port) :=
    if have_open_br then
      let '(hostname, _, port) := partition 93 bracketed in
      let '(_, _, port) := partition 58 port in (hostname, port)
    else
      let '(hostname, _, port) := partition 58 hostinfo in (hostname, port) in
  (hostname, if is_nil port then None else Some port).
(* _userinfo: (username, password) *)
Definition userinfo_of (netloc : str) : option str * option str :=
  let '(userinfo, have_info, _) := rpartition 64 netloc in
  if have_info then
    let '(username, have_password, password) := partition 58 userinfo in
    (Some username, if have_password then Some password else None)
  else (None, None).
(* .hostname: lower-cased up to the first "%" (zone identifiers keep their case) *)
Definition hostname_of (netloc : str) : M (option str) :=
  let hostname := fst (hostinfo_of netloc) in
  if is_nil hostname then Ok None
  else
    let '(h, percent, zone) := partition 37 hostname in
    if all_ascii h then Ok (Some (lower_ascii h ++ (if percent then [37] else []) ++ zone))
    else Raise Unmodelled.
(* .port *)
Definition port_of (netloc : str) : M (option Z) :=
  match snd (hostinfo_of netloc) with
  | None => Ok None
  | Some port =>
    if forallb is_digit port then
      p <- py_int_digits port ;; if p <=? 65535 then Ok (Some p) else Raise ValueError
    else Raise ValueError
  end.

(* aiocoap.util.hostportsplit: SplitResult(None, hostport, None, None, None).hostname / .port *)
Definition hostportsplit (hostport : str) : M (option str * option Z) :=
  h <- hostname_of hostport ;; p <- port_of hostport ;; Ok (h, p).

(* ------------------------------------------------------------------ urllib.parse.urlsplit *)
Definition scheme_char (c : Z) : bool := is_alpha c || is_digit c || (c =? 43) || (c =? 45) || (c =? 46).
Definition unsafe_byte (c : Z) : bool := (c =? 9) || (c =? 13) || (c =? 10).
Definition remove_unsafe (s : str) : str := filter (fun c => negb (unsafe_byte c)) s.
Definition split_scheme (url : str) : str * str :=
  let '(before, found, after) := partition 58 url in
  if found && (match url with c :: _ => is_ascii c && is_alpha c | [] => false end) && forallb scheme_char before
  then (lower_ascii before, after) else ([], url).
Definition is_delim (c : Z) : bool := (c =? 47) || (c =? 63) || (c =? 35).
(* _splitnetloc(url, 2), applied to url[2:] *)
Fixpoint splitnetloc (s : str) : str * str :=
  match s with
  | [] => ([], [])
  | c :: r => if is_delim c then ([], s) else let '(a, b) := splitnetloc r in (c :: a, b)
  end.
Definition is_hex (c : Z) : bool := match hexval c with Some _ => true | None => false end.

Inductive ipres := IpBad | Ip4 (normal : str) | Ip6 (normal : str).

Definition uses_netloc_stdlib : list str :=
  [[]; [102; 116; 112]; [104; 116; 116; 112]; [103; 111; 112; 104; 101; 114]; [110; 110; 116; 112]; [116; 101; 108; 110; 101; 116]; [105; 109; 97; 112]; [119; 97; 105; 115]; [102; 105; 108; 101]; [109; 109; 115]; [104; 116; 116; 112; 115]; [115; 104; 116; 116; 112]; [115; 110; 101; 119; 115]; [112; 114; 111; 115; 112; 101; 114; 111]; [114; 116; 115; 112]; [114; 116; 115; 112; 115]; [114; 116; 115; 112; 117]; [114; 115; 121; 110; 99]; [115; 118; 110]; [115; 118; 110; 43; 115; 115; 104]; [115; 102; 116; 112]; [110; 102; 115]; [103; 105; 116]; [103; 105; 116; 43; 115; 115; 104]; [119; 115]; [119; 115; 115]; [105; 116; 109; 115; 45; 115; 101; 114; 118; 105; 99; 101; 115]].
(* message.py:41-42 extends urllib.parse.uses_netloc with the CoAP schemes *)
Definition uses_netloc : list str := uses_netloc_stdlib ++ coap_schemes.

(* urllib.parse.urlunparse((scheme, netloc, path, "", query, None)) *)
Definition urlunsplit (scheme netloc url query : str) : str :=
  let url :=
    if negb (is_nil netloc) || (negb (is_nil scheme) && existsb (beqb scheme) uses_netloc && negb (startswith url [47; 47]))
    then let url := if negb (is_nil url) && negb (startswith url [47]) then 47 :: url else url in
         [47; 47] ++ netloc ++ url
    else url in
  let url := if negb (is_nil scheme) then scheme ++ 58 :: url else url in
  if negb (is_nil query) then url ++ 63 :: query else url.

Definition catch_unicode {A} (m : M A) : M A :=        (* except UnicodeError -> MalformedUrlError *)
  match m with Raise UnicodeDecodeError => Raise MalformedUrlError | x => x end.
Definition catch_value {A} (m : M A) : M A :=          (* except ValueError -> MalformedUrlError *)
  match m with Raise ValueError => Raise MalformedUrlError | x => x end.
Definition truthy (o : option str) : bool := match o with Some (_ :: _) => true | _ => false end.

(* what set_request_uri leaves on the message: Proxy-Uri, or remote = (scheme, hostinfo) + Uri-Host/Path/Query *)
Inductive decomposed :=
| DProxy (proxy_uri : str)
| DRequest (scheme hostinfo : str) (uri_host : option str) (uri_path uri_query : list str).

(* the options and remote get_request_uri reads on a request message *)
Record request_opts := {
  r_scheme : str; r_hostinfo : str;
  o_uri_host : option str; o_uri_port : option Z; o_uri_path : list str; o_uri_query : list str;
  o_proxy_uri : option str; o_proxy_scheme : option str }.

Section WithIp.
Variable ip_address : str -> ipres.          (* ipaddress.ip_address(s), then str() of the result *)

(* urllib.parse._check_bracketed_host *)
Definition check_bracketed_host (hostname : str) : M unit :=
  if startswith hostname [118] then
    (* re.match(r"\Av[a-fA-F0-9]+\..+\Z", hostname) *)
    let '(hexpart, dot, tail) := partition 46 (skipn 1 hostname) in
    if dot && negb (is_nil hexpart) && forallb is_hex hexpart && negb (is_nil tail) then Ok tt else Raise ValueError
  else match ip_address hostname with Ip6 _ => Ok tt | _ => Raise ValueError end.

(* (scheme, netloc, path, query, fragment) *)
Definition urlsplit (url : str) : M (str * str * str * str * str) :=
  let url := remove_unsafe (lstrip_c0 url) in
  let '(scheme, url) := split_scheme url in
  '(netloc, url) <-
    (if startswith url [47; 47] then
       let '(netloc, rest) := splitnetloc (skipn 2 url) in
       let ob := mem 91 netloc in
       let cb := mem 93 netloc in
       if (ob && negb cb) || (cb && negb ob) then Raise ValueError
       else
         _ <- (if ob && cb
               then check_bracketed_host (fst (fst (partition 93 (snd (partition 91 netloc)))))
               else Ok tt) ;;
         Ok (netloc, rest)
     else Ok ([], url)) ;;
  let '(url, _, fragment) := partition 35 url in
  let '(url, _, query) := partition 63 url in
  (* _checknetloc: NFKC normalisation of a non-ASCII netloc is outside the model *)
  if all_ascii netloc then Ok (scheme, netloc, url, query, fragment) else Raise Unmodelled.

(* UndecidedRemote(scheme, hostinfo): IP literals in brackets are normalised (message.py:838-847) *)
Definition undecided_remote (scheme hostinfo : str) : M (str * str) :=
  if mem 91 hostinfo then
    '(host, port) <- hostportsplit hostinfo ;;
    match host with
    | None => Raise ValueError
    | Some host =>
      match ip_address host with
      | IpBad => Raise ValueError
      | Ip4 s | Ip6 s => hi <- hostportjoin s port ;; Ok (scheme, hi)
      end
    end
  else Ok (scheme, hostinfo).

(* all(x and len(x) <= 3 and int(x) <= 255 for x in hostname.split(".")) *)
Fixpoint all_octets (parts : list str) : M bool :=
  match parts with
  | [] => Ok true
  | x :: r => if is_nil x then Ok false
              else if negb (blen x <=? 3) then Ok false
              else v <- py_int_digits x ;; if v <=? 255 then all_octets r else Ok false
  end.
Definition is_ipv4_literal (hostname : str) : M bool :=
  if (count_c 46 hostname =? 3) && forallb (fun c => is_digit c || (c =? 46)) hostname
  then all_octets (split_on 46 hostname) else Ok false.

Definition unquote_path (path : str) : M (list str) :=
  if is_nil path || beqb path [47] then Ok [] else mapM unquote (skipn 1 (split_on 47 path)).
Definition unquote_query (query : str) : M (list str) :=
  if is_nil query then Ok [] else mapM unquote (split_on 38 query).

(* Message.set_request_uri(uri, set_uri_host=...) *)
Definition set_request_uri (uri : str) (set_uri_host : bool) : M decomposed :=
  parsed <- catch_value (urlsplit uri) ;;
  let '(scheme, netloc, path, query, fragment) := parsed in
  if negb (is_nil fragment) then Raise MalformedUrlError
  else if is_nil scheme then Raise IncompleteUrlError
  else if negb (existsb (beqb scheme) coap_schemes) then Ok (DProxy uri)
  else
    hostname <- hostname_of netloc ;;
    match hostname with
    | None => Raise MalformedUrlError
    | Some hostname =>
      let '(username, password) := userinfo_of netloc in
      if truthy username || truthy password then Raise MalformedUrlError
      else
        uri_path <- catch_unicode (unquote_path path) ;;
        uri_query <- catch_unicode (unquote_query query) ;;
        _ <- catch_value (port_of netloc) ;;
        remote <- catch_value (undecided_remote scheme netloc) ;;      (* except ValueError -> MalformedUrlError (IPvFuture) *)
        is_ip_literal <- (if mem 91 netloc then Ok true else is_ipv4_literal hostname) ;;   (* "[" in parsed.netloc *)
        if set_uri_host && negb is_ip_literal then
          h <- catch_unicode (unquote hostname) ;;
          Ok (DRequest (fst remote) (snd remote) (Some (translate ascii_lowercase h)) uri_path uri_query)
        else Ok (DRequest (fst remote) (snd remote) None uri_path uri_query)
    end.

(* Message.get_request_uri() on a request message (no Uri-Path-Abbrev, client side) *)
(* host.removeprefix("[").removesuffix("]") *)
Definition strip_brackets (h : str) : str :=
  let h := match h with c :: r => if c =? 91 then r else h | [] => h end in
  match rev h with c :: r => if c =? 93 then rev r else h | [] => h end.
(* try: ipaddress.ip_address(...); escaped_host = host  except ValueError: escaped_host = _quote_for_host(host) (76b5301) *)
Definition escape_host (host : str) : M str :=
  match ip_address (strip_brackets host) with
  | IpBad => quote quote_for_host_chars host
  | _ => Ok host
  end.
Definition compose_netloc (m : request_opts) : M str :=
  match o_uri_host m, o_uri_port m with
  | None, None => Ok (r_hostinfo m)
  | _, _ =>
    '(host, port) <- hostportsplit (r_hostinfo m) ;;
    let host := match o_uri_host m with Some (c :: h) => Some (c :: h) | _ => host end in       (* uri_host or host *)
    let port := match o_uri_port m with Some p => if p =? 0 then port else Some p | None => port end in
    match host with
    | None => Raise AttributeError                      (* None.removeprefix *)
    | Some host => escaped_host <- escape_host host ;; hostportjoin escaped_host port
    end
  end.
Definition compose_query (q : list str) : M str := l <- mapM (quote quote_for_query_chars) q ;; Ok (join [38] l).
Definition compose_path (p : list str) : M str :=
  l <- mapM (quote quote_for_path_chars) p ;;
  let path := flat_map (fun x => 47 :: x) l in Ok (if is_nil path then [47] else path).
Definition get_request_uri (m : request_opts) : M str :=
  match o_proxy_uri m with
  | Some proxyuri => Ok proxyuri
  | None =>
    let scheme := match o_proxy_scheme m with Some (c :: s) => c :: s | _ => r_scheme m end in
    netloc <- compose_netloc m ;;
    query <- compose_query (o_uri_query m) ;;
    path <- compose_path (o_uri_path m) ;;
    Ok (urlunsplit scheme netloc path query)
  end.

(* the message a client gets from set_request_uri, as get_request_uri sees it *)
Definition opts_of (d : decomposed) : request_opts :=
  match d with
  | DProxy u => {| r_scheme := []; r_hostinfo := []; o_uri_host := None; o_uri_port := None; o_uri_path := []; o_uri_query := [];
                   o_proxy_uri := Some u; o_proxy_scheme := None |}
  | DRequest s hi h p q => {| r_scheme := s; r_hostinfo := hi; o_uri_host := h; o_uri_port := None; o_uri_path := p; o_uri_query := q;
                              o_proxy_uri := None; o_proxy_scheme := None |}
  end.
End WithIp.

(* the harness supplies the results of the real ipaddress module for the bracketed hosts of a case *)
Fixpoint ip_lookup (tbl : list (str * ipres)) (s : str) : ipres :=
  match tbl with [] => IpBad | (k, v) :: r => if beqb k s then v else ip_lookup r s end.

(* entry points evaluated by the correspondence run *)
Definition run_decompose tbl uri flag := set_request_uri (ip_lookup tbl) uri flag.
Definition run_compose tbl (m : request_opts) : M str :=
  r <- undecided_remote (ip_lookup tbl) (r_scheme m) (r_hostinfo m) ;;
  get_request_uri (ip_lookup tbl) {| r_scheme := fst r; r_hostinfo := snd r; o_uri_host := o_uri_host m; o_uri_port := o_uri_port m;
                     o_uri_path := o_uri_path m; o_uri_query := o_uri_query m; o_proxy_uri := o_proxy_uri m; o_proxy_scheme := o_proxy_scheme m |}.
(* uri -> options -> uri -> options *)
Definition run_roundtrip tbl uri : M (decomposed * str * decomposed) :=
  d <- set_request_uri (ip_lookup tbl) uri true ;;
  u <- get_request_uri (ip_lookup tbl) (opts_of d) ;;
  d' <- set_request_uri (ip_lookup tbl) u true ;;
  Ok (d, u, d').

(* staged variants: every stage's outcome is reported, so that the correspondence run compares partial results too *)
Definition run_roundtrip_staged tbl uri : M decomposed * option (M str) * option (M decomposed) * option (M str) :=
  let d := set_request_uri (ip_lookup tbl) uri true in
  match d with
  | Raise _ => (d, None, None, None)
  | Ok dd =>
    let u := get_request_uri (ip_lookup tbl) (opts_of dd) in
    match u with
    | Raise _ => (d, Some u, None, None)
    | Ok uu =>
      let d2 := set_request_uri (ip_lookup tbl) uu true in
      match d2 with
      | Raise _ => (d, Some u, Some d2, None)
      | Ok dd2 => (d, Some u, Some d2, Some (get_request_uri (ip_lookup tbl) (opts_of dd2)))
      end
    end
  end.
Definition run_compose_back tbl (m : request_opts) : M str * option (M decomposed) :=
  let u := run_compose tbl m in
  match u with
  | Raise _ => (u, None)
  | Ok uu => (u, Some (set_request_uri (ip_lookup tbl) uu true))
  end.
Definition run_hostportjoin_split (host : str) (port : option Z) : M str * option (M (option str * option Z)) :=
  let j := hostportjoin host port in
  match j with Raise _ => (j, None) | Ok jj => (j, Some (hostportsplit jj)) end.
