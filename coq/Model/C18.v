(* C18 — shutdown slice of the message layer.  Executable model of
     aiocoap/tokenmanager.py   (TokenManager: shutdown, dispatch_error, process_request, process_response, request)
     aiocoap/messagemanager.py (MessageManager: shutdown, dispatch_message, dispatch_error, _deduplicate_message,
                                _store_response_for_duplicates, _add_exchange, _remove_exchange, _continue_backlog,
                                _schedule_retransmit, _retransmit, _process_ping, _process_request, send_message,
                                _send_initially, _next_message_id, _send_empty_ack)
     aiocoap/protocol.py       (Context.shutdown; Request._run as far as it decides what the application sees)
     aiocoap/pipe.py           (only through "is the pipe still alive": an entry in outgoing/incoming requests)
   Every function is named after the Python method it mirrors.  Messages are the header-level view of a datagram
   (type, code, message id, token as an integer, Observe option, remote).  Not modelled: payloads and other options,
   No-Response, multicast remotes, transport tuning other than the defaults, and exception propagation beyond the
   raising callback (an [OExc] output marks the place; no in-scope run produces one, see Proofs/C18.v).
   No proofs in this file. *)
From Verif Require Import Lib.Py.
Open Scope Z_scope.

Notation remote := Z (only parsing).
Inductive mtype := CON | NON | ACK | RST.
Definition mtype_eqb (a b : mtype) : bool :=
  match a, b with CON, CON | NON, NON | ACK, ACK | RST, RST => true | _, _ => false end.

Record msg := { m_type : mtype; m_code : Z; m_mid : Z; m_token : Z; m_obs : option Z; m_remote : remote }.

(* numbers/codes.py:78-87 *)
Definition is_request (c : Z) : bool := (1 <=? c) && (c <? 32).
Definition is_response (c : Z) : bool := (64 <=? c) && (c <? 192).
Definition EMPTY : Z := 0.
Definition GET : Z := 1.

(* numbers/constants.py, in microseconds *)
Definition EMPTY_ACK_DELAY : Z := 100000.
Definition EXCHANGE_LIFETIME : Z := 247000000.
Definition MAX_RETRANSMIT : Z := 4.
Definition OBSERVATION_RESET_TIME : Z := 128000000.

Inductive output :=
| OSend (m : msg)                               (* message_interface.send *)
| OResp (q code : Z) (obs : option Z)           (* Request.response resolved *)
| OFail (q : Z) (e : exn)                       (* Request.response failed *)
| ONotif (q code : Z) (obs : option Z)          (* ClientObservation.callback *)
| OObsEnd (q : Z) (e : exn)                     (* ClientObservation.error *)
| OCancelled (q : Z)                            (* the application cancelled Request.response *)
| OHStart (h : Z) (r : remote) (tok : Z)        (* a server handler task starts *)
| OHCancel (h : Z)                              (* a running server handler task is cancelled *)
| OShutdownDone                                 (* Context.shutdown returned *)
| OExc (e : exn).                               (* an exception left a callback / was raised into the caller *)

(* ---------------------------------------------------------------- state *)
(* TokenManager.outgoing_requests entry + the state of the Request generator behind its pipe (protocol.py Request._run) *)
Record oreq := { o_tok : Z; o_remote : remote; o_q : Z; o_observe : bool;
                 o_first : bool;              (* first event already delivered, i.e. observation running *)
                 o_v1 : Z; o_t1 : Z }.
(* TokenManager.incoming_requests entry; the handler task behind the pipe is running iff the entry exists *)
Record ireq := { i_tok : Z; i_remote : remote; i_h : Z; i_type : mtype (* request.mtype, kept by the pipe *) }.
Inductive monitor := MonReq (q : Z) | MonSrv (h : Z) | MonNone.
(* the closures given to loop.call_later whose handles are kept (and cancelled) *)
Inductive tkind := TRetransmit (m : msg) (timeout count : Z) | TEmptyAck (r : remote) (tok : Z).
Record timer := { t_due : Z; t_id : Z; t_kind : tkind }.
(* the _recent_messages.pop timers: their handle is dropped (messagemanager.py:219-222), they can never be cancelled *)
Record forget := { f_due : Z; f_id : Z; f_remote : remote; f_mid : Z }.
Record exchange := { x_remote : remote; x_mid : Z; x_mon : monitor; x_timer : Z }.
Record piggy := { p_remote : remote; p_tok : Z; p_mid : Z; p_timer : Z }.
Record backlog := { b_remote : remote; b_items : list (msg * monitor) }.
Record recent := { r_remote : remote; r_mid : Z; r_stored : option msg }.

Record mmst := {
  message_id : Z;
  recents : list recent;                 (* _recent_messages *)
  exchanges : option (list exchange);    (* _active_exchanges; None after shutdown *)
  backlogs : list backlog;               (* _backlogs *)
  piggys : list piggy;                   (* _piggyback_opportunities *)
  timers : list timer; forgets : list forget; next_tid : Z; now : Z;   (* the event loop's view *)
  uniform : Z;                           (* value of random.uniform(ACK_TIMEOUT, ACK_TIMEOUT*ACK_RANDOM_FACTOR), microseconds *)
  transport_down : bool }.               (* message_interface.shutdown() has run *)
Record tmst := {
  token : Z;
  outgoing : option (list oreq);         (* outgoing_requests; None after shutdown *)
  incoming : option (list ireq);         (* incoming_requests; None after shutdown *)
  next_h : Z;
  (* Context.request: requests whose send() task is still inside find_remote_and_interface (protocol.py:547-570, eg. name
     resolution); they are in no TokenManager table yet.  (label, remote, type, observe) *)
  resolving : list (Z * remote * mtype * bool) }.
Record st := { tm : tmst; mm : mmst }.

Definition init (uniform0 mid0 tok0 : Z) : st :=
  {| tm := {| token := tok0; outgoing := Some []; incoming := Some []; next_h := 0; resolving := [] |};
     mm := {| message_id := mid0; recents := []; exchanges := Some []; backlogs := []; piggys := [];
              timers := []; forgets := []; next_tid := 0; now := 0; uniform := uniform0; transport_down := false |} |}.

(* field updates *)
Definition mm_set_recents (s : mmst) v := {| message_id := message_id s; recents := v; exchanges := exchanges s; backlogs := backlogs s; piggys := piggys s; timers := timers s; forgets := forgets s; next_tid := next_tid s; now := now s; uniform := uniform s; transport_down := transport_down s |}.
Definition mm_set_exchanges (s : mmst) v := {| message_id := message_id s; recents := recents s; exchanges := v; backlogs := backlogs s; piggys := piggys s; timers := timers s; forgets := forgets s; next_tid := next_tid s; now := now s; uniform := uniform s; transport_down := transport_down s |}.
Definition mm_set_backlogs (s : mmst) v := {| message_id := message_id s; recents := recents s; exchanges := exchanges s; backlogs := v; piggys := piggys s; timers := timers s; forgets := forgets s; next_tid := next_tid s; now := now s; uniform := uniform s; transport_down := transport_down s |}.
Definition mm_set_piggys (s : mmst) v := {| message_id := message_id s; recents := recents s; exchanges := exchanges s; backlogs := backlogs s; piggys := v; timers := timers s; forgets := forgets s; next_tid := next_tid s; now := now s; uniform := uniform s; transport_down := transport_down s |}.
Definition mm_set_timers (s : mmst) v := {| message_id := message_id s; recents := recents s; exchanges := exchanges s; backlogs := backlogs s; piggys := piggys s; timers := v; forgets := forgets s; next_tid := next_tid s; now := now s; uniform := uniform s; transport_down := transport_down s |}.
Definition mm_set_forgets (s : mmst) v := {| message_id := message_id s; recents := recents s; exchanges := exchanges s; backlogs := backlogs s; piggys := piggys s; timers := timers s; forgets := v; next_tid := next_tid s; now := now s; uniform := uniform s; transport_down := transport_down s |}.
Definition mm_set_next_tid (s : mmst) v := {| message_id := message_id s; recents := recents s; exchanges := exchanges s; backlogs := backlogs s; piggys := piggys s; timers := timers s; forgets := forgets s; next_tid := v; now := now s; uniform := uniform s; transport_down := transport_down s |}.
Definition mm_set_now (s : mmst) v := {| message_id := message_id s; recents := recents s; exchanges := exchanges s; backlogs := backlogs s; piggys := piggys s; timers := timers s; forgets := forgets s; next_tid := next_tid s; now := v; uniform := uniform s; transport_down := transport_down s |}.
Definition mm_set_message_id (s : mmst) v := {| message_id := v; recents := recents s; exchanges := exchanges s; backlogs := backlogs s; piggys := piggys s; timers := timers s; forgets := forgets s; next_tid := next_tid s; now := now s; uniform := uniform s; transport_down := transport_down s |}.
Definition mm_set_transport_down (s : mmst) v := {| message_id := message_id s; recents := recents s; exchanges := exchanges s; backlogs := backlogs s; piggys := piggys s; timers := timers s; forgets := forgets s; next_tid := next_tid s; now := now s; uniform := uniform s; transport_down := v |}.
Definition tm_set_outgoing (s : tmst) v := {| token := token s; outgoing := v; incoming := incoming s; next_h := next_h s; resolving := resolving s |}.
Definition tm_set_incoming (s : tmst) v := {| token := token s; outgoing := outgoing s; incoming := v; next_h := next_h s; resolving := resolving s |}.
Definition tm_set_token (s : tmst) v := {| token := v; outgoing := outgoing s; incoming := incoming s; next_h := next_h s; resolving := resolving s |}.
Definition tm_set_next_h (s : tmst) v := {| token := token s; outgoing := outgoing s; incoming := incoming s; next_h := v; resolving := resolving s |}.
Definition tm_set_resolving (s : tmst) v := {| token := token s; outgoing := outgoing s; incoming := incoming s; next_h := next_h s; resolving := v |}.

(* ---------------------------------------------------------------- the event loop: call_later / cancel *)
Definition call_later (s : mmst) (delay : Z) (k : tkind) : mmst * Z :=
  let id := next_tid s in
  (mm_set_next_tid (mm_set_timers s (timers s ++ [{| t_due := now s + delay; t_id := id; t_kind := k |}])) (id + 1), id).
Definition call_later_forget (s : mmst) (delay : Z) (r : remote) (mid : Z) : mmst :=
  let id := next_tid s in
  mm_set_next_tid (mm_set_forgets s (forgets s ++ [{| f_due := now s + delay; f_id := id; f_remote := r; f_mid := mid |}])) (id + 1).
Definition cancel (s : mmst) (id : Z) : mmst :=
  mm_set_timers s (filter (fun t => negb (t_id t =? id)) (timers s)).

(* ---------------------------------------------------------------- MessageManager, downward half (never calls into the token manager) *)
(* messagemanager.py:523-527 *)
Definition _next_message_id (s : mmst) : mmst * Z :=
  (mm_set_message_id s (Z.land 65535 (1 + message_id s)), message_id s).

Definition is_ack_or_rst (t : mtype) : bool := match t with ACK | RST => true | _ => false end.
Definition recent_is (r : remote) (mid : Z) (e : recent) : bool := (r_remote e =? r) && (r_mid e =? mid).

(* messagemanager.py:226-238 *)
Definition _store_response_for_duplicates (s : mmst) (m : msg) : mmst :=
  if negb (is_ack_or_rst (m_type m)) then s
  else mm_set_recents s (map (fun e => if recent_is (m_remote m) (m_mid m) e
                                       then {| r_remote := r_remote e; r_mid := r_mid e; r_stored := Some m |} else e) (recents s)).

Definition has_backlog (s : mmst) (r : remote) : bool := existsb (fun b => b_remote b =? r) (backlogs s).
Definition has_exchange (xs : list exchange) (r : remote) : bool := existsb (fun x => x_remote x =? r) xs.
Definition exchange_is (r : remote) (mid : Z) (x : exchange) : bool := (x_remote x =? r) && (x_mid x =? mid).

(* messagemanager.py:304-322 *)
Definition _schedule_retransmit (s : mmst) (m : msg) (timeout count : Z) : mmst * Z :=
  call_later s timeout (TRetransmit m timeout count).

(* messagemanager.py:244-266 *)
Definition _add_exchange (s : mmst) (m : msg) (mon : monitor) : mmst * list output :=
  let s1 := if has_backlog s (m_remote m) then s
            else mm_set_backlogs s (backlogs s ++ [{| b_remote := m_remote m; b_items := [] |}]) in
  let '(s2, id) := _schedule_retransmit s1 m (uniform s1) 0 in
  match exchanges s2 with
  | None => (s2, [OExc TypeError])       (* 'NoneType' object does not support item assignment *)
  | Some xs =>
      (mm_set_exchanges s2 (Some (filter (fun x => negb (exchange_is (m_remote m) (m_mid m) x)) xs
                                  ++ [{| x_remote := m_remote m; x_mid := m_mid m; x_mon := mon; x_timer := id |}])), [])
  end.

(* messagemanager.py:517-521 *)
Definition _send_via_transport (m : msg) : list output := [OSend m].

(* messagemanager.py:501-515 *)
Definition _send_initially (s : mmst) (m : msg) (mon : monitor) : mmst * list output :=
  let '(s1, o1) := match m_type m with CON => _add_exchange s m mon | _ => (s, []) end in
  match o1 with
  | _ :: _ => (s1, o1)                   (* _add_exchange raised: nothing is sent *)
  | [] => (_store_response_for_duplicates s1 m, _send_via_transport m)
  end.

(* messagemanager.py:529-547 *)
Definition _send_empty_ack (s : mmst) (r : remote) (mid : Z) : mmst * list output :=
  _send_initially s {| m_type := ACK; m_code := EMPTY; m_mid := mid; m_token := 0; m_obs := None; m_remote := r |} MonNone.

Definition backlog_items (s : mmst) (r : remote) : option (list (msg * monitor)) :=
  match find (fun b => b_remote b =? r) (backlogs s) with Some b => Some (b_items b) | None => None end.
Definition set_backlog_items (s : mmst) (r : remote) (items : list (msg * monitor)) : mmst :=
  mm_set_backlogs s (map (fun b => if b_remote b =? r then {| b_remote := r; b_items := items |} else b) (backlogs s)).
Definition del_backlog (s : mmst) (r : remote) : mmst :=
  mm_set_backlogs s (filter (fun b => negb (b_remote b =? r)) (backlogs s)).

(* messagemanager.py:283-302; the while loop runs at most once per queued message *)
Fixpoint _continue_backlog_loop (fuel : nat) (s : mmst) (r : remote) : mmst * list output :=
  match fuel with
  | O => (s, [])
  | S fuel' =>
    match exchanges s with
    | None => (s, [OExc AttributeError])
    | Some xs =>
      if has_exchange xs r then (s, [])
      else match backlog_items s r with
           | None => (s, [OExc KeyError])
           | Some [] => (del_backlog s r, [])
           | Some ((m, mon) :: rest) =>
               let '(s1, o1) := _send_initially (set_backlog_items s r rest) m mon in
               let '(s2, o2) := _continue_backlog_loop fuel' s1 r in (s2, o1 ++ o2)
           end
    end
  end.
Definition _continue_backlog (s : mmst) (r : remote) : mmst * list output :=
  match backlog_items s r with
  | None => (s, [OExc AssertionError])
  | Some items => _continue_backlog_loop (S (S (length items))) s r
  end.

(* messagemanager.py:397-499.  [mt] = message.mtype as set by the caller, [reqtype] = message.request.mtype for
   responses.  Only what the shutdown slice needs: no No-Response option, no multicast, default transport tuning. *)
Definition piggy_is (r : remote) (tok : Z) (p : piggy) : bool := (p_remote p =? r) && (p_tok p =? tok).
Definition send_message (s : mmst) (mt : option mtype) (code tok : Z) (obs : option Z) (r : remote)
                        (reqtype : option mtype) (mon : monitor) : mmst * list output :=
  let '(s1, mt1, mid1) :=
    if is_response code then
      match find (piggy_is r tok) (piggys s) with
      | Some p => (cancel (mm_set_piggys s (filter (fun p => negb (piggy_is r tok p)) (piggys s))) (p_timer p), Some ACK, Some (p_mid p))
      | None => (s, mt, None)
      end
    else (s, mt, None) in
  let down := match exchanges s1 with None => true | Some _ => false end in
  let mt2 := match mt1 with
             | None => if down then NON
                       else match reqtype with Some NON => NON | _ => CON end
             | Some t => if down then NON else t
             end in
  let '(s2, mid2) := match mid1 with Some i => (s1, i) | None => _next_message_id s1 end in
  let m := {| m_type := mt2; m_code := code; m_mid := mid2; m_token := tok; m_obs := obs; m_remote := r |} in
  if mtype_eqb mt2 CON && has_backlog s2 r then
    match exchanges s2, backlog_items s2 r with
    | Some _, Some items => (set_backlog_items s2 r (items ++ [(m, mon)]), [])
    | _, _ => (s2, [OExc TypeError])
    end
  else _send_initially s2 m mon.

(* messagemanager.py:201-224 *)
Definition _deduplicate_message (s : mmst) (m : msg) : mmst * list output * bool :=
  match find (recent_is (m_remote m) (m_mid m)) (recents s) with
  | Some e =>
      match m_type m, r_stored e with
      | CON, Some old => let '(s1, o) := _send_initially s old MonNone in (s1, o, true)
      | _, _ => (s, [], true)
      end
  | None =>
      let s1 := call_later_forget s EXCHANGE_LIFETIME (m_remote m) (m_mid m) in
      (mm_set_recents s1 (recents s1 ++ [{| r_remote := m_remote m; r_mid := m_mid m; r_stored := None |}]), [], false)
  end.

(* messagemanager.py:340-347 *)
Definition _process_ping (s : mmst) (m : msg) : mmst * list output :=
  _send_initially s {| m_type := RST; m_code := EMPTY; m_mid := m_mid m; m_token := 0; m_obs := None; m_remote := m_remote m |} MonNone.

(* messagemanager.py:349-381, the part before token_manager.process_request *)
Definition _process_request_piggyback (s : mmst) (m : msg) : mmst :=
  match m_type m with
  | CON =>
      let '(s1, id) := call_later s EMPTY_ACK_DELAY (TEmptyAck (m_remote m) (m_token m)) in
      let s2 := match find (piggy_is (m_remote m) (m_token m)) (piggys s1) with
                | Some p => cancel (mm_set_piggys s1 (filter (fun p => negb (piggy_is (m_remote m) (m_token m) p)) (piggys s1))) (p_timer p)
                | None => s1
                end in
      mm_set_piggys s2 (piggys s2 ++ [{| p_remote := m_remote m; p_tok := m_token m; p_mid := m_mid m; p_timer := id |}])
  | _ => s
  end.

(* ---------------------------------------------------------------- the application's end of a client pipe (protocol.py:700-817) *)
Inductive pevent := EvMsg (m : msg) (is_last : bool) | EvExc (e : exn).

Definition is_recent (v1 t1 v2 t2 : Z) : bool :=
  ((v1 <? v2) && (v2 - v1 <? 2 ^ 23)) || ((v2 <? v1) && (2 ^ 23 <? v1 - v2)) || (t1 + OBSERVATION_RESET_TIME <? t2).

(* Request._run: returns the entry if the pipe stays alive, None when the request loses interest in it *)
Definition request_run (t : Z) (o : oreq) (ev : pevent) : option oreq * list output :=
  let q := o_q o in
  if negb (o_first o) then
    match ev with
    | EvExc e => (None, OFail q e :: (if o_observe o then [OObsEnd q NotObservable] else []))
    | EvMsg m last =>
        if negb (o_observe o) then (None, [OResp q (m_code m) (m_obs m)])
        else if last then (None, [OResp q (m_code m) (m_obs m); OObsEnd q NotObservable])
        else match m_obs m with
             | None => (None, [OResp q (m_code m) (m_obs m)])
             | Some v => (Some {| o_tok := o_tok o; o_remote := o_remote o; o_q := q; o_observe := true; o_first := true; o_v1 := v; o_t1 := t |},
                          [OResp q (m_code m) (m_obs m)])
             end
    end
  else
    match ev with
    | EvExc e => (None, [OObsEnd q e])
    | EvMsg m last =>
        let '(o1, notif) :=
          match m_obs m with
          | Some v2 => if is_recent (o_v1 o) (o_t1 o) v2 t
                       then ({| o_tok := o_tok o; o_remote := o_remote o; o_q := q; o_observe := true; o_first := true; o_v1 := v2; o_t1 := t |},
                             [ONotif q (m_code m) (m_obs m)])
                       else (o, [])
          | None => (o, [ONotif q (m_code m) (m_obs m)])
          end in
        if last then (None, notif ++ [OObsEnd q ObservationCancelled])
        else match m_obs m with
             | None => (None, notif ++ [OObsEnd q ObservationCancelled])
             | Some _ => (Some o1, notif)
             end
    end.

(* ---------------------------------------------------------------- TokenManager *)
Definition oreq_is (tok : Z) (r : remote) (o : oreq) : bool := (o_tok o =? tok) && (o_remote o =? r).
Definition ireq_is (tok : Z) (r : remote) (i : ireq) : bool := (i_tok i =? tok) && (i_remote i =? r).

(* Pipe.add_exception on the pipe of client request q (no effect when that pipe has ended) *)
Definition add_exception (t : Z) (s : tmst) (q : Z) (e : exn) : tmst * list output :=
  match outgoing s with
  | None => (s, [])
  | Some os =>
      match find (fun o => o_q o =? q) os with
      | None => (s, [])
      | Some o =>
          let '(keep, out) := request_run t o (EvExc e) in
          (tm_set_outgoing s (Some (filter (fun o => negb (o_q o =? q)) os)), out)
      end
  end.

(* the [stop] closure of tokenmanager.py:164: unregister the pipe's event handler; ends the pipe, which removes the
   entry (on_end) and cancels the rendering task (pipe.py:234) *)
Definition stop (s : tmst) (h : Z) : tmst * list output :=
  match incoming s with
  | None => (s, [])
  | Some is_ =>
      if existsb (fun i => i_h i =? h) is_
      then (tm_set_incoming s (Some (filter (fun i => negb (i_h i =? h)) is_)), [OHCancel h])
      else (s, [])
  end.

Definition call_monitor (t : Z) (s : tmst) (mon : monitor) : tmst * list output :=
  match mon with
  | MonReq q => add_exception t s q MessageError
  | MonSrv h => stop s h
  | MonNone => (s, [])
  end.

(* tokenmanager.py:70-110 *)
Fixpoint fail_requests (t : Z) (os : list oreq) (r : remote) (e : exn) : list oreq * list output :=
  match os with
  | [] => ([], [])
  | o :: rest =>
      let '(rest', out') := fail_requests t rest r e in
      if o_remote o =? r then (rest', snd (request_run t o (EvExc e)) ++ out') else (o :: rest', out')
  end.
Definition tm_dispatch_error (t : Z) (s : tmst) (e : exn) (r : remote) : tmst * list output :=
  match outgoing s, incoming s with
  | Some os, Some is_ =>
      let '(os', o1) := fail_requests t os r e in
      let stopped := filter (fun i => i_remote i =? r) is_ in
      (tm_set_incoming (tm_set_outgoing s (Some os')) (Some (filter (fun i => negb (i_remote i =? r)) is_)),
       o1 ++ map (fun i => OHCancel (i_h i)) stopped)
  | None, _ => (s, [])
  | Some _, None => (s, [OExc AttributeError])
  end.

(* tokenmanager.py:112-174 *)
Definition tm_process_request (s : tmst) (m : msg) : tmst * list output :=
  match incoming s with
  | None => (s, [OExc TypeError])          (* argument of type 'NoneType' is not iterable *)
  | Some is_ =>
      let old := filter (ireq_is (m_token m) (m_remote m)) is_ in
      let h := next_h s in
      (tm_set_next_h (tm_set_incoming s (Some (filter (fun i => negb (ireq_is (m_token m) (m_remote m) i)) is_
                                               ++ [{| i_tok := m_token m; i_remote := m_remote m; i_h := h; i_type := m_type m |}]))) (h + 1),
       map (fun i => OHCancel (i_h i)) old ++ [OHStart h (m_remote m) (m_token m)])
  end.

(* tokenmanager.py:176-209 *)
Definition tm_process_response (t : Z) (s : tmst) (m : msg) : tmst * list output * bool :=
  match outgoing s with
  | None => (s, [OExc TypeError], false)
  | Some os =>
      match find (oreq_is (m_token m) (m_remote m)) os with
      | None => (s, [], false)
      | Some o =>
          let final := negb (o_observe o && match m_obs m with Some _ => true | None => false end) in
          let '(keep, out) := request_run t o (EvMsg m final) in
          let os' := match keep with
                     | Some o' => map (fun x => if oreq_is (m_token m) (m_remote m) x then o' else x) os
                     | None => filter (fun x => negb (oreq_is (m_token m) (m_remote m) x)) os
                     end in
          (tm_set_outgoing s (Some os'), out, true)
      end
  end.

(* tokenmanager.py:64-68: the token as the integer whose minimal big-endian encoding it is *)
Definition next_token (s : tmst) : tmst * Z :=
  let t := (token s + 1) mod 2 ^ 64 in (tm_set_token s t, t).

(* tokenmanager.py:220-280 *)
Definition tm_request (s : st) (q : Z) (r : remote) (mt : mtype) (observe : bool) : st * list output :=
  let fresh tok := {| o_tok := tok; o_remote := r; o_q := q; o_observe := observe; o_first := false; o_v1 := 0; o_t1 := 0 |} in
  match outgoing (tm s) with
  | None => (s, snd (request_run (now (mm s)) (fresh 0) (EvExc LibraryShutdown)))
  | Some os =>
      let '(tm1, tok) := next_token (tm s) in
      let tm2 := tm_set_outgoing tm1 (Some (os ++ [fresh tok])) in
      let '(mm1, out) := send_message (mm s) (Some mt) GET tok (if observe then Some 0 else None) r None (MonReq q) in
      ({| tm := tm2; mm := mm1 |}, out)
  end.

(* tokenmanager.py:44-62 *)
Definition tm_shutdown_incoming (s : tmst) : tmst * list output :=
  match incoming s with
  | Some is_ => (tm_set_incoming s None, map (fun i => OHCancel (i_h i)) is_)
  | None => (s, [])
  end.
Definition tm_shutdown_outgoing (t : Z) (s : tmst) : tmst * list output :=
  match outgoing s with
  | Some os => (tm_set_outgoing s None, flat_map (fun o => snd (request_run t o (EvExc LibraryShutdown))) os)
  | None => (s, [])
  end.

(* ---------------------------------------------------------------- MessageManager, upward half *)
(* messagemanager.py:268-281 *)
Definition _remove_exchange (s : st) (m : msg) : st * list output :=
  match exchanges (mm s) with
  | None => (s, [OExc TypeError])          (* argument of type 'NoneType' is not iterable *)
  | Some xs =>
      match find (exchange_is (m_remote m) (m_mid m)) xs with
      | None => (s, [])
      | Some x =>
          let mm1 := cancel (mm_set_exchanges (mm s) (Some (filter (fun x => negb (exchange_is (m_remote m) (m_mid m) x)) xs))) (x_timer x) in
          let '(tm1, o1) := match m_type m with RST => call_monitor (now mm1) (tm s) (x_mon x) | _ => (tm s, []) end in
          let '(mm2, o2) := _continue_backlog mm1 (m_remote m) in
          ({| tm := tm1; mm := mm2 |}, o1 ++ o2)
      end
  end.

(* tokenmanager.py:138-156: a pipe event on the server side reaches send_message with [stop] as its monitor; the
   last event ends the pipe (entry removed, task told to cancel while it is returning anyway) *)
Definition handler_respond (s : st) (h code : Z) (last : bool) (obs : option Z) (linger : bool) : st * list output :=
  match incoming (tm s) with
  | None => (s, [])
  | Some is_ =>
      match find (fun i => i_h i =? h) is_ with
      | None => (s, [])                    (* pipe has ended: "Response added after pipe has already ended" *)
      | Some i =>
          let '(mm1, out) := send_message (mm s) None code (i_tok i) obs (i_remote i) (Some (i_type i)) (MonSrv h) in
          let tm1 := if last then tm_set_incoming (tm s) (Some (filter (fun i => negb (i_h i =? h)) is_)) else tm s in
          (* the end of the pipe cancels the rendering task (pipe.py:234); that is only felt by a handler that is still
             awaiting something after its last response *)
          ({| tm := tm1; mm := mm1 |}, out ++ (if last && linger then [OHCancel h] else []))
      end
  end.

(* messagemanager.py:91-149 *)
Definition dispatch_message (s : st) (m : msg) : st * list output :=
  let '(mm1, o1, dup) := if is_request (m_code m) then _deduplicate_message (mm s) m else (mm s, [], false) in
  let s1 := {| tm := tm s; mm := mm1 |} in
  if dup then (s1, o1)
  else
    let '(s2, o2) := if is_ack_or_rst (m_type m) then _remove_exchange s1 m else (s1, []) in
    let '(s3, o3) :=
      if (m_code m =? EMPTY) && mtype_eqb (m_type m) CON then
        let '(mm3, o) := _process_ping (mm s2) m in ({| tm := tm s2; mm := mm3 |}, o)
      else if (m_code m =? EMPTY) && is_ack_or_rst (m_type m) then (s2, [])
      else if is_request (m_code m) && negb (is_ack_or_rst (m_type m)) then
        let mm3 := _process_request_piggyback (mm s2) m in
        let '(tm3, o) := tm_process_request (tm s2) m in ({| tm := tm3; mm := mm3 |}, o)
      else if is_response (m_code m) && negb (mtype_eqb (m_type m) RST) then
        let '(tm3, o, success) := tm_process_response (now (mm s2)) (tm s2) m in
        if success then
          match m_type m with
          | CON => let '(mm3, o') := _send_empty_ack (mm s2) (m_remote m) (m_mid m) in ({| tm := tm3; mm := mm3 |}, o ++ o')
          | _ => ({| tm := tm3; mm := mm s2 |}, o)
          end
        else
          match m_type m with
          | CON => let '(mm3, o') := _send_initially (mm s2) {| m_type := RST; m_code := EMPTY; m_mid := m_mid m; m_token := 0; m_obs := None; m_remote := m_remote m |} MonNone in
                   ({| tm := tm3; mm := mm3 |}, o ++ o')
          | _ => ({| tm := tm3; mm := mm s2 |}, o)
          end
      else (s2, []) in
    (s3, o1 ++ o2 ++ o3).

(* messagemanager.py:151-183 *)
Definition dispatch_error (s : st) (e : exn) (r : remote) : st * list output :=
  match exchanges (mm s) with
  | None => (s, [])                        (* "error dispatched through messagemanager after shutdown" *)
  | Some xs =>
      let '(tm1, o1) := tm_dispatch_error (now (mm s)) (tm s) e r in
      let gone := filter (fun x => x_remote x =? r) xs in
      let mm1 := fold_left (fun a x => cancel a (x_timer x)) gone
                           (mm_set_exchanges (mm s) (Some (filter (fun x => negb (x_remote x =? r)) xs))) in
      ({| tm := tm1; mm := del_backlog mm1 r |}, o1)
  end.

(* messagemanager.py:324-345; the timer that fires has already been taken out of [timers] *)
Definition _retransmit (s : st) (m : msg) (timeout count : Z) : st * list output :=
  match exchanges (mm s) with
  | None => (s, [OExc AttributeError])     (* 'NoneType' object has no attribute 'pop' *)
  | Some xs =>
      match find (exchange_is (m_remote m) (m_mid m)) xs with
      | None => (s, [OExc KeyError])
      | Some x =>
          let xs' := filter (fun x => negb (exchange_is (m_remote m) (m_mid m) x)) xs in
          let mm1 := cancel (mm_set_exchanges (mm s) (Some xs')) (x_timer x) in
          if count <? MAX_RETRANSMIT then
            let '(mm2, id) := _schedule_retransmit mm1 m (timeout * 2) (count + 1) in
            ({| tm := tm s; mm := mm_set_exchanges mm2 (Some (xs' ++ [{| x_remote := m_remote m; x_mid := m_mid m; x_mon := x_mon x; x_timer := id |}])) |},
             _send_via_transport m)
          else if has_backlog mm1 (m_remote m) then
            let '(tm1, o) := tm_dispatch_error (now mm1) (tm s) ConRetransmitsExceeded (m_remote m) in
            ({| tm := tm1; mm := del_backlog mm1 (m_remote m) |}, o)
          else ({| tm := tm s; mm := mm1 |}, [OExc KeyError])
      end
  end.

(* messagemanager.py:355-359, the closure on_timeout *)
Definition on_timeout (s : mmst) (r : remote) (tok : Z) : mmst * list output :=
  match find (piggy_is r tok) (piggys s) with
  | None => (s, [OExc KeyError])
  | Some p => _send_empty_ack (mm_set_piggys s (filter (fun p => negb (piggy_is r tok p)) (piggys s))) r (p_mid p)
  end.

(* functools.partial(self._recent_messages.pop, key) *)
Definition forget_recent (s : mmst) (r : remote) (mid : Z) : mmst * list output :=
  if existsb (recent_is r mid) (recents s)
  then (mm_set_recents s (filter (fun e => negb (recent_is r mid e)) (recents s)), [])
  else (s, [OExc KeyError]).

(* messagemanager.py:78-91 *)
Definition mm_shutdown (s : mmst) : mmst * list output :=
  match exchanges s with
  | None => (s, [OExc AttributeError])     (* second shutdown: 'NoneType' object has no attribute 'values' *)
  | Some xs =>
      let s1 := mm_set_exchanges (fold_left (fun a x => cancel a (x_timer x)) xs s) None in
      let s2 := mm_set_piggys (fold_left (fun a p => cancel a (p_timer p)) (piggys s1) s1) [] in
      (mm_set_transport_down s2 true, [])
  end.

(* protocol.py:496-536 with tokenmanager.py:44-62: one request interface, whose shutdown does not block *)
Definition shutdown (s : st) : st * list output :=
  let '(tm1, o1) := tm_shutdown_incoming (tm s) in
  let '(tm2, o2) := tm_shutdown_outgoing (now (mm s)) tm1 in
  let '(mm1, o3) := mm_shutdown (mm s) in
  ({| tm := tm2; mm := mm1 |}, o1 ++ o2 ++ o3 ++ match o3 with [] => [OShutdownDone] | _ => [] end).

(* ---------------------------------------------------------------- the event loop: which callback is next *)
Inductive due_item := DTimer (t : timer) | DForget (f : forget).
Definition item_key (i : due_item) : Z * Z :=
  match i with DTimer t => (t_due t, t_id t) | DForget f => (f_due f, f_id f) end.
Definition key_lt (a b : Z * Z) : bool := (fst a <? fst b) || ((fst a =? fst b) && (snd a <? snd b)).
Fixpoint earliest (items : list due_item) : option due_item :=
  match items with
  | [] => None
  | i :: rest => match earliest rest with
                 | Some j => if key_lt (item_key j) (item_key i) then Some j else Some i
                 | None => Some i
                 end
  end.
Definition pending (s : mmst) : list due_item := map DTimer (timers s) ++ map DForget (forgets s).

Definition run_item (s : st) (i : due_item) : st * list output :=
  match i with
  | DTimer t =>
      let mm0 := mm_set_now (cancel (mm s) (t_id t)) (Z.max (now (mm s)) (t_due t)) in
      match t_kind t with
      | TRetransmit m timeout count => _retransmit {| tm := tm s; mm := mm0 |} m timeout count
      | TEmptyAck r tok => let '(mm1, o) := on_timeout mm0 r tok in ({| tm := tm s; mm := mm1 |}, o)
      end
  | DForget f =>
      let mm0 := mm_set_now (mm_set_forgets (mm s) (filter (fun g => negb (f_id g =? f_id f)) (forgets (mm s)))) (Z.max (now (mm s)) (f_due f)) in
      let '(mm1, o) := forget_recent mm0 (f_remote f) (f_mid f) in ({| tm := tm s; mm := mm1 |}, o)
  end.

Definition fire (s : st) : st * list output :=
  match earliest (pending (mm s)) with
  | None => (s, [])
  | Some i => run_item s i
  end.

Fixpoint advance_to (fuel : nat) (s : st) (target : Z) : st * list output :=
  match fuel with
  | O => (s, [])
  | S fuel' =>
      match earliest (pending (mm s)) with
      | Some i => if fst (item_key i) <=? target
                  then let '(s1, o1) := run_item s i in let '(s2, o2) := advance_to fuel' s1 target in (s2, o1 ++ o2)
                  else ({| tm := tm s; mm := mm_set_now (mm s) (Z.max (now (mm s)) target) |}, [])
      | None => ({| tm := tm s; mm := mm_set_now (mm s) (Z.max (now (mm s)) target) |}, [])
      end
  end.
Definition ADVANCE_FUEL : nat := 400.

(* ---------------------------------------------------------------- events *)
Inductive event :=
| Recv (m : msg)                                          (* a datagram from the peer reaches dispatch_message *)
| Fire                                                    (* the earliest pending timer of this context fires *)
| Advance (d : Z)                                         (* time passes; every timer that becomes due fires *)
| ClientRequest (q : Z) (r : remote) (mt : mtype) (observe : bool)
| ClientCancel (q : Z)                                    (* the application cancels Request.response *)
| ClientRequestSlow (q : Z) (r : remote) (mt : mtype) (observe : bool)   (* a request whose remote still has to be looked up *)
| Resolved (q : Z)                                        (* determine_remote returns for request q *)
| HandlerRespond (h code : Z) (last : bool) (obs : option Z) (linger : bool)   (* linger: the coroutine keeps awaiting after its last response *)
| HandlerRaise (h code : Z)                               (* the handler raises; rendered as a final response with [code] *)
| TransportError (r : remote)                             (* the transport reports an error for r *)
| Shutdown.

Definition client_cancel (s : tmst) (q : Z) : tmst * list output :=
  match outgoing s with
  | None => (s, [])
  | Some os =>
      match find (fun o => o_q o =? q) os with
      | Some o => if o_first o then (s, [])
                  else (tm_set_outgoing s (Some (filter (fun o => negb (o_q o =? q)) os)), [OCancelled q])
      | None => (s, [])
      end
  end.

Definition step (s : st) (e : event) : st * list output :=
  match e with
  | Recv m => dispatch_message s m
  | Fire => fire s
  | Advance d => advance_to ADVANCE_FUEL s (now (mm s) + d)
  | ClientRequest q r mt observe => tm_request s q r mt observe
  | ClientCancel q => let '(tm1, o) := client_cancel (tm s) q in ({| tm := tm1; mm := mm s |}, o)
  | ClientRequestSlow q r mt observe =>
      ({| tm := tm_set_resolving (tm s) (resolving (tm s) ++ [(q, r, mt, observe)]); mm := mm s |}, [])
  | Resolved q =>
      match find (fun x => fst (fst (fst x)) =? q) (resolving (tm s)) with
      | None => (s, [])
      | Some (_, r, mt, observe) =>
          tm_request {| tm := tm_set_resolving (tm s) (filter (fun x => negb (fst (fst (fst x)) =? q)) (resolving (tm s))); mm := mm s |} q r mt observe
      end
  | HandlerRespond h code last obs linger => handler_respond s h code last obs linger
  | HandlerRaise h code => handler_respond s h code true None false
  | TransportError r => dispatch_error s NetworkError r
  | Shutdown => shutdown s
  end.

Fixpoint run (s : st) (es : list event) : st * list (list output) :=
  match es with
  | [] => (s, [])
  | e :: rest => let '(s1, o) := step s e in let '(s2, os) := run s1 rest in (s2, o :: os)
  end.

(* ---------------------------------------------------------------- the code before commit 9f0e20f (finding F13): the
   empty-ACK timers were not cancelled by MessageManager.shutdown.  Only used for the refutation witness. *)
Definition mm_shutdown_f13 (s : mmst) : mmst * list output :=
  match exchanges s with
  | None => (s, [OExc AttributeError])
  | Some xs => (mm_set_transport_down (mm_set_exchanges (fold_left (fun a x => cancel a (x_timer x)) xs s) None) true, [])
  end.
Definition shutdown_f13 (s : st) : st * list output :=
  let '(tm1, o1) := tm_shutdown_incoming (tm s) in
  let '(tm2, o2) := tm_shutdown_outgoing (now (mm s)) tm1 in
  let '(mm1, o3) := mm_shutdown_f13 (mm s) in
  ({| tm := tm2; mm := mm1 |}, o1 ++ o2 ++ o3 ++ match o3 with [] => [OShutdownDone] | _ => [] end).

(* ---------------------------------------------------------------- two contexts in one process: every event is addressed to one of them *)
Definition step2 (p : st * st) (ce : bool * event) : (st * st) * list output :=
  let '(a, b) := p in
  if fst ce then let '(b', o) := step b (snd ce) in ((a, b'), o)
  else let '(a', o) := step a (snd ce) in ((a', b), o).
Fixpoint run2 (p : st * st) (es : list (bool * event)) : (st * st) * list (list output) :=
  match es with
  | [] => (p, [])
  | e :: rest => let '(p1, o) := step2 p e in let '(p2, os) := run2 p1 rest in (p2, o :: os)
  end.
Definition events_of (c : bool) (es : list (bool * event)) : list event :=
  map snd (filter (fun ce => Bool.eqb (fst ce) c) es).

(* ---------------------------------------------------------------- run-time check of the ownership invariant (every cancellable
   timer is referenced from _active_exchanges or _piggyback_opportunities; none exists once they are gone) *)
Definition orphans (s : mmst) : Z :=
  Z.of_nat (List.length (filter (fun t =>
    negb (existsb (fun x => x_timer x =? t_id t) (match exchanges s with Some xs => xs | None => [] end)
          || existsb (fun p => p_timer p =? t_id t) (piggys s))) (timers s))).
Fixpoint run_orphans (s : st) (es : list event) : Z :=
  orphans (mm s) + match es with [] => 0 | e :: rest => run_orphans (fst (step s e)) rest end.

(* ---------------------------------------------------------------- Context.shutdown with a transport that does not finish closing
   (protocol.py:514-536): the interface shutdown tasks run under asyncio.wait(..., timeout=SHUTDOWN_TIMEOUT).  TokenManager.shutdown and
   MessageManager.shutdown do their synchronous part at once (tables cleared, timers cancelled) and then await
   message_interface.shutdown(); if that never returns, Context.shutdown returns when the time-out timer fires.  Layered over the
   machine above: [c_wait] is the deadline of that timer while Context.shutdown is still waiting. *)
Definition SHUTDOWN_TIMEOUT : Z := 3000000.
Record cst := { c_base : st; c_wait : option Z }.
Inductive cevent :=
| CShutdown (closes : bool)      (* Context.shutdown(); [closes]: the transport's shutdown() returns at once *)
| CEvent (e : event).            (* any event of the context (time passes inside Fire / Advance) *)
Definition is_done (o : output) : bool := match o with OShutdownDone => true | _ => false end.
(* the time-out timer of asyncio.wait fires once the clock has reached its deadline *)
Definition release (c : cst) : cst * list output :=
  match c_wait c with
  | Some dl => if dl <=? now (mm (c_base c)) then ({| c_base := c_base c; c_wait := None |}, [OShutdownDone]) else (c, [])
  | None => (c, [])
  end.
Definition cstep (c : cst) (e : cevent) : cst * list output :=
  match e with
  | CShutdown closes =>
      let '(s', out) := shutdown (c_base c) in
      if closes || negb (existsb is_done out) then ({| c_base := s'; c_wait := c_wait c |}, out)
      else ({| c_base := s'; c_wait := Some (now (mm (c_base c)) + SHUTDOWN_TIMEOUT) |}, filter (fun o => negb (is_done o)) out)
  | CEvent e =>
      let '(s', out) := step (c_base c) e in
      let '(c', o2) := release {| c_base := s'; c_wait := c_wait c |} in (c', out ++ o2)
  end.
Fixpoint crun (c : cst) (es : list cevent) : cst * list (list output) :=
  match es with
  | [] => (c, [])
  | e :: rest => let '(c1, o) := cstep c e in let '(c2, os) := crun c1 rest in (c2, o :: os)
  end.
