(* C19 — path algebra used by aiocoap/cli/fileserver.py: Python str as list of code points, posixpath.join,
   posixpath.splitroot, pathlib.PurePosixPath (CPython 3.12: a pure path is the list of its raw segments, parsed
   lazily by joining them with posixpath.join and splitting at "/").  These are the intrinsics the translated
   FileServer.request_to_localpath (Gen/fileserver.v) is expressed in.  No proofs in this file. *)
From Verif Require Import Lib.Py.
Open Scope Z_scope.

(* ---- str *)
Notation str := (list Z) (only parsing).
Definition SEP : Z := 47.                      (* "/" *)
Definition str_eqb (a b : str) : bool := beqb a b.
Definition str_empty (s : str) : bool := match s with [] => true | _ => false end.
(* `"c" in s` for a one-character literal c; the general substring test for longer literals *)
Fixpoint str_prefix (p s : str) : bool :=
  match p, s with
  | [], _ => true
  | a :: p', b :: s' => (a =? b) && str_prefix p' s'
  | _ :: _, [] => false
  end.
Fixpoint str_contains (lit s : str) : bool :=
  str_prefix lit s || match s with [] => false | _ :: r => str_contains lit r end.
(* `s in (a, b, ...)` *)
Definition str_in (s : str) (l : list str) : bool := existsb (str_eqb s) l.
Definition startswith (lit s : str) : bool := str_prefix lit s.
Definition startswith_sep (s : str) : bool := match s with c :: _ => c =? SEP | [] => false end.
Definition endswith_sep (s : str) : bool := match s with [] => false | _ => last s 0 =? SEP end.
(* sep.join(l) *)
Fixpoint str_join (sep : str) (l : list str) : str :=
  match l with
  | [] => []
  | [a] => a
  | a :: r => a ++ sep ++ str_join sep r
  end.

(* ---- posixpath.join(a, *p)  (Lib/posixpath.py:71-92) *)
Fixpoint posix_join (path : str) (ps : list str) : str :=
  match ps with
  | [] => path
  | b :: r =>
      if startswith_sep b then posix_join b r                                  (* an absolute segment replaces everything before it *)
      else if str_empty path || endswith_sep path then posix_join (path ++ b) r
      else posix_join (path ++ SEP :: b) r
  end.

(* ---- s.split("/") *)
Fixpoint split_sep_acc (cur : str) (s : str) : list str :=
  match s with
  | [] => [cur]
  | c :: r => if c =? SEP then cur :: split_sep_acc [] r else split_sep_acc (cur ++ [c]) r
  end.
Definition split_sep (s : str) : list str := split_sep_acc [] s.

(* ---- posixpath.splitroot(p)  (Lib/posixpath.py:144-170): number of slashes forming the root (0, 1 or 2) and the rest *)
Definition splitroot (p : str) : Z * str :=
  match p with
  | c1 :: r1 =>
      if c1 =? SEP then
        match r1 with
        | c2 :: r2 =>
            if c2 =? SEP then
              match r2 with
              | c3 :: _ => if c3 =? SEP then (1, r1) else (2, r2)     (* three or more slashes collapse to one *)
              | [] => (2, r2)
              end
            else (1, r1)
        | [] => (1, r1)
        end
      else (0, p)
  | [] => (0, p)
  end.

(* ---- a parsed pure path: (root, tail) of PurePath._parse_path; the drive is always '' on POSIX *)
Record ppath := { anchor : Z; parts : list str }.
Definition DOT : str := [46].
Definition DOTDOT : str := [46; 46].
(* [x for x in rel.split(sep) if x and x != '.'] *)
Definition keep_part (x : str) : bool := negb (str_empty x) && negb (str_eqb x DOT).
Definition parse_path (s : str) : ppath :=
  if str_empty s then {| anchor := 0; parts := [] |}
  else let '(a, rel) := splitroot s in {| anchor := a; parts := filter keep_part (split_sep rel) |}.

(* ---- PurePosixPath: the raw segments (PurePath._raw_paths) *)
Notation purepath := (list (list Z)) (only parsing).
(* PurePath.joinpath( *segments ) = with_segments(self, *segments ); PurePath.__truediv__(key) = with_segments(self, key) *)
Definition joinpath (p : purepath) (segments : list str) : purepath := p ++ segments.
Definition truediv (p : purepath) (key : str) : purepath := p ++ [key].
(* PurePath._load_parts *)
Definition load_parts (p : purepath) : ppath :=
  match p with
  | [] => parse_path []
  | a :: r => parse_path (posix_join a r)
  end.
(* PurePath.parent: the path itself when the tail is empty *)
Definition parent (p : ppath) : ppath := {| anchor := anchor p; parts := removelast (parts p) |}.
(* path / name for an already parsed path and a plain file name (directory entry, temporary file) *)
Definition child (p : ppath) (name : str) : ppath := {| anchor := anchor p; parts := parts p ++ [name] |}.

Definition parts_eqb (a b : list str) : bool := list_eqb str_eqb a b.
Definition ppath_eqb (a b : ppath) : bool := (anchor a =? anchor b) && parts_eqb (parts a) (parts b).
(* Some rest  when  l = pre ++ rest *)
Fixpoint strip_prefix (pre l : list str) : option (list str) :=
  match pre, l with
  | [], _ => Some l
  | a :: pre', b :: l' => if str_eqb a b then strip_prefix pre' l' else None
  | _ :: _, [] => None
  end.
(* lexical confinement: same anchor, the root's parts are a prefix, and no ".." below it *)
Definition under (root p : ppath) : bool :=
  (anchor p =? anchor root) &&
  match strip_prefix (parts root) (parts p) with
  | Some rest => negb (existsb (str_eqb DOTDOT) rest)
  | None => false
  end.

(* ---- what request_to_localpath reads of the server and of the request *)
Inductive etagref := ECur | EOther | EEmpty.     (* an ETag / If-Match value: the target's current ETag, another value, the empty byte string *)
(* fs_cwd: the parts of the process's working directory (only read by os.path.abspath inside tempfile when the root is relative) *)
Record fileserver := { fs_root : purepath; fs_write : bool; fs_etag_enabled : bool; fs_tmpname : list Z; fs_cwd : list (list Z);
                        fs_disk_full : bool }.    (* environment: writing a non-empty body into the spool file fails with ENOSPC *)
Record request := {
  code : Z;                                       (* 1 GET, 2 POST, 3 PUT, 4 DELETE, 5 FETCH, 6 PATCH, 7 iPATCH *)
  opt_uri_path : list (list Z);
  opt_observe : option Z;
  opt_etags : list etagref;
  opt_if_match : list etagref;
  opt_if_none_match : bool;
  opt_block1 : option (Z * bool * Z);
  opt_block2 : option (Z * bool * Z);
  payload : list Z }.
