(* C17 — prelude for the code generated from aiocoap/resource.py (Gen/resource_site.v) and for Model/C17.v:
   Uri-Path tuples, Python dicts keyed by such tuples (insertion ordered), the part of a request Message
   that routing looks at.  No proofs in this file. *)
From Verif Require Import Lib.Py.
From Coq Require Export String Ascii.
Open Scope Z_scope.

(* request.opt.uri_path : tuple of str *)
Notation path := (list string) (only parsing).
Definition path_eqb : list string -> list string -> bool := list_eqb String.eqb.

(* ---- Python dict with tuple-of-str keys, as an insertion-ordered association list (keys unique) *)
Definition dict (V : Type) := list (list string * V).

Fixpoint dict_get_opt {V} (d : dict V) (k : path) : option V :=
  match d with
  | [] => None
  | (k', v) :: r => if path_eqb k' k then Some v else dict_get_opt r k
  end.
(* k in d *)
Definition dict_contains {V} (k : path) (d : dict V) : bool :=
  match dict_get_opt d k with Some _ => true | None => false end.
(* d[k] *)
Definition dict_get {V} (d : dict V) (k : path) : M V :=
  match dict_get_opt d k with Some v => Ok v | None => Raise KeyError end.
(* d[k] = v : an existing key keeps its position, a new key goes to the end *)
Fixpoint dict_set {V} (d : dict V) (k : path) (v : V) : dict V :=
  match d with
  | [] => [(k, v)]
  | (k', v') :: r => if path_eqb k' k then (k', v) :: r else (k', v') :: dict_set r k v
  end.
(* del d[k] *)
Fixpoint dict_del {V} (d : dict V) (k : path) : M (dict V) :=
  match d with
  | [] => Raise KeyError
  | (k', v') :: r => if path_eqb k' k then Ok r else r' <- dict_del r k ;; Ok ((k', v') :: r')
  end.
Definition dict_keys {V} (d : dict V) : list (list string) := map fst d.
Fixpoint dict_map {V W} (f : V -> W) (d : dict V) : dict W :=
  match d with [] => [] | (k, v) :: r => (k, f v) :: dict_map f r end.

(* ---- sequences *)
(* bool(x) for a tuple/list *)
Definition truthy {A} (l : list A) : bool := match l with [] => false | _ => true end.
(* x[-1] *)
Definition last_item {A} (l : list A) : M A :=
  match rev l with [] => Raise IndexError | x :: _ => Ok x end.
(* x[:-1] *)
Definition but_last {A} (l : list A) : list A := removelast l.
(* x[:-n], x[-n:] are not needed *)

(* ---- the request Message as far as Site looks at it: Uri-Path, Uri-Path-Abbrev, and the
   _original_request_path attribute (None = attribute absent) *)
Record msg := { uri_path : list string; uri_path_abbrev : option Z; original_request_path : option (list string) }.
(* getattr(request, "_original_request_path", default) *)
Definition getattr_original_request_path (m : msg) (default : path) : list string :=
  match original_request_path m with Some p => p | None => default end.
(* request.copy(uri_path=p): a new Message (message.py:309-335): options deep-copied, then uri_path set;
   the ad-hoc attribute _original_request_path is NOT carried over *)
Definition copy_uri_path (m : msg) (p : path) : msg :=
  {| uri_path := p; uri_path_abbrev := uri_path_abbrev m; original_request_path := None |}.
(* stripped._original_request_path = p *)
Definition set_original_request_path (m : msg) (p : path) : msg :=
  {| uri_path := uri_path m; uri_path_abbrev := uri_path_abbrev m; original_request_path := Some p |}.
Definition set_uri_path (m : msg) (p : path) : msg :=
  {| uri_path := p; uri_path_abbrev := uri_path_abbrev m; original_request_path := original_request_path m |}.
Definition set_uri_path_abbrev (m : msg) (a : option Z) : msg :=
  {| uri_path := uri_path m; uri_path_abbrev := a; original_request_path := original_request_path m |}.

(* ---- Site.__init__: two dicts; R = plain resources, S = PathCapable children *)
Record site (R S : Type) := { resources : dict R; subsites : dict S }.
Arguments resources {R S} s.
Arguments subsites {R S} s.
Arguments Build_site {R S} resources subsites.
(* what _find_child_and_pathstripped_message returns as first component *)
Inductive child (R S : Type) := ChildResource (r : R) | ChildSubsite (s : S).
Arguments ChildResource {R S} r.
Arguments ChildSubsite {R S} s.

(* error.BadOption, error.NotFound are not (all) in Lib.Py.exn *)
Definition BadOption : exn := OtherError 402.

(* Z-keyed dict for uri_path_abbrev._map *)
Fixpoint zmap_get {V} (d : list (Z * V)) (k : Z) : M V :=
  match d with [] => Raise KeyError | (k', v) :: r => if k' =? k then Ok v else zmap_get r k end.
