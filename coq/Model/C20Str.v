(* C20 — string helpers used by the resource-directory model: the parts of CPython's str / int() /
   urllib.parse.urljoin that rd.py relies on, over Coq [string]s (ASCII). They are validated by the
   correspondence run (every lookup payload is compared as text). urljoin is exact only on the grammar
   stated below. No proofs in this file. *)
From Coq Require Import String Ascii DecimalString.
From Verif Require Import Lib.Py.
Open Scope string_scope.
Open Scope list_scope.
Open Scope Z_scope.

Definition ostr := option string.
Definition ostr_eqb (a b : ostr) : bool :=
  match a, b with Some x, Some y => String.eqb x y | None, None => true | _, _ => false end.
Infix "+++" := String.append (at level 60, right associativity).

Fixpoint join (sep : string) (l : list string) : string :=
  match l with [] => EmptyString | [x] => x | x :: r => x +++ sep +++ join sep r end.

(* str(i) *)
Definition str_of_Z (z : Z) : string := NilZero.string_of_int (Z.to_int z).

Definition ascii_eqb (a b : ascii) : bool := Ascii.eqb a b.
Definition chr (n : nat) : ascii := ascii_of_nat n.

(* q.split("=", 1) when "=" in q, else (q, None) — rd.py:74-79 *)
Fixpoint split_eq_aux (s : string) : option (string * string) :=
  match s with
  | EmptyString => None
  | String c r => if ascii_eqb c "="%char then Some (EmptyString, r)
                  else match split_eq_aux r with Some (a, b) => Some (String c a, b) | None => None end
  end.
Definition split_eq (s : string) : string * ostr :=
  match split_eq_aux s with Some (k, v) => (k, Some v) | None => (s, None) end.

(* s.split(c): always at least one element *)
Fixpoint split_on (c : ascii) (s : string) : list string :=
  match s with
  | EmptyString => [EmptyString]
  | String x r => match split_on c r with
                  | h :: t => if ascii_eqb x c then EmptyString :: h :: t else String x h :: t
                  | [] => [EmptyString]
                  end
  end.

Definition is_ws (c : ascii) : bool :=
  let n := nat_of_ascii c in (Nat.eqb n 32) || ((Nat.leb 9 n) && (Nat.leb n 13)).
(* s.split(): split on runs of ASCII whitespace, no empty elements *)
Fixpoint split_ws_aux (s : string) (cur : string) : list string :=
  match s with
  | EmptyString => match cur with EmptyString => [] | _ => [cur] end
  | String c r => if is_ws c then match cur with EmptyString => split_ws_aux r EmptyString | _ => cur :: split_ws_aux r EmptyString end
                  else split_ws_aux r (cur +++ String c EmptyString)
  end.
Definition split_ws (s : string) : list string := split_ws_aux s EmptyString.

Fixpoint last_char (s : string) : option ascii :=
  match s with EmptyString => None | String c EmptyString => Some c | String _ r => last_char r end.
Definition ends_with_star (s : string) : bool := match last_char s with Some c => ascii_eqb c "*"%char | None => false end.
(* s[:-1] *)
Fixpoint drop_last (s : string) : string :=
  match s with EmptyString => EmptyString | String c EmptyString => EmptyString | String c r => String c (drop_last r) end.

(* value.replace('"', r'\"') *)
Fixpoint escape_quotes (s : string) : string :=
  match s with
  | EmptyString => EmptyString
  | String c r => if ascii_eqb c """"%char then String "\"%char (String c (escape_quotes r)) else String c (escape_quotes r)
  end.

(* int(s) for str s: optional ASCII whitespace around, optional sign, decimal digits with single
   underscores between digits. (Unicode digits / whitespace are not modelled.) None = ValueError *)
Fixpoint lstrip_ws (s : string) : string :=
  match s with String c r => if is_ws c then lstrip_ws r else s | EmptyString => EmptyString end.
Fixpoint rev_str (s : string) (acc : string) : string :=
  match s with EmptyString => acc | String c r => rev_str r (String c acc) end.
Definition strip_ws (s : string) : string := rev_str (lstrip_ws (rev_str (lstrip_ws s) EmptyString)) EmptyString.
Definition digit_val (c : ascii) : option Z :=
  let n := nat_of_ascii c in if (Nat.leb 48 n) && (Nat.leb n 57) then Some (Z.of_nat n - 48) else None.
Fixpoint digits_val (s : string) (acc : Z) (prev_digit : bool) : option Z :=
  match s with
  | EmptyString => if prev_digit then Some acc else None
  | String c r =>
      match digit_val c with
      | Some d => digits_val r (acc * 10 + d) true
      | None => if ascii_eqb c "_"%char && prev_digit then digits_val r acc false else None
      end
  end.
Definition parse_int (s : string) : option Z :=
  match strip_ws s with
  | String c r =>
      if ascii_eqb c "-"%char then match digits_val r 0 false with Some n => Some (- n) | None => None end
      else if ascii_eqb c "+"%char then digits_val r 0 false
      else digits_val (String c r) 0 false
  | EmptyString => None
  end.

(* ------------------------------------------------------------------ urllib.parse.urljoin
   Grammar on which this is exact: no '?', '#', ';' and no upper-case scheme in either argument; a scheme, if
   present, is followed by "//" ; schemes in [uses_relative] (aiocoap/message.py:41 adds the coap ones). *)
Definition is_scheme_char (c : ascii) : bool :=
  let n := nat_of_ascii c in
  ((Nat.leb 97 n) && (Nat.leb n 122)) || ((Nat.leb 65 n) && (Nat.leb n 90)) || ((Nat.leb 48 n) && (Nat.leb n 57))
  || (Nat.eqb n 43) || (Nat.eqb n 45) || (Nat.eqb n 46).
Fixpoint all_chars (f : ascii -> bool) (s : string) : bool :=
  match s with EmptyString => true | String c r => f c && all_chars f r end.
Fixpoint split_colon (s : string) : option (string * string) :=
  match s with
  | EmptyString => None
  | String c r => if ascii_eqb c ":"%char then Some (EmptyString, r)
                  else match split_colon r with Some (a, b) => Some (String c a, b) | None => None end
  end.
Definition is_alpha (c : ascii) : bool :=
  let n := nat_of_ascii c in ((Nat.leb 97 n) && (Nat.leb n 122)) || ((Nat.leb 65 n) && (Nat.leb n 90)).
(* urlsplit: (scheme, netloc, path) *)
Fixpoint take_netloc (s : string) : string * string :=
  match s with
  | EmptyString => (EmptyString, EmptyString)
  | String c r => if ascii_eqb c "/"%char then (EmptyString, s) else let '(a, b) := take_netloc r in (String c a, b)
  end.
Definition urlsplit (s : string) : string * string * string :=
  let '(scheme, rest) :=
    match split_colon s with
    | Some (String c a, b) => if is_alpha c && all_chars is_scheme_char a then (String c a, b) else (EmptyString, s)
    | _ => (EmptyString, s)
    end in
  match rest with
  | String "/" (String "/" r) => let '(n, p) := take_netloc r in (scheme, n, p)
  | _ => (scheme, EmptyString, rest)
  end.
Definition uses_relative : list string :=
  [""; "ftp"; "http"; "gopher"; "nntp"; "imap"; "wais"; "file"; "https"; "shttp"; "mms"; "prospero"; "rtsp"; "rtspu";
   "sftp"; "svn"; "svn+ssh"; "ws"; "wss"; "coap"; "coaps"; "coap+tcp"; "coaps+tcp"; "coap+ws"; "coaps+ws"]%string.
Definition starts_slash (s : string) : bool := match s with String "/" _ => true | _ => false end.
Definition uses_netloc : list string :=
  [""; "ftp"; "http"; "gopher"; "nntp"; "telnet"; "imap"; "wais"; "file"; "mms"; "https"; "shttp"; "snews"; "prospero"; "rtsp"; "rtspu";
   "rsync"; "svn"; "svn+ssh"; "sftp"; "nfs"; "git"; "git+ssh"; "ws"; "wss"; "itms-services";
   "coap"; "coaps"; "coap+tcp"; "coaps+tcp"; "coap+ws"; "coaps+ws"]%string.
Definition starts_2slash (s : string) : bool := match s with String "/" (String "/" _) => true | _ => false end.
Definition urlunsplit (scheme netloc path : string) : string :=
  let has_scheme := match scheme with EmptyString => false | _ => true end in
  let has_netloc := match netloc with EmptyString => false | _ => true end in
  let url := if has_netloc || (has_scheme && existsb (String.eqb scheme) uses_netloc && negb (starts_2slash path))
             then "//" +++ netloc +++ (match path with EmptyString => path | _ => if starts_slash path then path else "/" +++ path end)
             else path in
  match scheme with EmptyString => url | _ => scheme +++ ":" +++ url end.
Definition nonempty (s : string) : bool := match s with EmptyString => false | _ => true end.
(* segments[1:-1] = filter(None, segments[1:-1]) *)
Definition filter_middle (l : list string) : list string :=
  match l with
  | [] => []
  | h :: t => match rev t with
              | [] => [h]
              | z :: m => h :: filter nonempty (rev m) ++ [z]
              end
  end.
Definition resolve_dots (segments : list string) : list string :=
  let r := fold_left (fun acc seg => if String.eqb seg ".." then removelast acc
                                     else if String.eqb seg "." then acc else acc ++ [seg]) segments [] in
  match rev segments with
  | z :: _ => if String.eqb z "." || String.eqb z ".." then r ++ [EmptyString] else r
  | [] => r
  end.
Definition urljoin (base url : string) : string :=
  match base, url with
  | EmptyString, _ => url
  | _, EmptyString => base
  | _, _ =>
    let '(bscheme, bnetloc, bpath) := urlsplit base in
    let '(scheme0, netloc, path) := urlsplit url in
    let scheme := match scheme0 with EmptyString => bscheme | _ => scheme0 end in
    if negb (String.eqb scheme bscheme) || negb (existsb (String.eqb scheme) uses_relative) then url
    else if nonempty netloc then urlunsplit scheme netloc path
    else if negb (nonempty path) then urlunsplit scheme bnetloc bpath
    else
      let base_parts := let bp := split_on "/"%char bpath in
                        match rev bp with z :: _ => if nonempty z then removelast bp else bp | [] => bp end in
      let segments := if starts_slash path then split_on "/"%char path
                      else filter_middle (base_parts ++ split_on "/"%char path) in
      let resolved := join "/" (resolve_dots segments) in
      urlunsplit scheme bnetloc (match resolved with EmptyString => "/"%string | _ => resolved end)
  end.
