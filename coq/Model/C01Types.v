(* C01 — data types shared by the code model (Model/C01.v) and the RFC specification (Model/C01Rfc.v).
   No proofs in this file. *)
From Verif Require Import Lib.Py.
Open Scope Z_scope.

(* The value held by an option object (optiontypes.py): one constructor per OptionType subclass.
   VString holds the str as its list of code points; VBlock is BlockOption.BlockwiseTuple;
   VContentFormat is the integer of the ContentFormat enum member. *)
Inductive optval :=
| VOpaque (b : bytes)
| VString (s : list Z)
| VUint (n : Z)
| VBlock (block_number : Z) (more : bool) (size_exponent : Z)
| VContentFormat (n : Z).

(* an option object: (option.number, value) *)
Notation option_ := (Z * optval)%type (only parsing).

(* The fields of aiocoap.Message the property talks about.  m_opt is the content of Options._options
   as the sequence of add_option calls (see Model/C01.v, option_list). *)
Record msg := { m_type : Z; m_code : Z; m_mid : Z; m_token : bytes; m_opt : list option_; m_payload : bytes }.
