(* C14 — the same slice of messagemanager.py as Model/C14.v, for transports that can refuse a datagram
   synchronously: udp6's sendmsg raises OSError (ENETUNREACH, EACCES ...), the selector transport calls
   error_received, and that calls MessageManager.dispatch_error(exc, remote) — all from INSIDE
   message_interface.send(), i.e. re-entrantly inside _send_initially / _continue_backlog / _retransmit /
   the empty-ACK and RST replies (transports/udp6.py:492-507, 694-720).  Nothing goes onto the wire.

   (The two places where this went wrong — _retransmit and _continue_backlog — were repaired by /repo commits 11456f9 and
   8d04b7c; this file models the repaired code.)
   [l] is the list of remotes the transport currently refuses.  Every function that can reach
   _send_via_transport is redefined here with that parameter; everything else is Model/C14.v's.  Exceptions now
   matter: a KeyError / AssertionError raised in _continue_backlog propagates out of _remove_exchange and
   dispatch_message, so the rest of dispatch_message is skipped.
   Proofs/C14refuse.v shows that with l = [] these functions ARE the ones of Model/C14.v.  No proofs here. *)
From Coq Require Import ZArith List Bool.
From Verif Require Import Model.C14.
Import ListNotations.
Open Scope Z_scope.

Definition refuses (l : list Z) (r : Z) : bool := existsb (Z.eqb r) l.
Definition crashed (o : list output) : bool := existsb (fun x => match x with Crash _ => true | _ => false end) o.

(* messagemanager.py _send_via_transport -> message_interface.send(message).  A refusal IS dispatch_error(remote),
   run re-entrantly.  Ghost: a message whose FIRST transmission is refused is recorded as [Dropped] (it leaves the
   queue accounting without having been on the wire; its request is among those dispatch_error fails). *)
Definition refused_ghost (what : output) : list output :=
  match what with Tx m false => [Dropped m] | _ => [] end.
Definition send_via_transport (l : list Z) (what : output) (r : Z) (s : st) : st * list output :=
  if refuses l r then let '(s', o) := dispatch_error r s in (s', refused_ghost what ++ o) else (s, [what]).

(* _send_initially: the exchange is added BEFORE the datagram is handed over, so a refusal removes it again
   (together with the backlog and the requests) *)
Definition send_initially (l : list Z) (m : msg) (s : st) : st * list output :=
  let s := if m_mtype m =? 0 then add_exchange m s else s in
  send_via_transport l (Tx m false) (m_remote m) s.

(* _continue_backlog: `while remote in self._backlogs and not any(...)` — after a refused release dispatch_error
   has removed self._backlogs[remote] and the loop ends (fix 8d04b7c; before, KeyError escaped here) *)
Fixpoint continue_backlog_loop (l : list Z) (fuel : nat) (r : Z) (s : st) : st * list output :=
  match fuel with
  | O => (s, [])
  | S fuel =>
    if has_exchange r s then (s, []) else
    match aget r (backlogs s) with
    | None => (s, [])
    | Some [] => (upd_bl s (adel r (backlogs s)), [])
    | Some (m :: q) =>
        let '(s1, o1) := send_initially l m (upd_bl s (aset r q (backlogs s))) in
        let '(s2, o2) := continue_backlog_loop l fuel r s1 in (s2, o1 ++ o2)
    end
  end.
Definition continue_backlog (l : list Z) (r : Z) (s : st) : st * list output :=
  match aget r (backlogs s) with
  | None => (s, [Crash AssertionError])
  | Some q => continue_backlog_loop l (S (length q)) r s
  end.

(* _remove_exchange *)
Definition remove_exchange (l : list Z) (r mid mtype : Z) (s : st) : st * list output :=
  match xget r mid (active_exchanges s) with
  | None => (s, [])
  | Some x =>
      let s1 := upd_ex s (xdel r mid (active_exchanges s)) in
      let '(s2, o2) := if mtype =? 3 then call_monitor (x_msg x) s1 else (s1, []) in
      let '(s3, o3) := continue_backlog l r s2 in (s3, o2 ++ o3)
  end.

(* _retransmit: the exchange is popped, rescheduled and put back, and THEN the datagram is handed over, so that a
   refusing transport's dispatch_error finds and ends it (fix 11456f9; before, it was put back after the send and
   survived without backlog entry) *)
Definition retransmit (l : list Z) (x : exchange) (s : st) : st * list output :=
  let m := x_msg x in
  let r := m_remote m in
  match xget r (m_mid m) (active_exchanges s) with
  | None => (s, [Crash KeyError])
  | Some _ =>
    let s := upd_ex s (xdel r (m_mid m) (active_exchanges s)) in
    if x_counter x <? m_maxre m then
      let '(s, x') := schedule_retransmit m (x_timeout x * 2) (x_counter x + 1) s in
      send_via_transport l (Tx m true) r (upd_ex s (x' :: xdel r (m_mid m) (active_exchanges s)))
    else
      match aget r (backlogs s) with
      | None => (s, [Crash KeyError])
      | Some q =>
          let '(s, o) := tm_dispatch_error ConRetransmitsExceeded r (upd_bl s (adel r (backlogs s))) in
          (s, map Dropped q ++ o)
      end
  end.

(* messagemanager.py:423-517 send_message *)
Definition send_message (l : list Z) (who : sub) (r mt code tok maxre : Z) (s : st) : st * list output :=
  let '(mid, s) := next_message_id s in
  let m := {| m_sub := who; m_remote := r; m_mtype := resolve_mtype mt; m_code := code; m_mid := mid; m_tok := tok; m_maxre := maxre |} in
  if (m_mtype m =? 0) && in_backlogs r s then
    match aget r (backlogs s) with
    | Some q =>
        if has_exchange r s then (upd_bl s (aset r (q ++ [m]) (backlogs s)), [Submitted m])
        else (s, [Crash AssertionError])
    | None => (s, [])
    end
  else
    let '(s, o) := send_initially l m s in (s, Submitted m :: o).

Definition tm_request (l : list Z) (q r mt maxre : Z) (s : st) : st * list output :=
  let '(tok, s) := next_token s in
  let s := upd_out s (outgoing_requests s ++ [((tok, r), q)]) in
  send_message l (Req q) r mt 1 tok maxre s.

(* the empty ACK / RST replies go through _send_initially like everything else *)
Definition send_empty (l : list Z) (r mtype mid : Z) (s : st) : st * list output :=
  send_via_transport l (TxEmpty r mtype mid) r s.

(* messagemanager.py:97-155 dispatch_message; an exception out of _remove_exchange ends it *)
Definition dispatch_message (l : list Z) (r mtype code mid tok : Z) (s : st) : st * list output :=
  let '(s, o1) := if (mtype =? 2) || (mtype =? 3) then remove_exchange l r mid mtype s else (s, []) in
  if crashed o1 then (s, o1) else
  if code =? 0 then
    if mtype =? 0 then let '(s, o2) := send_empty l r 3 mid s in (s, o1 ++ o2)
    else (s, o1)
  else
    if mtype =? 3 then (s, o1)
    else
      let '(s, o2, success) := tm_process_response r tok s in
      if success then
        if mtype =? 0 then let '(s, o3) := send_empty l r 2 mid s in (s, o1 ++ o2 ++ o3) else (s, o1 ++ o2)
      else
        if mtype =? 0 then let '(s, o3) := send_empty l r 3 mid s in (s, o1 ++ o2 ++ o3) else (s, o1 ++ o2).

Definition fire (l : list Z) (s : st) : st * list output :=
  match min_timer (active_exchanges s) with
  | None => (s, [])
  | Some x =>
      let '(s, o) := retransmit l x (upd_now s (Z.max (now s) (x_due x))) in
      (s, Fired (m_remote (x_msg x)) (m_mid (x_msg x)) :: o)
  end.

(* events: those of Model/C14.v, and the transport starting / stopping to refuse datagrams for a remote *)
Inductive revent := Ev (e : event) | Refuse (r : Z) (on : bool).

Definition step_ev (l : list Z) (s : st) (e : event) : st * list output :=
  match e with
  | Request q r mt maxre => tm_request l q r mt maxre s
  | RawSend k r mt tok maxre => send_message l (Raw k) r mt 69 tok maxre s
  | RecvEmpty r mtype mid => dispatch_message l r mtype 0 mid 0 s
  | RecvResp r mtype mid tok => dispatch_message l r mtype 69 mid tok s
  | Fire => fire l s
  | Respond j k last maxre => respond (send_message l) j k last maxre s
  | TransportError _ | Advance _ | Cancel _ | Serve _ _ _ _ => C14.step s e
  end.

Definition rstep (sl : st * list Z) (e : revent) : (st * list Z) * list output :=
  let '(s, l) := sl in
  match e with
  | Ev e => let '(s', o) := step_ev l s e in ((s', l), o)
  | Refuse r true => ((s, if refuses l r then l else l ++ [r]), [])
  | Refuse r false => ((s, filter (fun x => negb (x =? r)) l), [])
  end.

Fixpoint rrun (sl : st * list Z) (es : list revent) : (st * list Z) * list (list output) :=
  match es with
  | [] => (sl, [])
  | e :: r => let '(sl1, o) := rstep sl e in let '(sl2, os) := rrun sl1 r in (sl2, o :: os)
  end.

(* a run in which the transport never refuses anything *)
Definition quiet (es : list revent) : bool := forallb (fun e => match e with Refuse _ true => false | _ => true end) es.
Definition events_of (es : list revent) : list event := flat_map (fun e => match e with Ev e => [e] | Refuse _ _ => [] end) es.

Definition rrun_view (mid0 token0 : Z) (rnd : list Z) (es : list revent) :=
  let '((s, l), os) := rrun (init mid0 token0 rnd, []) es in (os, final_view s).
