(* C19 — executable model of aiocoap/cli/fileserver.py FileServer (tie C): every render method as a function
   state -> (state, list of file-system effects, response), over an abstract POSIX file system (association list from
   absolute part lists to nodes).  The path of every effect is computed with the translated request_to_localpath
   (Gen/fileserver.v, tie T) and the PurePosixPath model of Model/C19Path.v.  One model effect = one Python-level call
   recorded by the harness (os.stat, io.open, os.listdir, os.open, os.rename, os.unlink).  No proofs in this file. *)
From Verif Require Import Lib.Py Model.C19Path Gen.fileserver.
From Coq Require String Ascii.
Import String.StringSyntax.
Open Scope Z_scope.

(* ------------------------------------------------------------------ file system *)
Inductive node := NFile (content : list Z) | NDir.
Definition fsys := list (list (list Z) * node).
Inductive ferr := ENOENT | ENOTDIR | EISDIR | ENAMETOOLONG | EINVAL | EEXIST | ENOSPC.

Fixpoint alookup (fs : fsys) (k : list (list Z)) : option node :=
  match fs with
  | [] => None
  | (k', n) :: r => if parts_eqb k' k then Some n else alookup r k
  end.
(* the key [] is "/" for an absolute path and the working directory for a relative one: the model keeps ONE name space per
   server (keys are parts as the server names them); this is adequate because all paths of one server have the anchor of its root
   (theorem C19_request_to_localpath_confined) — only tempfile's absolutised name differs, see [shown] below *)
Definition lookup (fs : fsys) (k : list (list Z)) : option node := match k with [] => Some NDir | _ => alookup fs k end.
Fixpoint aremove (fs : fsys) (k : list (list Z)) : fsys :=
  match fs with
  | [] => []
  | (k', n) :: r => if parts_eqb k' k then aremove r k else (k', n) :: aremove r k
  end.
Definition aset (fs : fsys) (k : list (list Z)) (n : node) : fsys := (k, n) :: aremove fs k.

(* length of the UTF-8 encoding of a file name (NAME_MAX = 255 bytes) *)
Definition utf8_len (s : list Z) : Z :=
  fold_right (fun c acc => acc + (if c <? 128 then 1 else if c <? 2048 then 2 else if c <? 65536 then 3 else 4)) 0 s.
(* Python refuses paths with an embedded NUL before any system call (ValueError) *)
Definition has_nul (p : ppath) : bool := existsb (existsb (Z.eqb 0)) (parts p).
(* kernel path walk: each directory on the way must exist and be a directory; result = key of the last component *)
Fixpoint walk (fs : fsys) (cur rest : list (list Z)) : ferr + list (list Z) :=
  match rest with
  | [] => inr cur
  | p :: r =>
      match lookup fs cur with
      | Some NDir => if 255 <? utf8_len p then inl ENAMETOOLONG else walk fs (cur ++ [p]) r
      | Some (NFile _) => inl ENOTDIR
      | None => inl ENOENT
      end
  end.
Definition resolve (fs : fsys) (p : ppath) : ferr + list (list Z) :=
  if has_nul p then inl EINVAL else walk fs [] (parts p).

Definition fs_stat (fs : fsys) (p : ppath) : ferr + node :=
  match resolve fs p with
  | inl e => inl e
  | inr k => match lookup fs k with Some n => inr n | None => inl ENOENT end
  end.
(* os.listdir: names of the entries, never "." or ".." *)
Definition children (fs : fsys) (k : list (list Z)) : list (list Z) :=
  flat_map (fun e => match strip_prefix k (fst e) with
                     | Some [n] => if str_eqb n DOT || str_eqb n DOTDOT then [] else [n]
                     | _ => [] end) fs.
Definition fs_listdir (fs : fsys) (p : ppath) : ferr + list (list Z) :=
  match resolve fs p with
  | inl e => inl e
  | inr k => match lookup fs k with Some NDir => inr (children fs k) | Some (NFile _) => inl ENOTDIR | None => inl ENOENT end
  end.
Definition fs_read (fs : fsys) (p : ppath) : ferr + list Z :=
  match fs_stat fs p with inl e => inl e | inr NDir => inl EISDIR | inr (NFile c) => inr c end.
(* os.open(p, O_RDWR | O_CREAT | O_EXCL) followed by write(content) *)
Definition fs_create (fs : fsys) (p : ppath) (content : list Z) : ferr + fsys :=
  match resolve fs p with
  | inl e => inl e
  | inr k => match lookup fs k with Some _ => inl EEXIST | None => inr (aset fs k (NFile content)) end
  end.
Definition fs_rename (fs : fsys) (a b : ppath) : ferr + fsys :=
  match resolve fs a with
  | inl e => inl e
  | inr ka =>
      match lookup fs ka with
      | None => inl ENOENT
      | Some na =>
          match resolve fs b with
          | inl e => inl e
          | inr kb => match lookup fs kb with
                      | Some NDir => inl EISDIR
                      | _ => inr (aset (aremove fs ka) kb na)
                      end
          end
      end
  end.
Definition fs_unlink (fs : fsys) (p : ppath) : ferr + fsys :=
  match resolve fs p with
  | inl e => inl e
  | inr k => match lookup fs k with None => inl ENOENT | Some NDir => inl EISDIR | Some (NFile _) => inr (aremove fs k) end
  end.

(* ------------------------------------------------------------------ effects, responses, the monad *)
Inductive effect :=
| EStat (p : ppath)                 (* os.stat(p): Path.stat / exists / is_dir *)
| EOpenRead (p : ppath)             (* io.open(p, "rb") *)
| EListDir (p : ppath)              (* os.listdir(p): Path.iterdir *)
| EOpenDirW (p : ppath)             (* io.open(dir, "w+b", opener=...) issued by tempfile.NamedTemporaryFile(dir=dir) *)
| ECreate (p : ppath)               (* os.open(dir/tmpXXXXXXXX, O_RDWR|O_CREAT|O_EXCL) inside tempfile *)
| ERename (a b : ppath)             (* os.rename(a, b) *)
| EUnlink (p : ppath).              (* os.unlink(p) *)

Inductive body :=
| BEmpty
| BWkc                                                          (* the fixed link-format line of get_resources_as_linkheader *)
| BFile (data : list Z) (blk : option (Z * bool * Z))           (* payload and Block2 option of the response *)
| BDir (entries : list (list (list Z) * bool)).                 (* (path relative to root, is a directory) per entry *)
Record response := { rcode : Z; rbody : body; retag : bool }.   (* code = class * 32 + detail; ETag option present *)

Inductive exnk :=
| XInvalidPath | XNoSuchFile | XTrailingSlashMissing | XAbundantTrailingSlash | XPreconditionFailed | XUnallowedMethod
| XValueError | XOSError (e : ferr)
| XContinue | XIncomplete | XBadRequest.        (* blockwise.ContinueException 2.31, IncompleteException 4.08, error.BadRequest 4.00 *)

(* key of a block-wise operation (blockwise._extract_block_key): method and every option except Block1/Block2/Observe *)
Definition spoolkey := (Z * list (list Z) * list etagref * list etagref * bool)%type.
Record state := { st_fs : fsys; st_obs : list (ppath * bool);          (* _observations: path -> (last_stat is not None) *)
                  st_spool : list (spoolkey * list Z) }.                (* Block1Spool._assemblies: key -> body received so far *)
Definition FM (A : Type) := state -> (state * list effect) * (exnk + A).
Definition ret {A} (a : A) : FM A := fun st => ((st, []), inr a).
Definition raise {A} (e : exnk) : FM A := fun st => ((st, []), inl e).
Definition bindF {A B} (m : FM A) (f : A -> FM B) : FM B :=
  fun st => match m st with
            | ((st1, e1), inl x) => ((st1, e1), inl x)
            | ((st1, e1), inr a) => match f a st1 with ((st2, e2), r) => ((st2, e1 ++ e2), r) end
            end.
Notation "x <-- m ;;; k" := (bindF m (fun x => k)) (at level 61, m at next level, right associativity).
Notation "m ;;; k" := (bindF m (fun _ => k)) (at level 61, right associativity).

Definition lift_path (m : M (list (list Z))) : FM ppath :=
  match m with Ok p => ret (load_parts p) | Raise _ => raise XInvalidPath end.
(* the primitives: record the call, then perform it on the model file system *)
Definition stat (p : ppath) : FM (ferr + node) := fun st => ((st, [EStat p]), inr (fs_stat (st_fs st) p)).
Definition listdir (p : ppath) : FM (ferr + list (list Z)) := fun st => ((st, [EListDir p]), inr (fs_listdir (st_fs st) p)).
Definition open_read (p : ppath) : FM (ferr + list Z) := fun st => ((st, [EOpenRead p]), inr (fs_read (st_fs st) p)).
Definition open_dir_w (p : ppath) : FM (ferr + unit) := fun st => ((st, [EOpenDirW p]), inr (if has_nul p then inl EINVAL else inr tt)).
Definition with_fs (st : state) (fs : fsys) : state := {| st_fs := fs; st_obs := st_obs st; st_spool := st_spool st |}.
(* [shown] is the path as Python passes it to the call (what the effect records); [p] is the same location in the server's
   name space.  They differ only for the temporary file under a relative root: tempfile applies os.path.abspath to its dir. *)
Definition create (shown p : ppath) (c : list Z) : FM (ferr + unit) :=
  fun st => match fs_create (st_fs st) p c with
            | inl e => ((st, [ECreate shown]), inr (inl e))
            | inr fs' => ((with_fs st fs', [ECreate shown]), inr (inr tt))
            end.
Definition rename (shown a b : ppath) : FM (ferr + unit) :=
  fun st => match fs_rename (st_fs st) a b with
            | inl e => ((st, [ERename shown b]), inr (inl e))
            | inr fs' => ((with_fs st fs', [ERename shown b]), inr (inr tt))
            end.
Definition unlink (shown p : ppath) : FM (ferr + unit) :=
  fun st => match fs_unlink (st_fs st) p with
            | inl e => ((st, [EUnlink shown]), inr (inl e))
            | inr fs' => ((with_fs st fs', [EUnlink shown]), inr (inr tt))
            end.
(* os.path.abspath(p) for a path without "." and ".." parts: a relative path is prefixed with the working directory *)
Definition abspath (self : fileserver) (p : ppath) : ppath :=
  if anchor p =? 0 then {| anchor := 1; parts := fs_cwd self ++ parts p |} else p.

(* ------------------------------------------------------------------ FileServer *)
Definition last_is_empty (path : list (list Z)) : bool := str_empty (last path [0]).     (* path[-1] == "" for non-empty path *)
Definition nonempty_list {A} (l : list A) : bool := match l with [] => false | _ => true end.
Definition is_cur (e : etagref) : bool := match e with ECur => true | _ => false end.
Definition is_empty_tag (e : etagref) : bool := match e with EEmpty => true | _ => false end.
Definition WKC : list (list Z) := [[46; 119; 101; 108; 108; 45; 107; 110; 111; 119; 110]; [99; 111; 114; 101]].   (* (".well-known", "core") *)

(* BlockwiseTuple.size / .start (optiontypes.py:173-187) *)
Definition blk_size (szx : Z) : Z := 2 ^ (Z.min szx 6 + 4).
Definition blk_start (num szx : Z) : Z := num * blk_size szx.

(* fileserver.py:328-340 add_observation: _observations.setdefault(path, [None, []]) *)
Fixpoint obs_find (o : list (ppath * bool)) (p : ppath) : option bool :=
  match o with [] => None | (q, b) :: r => if ppath_eqb q p then Some b else obs_find r p end.
Fixpoint obs_mark (o : list (ppath * bool)) (p : ppath) : list (ppath * bool) :=
  match o with [] => [] | (q, b) :: r => if ppath_eqb q p then (q, true) :: r else (q, b) :: obs_mark r p end.
Definition obs_register (p : ppath) : FM unit :=
  fun st => match obs_find (st_obs st) p with
            | Some _ => ((st, []), inr tt)
            | None => (({| st_fs := st_fs st; st_obs := st_obs st ++ [(p, false)]; st_spool := st_spool st |}, []), inr tt)
            end.
Definition add_observation (self : fileserver) (req : request) : FM unit :=
  p <-- lift_path (request_to_localpath self req) ;;;
  obs_register p.
(* fileserver.py:294-300: the first GET after registration stats the file once more and remembers the result *)
Definition obs_stat (p : ppath) : FM unit :=
  fun st => match obs_find (st_obs st) p with
            | Some false => (({| st_fs := st_fs st; st_obs := obs_mark (st_obs st) p; st_spool := st_spool st |}, [EStat p]), inr tt)
            | _ => ((st, []), inr tt)
            end.

(* fileserver.py:265-278 render_get_dir *)
Fixpoint stat_children (p : ppath) (names : list (list Z)) : FM (list (list (list Z) * bool)) :=
  match names with
  | [] => ret []
  | n :: r =>
      s <-- stat (child p n) ;;;                                   (* f.is_dir() *)
      rest <-- stat_children p r ;;;
      ret ((parts (child p n), match s with inr NDir => true | _ => false end) :: rest)
  end.
Definition render_get_dir (self : fileserver) (req : request) (p : ppath) : FM response :=
  if nonempty_list (opt_uri_path req) && negb (last_is_empty (opt_uri_path req)) then raise XTrailingSlashMissing
  else
    l <-- listdir p ;;;
    match l with
    | inl e => raise (XOSError e)
    | inr names =>
        entries <-- stat_children p names ;;;
        (* rel = f.relative_to(self.root): ValueError when f is not below root *)
        let rootparts := parts (load_parts (fs_root self)) in
        let rels := map (fun e => match strip_prefix rootparts (fst e) with Some rel => Some (rel, snd e) | None => None end) entries in
        if forallb (fun x => match x with Some _ => true | None => false end) rels
        then ret {| rcode := 69; rbody := BDir (flat_map (fun x => match x with Some y => [y] | None => [] end) rels); retag := false |}
        else raise XValueError
    end.

(* f.seek(start); f.read(k): nothing when start is at or beyond the end (also keeps huge block numbers cheap to evaluate) *)
Definition read_at (content : list Z) (start k : Z) : list Z :=
  if blen content <=? start then [] else bto (bfrom content start) k.

(* fileserver.py:280-326 render_get_file *)
Definition render_get_file (self : fileserver) (req : request) (p : ppath) : FM response :=
  if nonempty_list (opt_uri_path req) && last_is_empty (opt_uri_path req) then raise XAbundantTrailingSlash
  else
    let '(num, _, szx) := match opt_block2 req with Some b => b | None => (0, false, 6) end in
    c <-- open_read p ;;;
    match c with
    | inl e => raise (XOSError e)
    | inr content =>
        let data := read_at content (blk_start num szx) (blk_size szx + 1) in       (* f.seek(start); f.read(size + 1) *)
        obs_stat p ;;;
        let more := blen data >? blk_size szx in
        let block_out := if (num =? 0) && negb more then None else Some (num, more, szx) in
        ret {| rcode := 69; rbody := BFile (bto data (blk_size szx)) block_out; retag := false |}
    end.

(* fileserver.py:157-184 render_get *)
Definition render_get (self : fileserver) (req : request) : FM response :=
  if parts_eqb (opt_uri_path req) WKC then ret {| rcode := 69; rbody := BWkc; retag := false |}
  else
    p <-- lift_path (request_to_localpath self req) ;;;
    s <-- stat p ;;;
    match s with
    | inl ENOENT => raise XNoSuchFile
    | inl e => raise (XOSError e)
    | inr n =>
        let etag := fs_etag_enabled self in
        if etag && existsb is_cur (opt_etags req) then ret {| rcode := 67; rbody := BEmpty; retag := true |}
        else match n with
             | NDir =>
                 r <-- render_get_dir self req p ;;;
                 ret {| rcode := rcode r; rbody := rbody r; retag := etag |}
             | NFile _ =>
                 r <-- render_get_file self req p ;;;
                 let send_etag := match rbody r with BFile _ (Some _) => true | _ => false end in
                 ret {| rcode := rcode r; rbody := rbody r; retag := etag && (nonempty_list (opt_etags req) || send_etag) |}
             end
    end.

(* the If-Match test shared by render_put and render_delete (fileserver.py:203-212, 247-256) *)
Definition check_if_match (self : fileserver) (req : request) (p : ppath) (absent : exnk) : FM unit :=
  if nonempty_list (opt_if_match req) && negb (existsb is_empty_tag (opt_if_match req)) then
    s <-- stat p ;;;
    match s with
    | inl ENOENT => raise absent
    | inl e => raise (XOSError e)
    | inr _ => if fs_etag_enabled self && existsb is_cur (opt_if_match req) then ret tt else raise XPreconditionFailed
    end
  else ret tt.

(* fileserver.py:223-238: spool into a temporary file next to the target, rename over the target, stat for the new ETag.
   The temporary file is created first; writing the body (which fails on a full disk), closing and renaming sit in one
   try block whose except clause unlinks the temporary file and re-raises *)
Definition store_file (self : fileserver) (req : request) (p : ppath) : FM response :=
  let dir := parent p in
  d <-- open_dir_w dir ;;;                                         (* tempfile.NamedTemporaryFile(dir=path.parent, delete=False) *)
  match d with
  | inl e => raise (XOSError e)
  | inr _ =>
      let tmp := child dir (fs_tmpname self) in
      let shown := child (abspath self dir) (fs_tmpname self) in   (* _mkstemp_inner: dir = os.path.abspath(dir) *)
      let full := fs_disk_full self && nonempty_list (payload req) in
      c <-- create shown tmp (if full then [] else payload req) ;;;
      match c with
      | inl e => raise (XOSError e)
      | inr _ =>
          r <-- (if full then ret (inl ENOSPC)                     (* with spool: spool.write(request.payload) fails *)
                 else rename shown tmp p) ;;;                      (* temppath.rename(path) *)
          match r with
          | inl e => unlink shown tmp ;;; raise (XOSError e)       (* except Exception: temppath.unlink(); raise *)
          | inr _ =>
              s <-- stat p ;;;
              match s with
              | inl e => raise (XOSError e)
              | inr _ => ret {| rcode := 68; rbody := BEmpty; retag := fs_etag_enabled self |}
              end
          end
      end
  end.

(* fileserver.py:186-235 render_put *)
Definition put_preconditions (self : fileserver) (req : request) (p : ppath) : FM unit :=
  (if opt_if_none_match req then
     s <-- stat p ;;;                                              (* path.exists() *)
     match s with
     | inr _ => raise XPreconditionFailed
     | inl ENOENT | inl ENOTDIR | inl EINVAL => ret tt
     | inl e => raise (XOSError e)
     end
   else ret tt) ;;;
  check_if_match self req p XPreconditionFailed.
Definition render_put (self : fileserver) (req : request) : FM response :=
  if negb (fs_write self) then ret {| rcode := 131; rbody := BEmpty; retag := false |}
  else if negb (nonempty_list (opt_uri_path req)) || last_is_empty (opt_uri_path req) then ret {| rcode := 128; rbody := BEmpty; retag := false |}
  else
    p <-- lift_path (request_to_localpath self req) ;;;
    put_preconditions self req p ;;;
    store_file self req p.

(* fileserver.py:237-263 render_delete *)
Definition render_delete (self : fileserver) (req : request) : FM response :=
  if negb (fs_write self) then ret {| rcode := 131; rbody := BEmpty; retag := false |}
  else if negb (nonempty_list (opt_uri_path req)) || last_is_empty (opt_uri_path req) then ret {| rcode := 128; rbody := BEmpty; retag := false |}
  else
    p <-- lift_path (request_to_localpath self req) ;;;
    check_if_match self req p XNoSuchFile ;;;
    u <-- unlink p p ;;;
    match u with
    | inl ENOENT => raise XNoSuchFile
    | inl e => raise (XOSError e)
    | inr _ => ret {| rcode := 66; rbody := BEmpty; retag := false |}
    end.

(* resource.py:114-144 Resource.render: dispatch on the method *)
Definition render (self : fileserver) (req : request) : FM response :=
  if code req =? 1 then render_get self req
  else if code req =? 3 then render_put self req
  else if code req =? 4 then render_delete self req
  else raise XUnallowedMethod.

(* fileserver.py:133-143 needs_blockwise_assembly *)
Definition needs_blockwise_assembly (req : request) : bool :=
  negb (code req =? 1) || negb (nonempty_list (opt_uri_path req)) || last_is_empty (opt_uri_path req) || parts_eqb (opt_uri_path req) WKC.
Definition with_payload (req : request) (b : list Z) : request :=
  {| code := code req; opt_uri_path := opt_uri_path req; opt_observe := opt_observe req; opt_etags := opt_etags req;
     opt_if_match := opt_if_match req; opt_if_none_match := opt_if_none_match req; opt_block1 := opt_block1 req;
     opt_block2 := opt_block2 req; payload := b |}.
Definition block_key (req : request) : spoolkey :=
  (code req, opt_uri_path req, opt_etags req, opt_if_match req, opt_if_none_match req).
Definition etag_eqb (a b : etagref) : bool :=
  match a, b with ECur, ECur | EOther, EOther | EEmpty, EEmpty => true | _, _ => false end.
Definition key_eqb (a b : spoolkey) : bool :=
  let '(c1, p1, e1, m1, n1) := a in let '(c2, p2, e2, m2, n2) := b in
  (c1 =? c2) && parts_eqb p1 p2 && list_eqb etag_eqb e1 e2 && list_eqb etag_eqb m1 m2 && Bool.eqb n1 n2.
Fixpoint spool_find (sp : list (spoolkey * list Z)) (k : spoolkey) : option (list Z) :=
  match sp with [] => None | (k', b) :: r => if key_eqb k' k then Some b else spool_find r k end.
Fixpoint spool_remove (sp : list (spoolkey * list Z)) (k : spoolkey) : list (spoolkey * list Z) :=
  match sp with [] => [] | (k', b') :: r => if key_eqb k' k then spool_remove r k else (k', b') :: spool_remove r k end.
(* BlockwiseTuple.is_valid_for_payload_size negated (optiontypes.py:194-203): with M set the block must fill its size (BERT: a
   multiple of 1024), the final block must not exceed it (BERT: anything) *)
Definition block1_invalid (more : bool) (szx : Z) (pl : list Z) : bool :=
  if szx =? 7 then more && negb (blen pl mod 1024 =? 0)
  else if more then negb (blen pl =? blk_size szx) else blk_size szx <? blen pl.
Fixpoint spool_set (sp : list (spoolkey * list Z)) (k : spoolkey) (b : list Z) : list (spoolkey * list Z) :=
  match sp with [] => [(k, b)] | (k', b') :: r => if key_eqb k' k then (k', b) :: r else (k', b') :: spool_set r k b end.
(* blockwise.py:65-95 Block1Spool.feed_and_take with message.py:445-467 _append_request_block: block 0 (re)starts the
   body (unchecked); a later block must have a valid payload size (4.00) and must start where the body ends (4.08; also for an
   unknown key); while M is set the body stays in the spool and the answer is 2.31 Continue; the last block takes the
   assembled request OUT of the spool (pop) and releases it *)
Definition feed_and_take (req : request) : FM request :=
  match opt_block1 req with
  | None => ret req
  | Some (num, more, szx) =>
      fun st =>
        let k := block_key req in
        let assembled :=
          if num =? 0 then inr (payload req)
          else match spool_find (st_spool st) k with
               | None => inl XIncomplete
               | Some acc =>
                   if block1_invalid more szx (payload req) then inl XBadRequest
                   else if blk_start num szx =? blen acc then inr (acc ++ payload req) else inl XIncomplete
               end in
        match assembled with
        | inl e => ((st, []), inl e)
        | inr body =>
            if more then (({| st_fs := st_fs st; st_obs := st_obs st; st_spool := spool_set (st_spool st) k body |}, []), inl XContinue)
            else (({| st_fs := st_fs st; st_obs := st_obs st; st_spool := spool_remove (st_spool st) k |}, []), inr (with_payload req body))
        end
  end.

(* interfaces.py:416-444 / 492-507: Observe:0 registers first (which validates the path) and renders without block-wise
   assembly; otherwise Resource._render_to_pipe: requests that need assembly go through the Block1 spool (the Block2 cache
   passes responses that fit into one message through) *)
Definition render_to_pipe (self : fileserver) (req : request) : FM response :=
  match opt_observe req with
  | Some 0 => add_observation self req ;;; render self req
  | _ => if needs_blockwise_assembly req
         then (req' <-- feed_and_take req ;;; render self req')
         else render self req
  end.

(* pipe.error_to_message: renderable errors carry their code, everything else is 5.00 *)
Definition exn_code (e : exnk) : Z :=
  match e with
  | XInvalidPath | XTrailingSlashMissing | XAbundantTrailingSlash => 128
  | XNoSuchFile => 132
  | XUnallowedMethod => 133
  | XPreconditionFailed => 140
  | XValueError | XOSError _ => 160
  | XContinue => 95
  | XIncomplete => 136
  | XBadRequest => 128
  end.
Definition serve (self : fileserver) (req : request) (st : state) : state * list effect * response :=
  match render_to_pipe self req st with
  | ((st', effs), inr r) => (st', effs, r)
  | ((st', effs), inl e) => (st', effs, {| rcode := exn_code e; rbody := BEmpty; retag := false |})
  end.

(* ------------------------------------------------------------------ histories *)
Definition with_block2 (req : request) (b : option (Z * bool * Z)) : request :=
  {| code := code req; opt_uri_path := opt_uri_path req; opt_observe := opt_observe req; opt_etags := opt_etags req;
     opt_if_match := opt_if_match req; opt_if_none_match := opt_if_none_match req; opt_block1 := opt_block1 req; opt_block2 := b; payload := payload req |}.
Definition has_more (r : response) : bool := match rbody r with BFile _ (Some (_, true, _)) => true | _ => false end.
(* a client fetching block after block (same size exponent) until a response comes without the M bit *)
Fixpoint fetch_all (fuel : nat) (self : fileserver) (req : request) (szx n : Z) (st : state) : state * list (list effect * response) :=
  let '(st1, effs, r) := serve self (with_block2 req (Some (n, false, szx))) st in
  if has_more r then
    match fuel with
    | O => (st1, [(effs, r)])
    | S f => let '(st2, rs) := fetch_all f self req szx (n + 1) st1 in (st2, (effs, r) :: rs)
    end
  else (st1, [(effs, r)]).
(* fileserver.py:101-121 check_files_for_refreshes, one round (every 10 s): every observed path whose first GET has been
   served is stat'ed again, in registration order; a path that cannot be stat'ed any more makes `relevant(False)` raise
   AttributeError, which ends the task (the round stops there).  When a stat differs, the observers' callbacks make
   ObservableResource._render_to_pipe render the registered request again: which ones is up to the environment ([rs]). *)
Fixpoint refresh_list (fs : fsys) (l : list (ppath * bool)) : list effect :=
  match l with
  | [] => []
  | (p, true) :: r => EStat p :: match fs_stat fs p with inl _ => [] | inr _ => refresh_list fs r end
  | (_, false) :: r => refresh_list fs r
  end.
Fixpoint rerender (self : fileserver) (rs : list request) (st : state) : state * list effect :=
  match rs with
  | [] => (st, [])
  | r :: rest => match render self r st with ((st1, e1), _) => let '(st2, e2) := rerender self rest st1 in (st2, e1 ++ e2) end
  end.
Definition with_full (self : fileserver) : fileserver :=
  {| fs_root := fs_root self; fs_write := fs_write self; fs_etag_enabled := fs_etag_enabled self; fs_tmpname := fs_tmpname self;
     fs_cwd := fs_cwd self; fs_disk_full := true |}.
Inductive item :=
| IOne (r : request) | IAll (r : request) (szx : Z)
| IOneFull (r : request)                      (* the request is served while the disk is full *)
| ITick (rs : list request).                  (* 10 s pass: one round of check_files_for_refreshes, re-rendering rs *)
Definition step (self : fileserver) (st : state) (i : item) : state * list (list effect * response) :=
  match i with
  | IOne r => let '(st1, effs, resp) := serve self r st in (st1, [(effs, resp)])
  | IAll r szx => fetch_all 4096 self r szx 0 st
  | IOneFull r => let '(st1, effs, resp) := serve (with_full self) r st in (st1, [(effs, resp)])
  | ITick rs => let e0 := refresh_list (st_fs st) (st_obs st) in
                let '(st1, e1) := rerender self rs st in (st1, [(e0 ++ e1, {| rcode := 0; rbody := BEmpty; retag := false |})])
  end.
Fixpoint run (self : fileserver) (st : state) (items : list item) : state * list (list (list effect * response)) :=
  match items with
  | [] => (st, [])
  | i :: r => let '(st1, o) := step self st i in let '(st2, os) := run self st1 r in (st2, o :: os)
  end.
Definition payload_of (r : response) : list Z := match rbody r with BFile d _ => d | _ => [] end.

(* ------------------------------------------------------------------ display (what the correspondence run prints) *)
Inductive dpath := DIn (rest : list (list Z)) | DOut (a : Z) (ps : list (list Z)).
Definition disp (self : fileserver) (p : ppath) : dpath :=
  let r := load_parts (fs_root self) in
  if anchor p =? anchor r then
    match strip_prefix (parts r) (parts p) with Some rest => DIn rest | None => DOut (anchor p) (parts p) end
  else DOut (anchor p) (parts p).
Inductive deffect := DStat (p : dpath) | DOpenRead (p : dpath) | DListDir (p : dpath) | DOpenDirW (p : dpath) | DCreate (p : dpath)
                   | DRename (a b : dpath) | DUnlink (p : dpath).
Definition disp_eff (self : fileserver) (e : effect) : deffect :=
  match e with
  | EStat p => DStat (disp self p) | EOpenRead p => DOpenRead (disp self p) | EListDir p => DListDir (disp self p)
  | EOpenDirW p => DOpenDirW (disp self p) | ECreate p => DCreate (disp self p)
  | ERename a b => DRename (disp self a) (disp self b) | EUnlink p => DUnlink (disp self p)
  end.
(* the deterministic file contents the harness writes: byte i of pattern(size, seed) *)
Fixpoint pattern_from (n : nat) (i seed : Z) : list Z :=
  match n with O => [] | S k => (Z.land (i * 7 + seed * 13 + Z.shiftr i 8) 255) :: pattern_from k (i + 1) seed end.
Definition pattern (size seed : Z) : list Z := pattern_from (Z.to_nat size) 0 seed.
(* position-weighted sum (no division: cheap under vm_compute) *)
Fixpoint cksum_from (i : Z) (c : list Z) : Z := match c with [] => 0 | b :: r => i * (b + 1) + cksum_from (i + 1) r end.
Definition cksum (c : list Z) : Z := cksum_from 1 c.
Definition disp_fs (self : fileserver) (fs : fsys) : list (list (list Z) * bool * Z * Z) :=
  flat_map (fun e => match fst e with
                     | [] => []
                     | k => match snd e with
                            | NDir => [(k, true, 0, 0)]
                            | NFile c => [(k, false, blen c, cksum c)]
                            end
                     end) fs.
(* payloads are printed as (length, checksum): printing thousands of numerals per case is what costs time in coqc *)
Inductive dbody := DBEmpty | DBWkc | DBFile (len ck : Z) (blk : option (Z * bool * Z)) | DBDir (entries : list (list (list Z) * bool)).
Definition disp_body (b : body) : dbody :=
  match b with
  | BEmpty => DBEmpty | BWkc => DBWkc | BFile d blk => DBFile (blen d) (cksum d) blk | BDir e => DBDir e
  end.
Definition disp_run (self : fileserver) (st : state) (items : list item) :=
  let '(st', outs) := run self st items in
  (map (map (fun er => (map (disp_eff self) (fst er), rcode (snd er), disp_body (rbody (snd er)), retag (snd er)))) outs, disp_fs self (st_fs st')).
(* ASCII literals for the generated case files (shorter to parse than lists of numerals) *)
Definition S (s : String.string) : list Z := map (fun a => Z.of_N (Ascii.N_of_ascii a)) (String.list_ascii_of_string s).
Arguments S s%string_scope.
Definition secret_content : list Z := S "C19-OUTSIDE-SECRET-0123456789-must-never-be-served-or-changed".
