(* C03 — glue between the tuning of the retransmission model (integer microseconds, Model/C03.v) and the
   TransportTuning formulas translated from numbers/constants.py (exact rationals in seconds, Gen/c03_constants.v);
   plus the subclass relation on the class table translated from error.py.  No proofs here. *)
From Coq Require Import ZArith QArith List String.
From Verif Require Import Gen.c03_constants Model.C03.
Import ListNotations.

(* the TransportTuning subclass the harness attaches to a message: ACK_TIMEOUT = A us, ACK_RANDOM_FACTOR = num/den *)
Definition tt_of (tn : tuning) : transport_tuning :=
  {| tt_ACK_TIMEOUT := Qmake (ACK_TIMEOUT tn) 1000000;
     tt_ACK_RANDOM_FACTOR := Qmake (ARF_num tn) (Z.to_pos (ARF_den tn));
     tt_MAX_RETRANSMIT := MAX_RETRANSMIT tn;
     tt_NSTART := tt_NSTART default_transport_tuning;
     tt_MAX_LATENCY := tt_MAX_LATENCY default_transport_tuning;
     tt_DEFAULT_BLOCK_SIZE_EXP := tt_DEFAULT_BLOCK_SIZE_EXP default_transport_tuning;
     tt_EMPTY_ACK_DELAY := tt_EMPTY_ACK_DELAY default_transport_tuning;
     tt_DEFAULT_LEISURE := tt_DEFAULT_LEISURE default_transport_tuning;
     tt_OBSERVATION_RESET_TIME := tt_OBSERVATION_RESET_TIME default_transport_tuning |}.

(* seconds -> microseconds as a reduced fraction (numerator, denominator) *)
Definition q_us (q : Q) : Z * Z := let r := Qred (Qmult q (inject_Z 1000000)) in (Qnum r, Zpos (Qden r)).

Definition derived_us (t : transport_tuning) : list (Z * Z) :=
  [ q_us (tt_ACK_TIMEOUT t); q_us (tt_ACK_RANDOM_FACTOR t); (tt_MAX_RETRANSMIT t, 1%Z);
    q_us (MAX_TRANSMIT_SPAN t); q_us (MAX_TRANSMIT_WAIT t); q_us (PROCESSING_DELAY t); q_us (MAX_RTT t);
    q_us (EXCHANGE_LIFETIME t); q_us (tt_MAX_LATENCY t); q_us (tt_EMPTY_ACK_DELAY t);
    (tt_OBSERVATION_RESET_TIME t, 1%Z); (tt_NSTART t, 1%Z) ].

(* error.py: reflexive-transitive superclasses of a class, following every base *)
Definition bases_of (c : string) : list string :=
  match find (fun e => String.eqb (fst e) c) error_bases with Some e => snd e | None => [] end.
Fixpoint ancestors (fuel : nat) (c : string) : list string :=
  match fuel with O => [c] | S f => c :: flat_map (ancestors f) (bases_of c) end.
Definition is_subclass (a b : string) : bool := existsb (String.eqb b) (ancestors 12 a).
