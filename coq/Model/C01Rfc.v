(* C01 — the specification: an independent reading of RFC 7252 section 3 (message format, figures 7-10,
   option value formats of 3.2), RFC 7959 section 2.2 (Block value), RFC 3629 (UTF-8, Model/C01Utf8.v) and of the
   option tables of RFC 7252 5.10, 7959, 7641, 7967, 8613, 9175, 8768.  Written from the RFC texts in plain
   arithmetic (no bit operations, none of the translated code).  No proofs in this file. *)
From Verif Require Import Lib.Py Gen.optnum_table Model.C01Types Model.C01Utf8.
Open Scope Z_scope.

(* ------------------------------------------------------------------ 3.1: option delta / option length *)
(* the 4-bit field: 0..12 literal, 13 = one extension byte follows, 14 = two follow (15 is reserved) *)
Definition nibble (v : Z) : Z := if v <? 13 then v else if v <? 269 then 13 else 14.
(* the extension bytes: value minus 13 as 8 bits, value minus 269 as 16 bits in network byte order *)
Definition extended (v : Z) : bytes :=
  if v <? 13 then [] else if v <? 269 then [v - 13] else [(v - 269) / 256; (v - 269) mod 256].
(* the largest delta / length the format can express: 65535 + 269 *)
Definition EXT_MAX : Z := 65804.

(* one option: | delta nibble | length nibble | delta ext | length ext | value | *)
Definition rfc_option (prev number : Z) (value : bytes) : bytes :=
  (nibble (number - prev) * 16 + nibble (blen value)) :: extended (number - prev) ++ extended (blen value) ++ value.
Fixpoint rfc_options (prev : Z) (l : list (Z * bytes)) : bytes :=
  match l with
  | [] => []
  | (number, value) :: r => rfc_option prev number value ++ rfc_options number r
  end.

(* figure 7: |Ver=1 (2 bits)|T (2)|TKL (4)|Code (8)|Message ID (16)| token | options | 0xFF payload | *)
Definition rfc_message (t c mid : Z) (token : bytes) (opts : list (Z * bytes)) (payload : bytes) : bytes :=
  [1 * 64 + t * 16 + blen token; c; mid / 256; mid mod 256] ++ token ++ rfc_options 0 opts ++
  match payload with [] => [] | _ => 255 :: payload end.

(* ------------------------------------------------------------------ 3.2: option value formats *)
(* uint: "a non-negative integer that is represented in network byte order using the number of bytes given
   by the Option Length field" — the sender uses the fewest bytes, zero is the empty string *)
Fixpoint uint_digits (fuel : nat) (n : Z) : bytes :=
  match fuel with
  | O => []
  | S k => if n <=? 0 then [] else uint_digits k (n / 256) ++ [n mod 256]
  end.
Definition rfc_uint (n : Z) : bytes := uint_digits (S (Z.to_nat (Z.log2 n))) n.
Definition rfc_uint_value (b : bytes) : Z := fold_left (fun a x => a * 256 + x) b 0.
(* RFC 7959 2.2: the Block value is the uint NUM * 16 + M * 8 + SZX *)
Definition rfc_block (num : Z) (m : bool) (szx : Z) : Z := num * 16 + (if m then 8 else 0) + szx.

(* the bytes of a typed option value *)
Definition rfc_value (v : optval) : bytes :=
  match v with
  | VOpaque b => b
  | VString s => match utf8_encode s with Ok b => b | Raise _ => [] end
  | VUint n => rfc_uint n
  | VBlock num m szx => rfc_uint (rfc_block num m szx)
  | VContentFormat n => rfc_uint n
  end.

(* ------------------------------------------------------------------ option tables of the RFCs *)
(* format per option number; "empty" is a zero-length opaque.  The last two rows are not from an RFC: they are the
   library's experimental numbers (draft-amsuess-core-cachable-oscore, draft-ietf-core-uri-path-abbrev). *)
Inductive rfc_fmt := Rempty | Ropaque | Ruint | Rstring | Rblock | Rcontentformat.
Definition rfc_table : list (Z * rfc_fmt) :=
  [ (1, Ropaque)   (* If-Match       7252 *);  (3, Rstring)   (* Uri-Host       7252 *);
    (4, Ropaque)   (* ETag           7252 *);  (5, Rempty)    (* If-None-Match  7252 *);
    (6, Ruint)     (* Observe        7641 *);  (7, Ruint)     (* Uri-Port       7252 *);
    (8, Rstring)   (* Location-Path  7252 *);  (9, Ropaque)   (* OSCORE         8613 *);
    (11, Rstring)  (* Uri-Path       7252 *);  (12, Rcontentformat) (* Content-Format 7252: uint naming a content format *);
    (14, Ruint)    (* Max-Age        7252 *);  (15, Rstring)  (* Uri-Query      7252 *);
    (16, Ruint)    (* Hop-Limit      8768 *);  (17, Rcontentformat) (* Accept   7252 *);
    (20, Rstring)  (* Location-Query 7252 *);  (21, Rempty)   (* EDHOC          9668 *);
    (23, Rblock)   (* Block2         7959 *);  (27, Rblock)   (* Block1         7959 *);
    (28, Ruint)    (* Size2          7959 *);  (35, Rstring)  (* Proxy-Uri      7252 *);
    (39, Rstring)  (* Proxy-Scheme   7252 *);  (60, Ruint)    (* Size1          7252 *);
    (252, Ropaque) (* Echo           9175 *);  (258, Ruint)   (* No-Response    7967 *);
    (292, Ropaque) (* Request-Tag    9175 *);
    (* RFC 9177 (Q-Block1 19, Q-Block2 31) is not implemented by the library: these numbers are unknown options *)
    (548, Ropaque) (* library: Request-Hash *); (13, Ruint)   (* library: Uri-Path-Abbrev *) ].
(* an unknown option's value is uninterpreted: opaque *)
Definition rfc_format_of (number : Z) : rfc_fmt :=
  match find (fun p => fst p =? number) rfc_table with Some (_, f) => f | None => Ropaque end.
(* which option class of the library stands for which format *)
Definition class_of (f : rfc_fmt) : fmt :=
  match f with
  | Rempty | Ropaque => OpaqueOption | Ruint => UintOption | Rstring => StringOption
  | Rblock => BlockOption | Rcontentformat => ContentFormatOption
  end.

(* the typed reading of the value bytes of option [number]; None when a string is not UTF-8 *)
Definition rfc_interp (number : Z) (value : bytes) : option optval :=
  match rfc_format_of number with
  | Rempty | Ropaque => Some (VOpaque value)
  | Ruint => Some (VUint (rfc_uint_value value))
  | Rcontentformat => Some (VContentFormat (rfc_uint_value value))
  | Rblock => let n := rfc_uint_value value in Some (VBlock (n / 16) ((n / 8) mod 2 =? 1) (n mod 8))
  | Rstring => match utf8_decode value with Ok s => Some (VString s) | Raise _ => None end
  end.
Fixpoint rfc_interp_options (l : list (Z * bytes)) : option (list option_) :=
  match l with
  | [] => Some []
  | (n, v) :: r =>
    match rfc_interp n v, rfc_interp_options r with
    | Some x, Some xs => Some ((n, x) :: xs)
    | _, _ => None
    end
  end.

(* a value the sender may put into an option of class f *)
Definition legal (f : fmt) (v : optval) : bool :=
  match f, v with
  | OpaqueOption, VOpaque b => bytes_ok b
  | StringOption, VString s => forallb scalar s
  | UintOption, VUint n => 0 <=? n
  | ContentFormatOption, VContentFormat n => 0 <=? n
  | BlockOption, VBlock num _ szx => (0 <=? num) && (0 <=? szx) && (szx <? 8)
  | _, _ => false
  end.

(* a value that is legal for SOME option class (an application may put any option object under any number) *)
Definition legal_any (v : optval) : bool :=
  existsb (fun f => legal f v) [OpaqueOption; StringOption; UintOption; BlockOption; ContentFormatOption].

(* ------------------------------------------------------------------ the encoder of the specification *)
(* options must appear in order of their numbers; [sorted_options] is the well-formedness of an option list
   (numbers non-decreasing from prev, every delta and every value length expressible up to [maxv],
   every value legal for the format of its number) *)
Fixpoint options_ok (maxv : Z) (prev : Z) (l : list option_) : bool :=
  match l with
  | [] => true
  | (n, v) :: r =>
    (0 <=? n - prev) && (n - prev <=? maxv) && legal (class_of (rfc_format_of n)) v
    && (blen (rfc_value v) <=? maxv) && options_ok maxv n r
  end.
(* the same with "legal for some class" instead of "legal for the class registered for the number" *)
Fixpoint options_ok_any (maxv : Z) (prev : Z) (l : list option_) : bool :=
  match l with
  | [] => true
  | (n, v) :: r =>
    (0 <=? n - prev) && (n - prev <=? maxv) && legal_any v && (blen (rfc_value v) <=? maxv) && options_ok_any maxv n r
  end.
Definition rfc_encode (m : msg) : bytes :=
  rfc_message (m_type m) (m_code m) (m_mid m) (m_token m)
              (map (fun o => (fst o, rfc_value (snd o))) (m_opt m)) (m_payload m).
(* header ranges of a message; [tkl_max] is 8 in RFC 7252 *)
Definition header_ok (tkl_max : Z) (m : msg) : bool :=
  (0 <=? m_type m) && (m_type m <? 4) && (0 <=? m_code m) && (m_code m <? 256)
  && (0 <=? m_mid m) && (m_mid m <? 65536) && (blen (m_token m) <=? tkl_max) && bytes_ok (m_token m)
  && bytes_ok (m_payload m).

(* ------------------------------------------------------------------ well-formed datagrams, as a parse relation *)
(* what section 3 lets a receiver read out of a datagram: fields with uninterpreted option values *)
Record rmsg := { r_type : Z; r_code : Z; r_mid : Z; r_token : bytes; r_options : list (Z * bytes); r_payload : bytes }.

(* ExtField nib ext v: the 4-bit field nib followed by the extension bytes ext denotes v *)
Inductive ExtField : Z -> bytes -> Z -> Prop :=
| Ext_literal n : 0 <= n <= 12 -> ExtField n [] n
| Ext_13 b : 0 <= b < 256 -> ExtField 13 [b] (b + 13)
| Ext_14 b1 b0 : 0 <= b1 < 256 -> 0 <= b0 < 256 -> ExtField 14 [b1; b0] (b1 * 256 + b0 + 269).

(* OptionsWF prev bs opts payload: bs is a sequence of options (numbers counted from prev) followed by
   nothing, or by the payload marker and a payload of at least one byte *)
Inductive OptionsWF : Z -> bytes -> list (Z * bytes) -> bytes -> Prop :=
| OWF_end prev : OptionsWF prev [] [] []
| OWF_payload prev p : p <> [] -> OptionsWF prev (255 :: p) [] p
| OWF_option prev dn ln de le d l v rest opts p :
    ExtField dn de d -> ExtField ln le l -> blen v = l ->
    OptionsWF (prev + d) rest opts p ->
    OptionsWF prev ((dn * 16 + ln) :: de ++ le ++ v ++ rest) ((prev + d, v) :: opts) p.

Inductive WellFormed : bytes -> rmsg -> Prop :=
| WF_datagram t tkl c m1 m0 tok rest opts p :
    0 <= t < 4 -> 0 <= tkl <= 8 -> 0 <= c < 256 -> 0 <= m1 < 256 -> 0 <= m0 < 256 ->
    blen tok = tkl -> OptionsWF 0 rest opts p ->
    WellFormed ((64 + t * 16 + tkl) :: c :: m1 :: m0 :: tok ++ rest)
               {| r_type := t; r_code := c; r_mid := m1 * 256 + m0; r_token := tok; r_options := opts; r_payload := p |}.

(* ------------------------------------------------------------------ the same reading as an executable parser *)
(* (proved equivalent to WellFormed in Proofs/C01Parse.v; compared with the oracle's Python parser on the decode streams) *)
Definition parse_ext (nib : Z) (bs : bytes) : option (Z * bytes) :=
  if (0 <=? nib) && (nib <=? 12) then Some (nib, bs)
  else if nib =? 13 then match bs with b :: r => Some (b + 13, r) | _ => None end
  else if nib =? 14 then match bs with b1 :: b0 :: r => Some (b1 * 256 + b0 + 269, r) | _ => None end
  else None.
Fixpoint rfc_parse_options (fuel : nat) (prev : Z) (bs : bytes) : option (list (Z * bytes) * bytes) :=
  match fuel with
  | O => None
  | S k =>
    match bs with
    | [] => Some ([], [])
    | h :: r =>
      if h =? 255 then match r with [] => None | _ => Some ([], r) end
      else
        match parse_ext (h / 16) r with
        | None => None
        | Some (d, r1) =>
          match parse_ext (h mod 16) r1 with
          | None => None
          | Some (l, r2) =>
            if blen r2 <? l then None
            else match rfc_parse_options k (prev + d) (skipn (Z.to_nat l) r2) with
                 | None => None
                 | Some (opts, p) => Some ((prev + d, firstn (Z.to_nat l) r2) :: opts, p)
                 end
          end
        end
    end
  end.
Definition rfc_parse (bs : bytes) : option rmsg :=
  match bs with
  | b0 :: c :: m1 :: m0 :: r =>
    let tkl := b0 mod 16 in
    if (b0 / 64 =? 1) && (tkl <=? 8) && (tkl <=? blen r) then
      match rfc_parse_options (S (length r)) 0 (skipn (Z.to_nat tkl) r) with
      | Some (opts, p) =>
        Some {| r_type := (b0 / 16) mod 4; r_code := c; r_mid := m1 * 256 + m0; r_token := firstn (Z.to_nat tkl) r;
                r_options := opts; r_payload := p |}
      | None => None
      end
    else None
  | _ => None
  end.
