(* C20 — resource directory (aiocoap/cli/rd.py). Executable model of CommonRD, Registration,
   DirectoryResource, RegistrationDispatchSite/RegistrationResource, EndpointLookupInterface,
   ResourceLookupInterface, with the asyncio lifetime timers on an integer-microsecond clock
   (harness/simloop.py). Hand-written, tied to the code by the correspondence run (tie C).
   Function names mirror the Python methods; rd.py line numbers in comments.
   String helpers (int(), str.split(), urljoin on a restricted grammar) are in Model/C20Str.v.
   No proofs in this file. *)
From Coq Require Import String Ascii.
From Verif Require Import Lib.Py Model.C20Str.
Open Scope string_scope.
Open Scope list_scope.
Open Scope Z_scope.

(* ------------------------------------------------------------------ insertion-ordered dict *)
Section Dict.
  Context {K V : Type} (eqb : K -> K -> bool).
  Fixpoint dget (d : list (K * V)) (k : K) : option V :=
    match d with [] => None | (k', v) :: r => if eqb k' k then Some v else dget r k end.
  Definition dmem (d : list (K * V)) (k : K) : bool := match dget d k with Some _ => true | None => false end.
  (* d[k] = v : replace in place, or append *)
  Fixpoint dset (d : list (K * V)) (k : K) (v : V) : list (K * V) :=
    match d with [] => [(k, v)] | (k', v') :: r => if eqb k' k then (k', v) :: r else (k', v') :: dset r k v end.
  (* del d[k] (callers check membership first) *)
  Fixpoint ddel (d : list (K * V)) (k : K) : list (K * V) :=
    match d with [] => [] | (k', v') :: r => if eqb k' k then r else (k', v') :: ddel r k end.
End Dict.

(* ------------------------------------------------------------------ data *)
Definition key := (string * ostr)%type.                    (* (ep, d) *)
Definition key_eqb (a b : key) : bool := String.eqb (fst a) (fst b) && ostr_eqb (snd a) (snd b).
Definition query := list (string * list ostr).             (* output of query_split *)
Record link := { l_href : string; l_attrs : list (string * ostr) }.

(* a Registration object (rd.py:114-283). [r_path] = i stands for path ("reg", str(i), "");
   [r_timer] = Some (due_us, creation_seq) while the longwait task sleeps *)
Record reg := { r_key : key; r_path : Z; r_lt : Z; r_base : string; r_base_explicit : bool;
                r_params : query; r_links : list link; r_timer : option (Z * Z) }.
Definition dummy_reg : reg :=
  {| r_key := (EmptyString, None); r_path := 0; r_lt := 0; r_base := EmptyString; r_base_explicit := false;
     r_params := []; r_links := []; r_timer := None |}.

(* CommonRD (rd.py:96-112): heap of Registration objects by identity, the two indexes, the
   virtual clock, allocation counters, and the number of exceptions that reached the loop *)
Record rd := { objs : list (Z * reg); by_key : list (key * Z); by_path : list (Z * Z);
               now : Z; next_id : Z; next_seq : Z; loop_exceptions : Z }.
Definition empty_rd : rd :=
  {| objs := []; by_key := []; by_path := []; now := 0; next_id := 0; next_seq := 0; loop_exceptions := 0 |}.

Definition obj (st : rd) (id : Z) : reg := match dget Z.eqb (objs st) id with Some r => r | None => dummy_reg end.
Definition set_obj (st : rd) (id : Z) (r : reg) : rd :=
  {| objs := dset Z.eqb (objs st) id r; by_key := by_key st; by_path := by_path st; now := now st;
     next_id := next_id st; next_seq := next_seq st; loop_exceptions := loop_exceptions st |}.
Definition with_by_key (st : rd) (bk : list (key * Z)) : rd :=
  {| objs := objs st; by_key := bk; by_path := by_path st; now := now st;
     next_id := next_id st; next_seq := next_seq st; loop_exceptions := loop_exceptions st |}.
Definition with_by_path (st : rd) (bp : list (Z * Z)) : rd :=
  {| objs := objs st; by_key := by_key st; by_path := bp; now := now st;
     next_id := next_id st; next_seq := next_seq st; loop_exceptions := loop_exceptions st |}.
Definition with_now (st : rd) (t : Z) : rd :=
  {| objs := objs st; by_key := by_key st; by_path := by_path st; now := t;
     next_id := next_id st; next_seq := next_seq st; loop_exceptions := loop_exceptions st |}.
Definition bump_exceptions (st : rd) : rd :=
  {| objs := objs st; by_key := by_key st; by_path := by_path st; now := now st;
     next_id := next_id st; next_seq := next_seq st; loop_exceptions := loop_exceptions st + 1 |}.

Definition set_lt (r : reg) (n : Z) : reg :=
  {| r_key := r_key r; r_path := r_path r; r_lt := n; r_base := r_base r; r_base_explicit := r_base_explicit r;
     r_params := r_params r; r_links := r_links r; r_timer := r_timer r |}.
Definition set_base (r : reg) (b : string) (e : bool) : reg :=
  {| r_key := r_key r; r_path := r_path r; r_lt := r_lt r; r_base := b; r_base_explicit := e;
     r_params := r_params r; r_links := r_links r; r_timer := r_timer r |}.
Definition set_params (r : reg) (p : query) : reg :=
  {| r_key := r_key r; r_path := r_path r; r_lt := r_lt r; r_base := r_base r; r_base_explicit := r_base_explicit r;
     r_params := p; r_links := r_links r; r_timer := r_timer r |}.
Definition set_links (r : reg) (l : list link) : reg :=
  {| r_key := r_key r; r_path := r_path r; r_lt := r_lt r; r_base := r_base r; r_base_explicit := r_base_explicit r;
     r_params := r_params r; r_links := l; r_timer := r_timer r |}.
Definition set_timer (r : reg) (t : option (Z * Z)) : reg :=
  {| r_key := r_key r; r_path := r_path r; r_lt := r_lt r; r_base := r_base r; r_base_explicit := r_base_explicit r;
     r_params := r_params r; r_links := r_links r; r_timer := t |}.

(* exceptions not in Lib.Py's list *)
Definition UnboundLocalError := OtherError 1.
Definition UnsupportedMediaType := OtherError 415.
Definition NotAcceptableError := OtherError 406.

(* ------------------------------------------------------------------ requests *)
(* payload: the links the client serialised (the harness writes them as link-format text), or bytes
   that are not link-format / not UTF-8; [PLinks []] is the empty payload *)
Inductive payload := PLinks (ls : list link) | PMalformed.
Record body := { b_cf : option Z; b_payload : payload }.
Inductive op :=
| Register (remote_uri : ostr) (q : list string) (b : body)                       (* POST to the directory resource *)
| UpdatePost (path : list string) (remote_uri : ostr) (q : list string) (b : body) (* POST to a registration resource *)
| UpdatePut (path : list string) (remote_uri : ostr) (q : list string) (b : body)
| Delete (path : list string)
| GetReg (path : list string) (accept : option Z)
| LookupEp (q : list string) (accept : option Z)
| LookupRes (q : list string) (accept : option Z)
| Advance (dt : Z).                                                               (* virtual time passes (microseconds) *)
Inductive resp :=
| Created (loc : Z)            (* 2.01, Location-Path reg/<loc>/ *)
| Changed | Deleted
| Content (text : string)      (* 2.05 with link-format payload *)
| NotAcceptable                (* 4.06 response message from link_format_to_message *)
| Err (e : exn)                (* raised out of render: BadRequest 4.00, NotFound 4.04, UnsupportedMediaType 4.15; anything else -> 5.00 *)
| Tick.

(* answered with a 4.xx code *)
Definition is_4xx (r : resp) : bool :=
  match r with
  | NotAcceptable => true
  | Err BadRequest => true | Err NotFound => true | Err (OtherError 415) => true
  | _ => false
  end.

(* ------------------------------------------------------------------ query handling *)
(* query_split rd.py:61-81: result.setdefault(k, []).append(v) *)
Definition query_add (q : query) (k : string) (v : ostr) : query :=
  match dget String.eqb q k with
  | Some vs => dset String.eqb q k (vs ++ [v])
  | None => q ++ [(k, [v])]
  end.
Definition query_split (qs : list string) : query :=
  fold_left (fun acc s => let '(k, v) := split_eq s in query_add acc k v) qs [].

(* pop_single_arg rd.py:84-93 *)
Definition pop_single_arg (q : query) (name : string) : M (query * ostr) :=
  match dget String.eqb q name with
  | None => Ok (q, None)
  | Some vs => if (1 <? blen vs) then Raise BadRequest else Ok (ddel String.eqb q name, hd None vs)
  end.

Definition in_strs (s : string) (l : list string) : bool := existsb (String.eqb s) l.
Definition olist_eqb (a b : list ostr) : bool := list_eqb ostr_eqb a b.

(* dict.update *)
Definition dict_update (d : query) (u : query) : query := fold_left (fun acc kv => dset String.eqb acc (fst kv) (snd kv)) u d.

(* ------------------------------------------------------------------ Registration *)
Inductive up_result := UpOk (r : reg) | UpFail (r : reg) (e : exn).   (* UpFail carries the effects that happened before the raise *)

Definition GRACE_PERIOD := 15.
(* _set_timeout rd.py:242-253: asyncio.sleep(lt + grace) in a new task; a non-positive delay completes in the same drain *)
Definition _set_timeout (r : reg) (now seq : Z) : reg := set_timer r (Some (now + (r_lt r + GRACE_PERIOD) * 1000000, seq)).

(* update_params rd.py:154-235, check by check; proxy_host is always None (no proxy domain configured) *)
Definition update_params (r : reg) (remote_uri : ostr) (params : query) (is_initial : bool) (now seq : Z) : up_result :=
  if existsb (fun kv => in_strs (fst kv) ["ep"; "d"]%string) params then UpFail r BadRequest                                   (* :163 *)
  else if existsb (fun kv => in_strs (fst kv) ["page"; "count"; "rt"; "href"; "anchor"]%string) params then UpFail r BadRequest  (* :168 *)
  else
  let need_net := (is_initial || negb (r_base_explicit r)) && negb (dmem String.eqb params "base") in                         (* :174 *)
  match (if need_net then match remote_uri with Some u => Ok (Some u) | None => Raise BadRequest end else Ok None) with        (* :179-183; None = local not bound *)
  | Raise e => UpFail r e
  | Ok network_base =>
    match (if dmem String.eqb params "lt"                                                                                       (* :198-202 *)
           then '(p1, v) <- pop_single_arg params "lt" ;;
                match v with
                | None => Raise BadRequest                                 (* int(None): TypeError, caught since f8ef49b *)
                | Some s => match parse_int s with Some n => Ok (p1, Some n) | None => Raise BadRequest end
                end
           else Ok (params, None)) with
    | Raise e => UpFail r e
    | Ok (p1, new_lt) =>
      match (if dmem String.eqb p1 "base"                                                                                       (* :204-207 *)
             then '(p2, b) <- pop_single_arg p1 "base" ;;
                  match b with None => Raise BadRequest (* "base needs a value" *) | Some _ => Ok (p2, b) end
             else Ok (p1, None)) with
      | Raise e => UpFail r e
      | Ok (p2, new_base) =>
        let r1 := match new_lt with Some n => if negb (r_lt r =? n) then set_lt r n else r | None => r end in                    (* :207 *)
        let r2 := match new_base with                                                                                            (* :210 *)
                  | Some b => set_base r1 (if is_initial || negb (String.eqb (r_base r1) b) then b else r_base r1) true   (* explicit even when equal *)
                  | None => r1 end in
        match (if negb (r_base_explicit r2)                                                                                      (* :215 *)
               then match network_base with
                    | None => Raise UnboundLocalError
                    | Some nb => if is_initial || negb (String.eqb (r_base r2) nb) then Ok (set_base r2 nb false) else Ok r2
                    end
               else Ok r2) with
        | Raise e => UpFail r2 e
        | Ok r3 =>
          let r4 := if existsb (fun kv => negb (match dget String.eqb (r_params r3) (fst kv) with
                                               | Some v => olist_eqb (snd kv) v | None => false end)) p2                         (* :219 *)
                    then set_params r3 (dict_update (r_params r3) p2) else r3 in
          UpOk (_set_timeout r4 now seq)                                                                                         (* :226-229: (re)start the lifetime *)
        end
      end
    end
  end.

(* Registration.__init__ rd.py:126-152 *)
Definition Registration_init (static : query) (k : key) (path : Z) (remote_uri : ostr) (params : query) (now seq : Z) : up_result :=
  update_params {| r_key := k; r_path := path; r_lt := 90000; r_base := EmptyString; r_base_explicit := false;
                   r_params := static; r_links := []; r_timer := None |} remote_uri params true now seq.

(* Registration.delete rd.py:237-240 with the delete closure of initialize_endpoint rd.py:382-385.
   The boolean tells that a [del] raised KeyError. *)
Definition reg_delete (st : rd) (id : Z) : rd * bool :=
  let r := obj st id in
  let st1 := set_obj st id (set_timer r None) in                               (* self.timeout.cancel() *)
  if negb (dmem Z.eqb (by_path st1) (r_path r)) then (st1, true)               (* del self._by_path[path] *)
  else let st2 := with_by_path st1 (ddel Z.eqb (by_path st1) (r_path r)) in
       if negb (dmem key_eqb (by_key st2) (r_key r)) then (st2, true)          (* del self._by_key[key] *)
       else (with_by_key st2 (ddel key_eqb (by_key st2) (r_key r)), false).

(* ------------------------------------------------------------------ CommonRD *)
(* _new_pathtail rd.py:300-308: the least i >= 1 with (str(i), "") not in _by_path *)
Fixpoint new_pathtail_from (fuel : nat) (bp : list (Z * Z)) (i : Z) : Z :=
  match fuel with
  | O => i
  | S f => if dmem Z.eqb bp i then new_pathtail_from f bp (i + 1) else i
  end.
Definition _new_pathtail (st : rd) : Z := new_pathtail_from (S (length (by_path st))) (by_path st) 1.

Definition IMMUTABLE_PARAMETERS := ["ep"; "d"; "proxy"]%string.

(* the parameter handling of initialize_endpoint (rd.py:314-342) as a function of the query alone:
   key, static (immutable) parameters, remaining parameters *)
Definition registration_request (q : query) : M (key * query * query) :=
  let static := filter (fun kv => in_strs (fst kv) IMMUTABLE_PARAMETERS) q in
  '(q1, ep) <- pop_single_arg q "ep" ;;
  match ep with None => Raise BadRequest | Some ep =>
  '(q2, d) <- pop_single_arg q1 "d" ;;
  '(q3, proxy) <- pop_single_arg q2 "proxy" ;;
  if match proxy with Some p => negb (in_strs p ["on"; "yes"; "ondemand"]%string) | None => false end then Raise BadRequest
  else if dmem String.eqb static "proxy" then Raise BadRequest
  else Ok ((ep, d), ddel String.eqb static "proxy", q3)
  end.

(* initialize_endpoint rd.py:310-412 (proxy_domain = None) *)
Definition initialize_endpoint (st : rd) (remote_uri : ostr) (q : query) : rd * M Z :=
  let static := filter (fun kv => in_strs (fst kv) IMMUTABLE_PARAMETERS) q in
  match pop_single_arg q "ep" with Raise e => (st, Raise e) | Ok (q1, ep) =>
  match ep with None => (st, Raise BadRequest) | Some ep =>                                       (* :321 *)
  match pop_single_arg q1 "d" with Raise e => (st, Raise e) | Ok (q2, d) =>
  match pop_single_arg q2 "proxy" with Raise e => (st, Raise e) | Ok (q3, proxy) =>
  if match proxy with Some p => negb (in_strs p ["on"; "yes"; "ondemand"]%string) | None => false end
  then (st, Raise BadRequest)                                                                     (* :327 *)
  else
  let k : key := (ep, d) in
  if dmem String.eqb static "proxy" then (st, Raise BadRequest)                                   (* :338-342 Proxying not enabled *)
  else
  let static := ddel String.eqb static "proxy" in
  let oldreg := dget key_eqb (by_key st) k in                                                     (* :368 *)
  let path := match oldreg with None => _new_pathtail st | Some oid => r_path (obj st oid) end in
  match Registration_init static k path remote_uri q3 (now st) (next_seq st) with                 (* :390 *)
  | UpFail _ e => (st, Raise e)
  | UpOk r =>
    let id := next_id st in
    let st1 := {| objs := objs st ++ [(id, r)]; by_key := by_key st; by_path := by_path st; now := now st;
                  next_id := id + 1; next_seq := next_seq st + 1; loop_exceptions := loop_exceptions st |} in
    let '(st2, raised) := match oldreg with Some oid => reg_delete st1 oid | None => (st1, false) end in   (* :404 *)
    if raised then (st2, Raise KeyError)
    else (with_by_path (with_by_key st2 (dset key_eqb (by_key st2) k id)) (dset Z.eqb (by_path st2) path id), Ok id)  (* :409-410 *)
  end end end end end.

(* get_endpoints rd.py:414 *)
Definition get_endpoints (st : rd) : list reg := map (fun kv => obj st (snd kv)) (by_key st).

(* ------------------------------------------------------------------ link-format in and out *)
(* link_format_from_message rd.py:418-432 *)
Definition link_format_from_message (b : body) : M (list link) :=
  match b_cf b with
  | Some 40 => match b_payload b with PLinks ls => Ok ls | PMalformed => Raise BadRequest end
  | _ => Raise UnsupportedMediaType
  end.
Definition payload_nonempty (b : body) : bool := match b_payload b with PLinks [] => false | _ => true end.

(* Link.__str__ / LinkFormat.__str__ util/linkformat.py:25-47 *)
Definition str_pair (kv : string * ostr) : string :=
  match snd kv with
  | None => fst kv
  | Some v => fst kv +++ "=""" +++ escape_quotes v +++ """"
  end.
Definition str_link (l : link) : string := join ";" (("<" +++ l_href l +++ ">") :: map str_pair (l_attrs l)).
Definition str_links (ls : list link) : string := join "," (map str_link ls).

(* link_format_to_message resource.py:190-212 *)
Definition link_format_to_message (accept : option Z) (ls : list link) : resp :=
  match accept with
  | None | Some 40 => Content (str_links ls)
  | _ => NotAcceptable
  end.

(* Registration.href / get_host_link / get_based_links rd.py:122-124, 259-283 *)
Definition href (r : reg) : string := "/reg/" +++ str_of_Z (r_path r) +++ "/".
Definition get_host_link (r : reg) : link :=
  {| l_href := href r;
     l_attrs := flat_map (fun kv => map (fun v => (fst kv, v)) (snd kv)) (r_params r)
                ++ [("base"%string, Some (r_base r)); ("rt"%string, Some "core.rd-ep"%string)] |}.
Definition first_anchor (l : link) : option ostr :=
  match filter (fun kv => String.eqb (fst kv) "anchor") (l_attrs l) with [] => None | kv :: _ => Some (snd kv) end.
Definition get_based_links (r : reg) : list link :=
  map (fun l =>
         let h := urljoin (r_base r) (l_href l) in
         match first_anchor l with
         | Some a =>
             let absanchor := urljoin (r_base r) (match a with Some s => s | None => EmptyString end) in
             {| l_href := h; l_attrs := filter (fun kv => negb (String.eqb (fst kv) "anchor")) (l_attrs l)
                                        ++ [("anchor"%string, Some absanchor)] |}
         | None => {| l_href := h; l_attrs := l_attrs l ++ [("anchor"%string, Some (urljoin h "/"))] |}
         end) (r_links r).

(* ------------------------------------------------------------------ lookups rd.py:525-669 *)
Inductive matcher := MPrefix (start : string) | MEq (v : ostr).
Definition make_matcher (search_value : ostr) : matcher :=
  match search_value with
  | Some s => if ends_with_star s then MPrefix (drop_last s) else MEq (Some s)
  | None => MEq None
  end.
(* the matchers never raise (since 5a5d1e7: `x is not None and ...`), so they are plain boolean functions *)
Definition base_match (m : matcher) (x : ostr) : bool :=
  match m with
  | MPrefix s => match x with None => false | Some xs => String.prefix s xs end
  | MEq v => ostr_eqb x v
  end.
(* [snd m] : the matcher was defined while search_key was "if" or "rt" (any whitespace-separated token may match) *)
Definition matches (m : matcher * bool) (x : ostr) : bool :=
  if snd m then match x with None => false | Some xs => existsb (fun v => base_match (fst m) (Some v)) (split_ws xs) end
  else base_match (fst m) x.
Definition _link_matches (l : link) (k : string) (m : matcher * bool) : bool :=
  existsb (fun kv => String.eqb (fst kv) k && matches m (snd kv)) (l_attrs l).
Definition params_match (r : reg) (k : string) (m : matcher * bool) : bool :=
  match dget String.eqb (r_params r) k with Some vs => existsb (matches m) vs | None => false end.

(* One filter per (key, value) with key not in (page, count), in query order; since 212d645 each `keep` function binds its own
   search_key and matches, so the chain of filter() objects keeps a candidate iff every criterion holds. *)
Definition is_paging (k : string) : bool := in_strs k ["page"; "count"]%string.
Record crit := { c_key : string; c_m : matcher * bool; c_href : bool }.
Definition criteria_of (q : query) : list crit :=
  flat_map (fun kv => if is_paging (fst kv) then []
                      else map (fun v => {| c_key := fst kv; c_m := (make_matcher v, in_strs (fst kv) ["if"; "rt"]%string);
                                            c_href := String.eqb (fst kv) "href" |}) (snd kv)) q.

(* Python slicing l[i:], l[:j] *)
Definition py_from {A} (l : list A) (i : Z) : list A := if i <? 0 then skipn (Z.to_nat (Z.max 0 (blen l + i))) l else skipn (Z.to_nat i) l.
Definition py_to {A} (l : list A) (j : Z) : list A := if j <? 0 then firstn (Z.to_nat (Z.max 0 (blen l + j))) l else firstn (Z.to_nat j) l.
Definition py_int (v : ostr) : M Z :=
  match v with None => Raise TypeError | Some s => match parse_int s with Some n => Ok n | None => Raise ValueError end end.
(* _paginate rd.py:525-538 *)
Definition _paginate {A} (l : list A) (q : query) : M (list A) :=
  '(q1, page) <- pop_single_arg q "page" ;;
  '(_, count) <- pop_single_arg q1 "count" ;;
  let convert (m : M (list A)) : M (list A) := match m with Raise ValueError => Raise BadRequest | Raise KeyError => Raise BadRequest | Raise TypeError => Raise BadRequest | x => x end in
  convert (
    l1 <- match page with
          | Some _ => p <- py_int page ;; c <- py_int count ;; Ok (py_from l (p * c))
          | None => Ok l end ;;
    match count with
    | Some _ => c <- py_int count ;; Ok (py_to l1 c)
    | None => Ok l1 end).

(* EndpointLookupInterface.render_get rd.py:549-605 *)
Definition ep_keep (c : crit) (r : reg) : bool :=
  if c_href c then matches (c_m c) (Some (href r)) || existsb (fun l => matches (c_m c) (Some (l_href l))) (get_based_links r)
  else params_match r (c_key c) (c_m c) || existsb (fun l => _link_matches l (c_key c) (c_m c)) (get_based_links r).
Definition ep_lookup_regs (regs : list reg) (qs : list string) (accept : option Z) : resp :=
  let q := query_split qs in
  match _paginate (filter (fun r => forallb (fun c => ep_keep c r) (criteria_of q)) regs) q with
  | Raise e => Err e
  | Ok l => link_format_to_message accept (map get_host_link l)
  end.
Definition ep_lookup (st : rd) (qs : list string) (accept : option Z) : resp := ep_lookup_regs (get_endpoints st) qs accept.

(* ResourceLookupInterface.render_get rd.py:612-679 *)
Definition res_keep (c : crit) (ec : reg * link) : bool :=
  let '(e, l) := ec in
  if c_href c then matches (c_m c) (Some (l_href l)) || matches (c_m c) (Some (href e))
  else _link_matches l (c_key c) (c_m c) || params_match e (c_key c) (c_m c).
Definition last_anchor (l : link) : ostr :=
  match rev (filter (fun kv => String.eqb (fst kv) "anchor") (l_attrs l)) with kv :: _ => snd kv | [] => None end.
Definition strip_anchor (l : link) : link :=
  if ostr_eqb (last_anchor l) (Some (urljoin (l_href l) "/"))
  then {| l_href := l_href l; l_attrs := filter (fun kv => negb (String.eqb (fst kv) "anchor")) (l_attrs l) |}
  else l.
Definition res_pairs (regs : list reg) : list (reg * link) := flat_map (fun e => map (fun c => (e, c)) (get_based_links e)) regs.
Definition res_lookup_regs (regs : list reg) (qs : list string) (accept : option Z) : resp :=
  let q := query_split qs in
  match _paginate (map snd (filter (fun ec => forallb (fun c => res_keep c ec) (criteria_of q)) (res_pairs regs))) q with
  | Raise e => Err e
  | Ok l => link_format_to_message accept (map strip_anchor l)
  end.
Definition res_lookup (st : rd) (qs : list string) (accept : option Z) : resp := res_lookup_regs (get_endpoints st) qs accept.

(* ------------------------------------------------------------------ resources *)
(* DirectoryResource.render_post rd.py:451-468 *)
Definition directory_render_post (st : rd) (remote_uri : ostr) (qs : list string) (b : body) : rd * resp :=
  match link_format_from_message b with
  | Raise e => (st, Err e)
  | Ok links =>
    match initialize_endpoint st remote_uri (query_split qs) with
    | (st1, Raise e) => (st1, Err e)
    | (st1, Ok id) => (set_obj st1 id (set_links (obj st1 id) links), Created (r_path (obj st1 id)))
    end
  end.

(* RegistrationDispatchSite.render rd.py:513-522: _by_path[uri_path], uri_path = (str(i), "") *)
Definition lookup_path (st : rd) (path : list string) : option Z :=
  match path with
  | [s; e] => if String.eqb e EmptyString
              then match find (fun kv => String.eqb (str_of_Z (fst kv)) s) (by_path st) with Some kv => Some (snd kv) | None => None end
              else None
  | _ => None
  end.

(* RegistrationResource._update_params rd.py:485-487 *)
Definition _update_params (st : rd) (id : Z) (remote_uri : ostr) (qs : list string) : rd * option exn :=
  match update_params (obj st id) remote_uri (query_split qs) false (now st) (next_seq st) with
  | UpOk r => ({| objs := dset Z.eqb (objs st) id r; by_key := by_key st; by_path := by_path st; now := now st;
                  next_id := next_id st; next_seq := next_seq st + 1; loop_exceptions := loop_exceptions st |}, None)
  | UpFail r e => (set_obj st id r, Some e)
  end.
(* render_post rd.py:489-496 *)
Definition registration_render_post (st : rd) (id : Z) (remote_uri : ostr) (qs : list string) (b : body) : rd * resp :=
  if (match b_cf b with Some _ => true | None => false end) || payload_nonempty b then (st, Err BadRequest)
  else match _update_params st id remote_uri qs with
       | (st1, Some e) => (st1, Err e)
       | (st1, None) => (st1, Changed)
       end.
(* render_put rd.py:498-505 *)
Definition registration_render_put (st : rd) (id : Z) (remote_uri : ostr) (qs : list string) (b : body) : rd * resp :=
  match link_format_from_message b with
  | Raise e => (st, Err e)
  | Ok links =>
    match _update_params st id remote_uri qs with
    | (st1, Some e) => (st1, Err e)
    | (st1, None) => (set_obj st1 id (set_links (obj st1 id) links), Changed)
    end
  end.
(* render_delete rd.py:507-510 *)
Definition registration_render_delete (st : rd) (id : Z) : rd * resp :=
  let '(st1, raised) := reg_delete st id in (st1, if raised then Err KeyError else Deleted).

(* ------------------------------------------------------------------ time *)
Definition timer_lt (a b : Z * Z * Z) : bool :=
  let '(d1, s1, _) := a in let '(d2, s2, _) := b in (d1 <? d2) || ((d1 =? d2) && (s1 <? s2)).
(* the pending timer with the least (due, creation seq) *)
Definition next_timer (st : rd) : option (Z * Z * Z) :=
  fold_left (fun best kv =>
               match r_timer (snd kv) with
               | None => best
               | Some (due, seq) =>
                   match best with
                   | None => Some (due, seq, fst kv)
                   | Some b => if timer_lt (due, seq, fst kv) b then Some (due, seq, fst kv) else best
                   end
               end) (objs st) None.
(* fire every timer due at or before [target], in order; the task then runs Registration.delete *)
Fixpoint fire_due (fuel : nat) (st : rd) (target : Z) : rd :=
  match fuel with
  | O => st
  | S f =>
    match next_timer st with
    | Some (due, _, id) =>
        if due <=? target then
          let '(st1, raised) := reg_delete (with_now st (Z.max (now st) due)) id in
          fire_due f (if raised then bump_exceptions st1 else st1) target
        else st
    | None => st
    end
  end.
Definition drain (st : rd) : rd := fire_due (length (objs st)) st (now st).
Definition advance (st : rd) (dt : Z) : rd :=
  let target := now st + dt in with_now (fire_due (length (objs st)) st target) target.

(* ------------------------------------------------------------------ one request / one passage of time *)
Definition handle (st : rd) (o : op) : rd * resp :=
  match o with
  | Register remote q b => directory_render_post st remote q b
  | UpdatePost path remote q b =>
      match lookup_path st path with None => (st, Err NotFound) | Some id => registration_render_post st id remote q b end
  | UpdatePut path remote q b =>
      match lookup_path st path with None => (st, Err NotFound) | Some id => registration_render_put st id remote q b end
  | Delete path =>
      match lookup_path st path with None => (st, Err NotFound) | Some id => registration_render_delete st id end
  | GetReg path accept =>
      match lookup_path st path with None => (st, Err NotFound) | Some id => (st, link_format_to_message accept (r_links (obj st id))) end
  | LookupEp q accept => (st, ep_lookup st q accept)
  | LookupRes q accept => (st, res_lookup st q accept)
  | Advance dt => (advance st dt, Tick)
  end.
(* the harness drains the ready queue after every request: a lifetime <= -grace expires at once *)
Definition step (st : rd) (o : op) : rd * resp := let '(st1, r) := handle st o in (drain st1, r).

(* observation made after every step by the correspondence run: both unfiltered lookups, the two indexes
   (key -> path, path -> key), and the pending timers in firing order *)
Definition idx_by_key (st : rd) : list (string * ostr * Z * Z) := map (fun kv => (fst (fst kv), snd (fst kv), r_path (obj st (snd kv)), r_lt (obj st (snd kv)))) (by_key st).
Definition idx_by_path (st : rd) : list (Z * string * ostr) := map (fun kv => (fst kv, fst (r_key (obj st (snd kv))), snd (r_key (obj st (snd kv))))) (by_path st).
Fixpoint timers_sorted (fuel : nat) (st : rd) : list Z :=
  match fuel with
  | O => []
  | S f => match next_timer st with
           | Some (due, _, id) => due :: timers_sorted f (set_obj st id (set_timer (obj st id) None))
           | None => []
           end
  end.
Record observation := { o_resp : resp; o_ep : resp; o_res : resp; o_by_key : list (string * ostr * Z * Z);
                        o_by_path : list (Z * string * ostr); o_timers : list Z; o_now : Z; o_exc : Z }.
Definition observe (st : rd) (r : resp) : observation :=
  {| o_resp := r; o_ep := ep_lookup st [] None; o_res := res_lookup st [] None; o_by_key := idx_by_key st;
     o_by_path := idx_by_path st; o_timers := timers_sorted (length (objs st)) st; o_now := now st; o_exc := loop_exceptions st |}.
Fixpoint run (st : rd) (ops : list op) : list observation :=
  match ops with
  | [] => []
  | o :: rest => let '(st1, r) := step st o in observe st1 r :: run st1 rest
  end.
Fixpoint run_state (st : rd) (ops : list op) : rd :=
  match ops with [] => st | o :: rest => run_state (fst (step st o)) rest end.

(* ------------------------------------------------------------------ change notifications (observers of the lookup resources)
   CommonRD._updated_state (rd.py:296-298) runs every callback registered with register_change_callback — the two lookup
   resources' updated_state, which triggers their observations. It is called through Registration._update_cb from
   update_params when actual_change is set (rd.py:231-232), from Registration.delete (rd.py:239) and from
   RegistrationResource.render_put after it replaced the links (rd.py:509). *)
Definition query_eqb (a b : query) : bool := list_eqb (fun x y => String.eqb (fst x) (fst y) && olist_eqb (snd x) (snd y)) a b.
(* actual_change of a succeeding non-initial update_params: the flag is raised exactly where a differing value is assigned
   (lt rd.py:207-209, base :210-213, network base :215-217, parameters :219-224) *)
Definition reg_changed (r r' : reg) : bool :=
  negb (r_lt r =? r_lt r') || negb (String.eqb (r_base r) (r_base r')) || negb (query_eqb (r_params r) (r_params r')).
(* how often _updated_state runs during [step st o] *)
Definition notify_count (st : rd) (o : op) : Z :=
  let '(st1, r) := handle st o in
  let by_handler :=
    match o with
    | Register _ _ _ =>                        (* the new Registration (is_initial) and, on re-registration, oldreg.delete() *)
        match r with Created _ => if blen (by_key st1) =? blen (by_key st) then 2 else 1 | _ => 0 end
    | UpdatePost path _ _ _ =>
        match r, lookup_path st path with
        | Changed, Some id => if reg_changed (obj st id) (obj st1 id) then 1 else 0
        | _, _ => 0
        end
    | UpdatePut path _ _ _ =>                  (* update_params as for POST, then render_put announces the new links (rd.py:507-509, since 3b8673f) *)
        match r, lookup_path st path with
        | Changed, Some id => (if reg_changed (obj st id) (obj st1 id) then 1 else 0) + 1
        | _, _ => 0
        end
    | Delete _ => match r with Deleted => 1 | _ => 0 end
    | _ => 0
    end in
  (* every lifetime timer that fires runs Registration.delete once *)
  let before := match o with Advance _ => st | _ => st1 end in
  by_handler + (blen (by_key before) - blen (by_key (drain st1))).
Fixpoint run_notified (st : rd) (ops : list op) : list Z :=
  match ops with [] => [] | o :: rest => notify_count st o :: run_notified (fst (step st o)) rest end.
