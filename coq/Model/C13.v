(* C13 — OSCORE sender sequence numbers / replay state of a file-backed security context across
   crashes, clean shutdowns and reloads.  Hand-written executable model (tie C) of
     CanProtect.new_sequence_number                      aiocoap/oscore.py:1203-1213
     FilesystemSecurityContext.__init__ / _load          aiocoap/oscore.py:1847-1971
     FilesystemSecurityContext._store                    aiocoap/oscore.py:1980-2003
     FilesystemSecurityContext._replay_window_changed    aiocoap/oscore.py:2005-2009
     FilesystemSecurityContext.post_seqnoincrease        aiocoap/oscore.py:2011-2025
     FilesystemSecurityContext._destroy                  aiocoap/oscore.py:2027-2047
   The request path of CanUnprotect.unprotect and the replay window are those of C12
   (Model/C12.v, Gen/oscore_replay.v — the latter translated from source on every check).
   The process state and the disk state are separate: a crash discards the process state and
   keeps the disk state.  _store is four file-system effects (mkstemp, write+flush, fsync,
   replace) of which only [replace] changes sequence.json, atomically.
   No proofs in this file. *)
From Verif Require Import Lib.Py Gen.oscore_replay Model.C12.
Open Scope Z_scope.

Definition MAX_SEQNO : Z := 2 ^ 40 - 1.          (* oscore.py:54 *)

(* ------------------------------------------------------------------ disk *)
(* "received" member of sequence.json: "unknown", or ReplayWindow.persist() =
   {"index": i, "bitfield": b} where both are null for a window that was never initialised *)
Inductive received := RUnknown | RWin (w : option (Z * Z)).
Record seqfile := { sf_next : Z; sf_recv : received }.         (* "next-to-send", "received" *)
Record tmp := { tmp_content : option seqfile; tmp_synced : bool }. (* a .sequence-XXXX.json file; None = still empty *)
Record disk := {
  d_seq : option seqfile;      (* sequence.json (None: does not exist) *)
  d_durable : bool;            (* the content of sequence.json had been fsynced before it was renamed into place *)
  d_temps : list tmp;          (* temporary files, newest first (left behind by crashes) *)
  d_lock : bool                (* the "lock" file exists *)
}.

Definition fs_mkstemp (d : disk) : disk :=
  {| d_seq := d_seq d; d_durable := d_durable d; d_temps := {| tmp_content := None; tmp_synced := false |} :: d_temps d; d_lock := d_lock d |}.
Definition fs_write (c : seqfile) (d : disk) : disk :=
  {| d_seq := d_seq d; d_durable := d_durable d; d_temps := {| tmp_content := Some c; tmp_synced := false |} :: tl (d_temps d); d_lock := d_lock d |}.
Definition fs_fsync (d : disk) : disk :=
  match d_temps d with
  | t :: r => {| d_seq := d_seq d; d_durable := d_durable d; d_temps := {| tmp_content := tmp_content t; tmp_synced := true |} :: r; d_lock := d_lock d |}
  | [] => d
  end.
(* os.replace(tmpnam, "sequence.json"): atomic; the temporary name disappears *)
Definition fs_replace (d : disk) : disk :=
  match d_temps d with
  | t :: r => {| d_seq := tmp_content t; d_durable := tmp_synced t; d_temps := r; d_lock := d_lock d |}
  | [] => d
  end.
Definition fs_unlink_lock (d : disk) : disk :=
  {| d_seq := d_seq d; d_durable := d_durable d; d_temps := d_temps d; d_lock := false |}.
Definition fs_create_lock (d : disk) : disk :=
  {| d_seq := d_seq d; d_durable := d_durable d; d_temps := d_temps d; d_lock := true |}.

(* Run file-system effects in order.  [armed = Some k]: the process dies when [k] effects of the
   current operation have been performed (k = 0: on entry to the first one).  Result: disk,
   and whether the process died. *)
Definition apply_effects (effs : list (disk -> disk)) (d : disk) : disk := fold_left (fun d f => f d) effs d.
Definition run_effects (effs : list (disk -> disk)) (armed : option Z) (d : disk) : disk * bool :=
  match armed with
  | None => (apply_effects effs d, false)
  | Some k => if (0 <=? k) && (k <=? Z.of_nat (length effs))
              then (apply_effects (firstn (Z.to_nat k) effs) d, true)
              else (apply_effects effs d, false)
  end.

(* ------------------------------------------------------------------ process *)
Record proc := {
  ssn : Z;                 (* sender_sequence_number *)
  persisted : Z;           (* sequence_number_persisted *)
  chunk : Z;               (* sequence_number_chunksize *)
  limit : Z;               (* sequence_number_chunksize_limit *)
  wpers : bool;            (* replay_window_persisted *)
  uc : ctx;                (* recipient_replay_window (None = not initialised), its size, echo_recovery *)
  pend : option (Z * bool) (* the RequestIdentifiers the last unprotect handed on: request number, can_reuse_nonce *)
}.
Definition set_ssn (p : proc) (v : Z) : proc := {| ssn := v; persisted := persisted p; chunk := chunk p; limit := limit p; wpers := wpers p; uc := uc p; pend := pend p |}.
Definition set_persisted (p : proc) (v : Z) : proc := {| ssn := ssn p; persisted := v; chunk := chunk p; limit := limit p; wpers := wpers p; uc := uc p; pend := pend p |}.
Definition set_chunk (p : proc) (v : Z) : proc := {| ssn := ssn p; persisted := persisted p; chunk := v; limit := limit p; wpers := wpers p; uc := uc p; pend := pend p |}.
Definition set_wpers (p : proc) (v : bool) : proc := {| ssn := ssn p; persisted := persisted p; chunk := chunk p; limit := limit p; wpers := v; uc := uc p; pend := pend p |}.
Definition set_uc (p : proc) (c : ctx) : proc := {| ssn := ssn p; persisted := persisted p; chunk := chunk p; limit := limit p; wpers := wpers p; uc := c; pend := pend p |}.
Definition set_pend (p : proc) (v : option (Z * bool)) : proc := {| ssn := ssn p; persisted := persisted p; chunk := chunk p; limit := limit p; wpers := wpers p; uc := uc p; pend := v |}.

(* ReplayWindow.persist *)
Definition persist (w : option rw) : option (Z * Z) :=
  match w with Some w => Some (rw_index w, rw_bitfield w) | None => None end.
(* the data dict built in _store *)
Definition store_content (p : proc) : seqfile :=
  {| sf_next := persisted p;
     sf_recv := if negb (wpers p) then RUnknown else RWin (persist (window (uc p))) |}.
Definition store_effects (p : proc) : list (disk -> disk) :=
  [fs_mkstemp; fs_write (store_content p); fs_fsync; fs_replace].
Definition _store (p : proc) (d : disk) (armed : option Z) : disk * bool :=
  run_effects (store_effects p) armed d.

(* result of an operation: a value, a Python exception, or the process died inside it *)
Inductive res (A : Type) := Val (a : A) | Exn (e : exn) | Died.
Arguments Val {A} a. Arguments Exn {A} e. Arguments Died {A}.

Definition post_seqnoincrease (p : proc) (d : disk) (armed : option Z) : proc * disk * res unit :=
  if ssn p >? persisted p then
    let p := set_persisted p (persisted p + chunk p) in
    let p := set_chunk p (Z.min (chunk p * 2) (limit p)) in
    let '(d, died) := _store p d armed in
    if died then (p, d, Died)
    else if ssn p <=? persisted p then (p, d, Val tt) else (p, d, Exn AssertionError)
  else (p, d, Val tt).

Definition new_sequence_number (p : proc) (d : disk) (armed : option Z) : proc * disk * res Z :=
  let retval := ssn p in
  if retval >=? MAX_SEQNO then (p, d, Exn ContextUnavailable)
  else
    let p := set_ssn p (ssn p + 1) in
    match post_seqnoincrease p d armed with
    | (p, d, Val _) => (p, d, Val retval)
    | (p, d, Exn e) => (p, d, Exn e)
    | (p, d, Died) => (p, d, Died)
    end.

Definition _replay_window_changed (p : proc) (d : disk) (armed : option Z) : proc * disk * bool :=
  if wpers p then
    let p := set_wpers p false in
    let '(d, died) := _store p d armed in (p, d, died)
  else (p, d, false).

(* CanUnprotect.unprotect for a request.  ReplayWindow.strike_out (and with it the
   strike_out_callback = _replay_window_changed) runs exactly when the window is initialised, the
   number is valid in it and decryption succeeds — which are exactly the cases that end in Accept
   with an initialised window (oscore.py:1384-1385, 1784-1785). *)
Definition strikes (c : ctx) (o : outcome) : bool :=
  match window c, o with Some _, Accept => true | _, _ => false end.
Definition unprotect (p : proc) (d : disk) (armed : option Z) (r : preq) : proc * disk * res outcome :=
  let '(c', o) := unprotect_request (uc p) r in
  let p1 := set_uc p c' in
  if strikes (uc p) o then
    let '(p2, d', died) := _replay_window_changed p1 d armed in
    if died then (p2, d', Died) else (p2, d', Val o)
  else (p1, d, Val o).

(* _destroy: exact state written back, then the lock file is unlinked *)
Definition _destroy (p : proc) (d : disk) (armed : option Z) : disk * bool :=
  let p := set_wpers p true in
  let p := set_persisted p (ssn p) in
  run_effects (store_effects p ++ [fs_unlink_lock]) armed d.

(* ---- the request identifiers unprotect hands on (oscore.py:1300-1305): can_reuse_nonce = "replay_error is None" at the time
   they are built, i.e. the window is initialised and the number valid in it.  They leave unprotect with its return value
   (Accept) or inside ReplayErrorWithEcho (RejectEcho); nothing is handed on with the other errors. *)
Definition can_reuse_nonce (c : ctx) (r : preq) : bool :=
  match window c with
  | Some w => match is_valid w (seqno r) with Ok b => b | Raise _ => false end
  | None => false
  end.
Definition handed_on (o : outcome) : bool := match o with Accept | RejectEcho => true | _ => false end.
Definition pend_of (c : ctx) (r : preq) (o : outcome) : option (Z * bool) :=
  if handed_on o then Some (seqno r, can_reuse_nonce c r) else None.

(* ---- _store raising OSError (ENOSPC, EIO, ...) when [k] of its effects have been performed (k = 0..3; the rename is never
   reached): the process survives; the callers roll back what they had set for the write (`except BaseException: ...; raise`
   in post_seqnoincrease and _replay_window_changed, oscore.py:2010-2034, since /repo 304561f).  The exception monad of the
   translated kernels carries no state after a Raise, so these hand-written variants are where the rollback is modelled. *)
Definition OSError : exn := OtherError 28.
Definition _store_fails (p : proc) (d : disk) (k : Z) : disk :=
  apply_effects (firstn (Z.to_nat (Z.min (Z.max k 0) 3)) (store_effects p)) d.
Definition post_seqnoincrease_fails (p : proc) (d : disk) (k : Z) : proc * disk * res unit :=
  if ssn p >? persisted p then
    let p1 := set_persisted p (persisted p + chunk p) in
    let p1 := set_chunk p1 (Z.min (chunk p1 * 2) (limit p1)) in
    (p, _store_fails p1 d k, Exn OSError)            (* sequence_number_persisted, chunksize := previous; raise *)
  else (p, d, Val tt).
Definition new_sequence_number_fails (p : proc) (d : disk) (k : Z) : proc * disk * res Z :=
  let retval := ssn p in
  if retval >=? MAX_SEQNO then (p, d, Exn ContextUnavailable)
  else
    let p := set_ssn p (ssn p + 1) in
    match post_seqnoincrease_fails p d k with
    | (p, d, Val _) => (p, d, Val retval)
    | (p, d, Exn e) => (p, d, Exn e)
    | (p, d, Died) => (p, d, Died)
    end.
Definition unprotect_fails (p : proc) (d : disk) (k : Z) (r : preq) : proc * disk * res outcome :=
  let '(c', o) := unprotect_request (uc p) r in
  let p1 := set_uc p c' in
  if strikes (uc p) o && wpers p1 then
    (p1, _store_fails (set_wpers p1 false) d k, Exn OSError)   (* replay_window_persisted := True again; raise *)
  else (p1, d, Val o).

(* what _load makes of the "received" member *)
Definition load_window (size : Z) (d : disk) : option rw :=
  match d_seq d with
  | None => Some (initialize_empty size)
  | Some f => match sf_recv f with
              | RUnknown => None
              | RWin None => None
              | RWin (Some (i, b)) => Some {| rw_size := size; rw_index := i; rw_bitfield := b |}
              end
  end.
Definition load_wpers (d : disk) : bool :=
  match d_seq d with
  | None => true
  | Some f => match sf_recv f with RUnknown => false | RWin _ => true end
  end.
Definition dbound (d : disk) : Z := match d_seq d with Some f => sf_next f | None => 0 end.
(* __init__ + _load *)
Definition load (size start lim echo : Z) (d : disk) : proc :=
  {| ssn := dbound d; persisted := dbound d; chunk := start; limit := lim; wpers := load_wpers d;
     uc := {| size := size; window := load_window size d; echo_recovery := Some echo |}; pend := None |}.

(* ------------------------------------------------------------------ histories *)
Inductive event :=
| Protect (crash : option Z)              (* one new_sequence_number (through protect()) *)
| Seq (count : Z) (crash : option Z)      (* [count] calls of new_sequence_number, stopping at the first exception *)
| Unprotect (r : preq) (crash : option Z)
| CleanStop (crash : option Z)            (* _destroy (as __del__ runs it) *)
| Kill                                    (* the process dies between two operations *)
| Reload (start lim echo : Z)             (* FilesystemSecurityContext(basedir, start, lim); echo = this lifetime's echo_recovery *)
| Respond (crash : option Z)              (* protect a response with the identifiers the last unprotect handed on (4.01 of ReplayErrorWithEcho
                                             or an ordinary response); without identifiers: an ordinary protect *)
| ProtectFails (k : Z)                    (* protect() during which _store raises OSError after k effects *)
| UnprotectFails (r : preq) (k : Z).      (* unprotect during which _store (from the strike-out callback) raises OSError after k effects *)

Inductive seqend := SeqDone | SeqExn (e : exn) | SeqDied.
Inductive output :=
| OIssued (n : Z) | OSeq (l : list Z) (e : seqend) | OExn (e : exn) | OUnprot (o : outcome)
| OStopped | ODied | ONoProc | OBusy | OLoaded (next : Z) (initialised : bool)
| OReused (n : Z).                        (* a response encrypted under the nonce of request n (no own Partial IV) *)

Record world := { w_size : Z; w_proc : option proc; w_disk : disk }.
Definition mkw (size : Z) (p : option proc) (d : disk) : world := {| w_size := size; w_proc := p; w_disk := d |}.

Fixpoint seq_loop (n : nat) (p : proc) (d : disk) (armed : option Z) (acc : list Z) : proc * disk * list Z * seqend :=
  match n with
  | O => (p, d, rev acc, SeqDone)
  | S n' =>
      match new_sequence_number p d armed with
      | (p', d', Val v) => seq_loop n' p' d' armed (v :: acc)
      | (p', d', Exn e) => (p', d', rev acc, SeqExn e)
      | (p', d', Died) => (p', d', rev acc, SeqDied)
      end
  end.

Definition step (w : world) (ev : event) : world * output :=
  let sz := w_size w in
  match w_proc w, ev with
  | None, Reload start lim echo =>
      let d := fs_create_lock (w_disk w) in
      let p := load sz start lim echo d in
      (mkw sz (Some p) d, OLoaded (ssn p) (match window (uc p) with Some _ => true | None => false end))
  | None, _ => (w, ONoProc)
  | Some p, Reload _ _ _ => (w, OBusy)                         (* lock file held by the live process *)
  | Some p, Kill => (mkw sz None (w_disk w), ODied)
  | Some p, Protect a =>
      match new_sequence_number p (w_disk w) a with
      | (p', d', Val v) => (mkw sz (Some p') d', OIssued v)
      | (p', d', Exn e) => (mkw sz (Some p') d', OExn e)
      | (p', d', Died) => (mkw sz None d', ODied)
      end
  | Some p, Seq n a =>
      match seq_loop (Z.to_nat n) p (w_disk w) a [] with
      | (p', d', l, SeqDied) => (mkw sz None d', OSeq l SeqDied)
      | (p', d', l, e) => (mkw sz (Some p') d', OSeq l e)
      end
  | Some p, Unprotect r a =>
      match unprotect p (w_disk w) a r with
      | (p', d', Val o) => (mkw sz (Some (set_pend p' (pend_of (uc p) r o))) d', OUnprot o)
      | (p', d', Exn e) => (mkw sz (Some (set_pend p' None)) d', OExn e)
      | (p', d', Died) => (mkw sz None d', ODied)
      end
  | Some p, Respond a =>
      match pend p with
      | Some (n, true) => (mkw sz (Some (set_pend p (Some (n, false)))) (w_disk w), OReused n)   (* get_reusable_kid_and_piv *)
      | _ =>
          match new_sequence_number p (w_disk w) a with
          | (p', d', Val v) => (mkw sz (Some p') d', OIssued v)
          | (p', d', Exn e) => (mkw sz (Some p') d', OExn e)
          | (p', d', Died) => (mkw sz None d', ODied)
          end
      end
  | Some p, ProtectFails k =>
      match new_sequence_number_fails p (w_disk w) k with
      | (p', d', Val v) => (mkw sz (Some p') d', OIssued v)
      | (p', d', Exn e) => (mkw sz (Some p') d', OExn e)
      | (p', d', Died) => (mkw sz None d', ODied)
      end
  | Some p, UnprotectFails r k =>
      match unprotect_fails p (w_disk w) k r with
      | (p', d', Val o) => (mkw sz (Some (set_pend p' (pend_of (uc p) r o))) d', OUnprot o)
      | (p', d', Exn e) => (mkw sz (Some (set_pend p' None)) d', OExn e)
      | (p', d', Died) => (mkw sz None d', ODied)
      end
  | Some p, CleanStop a =>
      let '(d', died) := _destroy p (w_disk w) a in
      (mkw sz None d', if died then ODied else OStopped)
  end.

Fixpoint run (w : world) (evs : list event) : world * list output :=
  match evs with
  | [] => (w, [])
  | e :: r => let '(w1, o) := step w e in let '(w2, os) := run w1 r in (w2, o :: os)
  end.

(* numbers handed out by an output / a run *)
Definition issued_of (o : output) : list Z :=
  match o with OIssued n => [n] | OSeq l _ => l | _ => [] end.
Definition issued (os : list output) : list Z := flat_map issued_of os.
(* sequence numbers of requests accepted in a run *)
Fixpoint accepted (evs : list event) (os : list output) : list Z :=
  match evs, os with
  | Unprotect r _ :: evs', OUnprot Accept :: os' => seqno r :: accepted evs' os'
  | UnprotectFails r _ :: evs', OUnprot Accept :: os' => seqno r :: accepted evs' os'
  | _ :: evs', _ :: os' => accepted evs' os'
  | _, _ => []
  end.

(* request numbers whose nonce was used again for a response *)
Definition reused_of (o : output) : list Z := match o with OReused n => [n] | _ => [] end.
Definition reused (os : list output) : list Z := flat_map reused_of os.

(* ------------------------------------------------------------------ observation for the correspondence run *)
(* compact rendering of an output (a long Seq is summarised as first number, count, consecutive?) *)
Fixpoint consecutive (first : Z) (l : list Z) : bool :=
  match l with [] => true | x :: r => (x =? first) && consecutive (first + 1) r end.
Inductive obs :=
| BIssued (n : Z) | BSeq (first count : Z) (consec : bool) (e : seqend) | BExn (e : exn) | BUnprot (o : outcome)
| BStopped | BDied | BNoProc | BBusy | BLoaded (next : Z) (initialised : bool) | BReused (n : Z).
Definition observe (o : output) : obs :=
  match o with
  | OIssued n => BIssued n
  | OSeq l e => BSeq (hd (-1) l) (Z.of_nat (length l)) (consecutive (hd (-1) l) l) e
  | OExn e => BExn e | OUnprot o => BUnprot o | OStopped => BStopped | ODied => BDied
  | ONoProc => BNoProc | OBusy => BBusy | OLoaded n i => BLoaded n i | OReused n => BReused n
  end.
(* per event: observation, sequence.json afterwards, number of temporary files afterwards *)
Definition pend_obs (w : world) : option (Z * bool) := match w_proc w with Some p => pend p | None => None end.
Fixpoint trace (w : world) (evs : list event) : world * list (obs * option seqfile * Z * option (Z * bool)) :=
  match evs with
  | [] => (w, [])
  | e :: r => let '(w1, o) := step w e in
              let '(w2, t) := trace w1 r in
              (w2, (observe o, d_seq (w_disk w1), Z.of_nat (length (d_temps (w_disk w1))), pend_obs w1) :: t)
  end.
Definition proc_obs (p : proc) : Z * Z * Z * bool * option (Z * Z) :=
  (ssn p, persisted p, chunk p, wpers p, persist (window (uc p))).
Definition initial_world (size : Z) (seq : option seqfile) : world :=
  mkw size None {| d_seq := seq; d_durable := true; d_temps := []; d_lock := false |}.
Definition scenario (size : Z) (seq : option seqfile) (evs : list event) :=
  let '(w, t) := trace (initial_world size seq) evs in
  (t, (d_temps (w_disk w), d_lock (w_disk w), d_durable (w_disk w)), match w_proc w with Some p => Some (proc_obs p) | None => None end).
