(* C02 — a response reaches exactly the request it answers; every request completes once.

   Executable model of the client side of aiocoap's token layer and the part of the message layer it is
   composed with:
     - TokenManager (tokenmanager.py): outgoing_requests, next_token (TRANSLATED, Gen/tokenmanager_next_token.v),
       request, process_response, dispatch_error, shutdown;
     - Pipe (pipe.py): on_event / on_interest_end / _add_event / _end / _unregister_on_event, defunctionalised
       (the two callbacks that exist on a client pipe are constructors of [cb]);
     - Request (protocol.py:650-815): the response future and the _run generator as a state machine;
     - MessageManager (messagemanager.py): dispatch_message for non-request codes, _remove_exchange,
       _continue_backlog, send_message/_send_initially/_add_exchange for requests, _retransmit, dispatch_error,
       shutdown.
   Each function is named after the Python method it mirrors. No proofs in this file. *)
From Verif Require Import Lib.Py Gen.tokenmanager_next_token.
Open Scope Z_scope.

Notation remote := Z.
Notation token := (list Z).
(* remote ids >= 100 stand for multicast group addresses (udp6.py:260 is_multicast) *)
Definition is_multicast (r : remote) : bool := 100 <=? r.

Definition CON := 0. Definition NON := 1. Definition ACK := 2. Definition RST := 3.
Definition EMPTY := 0. Definition GET := 1.
Definition is_request (code : Z) : bool := (1 <=? code) && (code <? 32).      (* codes.py:78 *)
Definition is_response (code : Z) : bool := (64 <=? code) && (code <? 192).   (* codes.py:82 *)
Notation InvalidStateError := (OtherError 1).

(* header-level view of a datagram; [w_rid] identifies an injected response (its payload) *)
Record wire := { w_mtype : Z; w_code : Z; w_mid : Z; w_token : token; w_observe : option Z; w_rid : Z }.

(* ------------------------------------------------------------------ association lists = Python dicts
   (insertion ordered; assignment to an existing key keeps its position) *)
Section AList.
  Context {K V : Type} (eqb : K -> K -> bool).
  Fixpoint alookup (k : K) (l : list (K * V)) : option V :=
    match l with [] => None | (k', v) :: r => if eqb k k' then Some v else alookup k r end.
  Fixpoint aremove (k : K) (l : list (K * V)) : list (K * V) :=
    match l with [] => [] | (k', v) :: r => if eqb k k' then aremove k r else (k', v) :: aremove k r end.
  Fixpoint aset (k : K) (v : V) (l : list (K * V)) : list (K * V) :=
    match l with [] => [(k, v)] | (k', v') :: r => if eqb k k' then (k, v) :: r else (k', v') :: aset k v r end.
  Definition amem (k : K) (l : list (K * V)) : bool := match alookup k l with Some _ => true | None => false end.
End AList.

Notation key := (token * option remote)%type.
Definition opt_eqb (a b : option Z) : bool :=
  match a, b with Some x, Some y => x =? y | None, None => true | _, _ => false end.
Definition key_eqb (a b : key) : bool := beqb (fst a) (fst b) && opt_eqb (snd a) (snd b).
Definition rm_eqb (a b : remote * Z) : bool := (fst a =? fst b) && (snd a =? snd b).

(* ------------------------------------------------------------------ observable outputs *)
Inductive output :=
| Send (r : remote) (mtype code mid : Z) (tok : token) (obs : option Z)   (* datagram on the wire *)
| Token (q : Z) (tok : token)                                              (* token assigned to request q *)
| SetResult (q rid : Z) (tok : token) (from : remote)                      (* Request.response.set_result *)
| SetException (q : Z) (e : exn)                                           (* Request.response.set_exception *)
| Cancelled (q : Z)                                                        (* Request.response cancelled by the application *)
| Notify (q rid : Z) (tok : token) (from : remote)                         (* ClientObservation.callback *)
| ObsError (q : Z) (e : exn)                                               (* ClientObservation.error *)
| Raised (e : exn)                                                         (* exception escaping the call into the library *)
| LoopExc (e : exn)                                                        (* exception reaching the event loop's handler *)
| Crash (e : exn).                                                         (* model-internal: a state the code cannot reach *)

(* ------------------------------------------------------------------ Pipe + Request *)
(* the callbacks registered on a client Pipe: Request.process (protocol.py:664, interest) and the wrapper made by
   Pipe.on_interest_end for TokenManager.request's `partial(outgoing_requests.pop, key, None)` (no interest) *)
Inductive cb := CbProcess | CbInterestEnd (k : key).
Definition is_interest (c : cb) : bool := match c with CbProcess => true | CbInterestEnd _ => false end.
Definition cb_eqb (a b : cb) : bool :=
  match a, b with CbProcess, CbProcess => true | CbInterestEnd k1, CbInterestEnd k2 => key_eqb k1 k2 | _, _ => false end.

Inductive fut := FPending | FResult (rid : Z) | FException (e : exn) | FCancelled.
(* Request._run: waiting for the first event / in the observation loop with v1 / returned / dropped (_runner = None) *)
Inductive runner := AwaitFirst | Observing (v1 : Z) | Finished | Dropped.

Record creq := {
  cq_remote : remote; cq_observe : bool;        (* request.remote, request.opt.observe == 0 *)
  cq_cbs : option (list cb);                    (* Pipe._event_callbacks; None = False (ended) *)
  cq_fut : fut; cq_runner : runner;
  cq_obs_cancelled : bool }.                    (* ClientObservation.cancelled *)
Definition set_cbs c v := {| cq_remote := cq_remote c; cq_observe := cq_observe c; cq_cbs := v; cq_fut := cq_fut c; cq_runner := cq_runner c; cq_obs_cancelled := cq_obs_cancelled c |}.
Definition set_fut c v := {| cq_remote := cq_remote c; cq_observe := cq_observe c; cq_cbs := cq_cbs c; cq_fut := v; cq_runner := cq_runner c; cq_obs_cancelled := cq_obs_cancelled c |}.
Definition set_runner c v := {| cq_remote := cq_remote c; cq_observe := cq_observe c; cq_cbs := cq_cbs c; cq_fut := cq_fut c; cq_runner := v; cq_obs_cancelled := cq_obs_cancelled c |}.
Definition set_obsc c v := {| cq_remote := cq_remote c; cq_observe := cq_observe c; cq_cbs := cq_cbs c; cq_fut := cq_fut c; cq_runner := cq_runner c; cq_obs_cancelled := v |}.

(* an active exchange: messageerror_monitor (= the request to fail), the pending retransmission timer, the message *)
Record exch := { ex_monitor : Z; ex_due : Z; ex_seq : Z; ex_timeout : Z; ex_counter : Z; ex_msg : wire }.

Record st := {
  tmst : tm;                                           (* TokenManager._token (translated record) *)
  outgoing : option (list (key * Z));                  (* TokenManager.outgoing_requests; None after shutdown *)
  reqs : list (Z * creq);                              (* the application's Request objects, by request id *)
  next_mid : Z;                                        (* MessageManager.message_id *)
  exchanges : option (list ((remote * Z) * exch));     (* MessageManager._active_exchanges; None after shutdown *)
  backlogs : list (remote * list (wire * Z));          (* MessageManager._backlogs: (message, monitor) *)
  now : Z; seq : Z;                                    (* virtual clock (us), timer creation counter *)
  ack_timeout : Z;
  refusing : list remote }.                            (* remotes for which the transport refuses datagrams synchronously (sendmsg fails) *)                                   (* the value random.uniform(ACK_TIMEOUT, ..) returns, in us *)
Definition set_tmst s v := {| tmst := v; outgoing := outgoing s; reqs := reqs s; next_mid := next_mid s; exchanges := exchanges s; backlogs := backlogs s; now := now s; seq := seq s; ack_timeout := ack_timeout s; refusing := refusing s |}.
Definition set_outgoing s v := {| tmst := tmst s; outgoing := v; reqs := reqs s; next_mid := next_mid s; exchanges := exchanges s; backlogs := backlogs s; now := now s; seq := seq s; ack_timeout := ack_timeout s; refusing := refusing s |}.
Definition set_reqs s v := {| tmst := tmst s; outgoing := outgoing s; reqs := v; next_mid := next_mid s; exchanges := exchanges s; backlogs := backlogs s; now := now s; seq := seq s; ack_timeout := ack_timeout s; refusing := refusing s |}.
Definition set_next_mid s v := {| tmst := tmst s; outgoing := outgoing s; reqs := reqs s; next_mid := v; exchanges := exchanges s; backlogs := backlogs s; now := now s; seq := seq s; ack_timeout := ack_timeout s; refusing := refusing s |}.
Definition set_exchanges s v := {| tmst := tmst s; outgoing := outgoing s; reqs := reqs s; next_mid := next_mid s; exchanges := v; backlogs := backlogs s; now := now s; seq := seq s; ack_timeout := ack_timeout s; refusing := refusing s |}.
Definition set_backlogs s v := {| tmst := tmst s; outgoing := outgoing s; reqs := reqs s; next_mid := next_mid s; exchanges := exchanges s; backlogs := v; now := now s; seq := seq s; ack_timeout := ack_timeout s; refusing := refusing s |}.
Definition set_now s v := {| tmst := tmst s; outgoing := outgoing s; reqs := reqs s; next_mid := next_mid s; exchanges := exchanges s; backlogs := backlogs s; now := v; seq := seq s; ack_timeout := ack_timeout s; refusing := refusing s |}.
Definition set_refusing s v := {| tmst := tmst s; outgoing := outgoing s; reqs := reqs s; next_mid := next_mid s; exchanges := exchanges s; backlogs := backlogs s; now := now s; seq := seq s; ack_timeout := ack_timeout s; refusing := v |}.
Definition set_seq s v := {| tmst := tmst s; outgoing := outgoing s; reqs := reqs s; next_mid := next_mid s; exchanges := exchanges s; backlogs := backlogs s; now := now s; seq := v; ack_timeout := ack_timeout s; refusing := refusing s |}.

Definition init (token0 mid0 t0 : Z) : st :=
  {| tmst := {| tm_token := token0 |}; outgoing := Some []; reqs := []; next_mid := mid0; exchanges := Some [];
     backlogs := []; now := 0; seq := 0; ack_timeout := t0; refusing := [] |}.

Definition get_req (s : st) (q : Z) : option creq := alookup Z.eqb q (reqs s).
Definition upd_req (s : st) (q : Z) (c : creq) : st := set_reqs s (aset Z.eqb q c (reqs s)).

(* The Pipe / Request code below works on ONE request object [c]; the only effect its callbacks have outside that
   object is `functools.partial(self.outgoing_requests.pop, key, None)` (tokenmanager.py:251), returned as the list
   of keys to pop and applied to the table by [_add_event] / [pop_keys]. (The partial is bound to the dict object,
   so after shutdown -- attribute set to None -- it pops from the orphaned dict: no effect.) *)
Definition pop_outgoing (s : st) (k : key) : st :=
  match outgoing s with Some og => set_outgoing s (Some (aremove key_eqb k og)) | None => s end.
Fixpoint pop_keys (s : st) (ks : list key) : st :=
  match ks with [] => s | k :: r => pop_keys (pop_outgoing s k) r end.

Definition _any_interest (cbs : list cb) : bool := existsb is_interest cbs.     (* pipe.py:92 *)

(* Pipe._end (pipe.py:162): mark ended, send the tombstone (None, None, is_last=True) to the remaining callbacks.
   Only on_interest_end wrappers can remain (CbProcess is the only interest callback and _end runs when no
   interest is left); each of them pops its key. *)
Fixpoint _end_cbs (cbs : list cb) : list key :=
  match cbs with
  | [] => []
  | CbInterestEnd k :: r => k :: _end_cbs r
  | CbProcess :: r => _end_cbs r
  end.
Definition _end (c : creq) : creq * list key :=
  match cq_cbs c with Some cbs => (set_cbs c None, _end_cbs cbs) | None => (c, []) end.

(* Request._stop_interest = Pipe._unregister_on_event(process) (pipe.py:122) *)
Definition _stop_interest (c : creq) : creq * list key :=
  match cq_cbs c with
  | None => (c, [])
  | Some cbs =>
      let cbs' := filter (fun x => negb (cb_eqb x CbProcess)) cbs in
      let c1 := set_cbs c (Some cbs') in
      if _any_interest cbs' then (c1, []) else _end c1
  end.

(* Pipe.Event *)
Inductive pev := PResponse (w : wire) (from : remote) (is_last : bool) | PException (e : exn).
Definition pev_is_last (e : pev) : bool := match e with PResponse _ _ l => l | PException _ => true end.

(* protocol.py:782-790 with time.time() frozen (the OBSERVATION_RESET_TIME disjunct is C07's subject) *)
Definition is_recent (v1 v2 : Z) : bool :=
  ((v1 <? v2) && (v2 - v1 <? 2 ^ 23)) || ((v1 >? v2) && (v1 - v2 >? 2 ^ 23)).

(* one resumption of the generator Request._run (protocol.py:697-815) with an event:
   -> (request object, outputs, whether _stop_interest() is called, whether the generator is still alive) *)
Definition _run (q : Z) (c : creq) (ev : pev) : creq * list output * bool * bool :=
  match cq_runner c with
  | AwaitFirst =>
      let '(c1, o1) :=
        match cq_fut c with
        | FPending =>
            match ev with
            | PResponse w from _ => (set_fut c (FResult (w_rid w)), [SetResult q (w_rid w) (w_token w) from])
            | PException e => (set_fut c (FException e), [SetException q e])
            end
        | _ => (c, [Crash InvalidStateError])
        end in
      if negb (cq_observe c) then (set_runner c1 Finished, o1, negb (pev_is_last ev), false)
      else if pev_is_last ev then
        (set_obsc (set_runner c1 Finished) true, o1 ++ [ObsError q NotObservable], false, false)
      else match ev with
           | PResponse w _ _ =>
               match w_observe w with
               | None => (set_runner c1 Finished, o1, true, false)
               | Some v1 => (set_runner c1 (Observing v1), o1, false, true)
               end
           | PException _ => (set_runner c1 Finished, o1, false, false)
           end
  | Observing v1 =>
      if cq_obs_cancelled c then (set_runner c Finished, [], true, false)
      else match ev with
           | PException e => (set_obsc (set_runner c Finished) true, [ObsError q e], false, false)
           | PResponse w from is_last =>
               let recent := match w_observe w with Some v2 => is_recent v1 v2 | None => true end in
               let v1' := match w_observe w with Some v2 => if recent then v2 else v1 | None => v1 end in
               let o := if recent then [Notify q (w_rid w) (w_token w) from] else [] in
               if is_last then (set_obsc (set_runner c Finished) true, o ++ [ObsError q ObservationCancelled], false, false)
               else match w_observe w with
                    | None => (set_obsc (set_runner c Finished) true, o ++ [ObsError q ObservationCancelled], true, false)
                    | Some _ => (set_runner c (Observing v1'), o, false, true)
                    end
           end
  | Finished | Dropped => (c, [], false, false)
  end.

(* Request.__init__.process (protocol.py:664): feed the event to the generator; False on StopIteration *)
Definition process (q : Z) (c : creq) (ev : pev) : creq * list output * list key * bool :=
  let '(c', o, stop, keep) := _run q c ev in
  if stop then let '(c'', ks) := _stop_interest c' in (c'', o, ks, keep) else (c', o, [], keep).

Definition call_cb (q : Z) (c : creq) (x : cb) (ev : pev) : creq * list output * list key * bool :=
  match x with
  | CbProcess => process q c ev
  | CbInterestEnd k => if pev_is_last ev then (c, [], [k], false) else (c, [], [], true)   (* pipe.py:155 *)
  end.

Fixpoint remove_first (x : cb) (l : list cb) : list cb :=
  match l with [] => [] | y :: r => if cb_eqb x y then r else y :: remove_first x r end.

(* the loop of Pipe._add_event (pipe.py:186-193) over the snapshot of the callback list;
   the boolean tells that the pipe ended during a callback (early return) *)
Fixpoint _add_event_loop (q : Z) (c : creq) (snapshot : list cb) (ev : pev) : creq * list output * list key * bool :=
  match snapshot with
  | [] => (c, [], [], false)
  | x :: rest =>
      let '(c1, o1, k1, keep) := call_cb q c x ev in
      if keep then let '(c2, o2, k2, early) := _add_event_loop q c1 rest ev in (c2, o1 ++ o2, k1 ++ k2, early)
      else match cq_cbs c1 with
           | None => (c1, o1, k1, true)
           | Some live =>
               let '(c2, o2, k2, early) := _add_event_loop q (set_cbs c1 (Some (remove_first x live))) rest ev in
               (c2, o1 ++ o2, k1 ++ k2, early)
           end
  end.

(* Pipe._add_event (pipe.py:170) *)
Definition pipe_add_event (q : Z) (c : creq) (ev : pev) : creq * list output * list key :=
  match cq_cbs c with
  | None => (c, [], [])                              (* ended: the event is discarded (logged) *)
  | Some cbs =>
      let '(c1, o, ks, early) := _add_event_loop q c cbs ev in
      if early then (c1, o, ks)
      else match cq_cbs c1 with
           | Some live => if _any_interest live then (c1, o, ks) else let '(c2, k2) := _end c1 in (c2, o, ks ++ k2)
           | None => (c1, o, ks)
           end
  end.
(* ... on the pipe of request q, with the popped keys applied to outgoing_requests *)
Definition _add_event (s : st) (q : Z) (ev : pev) : st * list output :=
  match get_req s q with
  | None => (s, [])
  | Some c => let '(c', o, ks) := pipe_add_event q c ev in (pop_keys (upd_req s q c') ks, o)
  end.
Definition add_response (s : st) (q : Z) (w : wire) (from : remote) (is_last : bool) := _add_event s q (PResponse w from is_last).
Definition add_exception (s : st) (q : Z) (e : exn) := _add_event s q (PException e).

(* Pipe.on_interest_end (pipe.py:137) for the callback popping key k *)
Definition pipe_on_interest_end (c : creq) (k : key) : creq * list key :=
  match cq_cbs c with
  | None => (c, [k])                                  (* already ended: called right away *)
  | Some cbs => if _any_interest cbs then (set_cbs c (Some (cbs ++ [CbInterestEnd k])), []) else (c, [k])
  end.
Definition on_interest_end (s : st) (q : Z) (k : key) : st :=
  match get_req s q with
  | None => s
  | Some c => let '(c', ks) := pipe_on_interest_end c k in pop_keys (upd_req s q c') ks
  end.

(* ------------------------------------------------------------------ error fan-out (defined first: a refusing transport calls it from inside send) *)
(* the collection loop of dispatch_error (tokenmanager.py:97-104): `request_remote == remote`; for the key of a
   multicast request the stored remote is None, and `None == <udp6 address>` is False (udp6.py:149-153: __eq__
   returns NotImplemented for a non-address), so such entries are skipped *)
Fixpoint collect_stoppers (r : remote) (og : list (key * Z)) : list Z :=
  match og with
  | [] => []
  | ((_, None), _) :: rest => collect_stoppers r rest
  | ((_, Some r'), q) :: rest => if r' =? r then q :: collect_stoppers r rest else collect_stoppers r rest
  end.
Fixpoint run_stoppers (s : st) (qs : list Z) (e : exn) : st * list output :=
  match qs with
  | [] => (s, [])
  | q :: rest => let '(s1, o1) := add_exception s q e in let '(s2, o2) := run_stoppers s1 rest e in (s2, o1 ++ o2)
  end.
Inductive errkind := EOs | ENet (e : exn).        (* not a NetworkError (wrapped) / a NetworkError subclass instance *)
Definition wrap_error (k : errkind) : exn := match k with EOs => NetworkError | ENet e => e end.
(* dispatch_error (tokenmanager.py:74) *)
Definition tm_dispatch_error (s : st) (k : errkind) (r : remote) : st * list output :=
  match outgoing s with
  | None => (s, [])
  | Some og => run_stoppers s (collect_stoppers r og) (wrap_error k)
  end.

(* dispatch_error (messagemanager.py:157) *)
Definition mm_dispatch_error (s : st) (k : errkind) (r : remote) : st * list output :=
  match exchanges s with
  | None => (s, [])
  | Some _ =>
      let '(s1, o1) := tm_dispatch_error s k r in
      let ex' := match exchanges s1 with Some ex => Some (filter (fun e => negb (fst (fst e) =? r)) ex) | None => None end in
      (set_backlogs (set_exchanges s1 ex') (aremove Z.eqb r (backlogs s1)), o1)
  end.

(* ------------------------------------------------------------------ MessageManager, outgoing side *)
Definition has_exchange (r : remote) (ex : list ((remote * Z) * exch)) : bool :=
  existsb (fun e => fst (fst e) =? r) ex.
Definition wire_send (r : remote) (w : wire) : output := Send r (w_mtype w) (w_code w) (w_mid w) (w_token w) (w_observe w).

(* _add_exchange (messagemanager.py:242) + _schedule_retransmit (:310) *)
Definition _add_exchange (s : st) (r : remote) (w : wire) (monitor : Z) : st :=
  let s1 := if amem Z.eqb r (backlogs s) then s else set_backlogs s (aset Z.eqb r [] (backlogs s)) in
  let e := {| ex_monitor := monitor; ex_due := now s1 + ack_timeout s1; ex_seq := seq s1;
              ex_timeout := ack_timeout s1; ex_counter := 0; ex_msg := w |} in
  match exchanges s1 with
  | Some ex => set_seq (set_exchanges s1 (Some (aset rm_eqb (r, w_mid w) e ex))) (seq s1 + 1)
  | None => s1                                          (* unreachable: no CON is sent after shutdown *)
  end.

(* _send_via_transport (messagemanager.py:534) -> message_interface.send. A transport that refuses the datagram
   synchronously (udp6.py:504: sendmsg raises OSError -> error_received, udp6.py:694 -> MessageManager.dispatch_error)
   reports the error for that remote from INSIDE the send call; nothing goes onto the wire *)
Definition refuses (s : st) (r : remote) : bool := existsb (Z.eqb r) (refusing s).
Definition _send_via_transport (s : st) (r : remote) (w : wire) : st * list output :=
  if refuses s r then mm_dispatch_error s EOs r else (s, [wire_send r w]).

(* _send_initially (messagemanager.py:519); _store_response_for_duplicates has no effect here because no request
   was ever received (_recent_messages is empty) *)
Definition _send_initially (s : st) (r : remote) (w : wire) (monitor : option Z) : st * list output :=
  let s1 := if w_mtype w =? CON then match monitor with Some m => _add_exchange s r w m | None => s end else s in
  _send_via_transport s1 r w.

(* _next_message_id (messagemanager.py:539) *)
Definition _next_message_id (s : st) : st * Z := (set_next_mid s (Z.land 65535 (1 + next_mid s)), next_mid s).

(* send_message (messagemanager.py:423) for a request message (message.code.is_request(), mid not set) *)
Definition send_message (s : st) (r : remote) (mtype : option Z) (tok : token) (obs : bool) (monitor : Z)
  : M (st * list output) :=
  let shut := match exchanges s with None => true | Some _ => false end in
  let mt := match mtype with
            | None => if shut then NON else if is_multicast r then NON else CON
            | Some m => if shut then NON else m
            end in
  if (mt =? CON) && is_multicast r then Raise ConToMulticast
  else
    let '(s1, mid) := _next_message_id s in
    let w := {| w_mtype := mt; w_code := GET; w_mid := mid; w_token := tok;
                w_observe := if obs then Some 0 else None; w_rid := 0 |} in
    if (mt =? CON) && amem Z.eqb r (backlogs s1)
    then Ok (set_backlogs s1 (aset Z.eqb r (match alookup Z.eqb r (backlogs s1) with Some l => l ++ [(w, monitor)] | None => [(w, monitor)] end) (backlogs s1)), [])
    else Ok (_send_initially s1 r w (Some monitor)).

(* _continue_backlog (messagemanager.py:287). The while loop `while remote in self._backlogs and not any(exchange with remote)`
   re-reads self._backlogs[remote] in every round; a refused release inside the loop makes dispatch_error drop the entry,
   which ends the loop (messagemanager.py:305). fuel = rounds that can happen.
   The boolean of _continue_backlog tells that an exception was raised (it is in the outputs as [Raised]) and aborts the caller. *)
Fixpoint _continue_backlog_loop (fuel : nat) (s : st) (r : remote) : st * list output * bool :=
  match fuel with
  | O => (s, [], false)
  | S f =>
      match exchanges s with
      | None => (s, [], false)
      | Some ex =>
          match alookup Z.eqb r (backlogs s) with
          | None => (s, [], false)                       (* remote not in self._backlogs any more *)
          | Some bl =>
              if has_exchange r ex then (s, [], false)
              else match bl with
                   | [] => (set_backlogs s (aremove Z.eqb r (backlogs s)), [], false)
                   | (w, m) :: rest =>
                       let '(s1, o1) := _send_initially (set_backlogs s (aset Z.eqb r rest (backlogs s))) r w (Some m) in
                       let '(s2, o2, x) := _continue_backlog_loop f s1 r in (s2, o1 ++ o2, x)
                   end
          end
      end
  end.
Definition _continue_backlog (s : st) (r : remote) : st * list output * bool :=
  match alookup Z.eqb r (backlogs s) with
  | None => (s, [Raised AssertionError], true)        (* "backlogs/active_exchange relation violated" *)
  | Some bl => _continue_backlog_loop (S (length bl)) s r
  end.

(* _remove_exchange (messagemanager.py:265) for an incoming ACK / RST *)
Definition _remove_exchange (s : st) (r : remote) (w : wire) : st * list output * bool :=
  match exchanges s with
  | None => (s, [], false)
  | Some ex =>
      match alookup rm_eqb (r, w_mid w) ex with
      | None => (s, [], false)
      | Some e =>
          let s1 := set_exchanges s (Some (aremove rm_eqb (r, w_mid w) ex)) in
          (* messageerror_monitor = lambda: request.add_exception(error.MessageError) (tokenmanager.py:257) *)
          let '(s2, o2) := if w_mtype w =? RST then add_exception s1 (ex_monitor e) MessageError else (s1, []) in
          let '(s3, o3, x) := _continue_backlog s2 r in (s3, o2 ++ o3, x)
      end
  end.

(* ------------------------------------------------------------------ TokenManager *)
(* request (tokenmanager.py:220) on the pipe of request q, to remote r *)
Definition request (s : st) (q : Z) (r : remote) (mtype : option Z) (obs : bool) : st * list output :=
  match outgoing s with
  | None => add_exception s q LibraryShutdown
  | Some og =>
      match next_token (tmst s) with
      | Raise e => (s, [Crash e])
      | Ok (tm', tok) =>
          let k : key := (tok, if is_multicast r then None else Some r) in
          let s1 := set_outgoing (set_tmst s tm') (Some (aset key_eqb k q og)) in
          let s2 := on_interest_end s1 q k in
          match send_message s2 r mtype tok obs q with
          | Raise e => let '(s3, o3) := add_exception s2 q e in (s3, Token q tok :: o3)
          | Ok (s3, o3) => (s3, Token q tok :: o3)
          end
      end
  end.

(* process_response (tokenmanager.py:177) *)
Definition process_response (s : st) (r : remote) (w : wire) : bool * st * list output :=
  match outgoing s with
  | None => (false, s, [Crash TypeError])
  | Some og =>
      let k1 : key := (w_token w, Some r) in
      let k : key := if amem key_eqb k1 og then k1 else (w_token w, None) in      (* "maybe it was a multicast..." *)
      match alookup key_eqb k og with
      | None => (false, s, [])
      | Some q =>
          let req_observe := match get_req s q with Some c => cq_observe c | None => false end in
          let final := negb (req_observe && match w_observe w with Some _ => true | None => false end) in
          let s1 := if final then set_outgoing s (Some (aremove key_eqb k og)) else s in
          let '(s2, o2) := add_response s1 q w r final in
          (true, s2, o2)
      end
  end.

(* shutdown (tokenmanager.py:44): `while self.outgoing_requests: pop first; add_exception(LibraryShutdown)` *)
Fixpoint tm_shutdown_loop (fuel : nat) (s : st) : st * list output :=
  match fuel with
  | O => (s, [])
  | S f =>
      match outgoing s with
      | Some ((k, q) :: rest) =>
          let '(s1, o1) := add_exception (set_outgoing s (Some rest)) q LibraryShutdown in
          let '(s2, o2) := tm_shutdown_loop f s1 in (s2, o1 ++ o2)
      | _ => (s, [])
      end
  end.

(* ------------------------------------------------------------------ MessageManager, incoming side *)
Definition empty_msg (mtype mid : Z) : wire :=
  {| w_mtype := mtype; w_code := EMPTY; w_mid := mid; w_token := []; w_observe := None; w_rid := 0 |}.

(* dispatch_message (messagemanager.py:97) for a message from remote r, received on a multicast address or not.
   Request codes (server side: deduplication, _process_request) are outside this model. *)
Definition dispatch_message (s : st) (r : remote) (mcl : bool) (w : wire) : st * list output :=
  if is_request (w_code w) then (s, [Crash NotImplementedError])
  else
    let '(s1, o1, raised) := if (w_mtype w =? ACK) || (w_mtype w =? RST) then _remove_exchange s r w else (s, [], false) in
    if raised then (s1, o1)                                                (* the exception leaves dispatch_message *)
    else if (w_code w =? EMPTY) && (w_mtype w =? CON) then                      (* _process_ping *)
      let '(s2, o2) := _send_initially s1 r (empty_msg RST (w_mid w)) None in (s2, o1 ++ o2)
    else if (w_code w =? EMPTY) && ((w_mtype w =? ACK) || (w_mtype w =? RST)) then (s1, o1)
    else if is_response (w_code w) && ((w_mtype w =? CON) || (w_mtype w =? NON) || (w_mtype w =? ACK)) then
      let '(success, s2, o2) := process_response s1 r w in
      if success then
        if w_mtype w =? CON then                                           (* _send_empty_ack *)
          let '(s3, o3) := _send_initially s2 r (empty_msg ACK (w_mid w)) None in (s3, o1 ++ o2 ++ o3)
        else (s2, o1 ++ o2)
      else if (w_mtype w =? CON) && negb mcl then                          (* "Response not recognized - sending RST." *)
        let '(s3, o3) := _send_initially s2 r (empty_msg RST (w_mid w)) None in (s3, o1 ++ o2 ++ o3)
      else (s2, o1 ++ o2)
    else (s1, o1).                                                         (* "those don't fit", ignored *)

(* _retransmit (messagemanager.py:332) for the exchange (r, mid) whose timer fired *)
Definition _retransmit (s : st) (r : remote) (mid : Z) : st * list output :=
  match exchanges s with
  | None => (s, [])
  | Some ex =>
      match alookup rm_eqb (r, mid) ex with
      | None => (s, [LoopExc KeyError])
      | Some e =>
          let s1 := set_exchanges s (Some (aremove rm_eqb (r, mid) ex)) in
          if ex_counter e <? 4 then                                        (* MAX_RETRANSMIT *)
            let e' := {| ex_monitor := ex_monitor e; ex_due := now s1 + 2 * ex_timeout e; ex_seq := seq s1;
                         ex_timeout := 2 * ex_timeout e; ex_counter := ex_counter e + 1; ex_msg := ex_msg e |} in
            (* the exchange is put back BEFORE the message is handed to the transport (messagemanager.py:345-353), so a
               refused retransmission is ended by dispatch_error like any other exchange of that remote *)
            let s2 := set_seq (set_exchanges s1 (Some (aset rm_eqb (r, mid) e' (aremove rm_eqb (r, mid) ex)))) (seq s1 + 1) in
            _send_via_transport s2 r (ex_msg e)
          else if amem Z.eqb r (backlogs s1) then
            let s2 := set_backlogs s1 (aremove Z.eqb r (backlogs s1)) in
            tm_dispatch_error s2 (ENet ConRetransmitsExceeded) r
          else (s1, [LoopExc KeyError])                                    (* del self._backlogs[message.remote] *)
      end
  end.

(* MessageManager.shutdown (messagemanager.py:78) after TokenManager.shutdown (tokenmanager.py:44) *)
Definition shutdown (s : st) : st * list output :=
  match outgoing s with
  | None => (s, [])
  | Some og =>
      let '(s1, o1) := tm_shutdown_loop (length og) s in
      (set_exchanges (set_outgoing s1 None) None, o1)
  end.

(* ------------------------------------------------------------------ the application and the event loop *)
(* the pending timer with the least (due, creation sequence) *)
Definition earlier (a b : exch) : bool := (ex_due a <? ex_due b) || ((ex_due a =? ex_due b) && (ex_seq a <? ex_seq b)).
Fixpoint next_timer (ex : list ((remote * Z) * exch)) (best : option ((remote * Z) * exch)) : option ((remote * Z) * exch) :=
  match ex with
  | [] => best
  | x :: r => next_timer r (match best with None => Some x | Some b => if earlier (snd x) (snd b) then Some x else Some b end)
  end.

Inductive event :=
| Request (q : Z) (r : remote) (mtype : option Z) (obs : bool)   (* Context.request(msg, handle_blockwise=False) *)
| Recv (r : remote) (mcl : bool) (w : wire)                       (* datagram from r; mcl: received on a multicast address *)
| Fire                                                            (* the next timer fires *)
| Adv (d : Z)                                                     (* time passes (only if no timer becomes due) *)
| Err (r : remote) (k : errkind)                                  (* the transport reports an error for r *)
| Cancel (q : Z)                                                  (* Request.response.cancel() *)
| ObsCancel (q : Z)                                               (* ClientObservation.cancel() by the application *)
| Refuse (r : remote) (on : bool)                                 (* the transport starts / stops refusing datagrams to r *)
| Shutdown.                                                       (* Context.shutdown() *)

(* Context.request (protocol.py:553): Pipe + Request, then (task) TokenManager.request *)
Definition new_request (s : st) (q : Z) (r : remote) (mtype : option Z) (obs : bool) : st * list output :=
  match get_req s q with
  | Some _ => (s, [])                                             (* request ids are fresh *)
  | None =>
      let c := {| cq_remote := r; cq_observe := obs; cq_cbs := Some [CbProcess]; cq_fut := FPending;
                  cq_runner := AwaitFirst; cq_obs_cancelled := false |} in
      request (upd_req s q c) q r mtype obs
  end.

(* Request.response.cancel() and _response_cancellation_handler (protocol.py:680) *)
Definition cancel (s : st) (q : Z) : st * list output :=
  match get_req s q with
  | Some c =>
      match cq_fut c with
      | FPending =>
          let '(c', ks) := _stop_interest (set_runner (set_fut c FCancelled) Dropped) in
          (pop_keys (upd_req s q c') ks, [Cancelled q])
      | _ => (s, [])
      end
  | None => (s, [])
  end.

(* the application cancels an observation it is receiving *)
Definition obs_cancel (s : st) (q : Z) : st :=
  match get_req s q with
  | Some c => match cq_runner c with
              | Observing _ => if cq_obs_cancelled c then s else upd_req s q (set_obsc c true)
              | _ => s
              end
  | None => s
  end.

Definition step (s : st) (e : event) : st * list output :=
  match e with
  | Request q r mtype obs => new_request s q r mtype obs
  | Recv r mcl w => match outgoing s with Some _ => dispatch_message s r mcl w | None => (s, []) end
  | Fire =>
      match exchanges s with
      | Some ex => match next_timer ex None with
                   | Some ((r, mid), e) => _retransmit (set_now s (Z.max (now s) (ex_due e))) r mid
                   | None => (s, [])
                   end
      | None => (s, [])
      end
  | Adv d =>
      match (match exchanges s with Some ex => next_timer ex None | None => None end) with
      | Some (_, e) => if ex_due e >? now s + d then (set_now s (now s + d), []) else (s, [])
      | None => (set_now s (now s + d), [])
      end
  | Err r k => mm_dispatch_error s k r
  | Cancel q => cancel s q
  | ObsCancel q => (obs_cancel s q, [])
  | Refuse r on => (set_refusing s (if on then (if refuses s r then refusing s else refusing s ++ [r])
                                     else filter (fun x => negb (x =? r)) (refusing s)), [])
  | Shutdown => shutdown s
  end.

Fixpoint run (s : st) (es : list event) : st * list (list output) :=
  match es with
  | [] => (s, [])
  | e :: r => let '(s1, o) := step s e in let '(s2, os) := run s1 r in (s2, o :: os)
  end.

(* what the correspondence run compares at the end of a script *)
Definition snapshot (s : st) :=
  (match outgoing s with Some og => Some (map fst og) | None => None end,
   match exchanges s with Some ex => Some (map fst ex) | None => None end,
   map (fun b => (fst b, map (fun m => w_mid (fst m)) (snd b))) (backlogs s),
   now s).
