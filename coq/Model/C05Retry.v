(* C05 — block exchanges that are retried by the message layer.
   The block-wise client sits on top of the CoAP message layer (RFC 7252 section 4): every sub-request is one exchange with a fresh message id;
   a lost request or response makes the client's message layer retransmit the SAME message (same message id), so
     * the server's message layer may see the request any number of times; it passes the first copy to the application and answers every
       further copy with the stored response WITHOUT invoking the application again (deduplication — this is property C04's guarantee for
       aiocoap's own server, and RFC 7252 4.5 for any server);
     * the client's message layer may see the response any number of times; the first copy completes the sub-request (protocol.request's
       response future is resolved once), later copies find no exchange / token and are dropped (C02 / C10).
   [serve_retried serve] is an arbitrary application-level server [serve] behind exactly this layer, driven by an arbitrary schedule that
   says for every exchange how many extra copies of the request reach the server and how many extra copies of each response reach the
   client, or that the exchange dies (all transmissions of the request lost, or all responses lost).  No proofs in this file. *)
From Verif Require Import Lib.Py Model.C05.

Inductive fate :=
| Delivered (extra_requests extra_responses : nat)   (* the exchange succeeds; duplicates as given *)
| Dead (request_arrived : bool).                     (* MAX_RETRANSMIT exceeded: the sub-request fails in the transport *)

Section Retry.
  Context {S : Type}.
  Variable serve : S -> request -> S * sresult.

  Record rstate := { r_inner : S;                         (* the application-level server *)
                     r_cache : list (nat * sresult);       (* server message layer: message id -> stored response *)
                     r_mid : nat;                          (* client message layer: next fresh message id *)
                     r_sched : list fate }.                (* the network's plan for the coming exchanges *)
  Definition rinit (s : S) (sched : list fate) : rstate := {| r_inner := s; r_cache := []; r_mid := 0; r_sched := sched |}.

  Fixpoint lookup (mid : nat) (c : list (nat * sresult)) : option sresult :=
    match c with [] => None | (m, r) :: rest => if Nat.eqb m mid then Some r else lookup mid rest end.

  (* one copy of the request with message id [mid] arrives at the server *)
  Definition dedup_deliver (st : rstate) (mid : nat) (rq : request) : rstate * sresult :=
    match lookup mid (r_cache st) with
    | Some r => (st, r)                                     (* duplicate: stored response, application not invoked *)
    | None => let '(s', r) := serve (r_inner st) rq in
              ({| r_inner := s'; r_cache := (mid, r) :: r_cache st; r_mid := r_mid st; r_sched := r_sched st |}, r)
    end.
  (* n copies arrive one after the other; every copy is answered *)
  Fixpoint deliver_n (n : nat) (st : rstate) (mid : nat) (rq : request) : rstate * list sresult :=
    match n with
    | O => (st, [])
    | Datatypes.S k => let '(st1, r) := dedup_deliver st mid rq in let '(st2, rs) := deliver_n k st1 mid rq in (st2, r :: rs)
    end.
  (* the copies of the responses that reach the client, in order *)
  Definition arriving (rs : list sresult) (extra_responses : nat) : list sresult :=
    flat_map (fun r => repeat r (Datatypes.S extra_responses)) rs.

  Definition serve_retried (st : rstate) (rq : request) : rstate * sresult :=
    let mid := r_mid st in
    let f := hd (Delivered 0 0) (r_sched st) in
    let st0 := {| r_inner := r_inner st; r_cache := r_cache st; r_mid := Datatypes.S mid; r_sched := tl (r_sched st) |} in
    match f with
    | Delivered dq dr => let '(st1, rs) := deliver_n (Datatypes.S dq) st0 mid rq in
                         (st1, hd SFail (arriving rs dr))   (* the first copy resolves the sub-request; the others are dropped *)
    | Dead true => let '(st1, _) := deliver_n 1 st0 mid rq in (st1, SFail)
    | Dead false => (st0, SFail)
    end.

  (* the same network WITHOUT the deduplicating layer: every copy of the request reaches the application *)
  Fixpoint deliver_raw (n : nat) (s : S) (rq : request) : S * list sresult :=
    match n with
    | O => (s, [])
    | Datatypes.S k => let '(s1, r) := serve s rq in let '(s2, rs) := deliver_raw k s1 rq in (s2, r :: rs)
    end.
  Definition serve_nodedup (st : S * list fate) (rq : request) : (S * list fate) * sresult :=
    match hd (Delivered 0 0) (snd st) with
    | Delivered dq dr => let '(s1, rs) := deliver_raw (Datatypes.S dq) (fst st) rq in ((s1, tl (snd st)), hd SFail (arriving rs dr))
    | Dead true => let '(s1, _) := deliver_raw 1 (fst st) rq in ((s1, tl (snd st)), SFail)
    | Dead false => ((fst st, tl (snd st)), SFail)
    end.
End Retry.

Definition is_delivered (f : fate) : bool := match f with Delivered _ _ => true | Dead _ => false end.
