(* C16 — Python str / bytes primitives used by the URI code, as total Gallina functions.
   A Python str is the list of its code points (Z); bytes are lists of Z in 0..255 (Lib/Py.v).
   These are the intrinsics the translated kernels (Gen/uri_kernels.v) and the hand model
   (Model/C16.v) are written in. No proofs in this file. *)
From Verif Require Import Lib.Py.
Open Scope Z_scope.

Notation str := (list Z) (only parsing).
(* exceptions that Lib/Py.v has no constructor for *)
Notation UnicodeEncodeError := (OtherError 16).
Notation Unmodelled := (OtherError 99).       (* the input leaves the modelled part of the stdlib (Unicode tables) *)

Definition mem (c : Z) (s : str) : bool := existsb (Z.eqb c) s.            (* c in s *)
Definition is_ascii (c : Z) : bool := c <? 128.
Definition all_ascii (s : str) : bool := forallb is_ascii s.               (* s.isascii() *)
Definition is_upper (c : Z) : bool := (65 <=? c) && (c <=? 90).
Definition is_lower (c : Z) : bool := (97 <=? c) && (c <=? 122).
Definition is_alpha (c : Z) : bool := is_upper c || is_lower c.            (* ASCII letters *)
Definition is_digit (c : Z) : bool := (48 <=? c) && (c <=? 57).            (* ASCII digits *)
Definition lower_c (c : Z) : Z := if is_upper c then c + 32 else c.
Definition lower_ascii (s : str) : str := map lower_c s.                   (* s.lower() for ASCII s *)

Fixpoint startswith (s p : str) : bool :=
  match p, s with
  | [], _ => true
  | c :: p', x :: s' => (x =? c) && startswith s' p'
  | _ :: _, [] => false
  end.
Definition endswith (s p : str) : bool := startswith (rev s) (rev p).

(* "%02X" % x for a byte x; "%d" % n; int(s) for a string of ASCII digits *)
Definition hexdigit_upper (n : Z) : Z := if n <? 10 then 48 + n else 55 + n.
Definition hex02X (x : Z) : str := [hexdigit_upper (x / 16); hexdigit_upper (x mod 16)].
Definition hexval (c : Z) : option Z :=
  if is_digit c then Some (c - 48)
  else if (65 <=? c) && (c <=? 70) then Some (c - 55)
  else if (97 <=? c) && (c <=? 102) then Some (c - 87)
  else None.
Fixpoint dec_digits (fuel : nat) (n : Z) (acc : str) : str :=
  match fuel with
  | O => acc
  | S f => let acc' := (48 + n mod 10) :: acc in if n <? 10 then acc' else dec_digits f (n / 10) acc'
  end.
Definition print_nat_dec (n : Z) : str := dec_digits (S (Z.to_nat (Z.log2 n))) n [].
Definition print_dec (n : Z) : str := if n <? 0 then 45 :: print_nat_dec (- n) else print_nat_dec n.
Definition parse_dec (s : str) : Z := fold_left (fun a c => a * 10 + (c - 48)) s 0.
(* int(s) where s consists of ASCII digits: CPython refuses more than 4300 digits (sys.int_info.default_max_str_digits) *)
Definition py_int_digits (s : str) : M Z :=
  if (4300 <? blen s) || (blen s =? 0) then Raise ValueError else Ok (parse_dec s).

(* s.partition(c), s.rpartition(c) for a one-character separator: (before, found, after) *)
Fixpoint partition (c : Z) (s : str) : str * bool * str :=
  match s with
  | [] => ([], false, [])
  | x :: r => if x =? c then ([], true, r) else let '(a, h, b) := partition c r in (x :: a, h, b)
  end.
Definition rpartition (c : Z) (s : str) : str * bool * str :=
  let '(a, h, b) := partition c (rev s) in if h then (rev b, true, rev a) else ([], false, s).
(* s.split(c) *)
Fixpoint split_on (c : Z) (s : str) : list str :=
  match s with
  | [] => [[]]
  | x :: r => if x =? c then [] :: split_on c r
              else match split_on c r with h :: t => (x :: h) :: t | [] => [[x]] end
  end.
(* sep.join(l) *)
Fixpoint join (sep : str) (l : list str) : str :=
  match l with [] => [] | [a] => a | a :: r => a ++ sep ++ join sep r end.
(* s.count(c) *)
Definition count_c (c : Z) (s : str) : Z := blen (filter (Z.eqb c) s).
(* s.translate(table) for a table of (from, to) code points *)
Fixpoint lookup_tbl (t : list (Z * Z)) (c : Z) : Z :=
  match t with [] => c | (a, b) :: r => if a =? c then b else lookup_tbl r c end.
Definition translate (t : list (Z * Z)) (s : str) : str := map (lookup_tbl t) s.
(* s.lstrip(chars <= 0x20): _WHATWG_C0_CONTROL_OR_SPACE *)
Fixpoint lstrip_c0 (s : str) : str :=
  match s with c :: r => if (0 <=? c) && (c <=? 32) then lstrip_c0 r else s | [] => [] end.

(* ---- UTF-8, CPython's strict codec: str.encode("utf8") / bytes.decode("utf-8", "strict") *)
Definition is_surrogate (c : Z) : bool := (55296 <=? c) && (c <=? 57343).
Definition utf8_encode_char (c : Z) : M (list Z) :=
  if c <? 0 then Raise UnicodeEncodeError
  else if c <? 128 then Ok [c]
  else if c <? 2048 then Ok [192 + c / 64; 128 + c mod 64]
  else if c <? 65536 then
    if is_surrogate c then Raise UnicodeEncodeError
    else Ok [224 + c / 4096; 128 + (c / 64) mod 64; 128 + c mod 64]
  else if c <? 1114112 then Ok [240 + c / 262144; 128 + (c / 4096) mod 64; 128 + (c / 64) mod 64; 128 + c mod 64]
  else Raise UnicodeEncodeError.
Fixpoint utf8_encode (s : str) : M (list Z) :=
  match s with
  | [] => Ok []
  | c :: r => b <- utf8_encode_char c ;; rest <- utf8_encode r ;; Ok (b ++ rest)
  end.
Definition is_cont (b : Z) : bool := (128 <=? b) && (b <? 192).
Fixpoint utf8_decode (b : list Z) : M str :=
  match b with
  | [] => Ok []
  | b0 :: r =>
    if (0 <=? b0) && (b0 <? 128) then rest <- utf8_decode r ;; Ok (b0 :: rest)
    else if (194 <=? b0) && (b0 <? 224) then
      match r with
      | b1 :: r' => if is_cont b1 then rest <- utf8_decode r' ;; Ok (((b0 - 192) * 64 + (b1 - 128)) :: rest)
                    else Raise UnicodeDecodeError
      | _ => Raise UnicodeDecodeError
      end
    else if (224 <=? b0) && (b0 <? 240) then
      match r with
      | b1 :: b2 :: r' =>
        if is_cont b1 && is_cont b2 && implb (b0 =? 224) (160 <=? b1) && implb (b0 =? 237) (b1 <? 160)
        then rest <- utf8_decode r' ;; Ok (((b0 - 224) * 4096 + (b1 - 128) * 64 + (b2 - 128)) :: rest)
        else Raise UnicodeDecodeError
      | _ => Raise UnicodeDecodeError
      end
    else if (240 <=? b0) && (b0 <? 245) then
      match r with
      | b1 :: b2 :: b3 :: r' =>
        if is_cont b1 && is_cont b2 && is_cont b3 && implb (b0 =? 240) (144 <=? b1) && implb (b0 =? 244) (b1 <? 144)
        then rest <- utf8_decode r' ;;
             Ok (((b0 - 240) * 262144 + (b1 - 128) * 4096 + (b2 - 128) * 64 + (b3 - 128)) :: rest)
        else Raise UnicodeDecodeError
      | _ => Raise UnicodeDecodeError
      end
    else Raise UnicodeDecodeError
  end.

(* a str that can be encoded: Unicode scalar values only (no lone surrogates) *)
Definition scalar (c : Z) : bool := (0 <=? c) && (c <? 1114112) && negb (is_surrogate c).
Definition valid_str (s : str) : bool := forallb scalar s.
