(* C01 — views for the correspondence run that need both the code model and the specification. No proofs in this file. *)
From Verif Require Import Lib.Py Model.C01Types Model.C01 Model.C01Rfc.
Open Scope Z_scope.

(* the specification's executable parser, shown with the same size-bounded byte views as the code model's results *)
Definition rparse_view (r : option rmsg) :=
  match r with
  | None => None
  | Some rm => Some (r_type rm, r_code rm, r_mid rm, bv (r_token rm), map (fun o => (fst o, bv (snd o))) (r_options rm), bv (r_payload rm))
  end.
Definition decode_trace_spec (data : bytes) := (decode_trace data, rparse_view (rfc_parse data)).
