(* C07 — the observation path of Context.request(handle_blockwise=True):
     aiocoap/protocol.py  BlockwiseRequest._run (876-1049: first response, NotObservable, start of the observation task),
                          BlockwiseRequest._run_observation (1051-1079), _complete_by_requesting_block2 (1081-1144),
                          _run_outer (848-868: failure of the first phase)
   on top of the lower Request (Model/C07.v, Model/C07Stack.v: main token) and the lossy iterator with a busy consumer
   (Model/C07Iter.v).  The lower observation's iterator is registered on the lower model as pseudo-observer 99: what that
   observer is handed (OCb 99 id / OEb 99 e) are exactly the _Iterator.push / push_err calls.
   Block arithmetic is C05's subject; here a body is a number of blocks of the minimum size.  Requests are non-confirmable
   (no retransmission timers).  No proofs in this file. *)
From Verif Require Import Lib.Py Gen.protocol_is_recent Model.C07 Model.C07Stack Model.C07Iter.
Open Scope Z_scope.

(* the Block2 option of a response and whether its payload length fits it *)
Inductive blk := BNone | BBlock (num : Z) (more : bool) (size_ok : bool).
Record rinfo := { r_id : Z; r_blk : blk; r_etag_ok : bool }.

Inductive bout :=
| BResp (id n : Z) | BRespExn (e : exn)      (* request.response: assembled from n blocks, first block's message id *)
| BCb (id n : Z) | BEb (e : exn)             (* the outer observation's callback / errback (observer registered at the start) *)
| BReq (num : Z)                             (* a follow-up request for block num was sent *)
| BWire (t : mtype).                         (* reply to the injected datagram *)

(* the outstanding follow-up request: for the first response (observable or not) or for a notification *)
Inductive fetch := FNone | FFirst (id n : Z) (observable : bool) | FNotif (id n : Z).
Inductive cstate := CNotStarted | CRunning (g : gstate) | CDone.

Record bw := {
  b_k : stack;                (* the lower request on the main token *)
  b_info : list rinfo;        (* Block2 information of the main-token responses seen so far *)
  b_fetch : fetch;
  b_cons : cstate;            (* _run_observation: `async for block1_notification in lower_observation` *)
  b_outer_live : bool;        (* the outer ClientObservation has not been cancelled *)
  b_first_done : bool }.      (* BlockwiseRequest._run got the lower first response *)

Definition bw0 (reset t0 : Z) : bw :=
  {| b_k := stack0 true reset false t0; b_info := []; b_fetch := FNone; b_cons := CNotStarted; b_outer_live := true; b_first_done := false |}.

Definition set_k (b : bw) (k : stack) : bw :=
  {| b_k := k; b_info := b_info b; b_fetch := b_fetch b; b_cons := b_cons b; b_outer_live := b_outer_live b; b_first_done := b_first_done b |}.
Definition set_fc (b : bw) (f : fetch) (c : cstate) (live : bool) : bw :=
  {| b_k := b_k b; b_info := b_info b; b_fetch := f; b_cons := c; b_outer_live := live; b_first_done := b_first_done b |}.

Fixpoint lookup (l : list rinfo) (id : Z) : blk :=
  match l with [] => BNone | r :: rest => if r_id r =? id then r_blk r else lookup rest id end.

(* _complete_by_requesting_block2, up to its first await *)
Inductive cres := CImmediate | CFetch | CFail (e : exn).
Definition complete_start (b : blk) : cres :=
  match b with
  | BNone => CImmediate
  | BBlock num more _ =>
      if negb (num =? 0) then CFail UnexpectedBlock2      (* a later block is not the body that was asked for *)
      else if more then CFetch else CImmediate
  end.

(* _complete_by_requesting_block2, one follow-up response while n blocks are assembled:
   inl (id', n') = done, the message to hand over; inr None = next block requested; inr (Some e) = failed *)
Definition complete_next (id n : Z) (r : rinfo) : (Z * Z) + option exn :=
  match r_blk r with
  | BNone => inl (r_id r, 1)                               (* "Server sent non-blockwise response ...": accepted as it is *)
  | BBlock num more size_ok =>
      if negb size_ok then inr (Some UnexpectedBlock2)     (* Message._append_response_block *)
      else if negb (num =? n) then inr (Some NotImplementedError)
      else if negb (r_etag_ok r) then inr (Some ResourceChanged)
      else if more then inr None else inl (id, n + 1)
  end.

(* lower_observation.cancel() in _run_observation's finally clause *)
Definition cancel_lower (b : bw) (now : Z) : bw :=
  if cancelled (s_obs (k_sys (b_k b))) then b else set_k b (fst (sstep (b_k b) (SApp now OpCancelObs))).

Definition end_signal (e : exn) : exn :=
  match e with NotObservable => ObservationCancelled | ObservationCancelled => ObservationCancelled | _ => e end.

(* the observation task runs until it blocks (on the iterator or on a follow-up response) or ends *)
Fixpoint consumer_run (fuel : nat) (now : Z) (b : bw) : bw * list bout :=
  match fuel with
  | O => (b, [])
  | S fuel' =>
    match b_cons b, b_fetch b with
    | CRunning g, FNone =>
        let '(g', ys) := match g with GBusy _ => gpull g | _ => gwake g end in
        match ys with
        | [] => (set_fc b FNone (CRunning g') (b_outer_live b), [])
        | IErr e :: _ =>                                   (* the async for ends / raises *)
            (cancel_lower (set_fc b FNone CDone false) now, [BEb (end_signal e)])
        | IMsg id :: _ =>
            match complete_start (lookup (b_info b) id) with
            | CImmediate =>
                let '(b', o) := consumer_run fuel' now (set_fc b FNone (CRunning g') (b_outer_live b)) in (b', BCb id 1 :: o)
            | CFetch => (set_fc b (FNotif id 1) (CRunning g') (b_outer_live b), [BReq 1])
            | CFail e => (cancel_lower (set_fc b FNone CDone false) now, [BEb e])
            end
        end
    | _, _ => (b, [])
    end
  end.

(* what the lower layer did, seen from BlockwiseRequest: pushes into the lower observation's iterator, the lower
   response future, the wire *)
Fixpoint lower_pushes (outs : list sout) (c : cstate) : cstate :=
  match outs with
  | [] => c
  | App (OCb 99 id) :: r => lower_pushes r (match c with CRunning g => CRunning (gpush g (IMsg id)) | _ => c end)
  | App (OEb 99 (Some e)) :: r => lower_pushes r (match c with CRunning g => CRunning (gpush g (IErr e)) | _ => c end)
  | _ :: r => lower_pushes r c
  end.
Fixpoint lower_wires (outs : list sout) : list bout :=
  match outs with [] => [] | Wire t :: r => BWire t :: lower_wires r | _ :: r => lower_wires r end.
Fixpoint lower_first (outs : list sout) : option (Z + exn) :=
  match outs with
  | [] => None
  | App (OResp id) :: _ => Some (inl id)
  | App (ORespExn e) :: _ => Some (inr e)
  | _ :: r => lower_first r
  end.

(* `async for` starts: __aiter__ registers push / push_err on the lower observation (replay of the latest / of the end) *)
Definition start_consumer (b : bw) (now : Z) : bw :=
  let '(k', outs) := sstep (b_k b) (SApp now (OpRegister 99)) in
  let b1 := set_k b k' in
  set_fc b1 (b_fetch b1) (lower_pushes outs (CRunning (GBlocked None None))) (b_outer_live b1).

Definition first_done (b : bw) : bw :=
  {| b_k := b_k b; b_info := b_info b; b_fetch := b_fetch b; b_cons := b_cons b; b_outer_live := b_outer_live b; b_first_done := true |}.

(* BlockwiseRequest._run after `blockresponse = await blockrequest.response` *)
Definition first_response (b : bw) (now : Z) (r : Z + exn) (observable : bool) : bw * list bout :=
  let b := first_done b in
  match r with
  | inr e => (set_fc b FNone CDone false, [BRespExn e; BEb e])       (* _run_outer: response and observation get e *)
  | inl id =>
      let live := observable in                                       (* else obs.error(NotObservable()) *)
      let pre := if observable then [] else [BEb NotObservable] in
      match complete_start (lookup (b_info b) id) with
      | CImmediate =>
          let b1 := set_fc b FNone (b_cons b) live in
          (if observable then start_consumer b1 now else b1, BResp id 1 :: pre)
      | CFetch => (set_fc b (FFirst id 1 observable) (b_cons b) live, pre ++ [BReq 1])
      | CFail e => (set_fc b FNone CDone false, BRespExn e :: pre ++ (if live then [BEb e] else []))
      end
  end.

Inductive bop :=
| BMain (now : Z) (mt : mtype) (id : Z) (observe : option Z) (bl : blk)     (* response datagram on the observation's token *)
| BSub (now : Z) (mt : mtype) (id : Z) (bl : blk) (etag_ok : bool)          (* response datagram on the latest follow-up's token *)
| BNetError (now : Z)
| BDrain (now : Z).

Definition is_resp (o : bout) : bool := match o with BResp _ _ => true | BRespExn _ => true | _ => false end.
Definition is_obs (o : bout) : bool := match o with BCb _ _ => true | BEb _ => true | _ => false end.
Definition is_req (o : bout) : bool := match o with BReq _ => true | _ => false end.
Definition is_wire (o : bout) : bool := match o with BWire _ => true | _ => false end.
(* the harness reports per op: response future, then observer output in order, then requests sent, then replies *)
Definition canon (l : list bout) : list bout := filter is_resp l ++ filter is_obs l ++ filter is_req l ++ filter is_wire l.

(* a follow-up fails: the exception travels up from _complete_by_requesting_block2 *)
Definition fetch_failed (b : bw) (now : Z) (e : exn) : bw * list bout :=
  match b_fetch b with
  | FNone => (b, [])
  | FFirst _ _ _ =>       (* _run_outer; the lower observation is NOT cancelled on this path *)
      (set_fc b FNone CDone false, BRespExn e :: (if b_outer_live b then [BEb e] else []))
  | FNotif _ _ =>         (* _run_observation: observation.error(e); finally: lower_observation.cancel() *)
      (cancel_lower (set_fc b FNone CDone false) now, [BEb e])
  end.

Definition bstep (b : bw) (o : bop) : bw * list bout :=
  match o with
  | BMain now mt id observe bl =>
      let b0 := {| b_k := b_k b; b_info := {| r_id := id; r_blk := bl; r_etag_ok := true |} :: b_info b; b_fetch := b_fetch b;
                   b_cons := b_cons b; b_outer_live := b_outer_live b; b_first_done := b_first_done b |} in
      let '(k', outs) := sstep (b_k b0) (SResponse now mt id observe true (match mt with ACK => true | _ => false end)) in
      let b1 := set_fc (set_k b0 k') (b_fetch b0) (lower_pushes outs (b_cons b0)) (b_outer_live b0) in
      (* BlockwiseRequest._run awaits the lower response future exactly once *)
      let '(b2, o2) := match (if b_first_done b1 then None else lower_first outs) with
                       | Some r => first_response b1 now r (is_some observe)
                       | None => (b1, [])
                       end in
      let '(b3, o3) := consumer_run 4 now b2 in
      (b3, canon (o2 ++ o3 ++ lower_wires outs))
  | BSub now mt id bl etag_ok =>
      let r := {| r_id := id; r_blk := bl; r_etag_ok := etag_ok |} in
      let ack := match mt with CON => [BWire ACK] | _ => [] end in
      match b_fetch b with
      | FNone => (b, match mt with CON => [BWire RST] | _ => [] end)        (* unknown token *)
      | FFirst fid n observable =>
          match complete_next fid n r with
          | inl (id', n') =>
              let b1 := set_fc b FNone (b_cons b) (b_outer_live b) in
              let b2 := if observable then start_consumer b1 now else b1 in
              let '(b3, o3) := consumer_run 4 now b2 in (b3, canon (BResp id' n' :: o3 ++ ack))
          | inr None => (set_fc b (FFirst fid (n + 1) observable) (b_cons b) (b_outer_live b), canon (BReq (n + 1) :: ack))
          | inr (Some e) => let '(b1, o1) := fetch_failed b now e in (b1, canon (o1 ++ ack))
          end
      | FNotif fid n =>
          match complete_next fid n r with
          | inl (id', n') =>
              let '(b3, o3) := consumer_run 4 now (set_fc b FNone (b_cons b) (b_outer_live b)) in (b3, canon (BCb id' n' :: o3 ++ ack))
          | inr None => (set_fc b (FNotif fid (n + 1)) (b_cons b) (b_outer_live b), canon (BReq (n + 1) :: ack))
          | inr (Some e) => let '(b1, o1) := fetch_failed b now e in (b1, canon (o1 ++ ack))
          end
      end
  | BNetError now =>
      (* TokenManager.dispatch_error: the main-token request first, then the follow-up request *)
      let '(k', outs) := sstep (b_k b) (SNetError now) in
      let b1 := set_fc (set_k b k') (b_fetch b) (lower_pushes outs (b_cons b)) (b_outer_live b) in
      let '(b2, o2) := match (if b_first_done b1 then None else lower_first outs) with
                       | Some r => first_response b1 now r false
                       | None => (b1, [])
                       end in
      let '(b3, o3) := fetch_failed b2 now NetworkError in
      let '(b4, o4) := consumer_run 4 now b3 in
      (b4, canon (o2 ++ o3 ++ o4))
  | BDrain now =>
      let '(k', outs) := sstep (b_k b) (SApp now OpDrain) in
      let '(b1, o1) := consumer_run 4 now (set_k b k') in (b1, canon o1)
  end.

Definition tokens_left (b : bw) : Z :=
  (if k_token (b_k b) then 1 else 0) + (match b_fetch b with FNone => 0 | _ => 1 end).

Fixpoint brun (b : bw) (ops : list bop) : list (list bout) * Z :=
  match ops with
  | [] => ([], tokens_left b)
  | o :: rest => let '(b', outs) := bstep b o in let '(r, t) := brun b' rest in (outs :: r, t)
  end.
