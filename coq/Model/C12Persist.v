(* C12 — ReplayWindow.persist / initialize_from_persisted (oscore.py) as used by FilesystemSecurityContext._destroy / _load:
   the persisted form is {"index": i, "bitfield": b}, both null while the window is uninitialised; a reloaded context
   starts from that form.  No proofs in this file. *)
From Verif Require Import Lib.Py Gen.oscore_replay Model.C12.
Open Scope Z_scope.

(* ReplayWindow.persist: the two members of the dict (None = JSON null) *)
Definition persist (w : option rw) : option Z * option Z :=
  match w with Some w => (Some (rw_index w), Some (rw_bitfield w)) | None => (None, None) end.
(* ReplayWindow(size, cb).initialize_from_persisted(p); is_initialized() is [_index is not None] *)
Definition initialize_from_persisted (size : Z) (p : option Z * option Z) : option rw :=
  match p with
  | (Some i, Some b) => Some {| rw_size := size; rw_index := i; rw_bitfield := b |}
  | (Some i, None) => Some {| rw_size := size; rw_index := i; rw_bitfield := 0 |}   (* not produced by persist *)
  | (None, _) => None
  end.
(* a clean stop followed by a reload of the same context directory, as far as the replay window is concerned *)
Definition reload (c : ctx) : ctx :=
  {| size := size c; window := initialize_from_persisted (size c) (persist (window c)); echo_recovery := echo_recovery c |}.
(* a history of requests with one reload before request number k *)
Definition run_reload (c : ctx) (k : nat) (rs : list preq) : ctx * list outcome :=
  let '(c1, o1) := run c (firstn k rs) in
  let '(c2, o2) := run (reload c1) (skipn k rs) in (c2, o1 ++ o2).
