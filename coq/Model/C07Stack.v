(* C07 — the observing request inside the token / message layers (one request, one server endpoint):
     aiocoap/tokenmanager.py    TokenManager.process_response (177-208), dispatch_error (74-110), request (220-253:
                                the on_interest_end callback pops the key)
     aiocoap/messagemanager.py  dispatch_message (97-155: empty ACK for a matched CON response, RST for an unmatched one,
                                nothing for NON), _remove_exchange (265-285: RST -> messageerror_monitor), _retransmit giving up
   on top of Model/C07.v.  Responses are not deduplicated by message id (messagemanager.py:103-116), so a duplicated
   notification reaches Request._run like any other.  No proofs in this file. *)
From Verif Require Import Lib.Py Gen.protocol_is_recent Model.C07.
Open Scope Z_scope.

Inductive mtype := CON | NON | ACK | RST.
Inductive sout := App (o : out) | Wire (t : mtype).      (* Wire: reply put on the wire for the injected datagram *)

Record stack := {
  k_sys : sys;
  k_token : bool;             (* (token, remote) in TokenManager.outgoing_requests *)
  k_exchange : option Z;      (* CON request not yet ACKed: time at which _retransmit gives up *)
  k_now : Z }.                (* the loop's clock *)

(* sum of the retransmission timeouts with ACK_TIMEOUT = 2 s drawn at the lower bound, MAX_RETRANSMIT = 4: 2+4+8+16+32 s *)
Definition GIVE_UP : Z := 62000000.

Definition stack0 (has_obs : bool) (reset : Z) (con : bool) (t0 : Z) : stack :=
  {| k_sys := sys0 has_obs reset; k_token := true; k_exchange := if con then Some (t0 + GIVE_UP) else None; k_now := t0 |}.

(* whatever ends the pipe's interest pops the key (functools.partial(self.outgoing_requests.pop, key, None)) *)
Definition sync (k : stack) (s' : sys) (tok : bool) (ex : option Z) : stack :=
  {| k_sys := s'; k_token := tok && negb (s_ended s'); k_exchange := ex; k_now := k_now k |}.

Definition escaped (outs : list out) : bool :=
  existsb (fun o => match o with OEscaped _ => true | _ => false end) outs.
Definition is_some {A} (x : option A) : bool := match x with Some _ => true | None => false end.

(* TokenManager.process_response; third component: matched (True) / could not be matched (False) *)
Definition process_response (k : stack) (now id : Z) (observe : option Z) (token_ok : bool) : stack * list out * bool :=
  if negb (token_ok && k_token k) then (k, [], false)
  else
    let final := negb (s_has_obs (k_sys k) && is_some observe) in
    let '(s', outs) := add_event (k_sys k) now (EvMsg id observe final) in
    (sync k s' (k_token k && negb final) (k_exchange k), outs, true).

(* TokenManager.dispatch_error: the exception goes to every outgoing request of that remote *)
Definition dispatch_error (k : stack) (e : exn) : stack * list out :=
  if k_token k then let '(s', outs) := add_event (k_sys k) 0 (EvExn e) in (sync k s' true None, outs)
  else (sync k (k_sys k) false None, []).

(* time passes up to `now`: MessageManager._retransmit runs out of retransmissions *)
Definition timeouts (k : stack) (now : Z) : stack * list out :=
  match k_exchange k with
  | Some d => if d <=? now then dispatch_error k ConRetransmitsExceeded else (k, [])
  | None => (k, [])
  end.

Inductive sop :=
| SResponse (now : Z) (mt : mtype) (id : Z) (observe : option Z) (token_ok : bool) (mid_of_request : bool)
      (* a response datagram CON / NON / ACK; mid_of_request: it carries the request's message id (piggy-backed ACK) *)
| SEmpty (now : Z) (mt : mtype) (mid_of_request : bool)      (* empty ACK / RST *)
| SNetError (now : Z)                                         (* transport reports an error for the remote (ICMP) *)
| SApp (now : Z) (o : op).                                    (* application side / loop, see Model/C07.op *)

Definition lift (x : stack * list out) : stack * list sout := (fst x, map App (snd x)).

(* the harness lets the loop run until idle, then advances the clock (firing timers), which runs the loop again *)
Definition drain_stack (k : stack) : stack * list out :=
  let '(s', outs) := drain (k_sys k) in (sync k s' (k_token k) (k_exchange k), outs).
Definition pass_time (k : stack) (now : Z) : stack * list out :=
  if k_now k <? now then
    let '(k1, o1) := drain_stack k in
    let '(k2, o2) := timeouts k1 now in
    let '(k3, o3) := drain_stack k2 in
    ({| k_sys := k_sys k3; k_token := k_token k3; k_exchange := k_exchange k3; k_now := now |}, o1 ++ o2 ++ o3)
  else (k, []).

(* MessageManager.dispatch_message for an empty ACK / RST — and for an RST that carries a response code: _remove_exchange
   runs for every ACK / RST (messagemanager.py:117-118), after which a Reset with a code "doesn't fit" and is ignored (148-154) *)
Definition empty_step (k : stack) (now : Z) (mt : mtype) (mid_req : bool) : stack * list sout :=
  match mt, mid_req, k_exchange k with
  | ACK, true, Some _ => (sync k (k_sys k) (k_token k) None, [])
  | RST, true, Some _ =>                                (* messageerror_monitor: request.add_exception(MessageError) *)
      let '(s', outs) := add_event (k_sys k) now (EvExn MessageError) in (sync k s' (k_token k) None, map App outs)
  | _, _, _ => (k, [])
  end.

Definition sstep (k0 : stack) (o : sop) : stack * list sout :=
  let now := match o with SResponse n _ _ _ _ _ => n | SEmpty n _ _ => n | SNetError n => n | SApp n _ => n end in
  let '(k, outs0) := pass_time k0 now in
  let '(k', outs) :=
    match o with
    | SResponse _ RST _ _ _ mid_req => empty_step k now RST mid_req     (* never reaches TokenManager.process_response *)
    | SResponse _ mt id observe token_ok mid_req =>
        (* MessageManager.dispatch_message: an ACK with the request's mid removes the exchange first *)
        let k1 := match mt with ACK => if mid_req then sync k (k_sys k) (k_token k) None else k | _ => k end in
        let '(k2, outs, matched) := process_response k1 now id observe token_ok in
        if escaped outs then (k2, map App outs)              (* exception out of dispatch_message: no reply *)
        else (k2, map App outs ++ match mt with CON => [Wire (if matched then ACK else RST)] | _ => [] end)
    | SEmpty _ mt mid_req => empty_step k now mt mid_req
    | SNetError _ =>                                          (* MessageManager.dispatch_error *)
        (* an exception out of TokenManager.dispatch_error skips the removal of the remote's exchanges *)
        let '(k1, outs) := dispatch_error k NetworkError in
        (sync k1 (k_sys k1) (k_token k1) (if escaped outs then k_exchange k else None), map App outs)
    | SApp _ a =>
        let '(s', outs) := step (k_sys k) a in (sync k s' (k_token k) (k_exchange k), map App outs)
    end in
  (k', map App outs0 ++ outs).

Fixpoint srun (k : stack) (ops : list sop) : list (list sout) * bool :=
  match ops with
  | [] => ([], k_token k)
  | o :: rest => let '(k', outs) := sstep k o in let '(r, tok) := srun k' rest in (outs :: r, tok)
  end.
