(* C01 — executable model of the datagram codec of aiocoap, as the code is now.
   Translated from source on every run (tie T): Gen/options_ext.v (_read/_write_extended_field_value),
   Gen/optiontypes_min.v (_to_minimum_bytes), Gen/optnum_table.v (OptionNumber enum + set_format table).
   Written by hand here, each function named after the Python method it mirrors, and tied to the code by the
   correspondence run (tie C): the per-format value codecs (optiontypes.py), Options.decode / Options.encode /
   add_option / option_list (options.py), Message.decode / Message.encode (message.py).
   No proofs in this file. *)
From Verif Require Import Lib.Py Gen.options_ext Gen.optiontypes_min Gen.optnum_table Model.C01Types Model.C01Utf8.
Open Scope Z_scope.

(* ------------------------------------------------------------------ numbers/optionnumbers.py *)

(* OptionNumber._get_format (optionnumbers.py:95-99): the class registered with set_format, else the default *)
Definition get_format (number : Z) : fmt :=
  match find (fun p => fst p =? number) format_table with
  | Some (_, f) => f
  | None => default_format
  end.

(* ------------------------------------------------------------------ optiontypes.py *)

(* StringOption.encode / decode (optiontypes.py:55-61) *)
Definition StringOption_encode (value : list Z) : M bytes := utf8_encode value.
Definition StringOption_decode (rawdata : bytes) : M optval := s <- utf8_decode rawdata ;; Ok (VString s).
(* OpaqueOption.encode / decode (optiontypes.py:80-85) *)
Definition OpaqueOption_encode (value : bytes) : M bytes := Ok value.
Definition OpaqueOption_decode (rawdata : bytes) : M optval := Ok (VOpaque rawdata).
(* UintOption.encode / decode (optiontypes.py:101-105) *)
Definition UintOption_encode (value : Z) : M bytes := to_minimum_bytes_py value.
Definition UintOption_decode (rawdata : bytes) : M optval := Ok (VUint (from_bytes_big rawdata)).
(* BlockOption.encode / decode (optiontypes.py:228-243) *)
Definition BlockOption_encode (block_number : Z) (more : bool) (size_exponent : Z) : M bytes :=
  let as_integer := (Z.shiftl block_number 4) + ((if more then 1 else 0) * 8) + size_exponent in
  to_minimum_bytes_py as_integer.
Definition BlockOption_decode (rawdata : bytes) : M optval :=
  let as_integer := from_bytes_big rawdata in
  Ok (VBlock (Z.shiftr as_integer 4) (negb (Z.land as_integer 8 =? 0)) (Z.land as_integer 7)).
(* ContentFormatOption.encode / decode (optiontypes.py:258-263); ContentFormat(n) accepts every int *)
Definition ContentFormatOption_encode (value : Z) : M bytes := to_minimum_bytes_py value.
Definition ContentFormatOption_decode (rawdata : bytes) : M optval := Ok (VContentFormat (from_bytes_big rawdata)).

(* option.encode(): dispatch on the class of the option object *)
Definition option_encode (v : optval) : M bytes :=
  match v with
  | VOpaque b => OpaqueOption_encode b
  | VString s => StringOption_encode s
  | VUint n => UintOption_encode n
  | VBlock num more szx => BlockOption_encode num more szx
  | VContentFormat n => ContentFormatOption_encode n
  end.

(* OptionNumber.create_option(decode=rawdata) (optionnumbers.py:127-140): option = self.format(self); option.decode(rawdata) *)
Definition create_option_decode (number : Z) (rawdata : bytes) : M optval :=
  match get_format number with
  | OpaqueOption => OpaqueOption_decode rawdata
  | StringOption => StringOption_decode rawdata
  | UintOption => UintOption_decode rawdata
  | BlockOption => BlockOption_decode rawdata
  | ContentFormatOption => ContentFormatOption_decode rawdata
  end.

(* ------------------------------------------------------------------ options.py *)

(* Options.add_option (options.py:209-211): _options.setdefault(number, []).append(option).
   The dict {number: [options]} is represented by the sequence of add_option calls; the only readers
   (option_list, get_option) see the options of one number in insertion order. *)
Definition add_option (self : list option_) (o : option_) : list option_ := self ++ [o].

(* Options.option_list (options.py:222-225): chain(sorted(_options.values(), key=first.number)) = the stable
   sort of the insertion sequence by option number *)
Fixpoint insert_option (o : option_) (l : list option_) : list option_ :=
  match l with
  | [] => [o]
  | x :: r => if fst o <=? fst x then o :: x :: r else x :: insert_option o r
  end.
Definition option_list (self : list option_) : list option_ := fold_right insert_option [] self.

(* bytes([x]) : ValueError unless 0 <= x < 256 *)
Definition bytes_of_int (x : Z) : M bytes := if byte_ok x then Ok [x] else Raise ValueError.

(* Options.decode (options.py:165-191).  The while loop runs on [fuel]; Options_decode supplies
   S (len rawdata), proved sufficient in Proofs/C01.v (every iteration consumes at least one byte). *)
Fixpoint Options_decode_loop (fuel : nat) (option_number : Z) (self : list option_) (rawdata : bytes)
  : M (list option_ * bytes) :=
  match fuel with
  | O => Raise OutOfFuel
  | S fuel' =>
    if blen rawdata =? 0 then Ok (self, [])                                  (* while rawdata: ... return b"" *)
    else
      b0 <- bget rawdata 0 ;;
      if b0 =? 255 then Ok (self, bfrom rawdata 1)                           (* return rawdata[1:] *)
      else
        let dllen := b0 in
        let delta := Z.shiftr (Z.land dllen 240) 4 in
        let length := Z.land dllen 15 in
        let rawdata := bfrom rawdata 1 in
        '(delta, rawdata) <- read_extended_field_value delta rawdata ;;
        '(length, rawdata) <- read_extended_field_value length rawdata ;;
        let option_number := option_number + delta in
        if blen rawdata <? length then Raise UnparsableMessage             (* Option announced but absent *)
        else
          option <- match create_option_decode option_number (bto rawdata length) with
                    | Raise UnicodeDecodeError => Raise UnparsableMessage    (* except UnicodeDecodeError *)
                    | r => r
                    end ;;
          let self := add_option self (option_number, option) in
          Options_decode_loop fuel' option_number self (bfrom rawdata length)
  end.
Definition Options_decode (self : list option_) (rawdata : bytes) : M (list option_ * bytes) :=
  Options_decode_loop (S (length rawdata)) 0 self rawdata.

(* Options.encode (options.py:193-207): the for loop over option_list(), data joined at the end *)
Fixpoint Options_encode_loop (current_opt_num : Z) (l : list option_) : M bytes :=
  match l with
  | [] => Ok []
  | (number, value) :: rest =>
    optiondata <- option_encode value ;;
    '(delta, extended_delta) <- write_extended_field_value (number - current_opt_num) ;;
    '(length, extended_length) <- write_extended_field_value (blen optiondata) ;;
    head <- bytes_of_int (Z.shiftl (Z.land delta 15) 4 + Z.land length 15) ;;
    data <- Options_encode_loop number rest ;;
    Ok (head ++ extended_delta ++ extended_length ++ optiondata ++ data)
  end.
Definition Options_encode (self : list option_) : M bytes := Options_encode_loop 0 (option_list self).

(* ------------------------------------------------------------------ message.py *)

(* struct.unpack("!BBH", b): struct.error unless len(b) == 4 *)
Definition struct_unpack_BBH (b : bytes) : M (Z * Z * Z) :=
  match b with
  | [x0; x1; x2; x3] => Ok (x0, x1, x2 * 256 + x3)
  | _ => Raise StructError
  end.
(* struct.pack("!BH", code, mid): struct.error when a value is out of range *)
Definition struct_pack_BH (code mid : Z) : M bytes :=
  if (0 <=? code) && (code <? 256) && (0 <=? mid) && (mid <? 65536)
  then Ok [code; mid / 256; mid mod 256] else Raise StructError.

(* Message.decode (message.py:337-357); Type(mtype) is defined for 0..3, Code(code) for every int *)
Definition Message_decode (rawdata : bytes) : M msg :=
  match struct_unpack_BBH (bto rawdata 4) with
  | Raise StructError => Raise UnparsableMessage                             (* except struct.error *)
  | Raise e => Raise e
  | Ok (vttkl, code, mid) =>
    let version := Z.shiftr (Z.land vttkl 192) 6 in
    if negb (version =? 1) then Raise UnparsableMessage
    else
      let mtype := Z.shiftr (Z.land vttkl 48) 4 in
      let token_length := Z.land vttkl 15 in
      let token := bslice rawdata 4 (4 + token_length) in
      '(opt, payload) <- Options_decode [] (bfrom rawdata (4 + token_length)) ;;
      Ok {| m_type := mtype; m_code := code; m_mid := mid; m_token := token; m_opt := opt; m_payload := payload |}
  end.

(* Message.encode (message.py:359-380); version is always 1; the direction assertion and the None checks
   concern fields that are not part of this record *)
Definition Message_encode (self : msg) : M bytes :=
  rawdata <- bytes_of_int (Z.shiftl 1 6 + Z.shiftl (Z.land (m_type self) 3) 4 + Z.land (blen (m_token self)) 15) ;;
  hdr <- struct_pack_BH (m_code self) (m_mid self) ;;
  let rawdata := rawdata ++ hdr in
  let rawdata := rawdata ++ m_token self in
  o <- Options_encode (m_opt self) ;;
  let rawdata := rawdata ++ o in
  if blen (m_payload self) >? 0 then Ok (rawdata ++ [255] ++ m_payload self) else Ok rawdata.

(* the view of a message that Message equality in the property is about: options as option_list() yields them *)
Definition canonical (m : msg) : msg :=
  {| m_type := m_type m; m_code := m_code m; m_mid := m_mid m; m_token := m_token m;
     m_opt := option_list (m_opt m); m_payload := m_payload m |}.

(* ------------------------------------------------------------------ transports: the receive path around Message.decode *)
(* udp6.py:621-630 datagram_msg_received, generic_udp.py:31-38 _received_datagram (and tinydtls.py:284-290, slipmux.py:414-421):
     try: message = Message.decode(data, remote)
     except <handled classes>: log.warning(...); return
     ...dispatch_message(message)
   [handles] is the except clause as a predicate, generated per site from the source (Gen/decode_handlers.v) *)
Inductive rx_outcome := Dispatched (m : msg) | Dropped | Escaped (e : exn).
Definition received_datagram (handles : exn -> bool) (data : bytes) : rx_outcome :=
  match Message_decode data with
  | Ok message => Dispatched message
  | Raise e => if handles e then Dropped else Escaped e
  end.

(* ------------------------------------------------------------------ helpers for the correspondence run only
   (canonical, size-bounded views of results; long byte strings are shown as (length, hash)) *)
Definition digest (b : bytes) : Z * Z := (blen b, fold_left (fun a x => Z.land (a * 257 + x + 1) 1073741823) b 0).
Inductive bview := BFull (b : bytes) | BDigest (len hash : Z).
Definition bv (b : bytes) : bview := if blen b <=? 64 then BFull b else let d := digest b in BDigest (fst d) (snd d).
(* integers above 2^200 are shown as [0; log2 n; n mod 1000000007] *)
Definition zv (n : Z) : list Z := if n <? 2 ^ 200 then [n] else [0; Z.log2 n; n mod 1000000007].
Definition optview (o : option_) : Z * Z * list Z * bview :=
  match snd o with
  | VOpaque b => (fst o, 0, [], bv b)
  | VString s => (fst o, 1, [], bv s)
  | VUint n => (fst o, 2, zv n, BFull [])
  | VBlock num more szx => (fst o, 3, zv num ++ [if more then 1 else 0; szx], BFull [])
  | VContentFormat n => (fst o, 4, zv n, BFull [])
  end.
Definition msgview (m : msg) :=
  (m_type m, m_code m, m_mid m, bv (m_token m), map optview (option_list (m_opt m)), bv (m_payload m)).
Definition mmap {A B} (f : A -> B) (x : M A) : M B := match x with Ok a => Ok (f a) | Raise e => Raise e end.
(* pattern repeated up to length n (large inputs without large literals) *)
Definition fill (pat : bytes) (n : Z) : bytes :=
  firstn (Z.to_nat n) (concat (repeat pat (Z.to_nat (n / (Z.max 1 (blen pat)) + 1)))).
(* decode stream: parse, re-encode the parsed message, parse that again *)
Definition decode_trace (data : bytes) :=
  let d := Message_decode data in
  let e := bind d Message_encode in
  (mmap msgview d, mmap bv e, mmap msgview (bind e Message_decode)).
(* encode stream: serialise, parse the result *)
Definition encode_trace (m : msg) :=
  let e := Message_encode m in (mmap bv e, mmap msgview (bind e Message_decode)).
(* option value stream: create_option(decode=raw) then option.encode() *)
Definition value_trace (number : Z) (raw : bytes) :=
  let d := create_option_decode number raw in
  (mmap (fun v => optview (number, v)) d, mmap bv (bind d option_encode)).
(* transport stream: what the receive path does with a datagram *)
Inductive rx_view := RxDispatched (v : Z * Z * Z * bview * list (Z * Z * list Z * bview) * bview) | RxDropped | RxEscaped (e : exn).
Definition received_trace (handles : exn -> bool) (data : bytes) : rx_view :=
  match received_datagram handles data with
  | Dispatched m => RxDispatched (msgview m) | Dropped => RxDropped | Escaped e => RxEscaped e
  end.
