(* C17 — Site routing and /.well-known/core.  Hand-written executable model (tie C) around the code
   generated from resource.py (Gen/resource_site.v, tie T):
     - the nested-site tree, Site.render / Site.render_to_pipe dispatch (resource.py:407-413, 464-487),
     - Site.get_resources_as_linkheader (resource.py:441-462), Link/LinkFormat.__str__ (util/linkformat.py),
     - WKCResource.render_get with any number of filter queries (resource.py:248-329),
     - the path Message.get_request_uri reconstructs on the server (message.py:613-634),
     - add_resource / remove_resource applied to a site addressed inside the tree.
   No proofs in this file. *)
From Verif Require Import Lib.Py Model.C17Base Gen.resource_site.
Open Scope Z_scope.
Open Scope string_scope.

(* ------------------------------------------------------------------ strings *)
(* sep.join(l) *)
Definition join (sep : string) (l : list string) : string := String.concat sep l.
(* s.split(" ") : every single space separates, empty pieces are kept *)
Fixpoint split_space_acc (acc : string) (s : string) : list string :=
  match s with
  | EmptyString => [acc]
  | String c r => if Ascii.eqb c " "%char then acc :: split_space_acc "" r else split_space_acc (acc ++ String c "") r
  end.
Definition split_space (s : string) : list string := split_space_acc "" s.
(* q.split("=", 1) : None when there is no "=" (the ValueError of the tuple unpacking) *)
Fixpoint split_eq_acc (acc : string) (s : string) : option (string * string) :=
  match s with
  | EmptyString => None
  | String c r => if Ascii.eqb c "="%char then Some (acc, r) else split_eq_acc (acc ++ String c "") r
  end.
Definition split_eq (s : string) : option (string * string) := split_eq_acc "" s.
(* str.lower() on ASCII *)
Definition lower_ascii (c : ascii) : ascii :=
  let n := nat_of_ascii c in if (Nat.leb 65 n && Nat.leb n 90)%bool then ascii_of_nat (n + 32) else c.
Fixpoint lower (s : string) : string :=
  match s with EmptyString => EmptyString | String c r => String (lower_ascii c) (lower r) end.
(* v.endswith("*") and v[:-1] *)
Fixpoint ends_with_star (s : string) : bool :=
  match s with
  | EmptyString => false
  | String c EmptyString => Ascii.eqb c "*"%char
  | String _ r => ends_with_star r
  end.
Fixpoint drop_last_char (s : string) : string :=
  match s with
  | EmptyString => EmptyString
  | String c EmptyString => EmptyString
  | String c r => String c (drop_last_char r)
  end.
(* value.replace('"', '\\"') *)
Fixpoint escape_quotes (s : string) : string :=
  match s with
  | EmptyString => EmptyString
  | String c r => if Ascii.eqb c """"%char then String "\"%char (String """"%char (escape_quotes r)) else String c (escape_quotes r)
  end.
Definition mem_str (s : string) (l : list string) : bool := existsb (String.eqb s) l.

(* ------------------------------------------------------------------ links *)
(* Link: href and attr_pairs; a value None is an attribute without value (obs) *)
Definition attr := (string * option string)%type.
Definition link := (string * list attr)%type.

(* Link.__str__ of util/linkformat.py:35-49 and LinkFormat.__str__ *)
Definition str_pair (a : attr) : string :=
  match snd a with None => fst a | Some v => fst a ++ "=""" ++ escape_quotes v ++ """" end.
Definition link_str (l : link) : string := join ";" (("<" ++ fst l ++ ">") :: map str_pair (snd l)).
Definition linkformat_str (ls : list link) : string := join "," (map link_str ls).

(* ------------------------------------------------------------------ the site tree *)
Inductive res :=
| RHandler (id : Z) (desc : option (list attr))   (* a leaf resource; desc = get_link_description() (None: hides itself; no such method = Some []) *)
| RWkc (impl_info : option string).              (* WKCResource(root.get_resources_as_linkheader, impl_info=...) *)

Inductive node :=
| NSite (rs : dict res) (ss : dict node)           (* resource.Site: _resources, _subsites *)
| NOpaque (id : Z).                                (* a PathCapable resource that is not a Site (no get_resources_as_linkheader) *)

Definition site_of (rs : dict res) (ss : dict node) : site res node := {| resources := rs; subsites := ss |}.

(* _ExposesWellknownAttributes.get_link_description; WKCResource has the class attribute ct = "40" *)
Definition get_link_description (r : res) : option (list attr) :=
  match r with RHandler _ d => d | RWkc _ => Some [("ct", Some "40")] end.

Definition href_of_path (p : path) : string := "/" ++ join "/" p.

(* first loop of get_resources_as_linkheader (resource.py:444-453) *)
Fixpoint resource_links (rs : dict res) : list link :=
  match rs with
  | [] => []
  | (p, r) :: tl => match get_link_description r with
                    | None => resource_links tl
                    | Some d => (href_of_path p, d) :: resource_links tl
                    end
  end.
Definition prefix_links (p : path) (ls : list link) : list link :=
  map (fun l : link => (href_of_path p ++ fst l, snd l)) ls.
(* Site.get_resources_as_linkheader; None = the object has no such method *)
Fixpoint get_resources_as_linkheader (n : node) : option (list link) :=
  match n with
  | NOpaque _ => None
  | NSite rs ss =>
      Some (resource_links rs ++
            (fix subs (l : dict node) : list link :=
               match l with
               | [] => []
               | (p, c) :: tl => match get_resources_as_linkheader c with
                                 | Some ls => prefix_links p ls
                                 | None => []
                                 end ++ subs tl
               end) ss)%list
  end.

(* ------------------------------------------------------------------ WKCResource.render_get, one filter (resource.py:248-319) *)
(* values(link): the values of the attribute named k — names compared case-insensitively, pairs without value (obs) skipped *)
Definition attr_values (l : link) (k : string) : list string :=
  flat_map (fun a : attr => if String.eqb (lower (fst a)) (lower k)
                            then match snd a with Some s => [s] | None => [] end
                            else []) (snd l).
(* matchexp: x == v   /   x.startswith(v[:-1]) *)
Definition matchexp (is_prefix : bool) (pat : string) (x : string) : bool :=
  if is_prefix then String.prefix pat x else String.eqb x pat.
Definition LIST_VALUED_ATTRS : list string := ["rt"; "if"; "ct"; "rel"].
Definition link_matches (k v : string) (l : link) : bool :=
  let is_prefix := ends_with_star v in
  let pat := if is_prefix then drop_last_char v else v in
  if mem_str k LIST_VALUED_ATTRS then existsb (matchexp is_prefix pat) (flat_map split_space (attr_values l k))
  else if String.eqb k "href" then matchexp is_prefix pat (fst l)
  else existsb (matchexp is_prefix pat) (attr_values l k).
Definition filter_links (k v : string) (ls : list link) : list link := filter (link_matches k v) ls.
Definition impl_info_links (impl_info : option string) : list link :=
  match impl_info with Some h => [(h, [("rel", Some "impl-info")])] | None => [] end.
(* ---- the Uri-Query options (resource.py:258-312).  Every query with "=" appends one filter, bound to its own k / v (f7c02cb); then
   `while filters: links = filter(filters.pop(), links)`: the last criterion is applied innermost, the first outermost. *)
Fixpoint relevant (queries : list string) : list (string * string) :=
  match queries with
  | [] => []
  | q :: r => match split_eq q with Some kv => kv :: relevant r | None => relevant r end     (* no "=": not a relevant filter *)
  end.
Definition wkc_render_get (links : list link) (impl_info : option string) (queries : list string) : M (list link) :=
  let links := (links ++ impl_info_links impl_info)%list in
  Ok (fold_right (fun (kv : string * string) acc => filter_links (fst kv) (snd kv) acc) links (relevant queries)).

(* ------------------------------------------------------------------ dispatch *)
(* what the harness observes: which handler ran with which uri_path / _original_request_path, and the path
   segments of request.get_request_uri() (message.py:613-634; "/" is one empty segment) *)
Definition uri_segments (p : path) : list string := match p with [] => [""] | _ => p end.
Definition get_request_uri_path (m : msg) : M (list string) :=
  match uri_path_abbrev m with
  | Some n => if truthy (uri_path m) then Raise ValueError
              else match zmap_get upa_map n with Ok p => Ok (uri_segments p) | Raise _ => Raise ValueError end
  | None => Ok (uri_segments (getattr_original_request_path m (uri_path m)))
  end.

Inductive result :=
| RDone | RNoAddr | RExn (e : exn)
| RHandled (id : Z) (seen : list string) (orig : option (list string)) (uri : M (list string))
| RLinks (links : list link) (payload : string)
| RDefault                                            (* needs_blockwise_assembly: True without asking anyone / add_observation: nothing happened *)
| RWkcLeaf                                            (* the WKC resource was asked *)
| RProbe (hits : list (string * option (option Z))).  (* per listed href: Some (Some id) handler, Some None the WKC resource, None 4.04 *)

(* where a request ends up *)
Inductive leaf := LeafRes (r : res) (m : msg) | LeafOpaque (id : Z) (m : msg) | LeafExn (e : exn).

(* Site.render (pipe = false) / Site.render_to_pipe (pipe = true, expands Uri-Path-Abbrev first), resource.py:407-413, 464-487.
   The children are turned into their render functions first (dynamic dispatch child.render(subrequest));
   the generated lookup is polymorphic in the type of children. *)
Fixpoint render (pipe : bool) (n : node) (m : msg) {struct n} : leaf :=
  match n with
  | NOpaque id => LeafOpaque id m
  | NSite rs ss =>
      let ss' := (fix mp (l : dict node) : dict (msg -> leaf) :=
                    match l with [] => [] | (k, c) :: tl => (k, render pipe c) :: mp tl end) ss in
      match (if pipe then expand_upa m else Ok m) with
      | Raise e => LeafExn e
      | Ok m =>
        match find_child_and_pathstripped_message {| resources := rs; subsites := ss' |} m with
        | Ok (ChildResource r, m') => LeafRes r m'
        | Ok (ChildSubsite f, m') => f m'
        | Raise KeyError => LeafExn NotFound
        | Raise e => LeafExn e
        end
      end
  end.

(* Site.needs_blockwise_assembly (resource.py:359-365) and Site.add_observation (resource.py:415-426): the same skeleton as
   render — look the child up with the same function; on KeyError answer the default (True / nothing), else ask the child with
   the stripped request.  [locate] is that skeleton; LeafExn KeyError stands for the except-KeyError branch. *)
Fixpoint locate (n : node) (m : msg) {struct n} : leaf :=
  match n with
  | NOpaque id => LeafOpaque id m
  | NSite rs ss =>
      let ss' := (fix mp (l : dict node) : dict (msg -> leaf) :=
                    match l with [] => [] | (k, c) :: tl => (k, locate c) :: mp tl end) ss in
      match find_child_and_pathstripped_message {| resources := rs; subsites := ss' |} m with
      | Ok (ChildResource r, m') => LeafRes r m'
      | Ok (ChildSubsite f, m') => f m'
      | Raise e => LeafExn e
      end
  end.

Definition handled (id : Z) (m : msg) : result :=
  RHandled id (uri_path m) (original_request_path m) (get_request_uri_path m).
Definition links_result (r : M (list link)) : result :=
  match r with Ok ls => RLinks ls (linkformat_str ls) | Raise e => RExn e end.
Definition request (pipe : bool) (root : node) (m : msg) (query : list string) : result :=
  match render pipe root m with
  | LeafExn e => RExn e
  | LeafOpaque id m' => handled id m'
  | LeafRes (RHandler id _) m' => handled id m'
  | LeafRes (RWkc impl_info) _ =>
      match get_resources_as_linkheader root with
      | Some ls => links_result (wkc_render_get ls impl_info query)
      | None => RExn AttributeError
      end
  end.

(* ------------------------------------------------------------------ registration histories *)
Inductive thing := TRes (r : res) | TSite | TOpaque (id : Z).
Definition thing_child (t : thing) : child res node :=
  match t with TRes r => ChildResource r | TSite => ChildSubsite (NSite [] []) | TOpaque id => ChildSubsite (NOpaque id) end.

(* the Site object reached from the root through _subsites[k1]._subsites[k2]... *)
Fixpoint site_at (addr : list (list string)) (n : node) : option node :=
  match addr with
  | [] => match n with NSite _ _ => Some n | NOpaque _ => None end
  | k :: rest => match n with
                 | NSite _ ss => match dict_get_opt ss k with Some c => site_at rest c | None => None end
                 | NOpaque _ => None
                 end
  end.
(* apply a (possibly raising) Site method to the site at addr; None = no Site at that address *)
Fixpoint update_at (addr : list (list string)) (f : site res node -> M (site res node)) (n : node) : option (M node) :=
  match n with
  | NOpaque _ => None
  | NSite rs ss =>
      match addr with
      | [] => Some (s' <- f (site_of rs ss) ;; Ok (NSite (resources s') (subsites s')))
      | k :: rest =>
          match dict_get_opt ss k with
          | None => None
          | Some c => match update_at rest f c with
                      | None => None
                      | Some (Raise e) => Some (Raise e)
                      | Some (Ok c') => Some (Ok (NSite rs (dict_set ss k c')))
                      end
          end
      end
  end.

Inductive op :=
| OAdd (addr : list (list string)) (p : list string) (t : thing)
| ORemove (addr : list (list string)) (p : list string)
| ORequest (pipe : bool) (m : msg) (query : list string)
| OList (addr : list (list string))
| OLocate (observe : bool) (m : msg)                  (* root.needs_blockwise_assembly(m) / root.add_observation(m, obs) *)
| OAlias (src dst : list (list string)) (p : list string)   (* site_at(dst).add_resource(p, site_at(src)): the same Site object at a second place;
                                                         a copy in this value model — faithful as long as the shared site is not mutated afterwards *)
| OProbe.                                             (* list the root and request every listed href *)

Definition located (observe : bool) (root : node) (m : msg) : result :=
  match locate root m with
  | LeafExn KeyError => RDefault
  | LeafExn e => RExn e
  | LeafOpaque id m' => handled id m'
  | LeafRes (RHandler id _) m' => handled id m'
  | LeafRes (RWkc _) _ => if observe then RDefault (* no add_observation on WKCResource: AttributeError swallowed *) else RWkcLeaf
  end.
(* the request path a listed href stands for: "/" is the empty path, otherwise the segments after the leading slash *)
Fixpoint split_slash_acc (acc : string) (s : string) : list string :=
  match s with
  | EmptyString => [acc]
  | String c r => if Ascii.eqb c "/"%char then acc :: split_slash_acc "" r else split_slash_acc (acc ++ String c "") r
  end.
Definition path_of_href (h : string) : option (list string) :=
  match h with
  | String c r => if Ascii.eqb c "/"%char then Some (match r with EmptyString => [] | _ => split_slash_acc "" r end) else None
  | EmptyString => None
  end.
Definition probe_one (root : node) (p : list string) : option (option Z) :=
  match render false root ({| uri_path := p; uri_path_abbrev := None; original_request_path := None |}) with
  | LeafRes (RHandler id _) _ => Some (Some id)
  | LeafOpaque id _ => Some (Some id)
  | LeafRes (RWkc _) _ => Some None
  | LeafExn _ => None
  end.
Fixpoint probe_links (root : node) (ls : list link) : list (string * option (option Z)) :=
  match ls with
  | [] => []
  | l :: r => match path_of_href (fst l) with
              | Some p => (fst l, probe_one root p) :: probe_links root r
              | None => probe_links root r
              end
  end.

Definition apply_update (root : node) (u : option (M node)) : node * result :=
  match u with
  | None => (root, RNoAddr)
  | Some (Raise e) => (root, RExn e)
  | Some (Ok root') => (root', RDone)
  end.
Definition step (root : node) (o : op) : node * result :=
  match o with
  | OAdd addr p t => apply_update root (update_at addr (fun s => add_resource s p (thing_child t)) root)
  | ORemove addr p => apply_update root (update_at addr (fun s => remove_resource s p) root)
  | ORequest pipe m q => (root, request pipe root m q)
  | OList addr => (root, match site_at addr root with
                         | None => RNoAddr
                         | Some n => match get_resources_as_linkheader n with
                                     | Some ls => links_result (Ok ls)
                                     | None => RNoAddr
                                     end
                         end)
  | OLocate observe m => (root, located observe root m)
  | OAlias src dst p =>
      match site_at src root with
      | None => (root, RNoAddr)
      | Some c => apply_update root (update_at dst (fun s => add_resource s p (ChildSubsite c)) root)
      end
  | OProbe => (root, match get_resources_as_linkheader root with
                     | Some ls => RProbe (probe_links root ls)
                     | None => RNoAddr
                     end)
  end.
Fixpoint run (root : node) (ops : list op) : node * list result :=
  match ops with
  | [] => (root, [])
  | o :: r => let '(root1, x) := step root o in let '(root2, xs) := run root1 r in (root2, x :: xs)
  end.
Definition new_request (p : list string) (abbrev : option Z) : msg :=
  {| uri_path := p; uri_path_abbrev := abbrev; original_request_path := None |}.

(* ------------------------------------------------------------------ one flat Site driven directly (validates Gen/resource_site.v
   against Site._find_child_and_pathstripped_message / add_resource / remove_resource on their own) *)
Inductive fop := FAdd (p : list string) (c : child Z Z) | FRemove (p : list string) | FLookup (m : msg) | FExpand (m : msg).
Inductive fres := FDone | FExn (e : exn) | FFound (c : child Z Z) (m : msg) | FMsg (m : msg).
Definition fstep (s : site Z Z) (o : fop) : site Z Z * fres :=
  match o with
  | FAdd p c => match add_resource s p c with Ok s' => (s', FDone) | Raise e => (s, FExn e) end
  | FRemove p => match remove_resource s p with Ok s' => (s', FDone) | Raise e => (s, FExn e) end
  | FLookup m => (s, match find_child_and_pathstripped_message s m with Ok (c, m') => FFound c m' | Raise e => FExn e end)
  | FExpand m => (s, match expand_upa m with Ok m' => FMsg m' | Raise e => FExn e end)
  end.
Fixpoint frun (s : site Z Z) (ops : list fop) : site Z Z * list fres :=
  match ops with
  | [] => (s, [])
  | o :: r => let '(s1, x) := fstep s o in let '(s2, xs) := frun s1 r in (s2, x :: xs)
  end.
