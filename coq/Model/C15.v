(* C15 — CoAP over TCP (RFC 8323): framing, spool loop, CSM gate, signalling.
   The length coding is the translated code (Gen/tcp_framing.v: _extract_message_size, _encode_length;
   Gen/options_ext.v: _read/_write_extended_field_value — tie T). Everything else mirrors by hand
   aiocoap/transports/tcp.py and aiocoap/transports/rfc8323common.py (tie C, stream "conn").
   No proofs in this file. *)
From Verif Require Import Lib.Py Gen.options_ext Gen.tcp_framing.
From Coq Require Import String Ascii.
Open Scope Z_scope.

(* ------------------------------------------------------------------ messages *)
(* a message as the TCP transport sees it: code, token, options in option_list() order as
   (number, option.encode()) pairs, payload *)
Record msg := { code : Z; token : bytes; opts : list (Z * bytes); payload : bytes }.

(* numbers/optionnumbers.py:169-218 — OptionNumber.X.set_format(...) table; default OpaqueOption (:96-100).
   UintOption, BlockOption and ContentFormatOption all decode with int.from_bytes and encode with
   _to_minimum_bytes (optiontypes.py:96-106, 227-243, 253-258) *)
Inductive fmt := FString | FUint | FOpaque.
Definition format_of (n : Z) : fmt :=
  if existsb (Z.eqb n) [3; 8; 11; 15; 20; 35; 39] then FString
  else if existsb (Z.eqb n) [6; 7; 12; 13; 14; 16; 17; 23; 27; 28; 60; 258] then FUint
  else FOpaque.

(* CPython's strict UTF-8 decoder = Unicode table 3-7 (well-formed byte sequences) *)
Definition cont (b : Z) : bool := (128 <=? b) && (b <=? 191).
Definition rng (lo hi b : Z) : bool := (lo <=? b) && (b <=? hi).
Fixpoint utf8_valid (l : bytes) : bool :=
  match l with
  | [] => true
  | b0 :: r =>
    if b0 <? 128 then utf8_valid r
    else if rng 194 223 b0 then
      match r with b1 :: r1 => cont b1 && utf8_valid r1 | _ => false end
    else if rng 224 239 b0 then
      match r with
      | b1 :: b2 :: r2 =>
        (if b0 =? 224 then rng 160 191 b1 else if b0 =? 237 then rng 128 159 b1 else cont b1)
        && cont b2 && utf8_valid r2
      | _ => false end
    else if rng 240 244 b0 then
      match r with
      | b1 :: b2 :: b3 :: r3 =>
        (if b0 =? 240 then rng 144 191 b1 else if b0 =? 244 then rng 128 143 b1 else cont b1)
        && cont b2 && cont b3 && utf8_valid r3
      | _ => false end
    else false
  end.

(* OptionNumber.create_option(decode=raw) followed by option.encode(): the canonical value bytes.
   options.py:183-186 turns UnicodeDecodeError into UnparsableMessage *)
Definition option_value (number : Z) (raw : bytes) : M bytes :=
  match format_of number with
  | FString => if utf8_valid raw then Ok raw else Raise UnparsableMessage
  | FUint => Ok (to_minimum_bytes (from_bytes_big raw))
  | FOpaque => Ok raw
  end.

(* Options.decode, options.py:165-189 *)
Fixpoint options_decode_loop (fuel : nat) (option_number : Z) (rawdata : bytes) : M (list (Z * bytes) * bytes) :=
  match fuel with
  | O => Raise OutOfFuel
  | S k =>
    match rawdata with
    | [] => Ok ([], [])
    | b0 :: rest =>
      if b0 =? 255 then Ok ([], rest)
      else
        let delta := Z.shiftr (Z.land b0 240) 4 in
        let length := Z.land b0 15 in
        '(delta, r1) <- read_extended_field_value delta rest ;;
        '(length, r2) <- read_extended_field_value length r1 ;;
        let option_number := option_number + delta in
        if blen r2 <? length then Raise UnparsableMessage
        else
          v <- option_value option_number (bto r2 length) ;;
          '(os, p) <- options_decode_loop k option_number (bfrom r2 length) ;;
          Ok ((option_number, v) :: os, p)
    end
  end.
Definition options_decode (rawdata : bytes) : M (list (Z * bytes) * bytes) :=
  options_decode_loop (S (List.length rawdata)) 0 rawdata.

(* Options.encode, options.py:191-210, applied to option_list() *)
Fixpoint options_encode_from (current : Z) (os : list (Z * bytes)) : M bytes :=
  match os with
  | [] => Ok []
  | (number, optiondata) :: r =>
    '(delta, extended_delta) <- write_extended_field_value (number - current) ;;
    '(length, extended_length) <- write_extended_field_value (blen optiondata) ;;
    rest <- options_encode_from number r ;;
    Ok ([Z.shiftl (Z.land delta 15) 4 + Z.land length 15] ++ extended_delta ++ extended_length ++ optiondata ++ rest)
  end.
Definition options_encode (os : list (Z * bytes)) : M bytes := options_encode_from 0 os.

(* Options.option_list, options.py:225-228: the per-number lists of the _options dict (insertion order
   within a number), concatenated in order of increasing number = a stable sort of the insertion
   sequence by option number. [opts m] of an outgoing message is the insertion sequence. *)
Fixpoint insert_opt (o : Z * bytes) (l : list (Z * bytes)) : list (Z * bytes) :=
  match l with
  | [] => [o]
  | x :: r => if fst o <? fst x then o :: l else x :: insert_opt o r
  end.
Definition option_list (os : list (Z * bytes)) : list (Z * bytes) :=
  fold_left (fun acc o => insert_opt o acc) os [].

(* tcp.py:50-62 _decode_message *)
Definition decode_message (data : bytes) : M msg :=
  r <- extract_message_size data ;;
  match r with
  | None => Raise TypeError                      (* cannot unpack None *)
  | Some (tokenoffset, tkl, _) =>
    if tkl >? 8 then Raise UnparsableMessage
    else
      c <- bget data (tokenoffset - 1) ;;
      let tok := bslice data tokenoffset (tokenoffset + tkl) in
      '(os, p) <- options_decode (bfrom data (tokenoffset + tkl)) ;;
      Ok {| code := c; token := tok; opts := os; payload := p |}
  end.

(* tcp.py:76-89 _serialize *)
Definition serialize (m : msg) : M bytes :=
  od <- options_encode (option_list (opts m)) ;;
  let data := od ++ (match payload m with [] => [] | _ => 255 :: payload m end) in
  '(length, extlen) <- encode_length (blen data) ;;
  let tkl := blen (token m) in
  if tkl >? 8 then Raise ValueError
  else Ok ([Z.lor (Z.shiftl length 4) tkl] ++ extlen ++ [code m] ++ token m ++ data).

(* well-formedness of a message to be sent (boolean, see the non-vacuity examples in Props/C15.v):
   options in non-decreasing order with encodable deltas/lengths and values in canonical form *)
Definition opt_ok (cur : Z) (o : Z * bytes) : bool :=
  (cur <=? fst o) && (fst o - cur <? 65805) && (blen (snd o) <? 65805) && bytes_ok (snd o) &&
  match option_value (fst o) (snd o) with Ok v' => beqb v' (snd o) | Raise _ => false end.
Fixpoint opts_ok (cur : Z) (os : list (Z * bytes)) : bool :=
  match os with [] => true | o :: r => opt_ok cur o && opts_ok (fst o) r end.
(* the message as it appears on the wire / after decoding: options in option_list() order *)
Definition canon (m : msg) : msg :=
  {| code := code m; token := token m; opts := option_list (opts m); payload := payload m |}.
Definition msg_ok (m : msg) : bool :=
  (0 <=? code m) && (code m <? 256) && (blen (token m) <=? 8) && bytes_ok (token m) &&
  opts_ok 0 (opts m) && bytes_ok (payload m).

(* ------------------------------------------------------------------ connection *)
(* RFC8323Remote._remote_settings: None, or a dict with optional "max-message-size" and
   "block-wise-transfer" (only ever set to True) *)
Record settings := { max_message_size : option Z; block_wise_transfer : bool }.
(* TcpConnection: _spool, _remote_settings, _my_max_message_size; [closed] is the state of the
   (fake) stream transport: close() has been called *)
Record conn := { spool : bytes; remote_settings : option settings; my_max_message_size : Z; closed : bool }.

Inductive errkind := PeerReleased | PeerAborted | ConnectionLost.
(* what the connection does to its environment: transport.write / transport.close, messages handed
   to the token manager by _TCPPooling._dispatch_incoming, errors handed to it by _dispatch_error,
   and an exception leaving the entry point *)
Inductive out :=
| Write (b : bytes) | Close | Request (m : msg) | Response (m : msg)
| DispatchError (e : errkind) | Escaped (e : exn).

Definition set_spool (c : conn) (s : bytes) : conn :=
  {| spool := s; remote_settings := remote_settings c; my_max_message_size := my_max_message_size c; closed := closed c |}.
Definition set_settings (c : conn) (s : option settings) : conn :=
  {| spool := spool c; remote_settings := s; my_max_message_size := my_max_message_size c; closed := closed c |}.
Definition set_closed (c : conn) : conn :=
  {| spool := spool c; remote_settings := remote_settings c; my_max_message_size := my_max_message_size c; closed := true |}.

Fixpoint str (s : string) : bytes :=
  match s with EmptyString => [] | String a r => Z.of_nat (nat_of_ascii a) :: str r end.

(* the diagnostic texts of the Abort messages (rfc8323common.py:148,155,180; tcp.py:194,204,221) *)
Definition txt_option_not_supported : bytes := str "Option not supported".
Definition txt_unknown_critical_option : bytes := str "Unknown critical option".
Definition txt_unknown_signalling_code : bytes := str "Unknown signalling code".
Definition txt_overly_large : bytes := str "Overly large message announced".
Definition txt_failed_to_parse : bytes := str "Failed to parse message".
Definition txt_no_csm : bytes := str "No CSM received".

Definition CSM := 225. Definition PING := 226. Definition PONG := 227. Definition RELEASE := 228. Definition ABORT := 229.
Definition is_response (c : Z) : bool := (64 <=? c) && (c <? 192).   (* numbers/codes.py:82 *)
Definition is_signalling (c : Z) : bool := 224 <=? c.                 (* numbers/codes.py:86 *)
Definition is_critical (n : Z) : bool := Z.land n 1 =? 1.             (* optionnumbers.py:76 *)

(* TcpConnection._send_message, tcp.py:117-122; false = the exception left the caller *)
Definition send_message (c : conn) (m : msg) : conn * list out * bool :=
  match serialize m with
  | Ok b => (c, [Write b], true)
  | Raise e => (c, [Escaped e], false)
  end.

(* _TCPPooling.send_message, tcp.py:251-265 — the token-interface entry for outgoing messages: a response
   whose class is masked by the message's No-Response option (258; `opt.no_response or 0`, first option of that
   number) is not sent at all; otherwise every No-Response option is removed and the connection sends *)
Definition no_response_value (os : list (Z * bytes)) : Z :=
  match filter (fun o => fst o =? 258) os with [] => 0 | o :: _ => from_bytes_big (snd o) end.
Definition no_response_masked (m : msg) : bool :=
  is_response (code m) &&
  negb (Z.land (no_response_value (opts m)) (Z.shiftl 1 (Z.shiftr (code m) 5 - 1)) =? 0).
Definition strip_no_response (m : msg) : msg :=
  {| code := code m; token := token m; opts := filter (fun o => negb (fst o =? 258)) (opts m); payload := payload m |}.
Definition pool_send_message (c : conn) (m : msg) : conn * list out * bool :=
  if no_response_masked m then (c, [], true) else send_message c (strip_no_response m).

(* RFC8323Remote.abort, rfc8323common.py:182-190 + TcpConnection._abort_with, tcp.py:124-127
   (the transport is always set: connection_made comes first) *)
Definition abort_msg (errormessage : bytes) (bad_csm_option : option Z) : msg :=
  {| code := ABORT; token := [];
     opts := match bad_csm_option with Some n => [(2, to_minimum_bytes n)] | None => [] end;
     payload := errormessage |}.
Definition abort (c : conn) (errormessage : bytes) (bad_csm_option : option Z) : conn * list out * bool :=
  match serialize (abort_msg errormessage bad_csm_option) with
  | Ok b => (set_closed c, [Write b; Close], true)
  | Raise e => (c, [Escaped e], false)
  end.

(* rfc8323common.py:122-131 *)
Definition initial_csm (c : conn) : msg :=
  {| code := CSM; token := []; opts := [(2, to_minimum_bytes (my_max_message_size c)); (4, to_minimum_bytes 0)]; payload := [] |}.

(* rfc8323common.py:137-151, the option loop of a CSM; the settings dict exists already. An unknown
   critical option aborts and returns from _process_signaling at once (the later options are not looked at) *)
Fixpoint process_csm_options (c : conn) (s : settings) (os : list (Z * bytes)) : conn * settings * list out * bool :=
  match os with
  | [] => (c, s, [], true)
  | (n, v) :: r =>
    if n =? 2 then
      process_csm_options c {| max_message_size := Some (from_bytes_big v); block_wise_transfer := block_wise_transfer s |} r
    else if n =? 4 then
      process_csm_options c {| max_message_size := max_message_size s; block_wise_transfer := true |} r
    else if is_critical n then
      let '(c1, o1, ok) := abort c txt_option_not_supported (Some n) in (c1, s, o1, ok)
    else process_csm_options c s r
  end.

(* rfc8323common.py:154-159: the first critical option of a Ping/Pong/Release/Abort aborts and returns *)
Definition has_critical (os : list (Z * bytes)) : bool := existsb (fun o => is_critical (fst o)) os.

Inductive sigres := SOk | SClose (e : errkind) | SExc.

(* RFC8323Remote._process_signaling, rfc8323common.py:133-182 *)
Definition process_signaling (c : conn) (m : msg) : conn * list out * sigres :=
  if code m =? CSM then
    let s0 := match remote_settings c with Some s => s | None => {| max_message_size := None; block_wise_transfer := false |} end in
    let '(c1, s1, o, ok) := process_csm_options c s0 (opts m) in
    (* the dict is mutated in place: what was stored before an escaping exception stays *)
    (set_settings c1 (Some s1), o, if ok then SOk else SExc)
  else if (code m =? PING) || (code m =? PONG) || (code m =? RELEASE) || (code m =? ABORT) then
    if has_critical (opts m) then
      let '(c1, o1, ok) := abort c txt_unknown_critical_option None in (c1, o1, if ok then SOk else SExc)
    else if code m =? PING then
      let '(c2, o2, ok2) := send_message c {| code := PONG; token := token m; opts := []; payload := [] |} in
      (c2, o2, if ok2 then SOk else SExc)
    else if code m =? PONG then (c, [], SOk)
    else if code m =? RELEASE then (c, [], SClose PeerReleased)
    else (c, [], SClose PeerAborted)
  else
    let '(c1, o1, ok) := abort c txt_unknown_signalling_code None in
    (c1, o1, if ok then SOk else SExc).

(* _TCPPooling._dispatch_incoming, tcp.py:264-274 *)
Definition dispatch_incoming (m : msg) : list out :=
  if code m =? 0 then []
  else if is_response (code m) then [Response m]
  else [Request m].

(* TcpConnection.data_received, tcp.py:178-224. [spool c] is self._spool. One iteration of the
   `while True` loop is [loop_body], with [rec] standing for "go round again"; [Return] = the method
   returned (or an exception left it), [Continue] = the loop ended by `break`. *)
Inductive ctl := Continue | Return.
Definition loop_body (rec : conn -> conn * list out * ctl) (c : conn) : conn * list out * ctl :=
  let sp := spool c in
  match extract_message_size sp with
  | Raise e => (c, [Escaped e], Return)
  | Ok None => (c, [], Continue)
  | Ok (Some (tokenoffset, tkl, length)) =>
    let msglen := tokenoffset + tkl + length in
    if msglen >? my_max_message_size c then
      let '(c1, o1, _) := abort c txt_overly_large None in (c1, o1, Return)
    else if msglen >? blen sp then (c, [], Continue)
    else
      match decode_message (bto sp msglen) with
      | Raise UnparsableMessage =>
        let '(c1, o1, _) := abort c txt_failed_to_parse None in (c1, o1, Return)
      | Raise e => (c, [Escaped e], Return)
      | Ok m =>
        let c' := set_spool c (bfrom sp msglen) in
        if is_signalling (code m) then
          let '(c1, o1, r) := process_signaling c' m in
          match r with
          | SExc => (c1, o1, Return)
          | SOk =>
            (* tcp.py:218-222: after an own Abort the transport is closing: stop *)
            if closed c1 then (c1, o1, Return)
            else let '(c2, o2, k) := rec c1 in (c2, o1 ++ o2, k)
          | SClose e => (set_closed c1, o1 ++ [DispatchError e; Close], Return)
          end
        else
          match remote_settings c' with
          | None => let '(c1, o1, _) := abort c' txt_no_csm None in (c1, o1, Return)
          | Some _ => let '(c2, o2, k) := rec c' in (c2, dispatch_incoming m ++ o2, k)
          end
      end
  end.
Fixpoint data_received_loop (fuel : nat) (c : conn) : conn * list out * ctl :=
  match fuel with
  | O => (c, [Escaped OutOfFuel], Return)
  | S k => loop_body (data_received_loop k) c
  end.
(* self._spool += data, then the loop; every frame has at least two bytes, so the fuel suffices *)
Definition feed (c : conn) (data : bytes) : conn := set_spool c (spool c ++ data).
Definition data_received_ctl (c : conn) (data : bytes) : conn * list out * ctl :=
  let c' := feed c data in data_received_loop (S (List.length (spool c'))) c'.
Definition data_received (c : conn) (data : bytes) : conn * list out :=
  let '(c1, o, _) := data_received_ctl c data in (c1, o).

(* TcpConnection.__init__ + connection_made, tcp.py:100-111, 137-167 *)
Definition init (maxsize : Z) : conn :=
  {| spool := []; remote_settings := None; my_max_message_size := maxsize; closed := false |}.
Definition connection_made (c : conn) : conn * list out :=
  let '(c1, o, _) := send_message c (initial_csm c) in (c1, o).

(* ------------------------------------------------------------------ event histories *)
(* what the environment does to a connection. A closed stream transport delivers no more data
   (asyncio removes the reader on close()), so EData is dropped once [closed]; the harness
   does not send on a closed connection either (ESend: conn._send_message; ESendVia: pool.send_message). ESend carries the
   option values as given to create_option(decode=...). *)
Inductive event := EData (b : bytes) | ESend (m : msg) | ELost | ESendVia (m : msg).

Fixpoint normalize_opts (os : list (Z * bytes)) : M (list (Z * bytes)) :=
  match os with
  | [] => Ok []
  | (n, v) :: r => v' <- option_value n v ;; r' <- normalize_opts r ;; Ok ((n, v') :: r')
  end.

Definition step (c : conn) (e : event) : conn * list out :=
  match e with
  | EData b => if closed c then (c, []) else data_received c b
  | ESend m =>
    if closed c then (c, []) else
    match normalize_opts (opts m) with
    | Ok os => let '(c1, o, _) := send_message c {| code := code m; token := token m; opts := os; payload := payload m |} in (c1, o)
    | Raise e => (c, [Escaped e])
    end
  | ELost => (c, [DispatchError ConnectionLost])      (* connection_lost, tcp.py:169-176 *)
  | ESendVia m =>                                     (* pool.send_message(message, monitor) *)
    if closed c then (c, []) else
    match normalize_opts (opts m) with
    | Ok os => let '(c1, o, _) := pool_send_message c {| code := code m; token := token m; opts := os; payload := payload m |} in (c1, o)
    | Raise e => (c, [Escaped e])
    end
  end.
Definition is_escaped (o : out) : bool := match o with Escaped _ => true | _ => false end.
Definition is_close (o : out) : bool := match o with Close => true | _ => false end.
Definition is_dispatch (o : out) : bool := match o with Request _ | Response _ => true | _ => false end.
(* the observable behaviour up to and including the first close() of the transport *)
Fixpoint upto_close (os : list out) : list out :=
  match os with [] => [] | Close :: _ => [Close] | o :: r => o :: upto_close r end.
(* the harness stops a history at the first exception that leaves an entry point *)
Fixpoint run (c : conn) (es : list event) : conn * list out :=
  match es with
  | [] => (c, [])
  | e :: r =>
    let '(c1, o1) := step c e in
    if existsb is_escaped o1 then (c1, o1)
    else let '(c2, o2) := run c1 r in (c2, o1 ++ o2)
  end.
Definition run_conn (maxsize : Z) (es : list event) : conn * list out :=
  let '(c0, o0) := connection_made (init maxsize) in
  let '(c1, o1) := run c0 es in (c1, o0 ++ o1).

(* message-level reference semantics (used by the refinement theorem): what a sequence of
   complete, parsable messages does, one message at a time *)
Definition handle_message (c : conn) (m : msg) : conn * list out * ctl :=
  if is_signalling (code m) then
    let '(c1, o1, r) := process_signaling c m in
    match r with
    | SExc => (c1, o1, Return)
    | SOk => (c1, o1, if closed c1 then Return else Continue)
    | SClose e => (set_closed c1, o1 ++ [DispatchError e; Close], Return)
    end
  else
    match remote_settings c with
    | None => let '(c1, o1, _) := abort c txt_no_csm None in (c1, o1, Return)
    | Some _ => (c, dispatch_incoming m, Continue)
    end.
Fixpoint process_messages (c : conn) (ms : list msg) : conn * list out :=
  match ms with
  | [] => (c, [])
  | m :: r =>
    let '(c1, o1, k) := handle_message c m in
    match k with
    | Return => (c1, o1)
    | Continue => let '(c2, o2) := process_messages c1 r in (c2, o1 ++ o2)
    end
  end.

(* the Abort message with diagnostic text [t] (13 <= 1 + len t < 269) and no option, as bytes:
   Len nibble 13 | TKL 0, extended length, code 7.05, payload marker, text *)
Definition abort_frame (t : bytes) : bytes := [208; blen t + 1 - 13; ABORT; 255] ++ t.

(* the byte stream a peer produces for a sequence of messages, and "fits the local maximum" *)
Fixpoint frames (ms : list msg) : M bytes :=
  match ms with
  | [] => Ok []
  | m :: r => f <- serialize m ;; fs <- frames r ;; Ok (f ++ fs)
  end.
Definition fits (maxsize : Z) (m : msg) : bool :=
  match serialize m with Ok f => blen f <=? maxsize | Raise _ => false end.

(* ------------------------------------------------------------------ helpers for the correspondence run *)
(* deterministic filler bytes, so that long payloads need not be written out in a case *)
Definition genbyte (seed i : Z) : Z := Z.land (seed + 13 * i + Z.shiftr i 8) 255.
Fixpoint genbytes_from (seed i : Z) (n : nat) : bytes :=
  match n with O => [] | S k => genbyte seed i :: genbytes_from seed (i + 1) k end.
Definition genbytes (seed off n : Z) : bytes := genbytes_from seed off (Z.to_nat n).
(* byte strings are reported as (length, bytes) when short, else (length, 16 first ++ 16 last, checksum) *)
Definition checksum (b : bytes) : Z := fold_left (fun acc x => Z.land (acc * 31 + x + 1) 1048575) b 7.
Definition summ (b : bytes) : Z * bytes * Z :=
  if blen b <=? 48 then (blen b, b, 0)
  else (blen b, firstn 16 b ++ skipn (List.length b - 16) b, checksum b).
Inductive sout :=
| SWrite (b : Z * bytes * Z) | SCloseT | SRequest (c : Z) (t : bytes) (o : list (Z * (Z * bytes * Z))) (p : Z * bytes * Z)
| SResponse (c : Z) (t : bytes) (o : list (Z * (Z * bytes * Z))) (p : Z * bytes * Z) | SError (e : errkind) | SEscaped (e : exn).
Definition summ_opts (os : list (Z * bytes)) := map (fun nv => (fst nv, summ (snd nv))) os.
Definition summ_out (o : out) : sout :=
  match o with
  | Write b => SWrite (summ b) | Close => SCloseT
  | Request m => SRequest (code m) (token m) (summ_opts (opts m)) (summ (payload m))
  | Response m => SResponse (code m) (token m) (summ_opts (opts m)) (summ (payload m))
  | DispatchError e => SError e | Escaped e => SEscaped e
  end.
Definition report (r : conn * list out) :=
  (map summ_out (snd r), summ (spool (fst r)),
   match remote_settings (fst r) with None => None | Some s => Some (max_message_size s, block_wise_transfer s) end,
   closed (fst r)).
