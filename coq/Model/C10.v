(* C10 — message-layer reactions follow the RFC 7252 type rules.
   Executable model of the dispatch slice of aiocoap.messagemanager.MessageManager and of the parts of
   aiocoap.tokenmanager.TokenManager / the rendering path it talks to.  Every function is named after the
   Python method it mirrors (file:line of /repo cited).  No proofs in this file.

   Events are the harness's: a datagram arrives, a (slow) handler answers, the application submits a
   request, the next timer fires, time passes.  One model step = the event plus everything it triggers
   at the same instant (the harness drains the loop's ready queue after every event). *)
From Verif Require Import Lib.Py.
Open Scope Z_scope.

(* ------------------------------------------------------------------ data *)
Inductive mtype_t := CON | NON | ACK | RST.                 (* numbers/types.py: 0 1 2 3 *)
Definition mtype_eqb (a b : mtype_t) : bool :=
  match a, b with CON, CON | NON, NON | ACK, ACK | RST, RST => true | _, _ => false end.

(* transports/udp6.py:104 UDP6EndpointAddress: peer = sockaddr, local = pktinfo
   (0: none; 2 and >= 100: multicast groups — ff02::fd, ::ffff:224.0.1.187 (IPv4 group on the dual-stack socket), ff05::fd, ...;
   every other number: a unicast local address — global, v4-mapped, scoped link-local).
   Equality and hashing ignore the local part (udp6.py:146-153), so every table below is keyed by [rpeer]. *)
Record remote := { rpeer : Z; rlocal : Z }.
Definition is_multicast (r : remote) : bool := 100 <=? rpeer r.           (* udp6.py:246; peers >= 100 are ff0x:: *)
Definition is_multicast_locally (r : remote) : bool := (rlocal r =? 2) || (100 <=? rlocal r).   (* udp6.py:250; local kinds 2 and >= 100 are groups *)
(* udp6.py:246-252 (_plainaddress/_plainaddress_local strip the ::ffff: prefix, then ipaddress decides), on the 16 packed bytes of
   sockaddr / pktinfo: a multicast group is an address in ff00::/8, or the IPv4-mapped form ::ffff:a.b.c.d of one in 224.0.0.0/4 —
   nothing else.  The local / peer kinds above abstract exactly this bit (kernel stream `addr`). *)
Definition packed_is_multicast (b : list Z) : bool :=
  (nth 0 b 0 =? 255) ||
  (beqb (firstn 12 b) [0; 0; 0; 0; 0; 0; 0; 0; 0; 0; 255; 255] && (224 <=? nth 12 b 0) && (nth 12 b 0 <=? 239)).
(* (is_multicast, is_multicast_locally, as_response_address keeps the pktinfo) of an address with these packed peer / local parts *)
Definition address_flags (peer local : list Z) : bool * bool * bool :=
  (packed_is_multicast peer, packed_is_multicast local, negb (packed_is_multicast local)).
(* udp6.py:254 as_response_address *)
Definition as_response_address (r : remote) : remote :=
  if negb (is_multicast_locally r) then r else {| rpeer := rpeer r; rlocal := 0 |}.

(* header-level view of a message. [path]: Uri-Path of a request (0 slow / 1 fast / 3 boom resource, anything else absent;
   -1 no Uri-Path); [nr]: No-Response option; [obs]: Observe option *)
Record wire := { mtype : mtype_t; code : Z; mid : Z; token : list Z; nr : option Z; obs : option Z; path : Z; payload : list Z }.
(* a message handed to send_message by the layers above: type and mid not yet decided *)
Record amsg := { a_mtype : option mtype_t; a_code : Z; a_token : list Z; a_nr : option Z; a_obs : option Z; a_payload : list Z }.

Definition EMPTY := 0.
Definition is_request (c : Z) : bool := (1 <=? c) && (c <? 32).          (* numbers/codes.py:78 *)
Definition is_response (c : Z) : bool := (64 <=? c) && (c <? 192).       (* numbers/codes.py:82 *)
Definition class_ (c : Z) : Z := Z.shiftr c 5.                           (* numbers/codes.py:105 *)

Definition EMPTY_ACK_DELAY := 100000.          (* numbers/constants.py, microseconds *)
Definition EXCHANGE_LIFETIME := 247000000.
Definition ACK_TIMEOUT := 2000000.             (* random.uniform is pinned to its lower bound by the harness *)
Definition MAX_RETRANSMIT := 4.

Inductive tkind :=
| EmptyAck (r : remote) (tok : list Z)                         (* messagemanager.py:375 on_timeout *)
| Retransmit (r : remote) (m : wire) (timeout cnt : Z)         (* messagemanager.py:320 retr *)
| Forget (p mid : Z).                                          (* messagemanager.py:217 _recent_messages.pop *)
Record timer := { due : Z; tid : Z; kind : tkind }.

Inductive monitor := MonReq (q : Z) | MonResp.                 (* messageerror_monitor: request.add_exception(MessageError) | stop *)
Record srv := { sv_id : Z; sv_remote : remote; sv_req : wire }.

Inductive output :=
| Send (r : remote) (m : wire)            (* message_interface.send *)
| StartHandler (k : Z) | CancelHandler (k : Z)
| Deliver (q : Z) (m : wire) (last : bool) | Fail (q : Z) (e : exn)
| LoopException (e : exn).

(* association lists with Python dict semantics: assignment to an existing key keeps its position *)
Section AList.
  Context {K V : Type} (eqb : K -> K -> bool).
  Fixpoint aget (l : list (K * V)) (k : K) : option V :=
    match l with [] => None | (k', v) :: r => if eqb k' k then Some v else aget r k end.
  Definition amem (l : list (K * V)) (k : K) : bool := match aget l k with Some _ => true | None => false end.
  Fixpoint adel (l : list (K * V)) (k : K) : list (K * V) :=
    match l with [] => [] | (k', v) :: r => if eqb k' k then adel r k else (k', v) :: adel r k end.
  Fixpoint areplace (l : list (K * V)) (k : K) (v : V) : list (K * V) :=
    match l with [] => [] | (k', v') :: r => if eqb k' k then (k', v) :: r else (k', v') :: areplace r k v end.
  Definition aset (l : list (K * V)) (k : K) (v : V) : list (K * V) :=
    if amem l k then areplace l k v else l ++ [(k, v)].
End AList.

Definition zz_eqb (a b : Z * Z) : bool := (fst a =? fst b) && (snd a =? snd b).
Definition pk_eqb (a b : Z * list Z) : bool := (fst a =? fst b) && beqb (snd a) (snd b).          (* (remote, token) *)
Definition ik_eqb (a b : list Z * Z) : bool := beqb (fst a) (fst b) && (snd a =? snd b).          (* (token, remote) *)
Definition oz_eqb (a b : option Z) : bool :=
  match a, b with Some x, Some y => x =? y | None, None => true | _, _ => false end.
Definition ok_eqb (a b : list Z * option Z) : bool := beqb (fst a) (fst b) && oz_eqb (snd a) (snd b).  (* (token, remote|None) *)

Record st := {
  now : Z; seq : Z;                                         (* clock (us), timer creation counter = handle identity *)
  next_mid : Z; next_token : Z; next_srv : Z; next_req : Z; (* message_id, _token; harness numbering of handlers / requests *)
  recent : list ((Z * Z) * option (remote * wire));         (* messagemanager.py:47 _recent_messages *)
  exch : list ((Z * Z) * (monitor * Z));                    (* :50 _active_exchanges -> (monitor, retransmission handle) *)
  backlogs : list (Z * list (remote * wire * monitor));     (* :55 _backlogs *)
  piggy : list ((Z * list Z) * (Z * Z));                    (* :61 _piggyback_opportunities -> (mid, empty-ACK handle) *)
  outgoing : list ((list Z * option Z) * (Z * bool));       (* tokenmanager.py:22 outgoing_requests -> (request, observe) *)
  incoming : list ((list Z * Z) * srv);                     (* tokenmanager.py:24 incoming_requests (running handlers) *)
  atimers : list timer;                                     (* pending empty-ACK handles *)
  rtimers : list timer }.                                   (* pending retransmission / forget handles *)

Definition init (mid0 token0 : Z) : st :=
  {| now := 0; seq := 0; next_mid := mid0; next_token := token0; next_srv := 0; next_req := 0; recent := []; exch := [];
     backlogs := []; piggy := []; outgoing := []; incoming := []; atimers := []; rtimers := [] |}.

Definition set_now s v := {| now := v; seq := seq s; next_mid := next_mid s; next_token := next_token s; next_srv := next_srv s; next_req := next_req s; recent := recent s; exch := exch s; backlogs := backlogs s; piggy := piggy s; outgoing := outgoing s; incoming := incoming s; atimers := atimers s; rtimers := rtimers s |}.
Definition set_next_mid s v := {| now := now s; seq := seq s; next_mid := v; next_token := next_token s; next_srv := next_srv s; next_req := next_req s; recent := recent s; exch := exch s; backlogs := backlogs s; piggy := piggy s; outgoing := outgoing s; incoming := incoming s; atimers := atimers s; rtimers := rtimers s |}.
Definition set_next_token s v := {| now := now s; seq := seq s; next_mid := next_mid s; next_token := v; next_srv := next_srv s; next_req := next_req s; recent := recent s; exch := exch s; backlogs := backlogs s; piggy := piggy s; outgoing := outgoing s; incoming := incoming s; atimers := atimers s; rtimers := rtimers s |}.
Definition set_next_srv s v := {| now := now s; seq := seq s; next_mid := next_mid s; next_token := next_token s; next_srv := v; next_req := next_req s; recent := recent s; exch := exch s; backlogs := backlogs s; piggy := piggy s; outgoing := outgoing s; incoming := incoming s; atimers := atimers s; rtimers := rtimers s |}.
Definition set_next_req s v := {| now := now s; seq := seq s; next_mid := next_mid s; next_token := next_token s; next_srv := next_srv s; next_req := v; recent := recent s; exch := exch s; backlogs := backlogs s; piggy := piggy s; outgoing := outgoing s; incoming := incoming s; atimers := atimers s; rtimers := rtimers s |}.
Definition set_recent s v := {| now := now s; seq := seq s; next_mid := next_mid s; next_token := next_token s; next_srv := next_srv s; next_req := next_req s; recent := v; exch := exch s; backlogs := backlogs s; piggy := piggy s; outgoing := outgoing s; incoming := incoming s; atimers := atimers s; rtimers := rtimers s |}.
Definition set_exch s v := {| now := now s; seq := seq s; next_mid := next_mid s; next_token := next_token s; next_srv := next_srv s; next_req := next_req s; recent := recent s; exch := v; backlogs := backlogs s; piggy := piggy s; outgoing := outgoing s; incoming := incoming s; atimers := atimers s; rtimers := rtimers s |}.
Definition set_backlogs s v := {| now := now s; seq := seq s; next_mid := next_mid s; next_token := next_token s; next_srv := next_srv s; next_req := next_req s; recent := recent s; exch := exch s; backlogs := v; piggy := piggy s; outgoing := outgoing s; incoming := incoming s; atimers := atimers s; rtimers := rtimers s |}.
Definition set_piggy s v := {| now := now s; seq := seq s; next_mid := next_mid s; next_token := next_token s; next_srv := next_srv s; next_req := next_req s; recent := recent s; exch := exch s; backlogs := backlogs s; piggy := v; outgoing := outgoing s; incoming := incoming s; atimers := atimers s; rtimers := rtimers s |}.
Definition set_outgoing s v := {| now := now s; seq := seq s; next_mid := next_mid s; next_token := next_token s; next_srv := next_srv s; next_req := next_req s; recent := recent s; exch := exch s; backlogs := backlogs s; piggy := piggy s; outgoing := v; incoming := incoming s; atimers := atimers s; rtimers := rtimers s |}.
Definition set_incoming s v := {| now := now s; seq := seq s; next_mid := next_mid s; next_token := next_token s; next_srv := next_srv s; next_req := next_req s; recent := recent s; exch := exch s; backlogs := backlogs s; piggy := piggy s; outgoing := outgoing s; incoming := v; atimers := atimers s; rtimers := rtimers s |}.
Definition set_atimers s v sq := {| now := now s; seq := sq; next_mid := next_mid s; next_token := next_token s; next_srv := next_srv s; next_req := next_req s; recent := recent s; exch := exch s; backlogs := backlogs s; piggy := piggy s; outgoing := outgoing s; incoming := incoming s; atimers := v; rtimers := rtimers s |}.
Definition set_rtimers s v sq := {| now := now s; seq := sq; next_mid := next_mid s; next_token := next_token s; next_srv := next_srv s; next_req := next_req s; recent := recent s; exch := exch s; backlogs := backlogs s; piggy := piggy s; outgoing := outgoing s; incoming := incoming s; atimers := atimers s; rtimers := v |}.

(* loop.call_later: the handle is identified by its creation number *)
Definition call_later_a (s : st) (delay : Z) (k : tkind) : st * Z :=
  (set_atimers s (atimers s ++ [{| due := now s + delay; tid := seq s; kind := k |}]) (seq s + 1), seq s).
Definition call_later_r (s : st) (delay : Z) (k : tkind) : st * Z :=
  (set_rtimers s (rtimers s ++ [{| due := now s + delay; tid := seq s; kind := k |}]) (seq s + 1), seq s).
Definition cancel (l : list timer) (id : Z) : list timer := filter (fun t => negb (tid t =? id)) l.
Definition cancel_a (s : st) (id : Z) : st := set_atimers s (cancel (atimers s) id) (seq s).
Definition cancel_r (s : st) (id : Z) : st := set_rtimers s (cancel (rtimers s) id) (seq s).

(* ------------------------------------------------------------------ outgoing path of MessageManager *)
(* messagemanager.py:224 _store_response_for_duplicates *)
Definition _store_response_for_duplicates (s : st) (r : remote) (m : wire) : st :=
  match mtype m with
  | ACK | RST =>
      let key := (rpeer r, mid m) in
      if amem zz_eqb (recent s) key then set_recent s (aset zz_eqb (recent s) key (Some (r, m))) else s
  | _ => s
  end.

(* messagemanager.py:242 _add_exchange (+ :310 _schedule_retransmit) *)
Definition _add_exchange (s : st) (r : remote) (m : wire) (mon : monitor) : st :=
  let s1 := if amem Z.eqb (backlogs s) (rpeer r) then s else set_backlogs s (aset Z.eqb (backlogs s) (rpeer r) []) in
  let '(s2, id) := call_later_r s1 ACK_TIMEOUT (Retransmit r m ACK_TIMEOUT 0) in
  set_exch s2 (aset zz_eqb (exch s2) (rpeer r, mid m) (mon, id)).

(* messagemanager.py:519 _send_initially (+ :534 _send_via_transport) *)
Definition _send_initially (s : st) (r : remote) (m : wire) (mon : monitor) : st * list output :=
  let s1 := match mtype m with CON => _add_exchange s r m mon | _ => s end in
  (_store_response_for_duplicates s1 r m, [Send r m]).

Definition empty_msg (t : mtype_t) (mid : Z) : wire :=
  {| mtype := t; code := EMPTY; mid := mid; token := []; nr := None; obs := None; path := -1; payload := [] |}.

(* messagemanager.py:545 _send_empty_ack *)
Definition _send_empty_ack (s : st) (r : remote) (mid : Z) : st * list output :=
  _send_initially s (as_response_address r) (empty_msg ACK mid) MonResp.

(* messagemanager.py:539 _next_message_id *)
Definition _next_message_id (s : st) : st * Z := (set_next_mid s (Z.land 65535 (1 + next_mid s)), next_mid s).

Definition no_response_of (a : amsg) : bool :=        (* :444 (no_response or 0) & (1 << class - 1) != 0 *)
  negb (Z.land (match a_nr a with Some v => v | None => 0 end) (Z.shiftl 1 (class_ (a_code a) - 1)) =? 0).
Definition mk_wire (a : amsg) (t : mtype_t) (md : Z) : wire :=     (* :470 the No-Response option is removed *)
  {| mtype := t; code := a_code a; mid := md; token := a_token a; nr := None; obs := a_obs a; path := -1; payload := a_payload a |}.
(* :472-496 type selection (the shutdown branches are C18's and not modelled; transport_tuning.reliability is None) *)
Definition select_mtype (mt : option mtype_t) (r1 : remote) (req_mtype : option mtype_t) : mtype_t :=
  match mt with
  | Some t => t
  | None => if is_multicast r1 then NON else match req_mtype with Some NON => NON | _ => CON end
  end.
(* :472-517 second half of send_message: type, ConToMulticast, message id, NSTART backlog or transmission *)
Definition send_message_tail (s1 : st) (r1 : remote) (build : mtype_t -> Z -> wire) (mt : option mtype_t) (md : option Z)
    (mon : monitor) (req_mtype : option mtype_t) : st * list output * option exn :=
  let mt1 := select_mtype mt r1 req_mtype in
  if mtype_eqb mt1 CON && is_multicast r1 then (s1, [], Some ConToMulticast) else                 (* :504 *)
  let '(s2, md1) := match md with Some v => (s1, v) | None => _next_message_id s1 end in
  let m := build mt1 md1 in
  if mtype_eqb mt1 CON && amem Z.eqb (backlogs s2) (rpeer r1) then                                   (* :510 *)
    let bl := match aget Z.eqb (backlogs s2) (rpeer r1) with Some l => l | None => [] end in
    (set_backlogs s2 (aset Z.eqb (backlogs s2) (rpeer r1) (bl ++ [(r1, m, mon)])), [], None)
  else let '(s3, o) := _send_initially s2 r1 m mon in (s3, o, None).

(* messagemanager.py:423 send_message.  [req_mtype]: type of message.request (None when there is none).
   Result: new state, outputs, exception raised to the caller (ConToMulticast). *)
Definition send_message (s : st) (r : remote) (a : amsg) (mon : monitor) (req_mtype : option mtype_t)
  : st * list output * option exn :=
  if is_response (a_code a) then                                           (* :443-470 No-Response mask and piggy-backing *)
    match aget pk_eqb (piggy s) (rpeer r, a_token a) with
    | Some (pmid, handle) =>
        let s1 := cancel_a (set_piggy s (adel pk_eqb (piggy s) (rpeer r, a_token a))) handle in
        if no_response_of a then
          (* :454 empty ACK instead; message.remote.as_response_address() is idempotent (udp6.py:254, pktinfo None -> self) *)
          send_message_tail s1 (as_response_address r) (fun _ md => empty_msg ACK md) (Some ACK) (Some pmid) mon None
        else send_message_tail s1 r (mk_wire a) (Some ACK) (Some pmid) mon req_mtype                                       (* :461 *)
    | None => if no_response_of a then (s, [], None)                                                                       (* :464 *)
              else send_message_tail s r (mk_wire a) (a_mtype a) None mon req_mtype
    end
  else send_message_tail s r (mk_wire a) (a_mtype a) None mon req_mtype.

(* ------------------------------------------------------------------ TokenManager and the rendering path *)
(* request.add_exception(e) on a client request: delivered (and the request forgotten, tokenmanager.py:251) iff still pending *)
Fixpoint find_req (l : list ((list Z * option Z) * (Z * bool))) (q : Z) : option (list Z * option Z) :=
  match l with [] => None | (k, (q', _)) :: r => if q' =? q then Some k else find_req r q end.
Definition fail_request (s : st) (q : Z) (e : exn) : st * list output :=
  match find_req (outgoing s) q with
  | Some k => (set_outgoing s (adel ok_eqb (outgoing s) k), [Fail q e])
  | None => (s, [])
  end.
Definition run_monitor (s : st) (mon : monitor) : st * list output :=
  match mon with MonReq q => fail_request s q MessageError | MonResp => (s, []) end.   (* stop() of an ended pipe does nothing *)

Definition METHOD_NOT_ALLOWED := 133.  Definition NOT_FOUND := 132.  Definition INTERNAL_SERVER_ERROR := 160.
(* tokenmanager.py:128 on_event -> send_message(m, stop), for the (only, final) response of a handler *)
Definition send_response (s : st) (r : remote) (req : wire) (c : Z) (rnr : option Z) (pl : list Z) : st * list output :=
  (* tokenmanager.py:139-143: a response without No-Response option (4.04 / 4.05 / 5.00 built from exceptions) inherits the request's *)
  let eff := match rnr with Some v => Some v | None => nr req end in
  let a := {| a_mtype := None; a_code := c; a_token := token req; a_nr := eff; a_obs := None; a_payload := pl |} in
  let '(s1, o, _) := send_message s (as_response_address r) a MonResp (Some (mtype req)) in (s1, o).   (* mtype None: never ConToMulticast *)

Definition unallowed_payload : list Z := [69; 114; 114; 111].     (* "Error: Method not allowed!"[:4] — the harness compares 4 bytes *)
(* resource.py:131-139 default response codes *)
Definition default_code (c : Z) : Z := if (c =? 1) || (c =? 5) then 69 else if c =? 4 then 66 else 68.

(* tokenmanager.py:112 process_request, protocol.py:581 render_to_pipe, resource.py:464 Site.render_to_pipe, :116 Resource.render *)
Definition tm_process_request (s : st) (r : remote) (m : wire) : st * list output :=
  let key := (token m, rpeer r) in
  let '(s1, o1) := match aget ik_eqb (incoming s) key with
                   | Some sv => (set_incoming s (adel ik_eqb (incoming s) key), [CancelHandler (sv_id sv)])   (* :121 stop() *)
                   | None => (s, [])
                   end in
  let known_method := (1 <=? code m) && (code m <=? 7) in
  let exists_ := (path m =? 0) || (path m =? 1) || (path m =? 3) in
  let '(s2, o2) :=
    if negb exists_ then send_response s1 r m NOT_FOUND None []                       (* error.NotFound via error_to_message *)
    else if negb known_method then send_response s1 r m METHOD_NOT_ALLOWED None unallowed_payload
    else if path m =? 0 then                                                          (* slow: waits for the harness *)
      (set_next_srv (set_incoming s1 (aset ik_eqb (incoming s1) key {| sv_id := next_srv s1; sv_remote := r; sv_req := m |})) (next_srv s1 + 1),
       [StartHandler (next_srv s1)])
    else if path m =? 1 then send_response s1 r m (default_code (code m)) (nr m) [102]   (* resource.py:141 copies the request's No-Response *)
    else send_response s1 r m INTERNAL_SERVER_ERROR None [] in
  (s2, o1 ++ o2).

(* the harness resolves handler [k] with (code, No-Response or None, payload) *)
Fixpoint find_srv (l : list ((list Z * Z) * srv)) (k : Z) : option ((list Z * Z) * srv) :=
  match l with [] => None | (key, sv) :: r => if sv_id sv =? k then Some (key, sv) else find_srv r k end.
Definition handler_respond (s : st) (k c : Z) (rnr : option Z) (pl : list Z) : st * list output :=
  match find_srv (incoming s) k with
  | None => (s, [])
  | Some (key, sv) =>
      let eff := match rnr with Some v => Some v | None => nr (sv_req sv) end in       (* resource.py:141 *)
      let '(s1, o) := send_response s (sv_remote sv) (sv_req sv) c eff pl in
      (set_incoming s1 (adel ik_eqb (incoming s1) key), o)                              (* tokenmanager.py:160 on_end *)
  end.

(* tokenmanager.py:177 process_response *)
Definition tm_process_response (s : st) (r : remote) (m : wire) : st * list output * bool :=
  let k1 := (token m, Some (rpeer r)) in
  let key := if amem ok_eqb (outgoing s) k1 then k1 else (token m, None) in
  match aget ok_eqb (outgoing s) key with
  | None => (s, [], false)
  | Some (q, observe) =>
      let final := negb (observe && match obs m with Some _ => true | None => false end) in
      ((if final then set_outgoing s (adel ok_eqb (outgoing s) key) else s), [Deliver q m final], true)
  end.

(* tokenmanager.py:74 dispatch_error (called from _retransmit with ConRetransmitsExceeded, a NetworkError) *)
Fixpoint fail_all (l : list ((list Z * option Z) * (Z * bool))) (p : Z) (e : exn) : list output :=
  match l with [] => []
  | ((_, rm), (q, _)) :: r => if oz_eqb rm (Some p) then Fail q e :: fail_all r p e else fail_all r p e end.
Fixpoint cancel_all (l : list ((list Z * Z) * srv)) (p : Z) : list output :=
  match l with [] => []
  | ((_, rm), sv) :: r => if rm =? p then CancelHandler (sv_id sv) :: cancel_all r p else cancel_all r p end.
Definition tm_dispatch_error (s : st) (p : Z) (e : exn) : st * list output :=
  (* tokenmanager.py:99: the key of a pending multicast request has remote None, which equals no address (udp6.py:150 NotImplemented) *)
  let o := fail_all (outgoing s) p e ++ cancel_all (incoming s) p in
  (set_incoming (set_outgoing s (filter (fun kv => negb (oz_eqb (snd (fst kv)) (Some p))) (outgoing s)))
                (filter (fun kv => negb (snd (fst kv) =? p)) (incoming s)), o).

(* tokenmanager.py:64 next_token *)
Definition next_token_ (s : st) : st * list Z :=
  let t := (next_token s + 1) mod 2 ^ 64 in (set_next_token s t, to_minimum_bytes t).

Definition GET := 1.
(* tokenmanager.py:220 request *)
Definition tm_request (s : st) (p : Z) (mt : option mtype_t) (observe : bool) : st * list output :=
  let q := next_req s in
  let r := {| rpeer := p; rlocal := 0 |} in
  let '(s1, tok) := next_token_ (set_next_req s (q + 1)) in
  let key := (tok, if is_multicast r then None else Some p) in
  let s2 := set_outgoing s1 (aset ok_eqb (outgoing s1) key (q, observe)) in
  let a := {| a_mtype := mt; a_code := GET; a_token := tok; a_nr := None; a_obs := if observe then Some 0 else None; a_payload := [] |} in
  match send_message s2 r a (MonReq q) None with
  | (s3, o, None) => (s3, o)
  | (s3, o, Some e) => let '(s4, o') := fail_request s3 q e in (s4, o ++ o')
  end.

(* ------------------------------------------------------------------ incoming path of MessageManager *)
(* messagemanager.py:194 _deduplicate_message *)
Definition _deduplicate_message (s : st) (r : remote) (m : wire) : st * list output * bool :=
  let key := (rpeer r, mid m) in
  match aget zz_eqb (recent s) key with
  | Some stored =>
      match mtype m, stored with
      | CON, Some (r', m') => let '(s1, o) := _send_initially s r' m' MonResp in (s1, o, true)
      | _, _ => (s, [], true)
      end
  | None =>
      let '(s1, _) := call_later_r s EXCHANGE_LIFETIME (Forget (rpeer r) (mid m)) in
      (set_recent s1 (aset zz_eqb (recent s1) key None), [], false)
  end.

Definition has_exchange (s : st) (p : Z) : bool := existsb (fun kv => fst (fst kv) =? p) (exch s).

(* messagemanager.py:287 _continue_backlog: the while loop, with the remote's backlog list threaded explicitly *)
Fixpoint _continue_backlog_loop (s : st) (p : Z) (bl : list (remote * wire * monitor)) : st * list output :=
  if has_exchange s p then (set_backlogs s (aset Z.eqb (backlogs s) p bl), [])
  else match bl with
       | [] => (set_backlogs s (adel Z.eqb (backlogs s) p), [])
       | (r, m, mon) :: rest =>
           let '(s1, o1) := _send_initially s r m mon in
           let '(s2, o2) := _continue_backlog_loop s1 p rest in (s2, o1 ++ o2)
       end.
Definition _continue_backlog (s : st) (p : Z) : st * list output :=
  match aget Z.eqb (backlogs s) p with
  | None => (s, [LoopException AssertionError])
  | Some bl => _continue_backlog_loop s p bl
  end.

(* messagemanager.py:265 _remove_exchange *)
Definition _remove_exchange (s : st) (r : remote) (m : wire) : st * list output :=
  let key := (rpeer r, mid m) in
  match aget zz_eqb (exch s) key with
  | None => (s, [])
  | Some (mon, handle) =>
      let s1 := cancel_r (set_exch s (adel zz_eqb (exch s) key)) handle in
      let '(s2, o1) := match mtype m with RST => run_monitor s1 mon | _ => (s1, []) end in
      let '(s3, o2) := _continue_backlog s2 (rpeer r) in (s3, o1 ++ o2)
  end.

(* messagemanager.py:361 _process_ping *)
Definition _process_ping (s : st) (r : remote) (m : wire) : st * list output :=
  _send_initially s (as_response_address r) (empty_msg RST (mid m)) MonResp.

(* messagemanager.py:369 _process_request *)
Definition _process_request (s : st) (r : remote) (m : wire) : st * list output :=
  let s1 :=
    match mtype m with
    | CON =>
        let '(s0, handle) := call_later_a s EMPTY_ACK_DELAY (EmptyAck r (token m)) in
        let key := (rpeer r, token m) in
        let s0' := match aget pk_eqb (piggy s0) key with
                   | Some (_, old_handle) => cancel_a (set_piggy s0 (adel pk_eqb (piggy s0) key)) old_handle   (* :389-397 *)
                   | None => s0
                   end in
        set_piggy s0' (aset pk_eqb (piggy s0') key (mid m, handle))
    | _ => s
    end in
  tm_process_request s1 r m.

(* messagemanager.py:97 dispatch_message *)
Definition dispatch_message (s : st) (r : remote) (m : wire) : st * list output :=
  let '(s0, o0, dup) := if is_request (code m) then _deduplicate_message s r m else (s, [], false) in
  if dup then (s0, o0) else
  let '(s1, o1) := match mtype m with ACK | RST => _remove_exchange s0 r m | _ => (s0, []) end in
  let '(s2, o2) :=
    if code m =? EMPTY then
      match mtype m with
      | CON => _process_ping s1 r m
      | ACK | RST => (s1, [])
      | NON => (s1, [])                                           (* "those don't fit" *)
      end
    else if is_request (code m) then
      match mtype m with
      | CON | NON => _process_request s1 r m
      | _ => (s1, [])                                            (* "those don't fit" *)
      end
    else if is_response (code m) then
      match mtype m with
      | RST => (s1, [])                                          (* "those don't fit" *)
      | t =>
          let '(s', o, success) := tm_process_response s1 r m in
          if success then
            match t with CON => let '(s'', o') := _send_empty_ack s' r (mid m) in (s'', o ++ o') | _ => (s', o) end
          else if mtype_eqb t CON && negb (is_multicast_locally r) then
            let '(s'', o') := _send_initially s' (as_response_address r) (empty_msg RST (mid m)) MonResp in (s'', o ++ o')
          else (s', o)
      end
    else (s1, []) in                                              (* reserved / signalling codes: ignored *)
  (s2, o0 ++ o1 ++ o2).

(* ------------------------------------------------------------------ timers *)
(* messagemanager.py:375 on_timeout *)
Definition on_timeout (s : st) (r : remote) (tok : list Z) : st * list output :=
  match aget pk_eqb (piggy s) (rpeer r, tok) with
  | None => (s, [LoopException KeyError])
  | Some (pmid, _) => _send_empty_ack (set_piggy s (adel pk_eqb (piggy s) (rpeer r, tok))) r pmid
  end.

(* messagemanager.py:332 _retransmit *)
Definition _retransmit (s : st) (r : remote) (m : wire) (timeout cnt : Z) : st * list output :=
  let key := (rpeer r, mid m) in
  match aget zz_eqb (exch s) key with
  | None => (s, [LoopException KeyError])
  | Some (mon, handle) =>
      let s1 := cancel_r (set_exch s (adel zz_eqb (exch s) key)) handle in
      if cnt <? MAX_RETRANSMIT then
        let '(s2, id) := call_later_r s1 (timeout * 2) (Retransmit r m (timeout * 2) (cnt + 1)) in
        (set_exch s2 (aset zz_eqb (exch s2) key (mon, id)), [Send r m])
      else if amem Z.eqb (backlogs s1) (rpeer r) then
        tm_dispatch_error (set_backlogs s1 (adel Z.eqb (backlogs s1) (rpeer r))) (rpeer r) ConRetransmitsExceeded
      else (s1, [LoopException KeyError])
  end.

(* handles in [rtimers]: retransmissions and forgetting; on_timeout handles are created by call_later_a only and live in [atimers] *)
Definition run_timer (s : st) (t : timer) : st * list output :=
  match kind t with
  | EmptyAck r tok => (s, [])
  | Retransmit r m timeout cnt => _retransmit s r m timeout cnt
  | Forget p md => (set_recent s (adel zz_eqb (recent s) (p, md)), [])
  end.

(* the pending handle with the least (due, creation number) — the rule of harness/simloop.py *)
Definition earlier (a b : timer) : bool := (due a <? due b) || ((due a =? due b) && (tid a <? tid b)).
Fixpoint min_timer (l : list timer) : option timer :=
  match l with
  | [] => None
  | t :: r => match min_timer r with Some u => if earlier u t then Some u else Some t | None => Some t end
  end.
(* empty-ACK handles and the other handles are kept in two lists; the next one to fire is the earlier of the two minima *)
Definition next_timer (s : st) : option (bool * timer) :=
  match min_timer (atimers s), min_timer (rtimers s) with
  | Some a, Some b => if earlier b a then Some (false, b) else Some (true, a)
  | Some a, None => Some (true, a)
  | None, Some b => Some (false, b)
  | None, None => None
  end.

(* ------------------------------------------------------------------ events *)
Inductive event :=
| Recv (r : remote) (m : wire)
| Respond (k c : Z) (rnr : option Z) (pl : list Z)
| Request (p : Z) (mt : option mtype_t) (observe : bool)
| Fire
| Wait (d : Z).

Definition step (s : st) (e : event) : st * list output :=
  match e with
  | Recv r m => dispatch_message s r m
  | Respond k c rnr pl => handler_respond s k c rnr pl
  | Request p mt observe => tm_request s p mt observe
  | Fire =>
      match next_timer s with
      | None => (s, [])
      | Some (true, t) =>
          let s1 := set_now (cancel_a s (tid t)) (Z.max (now s) (due t)) in
          match kind t with EmptyAck r tok => on_timeout s1 r tok | _ => (s1, []) end     (* only on_timeout handles live in atimers *)
      | Some (false, t) => run_timer (set_now (cancel_r s (tid t)) (Z.max (now s) (due t))) t
      end
  | Wait d =>
      let target := now s + Z.max 0 d in
      (set_now s (match next_timer s with
                  | Some (_, t) => if due t <? target then Z.max (due t) (now s) else target
                  | None => target end), [])
  end.

Fixpoint run (s : st) (es : list event) : st * list (Z * list output) :=
  match es with
  | [] => (s, [])
  | e :: r => let '(s1, o) := step s e in let '(s2, os) := run s1 r in (s2, (now s1, o) :: os)
  end.
