(* C13 — driver for the `kernels` correspondence stream: runs the code translated from
   CanProtect.new_sequence_number / FilesystemSecurityContext.post_seqnoincrease (Gen/oscore_seqno.v, tie T)
   on a list of calls.  The file-system write self._store() is the callback; here it fails (the harness raises from its
   recording _store) exactly when the bound it is asked to persist has reached [t].  A run stops at the first exception
   (Python keeps the half-updated attributes, the exception monad does not).  No proofs in this file. *)
From Verif Require Import Lib.Py Gen.oscore_seqno Gen.oscore_rwchanged.
Open Scope Z_scope.

Inductive kop := KNew | KPost.
Inductive kres := KVal (v : Z) | KUnit | KExn (e : exn).
Definition kcb (t : Z) (s : fsc) : M fsc :=
  if fsc_sequence_number_persisted s >=? t then Raise (OtherError 13) else Ok s.
Definition fobs (s : fsc) : Z * Z * Z * Z :=
  (fsc_sender_sequence_number s, fsc_sequence_number_persisted s, fsc_sequence_number_chunksize s, fsc_sequence_number_chunksize_limit s).
(* per call: result and the four counters afterwards (None after an exception) *)
Fixpoint krun (t : Z) (s : fsc) (ops : list kop) : list (kres * option (Z * Z * Z * Z)) :=
  match ops with
  | [] => []
  | KNew :: r => match new_sequence_number (kcb t) s with
                 | Ok (s', v) => (KVal v, Some (fobs s')) :: krun t s' r
                 | Raise e => [(KExn e, None)]
                 end
  | KPost :: r => match post_seqnoincrease (kcb t) s with
                  | Ok (s', _) => (KUnit, Some (fobs s')) :: krun t s' r
                  | Raise e => [(KExn e, None)]
                  end
  end.
Definition kscenario (t ssn persisted chunk limit : Z) (ops : list kop) :=
  krun t {| fsc_sender_sequence_number := ssn; fsc_sequence_number_persisted := persisted;
            fsc_sequence_number_chunksize := chunk; fsc_sequence_number_chunksize_limit := limit |} ops.

(* _replay_window_changed; the callback raises OtherError 14 when it sees the flag still set (the write would then persist
   a window instead of "unknown"), OtherError 13 when told to fail; result: the flag afterwards, or the exception *)
Definition kwchanged (flag fail : bool) : M bool :=
  '(s, _) <- replay_window_changed
     (fun s => if rwc_replay_window_persisted s then Raise (OtherError 14) else if fail then Raise (OtherError 13) else Ok s)
     {| rwc_replay_window_persisted := flag |} ;;
  Ok (rwc_replay_window_persisted s).
