(* C14 — NSTART=1.  Executable model of the slice of aiocoap/messagemanager.py (and the parts of
   tokenmanager.py it calls into) that decides when a confirmable message goes on the wire:
   send_message, _send_initially, _add_exchange, _remove_exchange, _continue_backlog,
   _schedule_retransmit/_retransmit (incl. give-up), dispatch_error, the type/code dispatch of
   dispatch_message for empty messages and responses, TokenManager.request / process_response /
   dispatch_error.  One function per Python method, same name (without the leading underscore).
   No proofs in this file.

   Not modelled here (other properties): deduplication and piggy-backed ACKs for incoming requests
   (C04, C10), multicast, shutdown (C18), observe. *)
From Coq Require Import ZArith List Bool.
Import ListNotations.
Open Scope Z_scope.

(* ---------------------------------------------------------------- association lists (Python dicts keyed by remote) *)
Section AL.
  Context {V : Type}.
  Fixpoint aget (k : Z) (l : list (Z * V)) : option V :=
    match l with [] => None | (k', v) :: r => if k =? k' then Some v else aget k r end.
  Fixpoint adel (k : Z) (l : list (Z * V)) : list (Z * V) :=
    match l with [] => [] | (k', v) :: r => if k =? k' then adel k r else (k', v) :: adel k r end.
  Definition aset (k : Z) (v : V) (l : list (Z * V)) := (k, v) :: adel k l.
End AL.

(* ---------------------------------------------------------------- messages *)
(* who submitted a message, i.e. what its messageerror_monitor does:
   Req q — TokenManager.request: `lambda: request.add_exception(error.MessageError)` (tokenmanager.py:257)
   Resp j k — response j produced by the server-side responder k (an entry of TokenManager.incoming_requests):
           the monitor is that entry's `stop` (tokenmanager.py:139-154)
   Raw k — a response handed to send_message with a recording monitor (what TokenManager.process_request's
           on_event does with `stop`, tokenmanager.py:139-148) *)
Inductive sub := Req (q : Z) | Raw (k : Z) | Resp (j k : Z).

(* mtype: 0 CON, 1 NON, 2 ACK, 3 RST.  code: 0 EMPTY, 1 GET, 69 2.05 *)
Record msg := { m_sub : sub; m_remote : Z; m_mtype : Z; m_code : Z; m_mid : Z; m_tok : Z;
                m_maxre : Z (* message.transport_tuning.MAX_RETRANSMIT *) }.

(* _active_exchanges[(remote, mid)] = (monitor, timer handle): the monitor is determined by x_msg, the handle
   is the pending call_later created by _schedule_retransmit (due time, creation sequence number of the loop,
   and the arguments bound in `retr`) *)
Record exchange := { x_msg : msg; x_due : Z; x_seq : Z; x_timeout : Z; x_counter : Z }.

(* an entry of TokenManager.incoming_requests: key (token, remote), the responder k whose pipe it holds, and the type of
   the request (a response to a NON request defaults to NON) *)
Record served := { v_tok : Z; v_remote : Z; v_k : Z; v_mtype : Z }.

Record st := {
  now : Z;                                  (* loop clock, microseconds *)
  seq : Z;                                  (* number of timers created so far (tie-break of the loop) *)
  message_id : Z;                           (* MessageManager.message_id *)
  token : Z;                                (* TokenManager._token *)
  rand : list Z;                            (* values random.uniform will return, microseconds *)
  active_exchanges : list exchange;         (* MessageManager._active_exchanges; iteration order is never observable *)
  backlogs : list (Z * list msg);           (* MessageManager._backlogs *)
  outgoing_requests : list (Z * Z * Z);     (* TokenManager.outgoing_requests: ((token, remote), request q), insertion order *)
  incoming_requests : list served           (* TokenManager.incoming_requests: (token, remote) -> (pipe, stop), insertion order *)
}.

Inductive errclass := MessageError | ConRetransmitsExceeded | NetworkError.
Inductive exnclass := AssertionError | KeyError.

Inductive output :=
| Tx (m : msg) (retr : bool)                (* message_interface.send(message); retr = from _retransmit *)
| TxEmpty (r mtype mid : Z)                 (* the empty ACK / RST the message layer answers with *)
| Fired (r mid : Z)                         (* which exchange's timer the loop ran *)
| Deliver (q : Z) | Fail (q : Z) (e : errclass) | Cancelled (q : Z)    (* completion of request q *)
| Monitor (k : Z)                           (* messageerror_monitor of raw send k called *)
| Ended (k : Z)                             (* the pipe of server-side responder k lost its interest (handler cancelled / finished) *)
| Crash (e : exnclass)                      (* exception leaving dispatch_message / dispatch_error / a timer *)
| Submitted (m : msg)                       (* ghost: send_message was called with m (after mid assignment) *)
| Dropped (m : msg).                        (* ghost: m was discarded from a backlog without being sent *)

Definition upd_now s v := {| now := v; seq := seq s; message_id := message_id s; token := token s; rand := rand s;
  active_exchanges := active_exchanges s; backlogs := backlogs s; outgoing_requests := outgoing_requests s; incoming_requests := incoming_requests s |}.
Definition upd_ex s v := {| now := now s; seq := seq s; message_id := message_id s; token := token s; rand := rand s;
  active_exchanges := v; backlogs := backlogs s; outgoing_requests := outgoing_requests s; incoming_requests := incoming_requests s |}.
Definition upd_bl s v := {| now := now s; seq := seq s; message_id := message_id s; token := token s; rand := rand s;
  active_exchanges := active_exchanges s; backlogs := v; outgoing_requests := outgoing_requests s; incoming_requests := incoming_requests s |}.
Definition upd_out s v := {| now := now s; seq := seq s; message_id := message_id s; token := token s; rand := rand s;
  active_exchanges := active_exchanges s; backlogs := backlogs s; outgoing_requests := v; incoming_requests := incoming_requests s |}.
Definition upd_in s v := {| now := now s; seq := seq s; message_id := message_id s; token := token s; rand := rand s;
  active_exchanges := active_exchanges s; backlogs := backlogs s; outgoing_requests := outgoing_requests s; incoming_requests := v |}.

Definition key_eqb (r mid : Z) (x : exchange) : bool := (m_remote (x_msg x) =? r) && (m_mid (x_msg x) =? mid).
Definition xget (r mid : Z) (l : list exchange) : option exchange := find (key_eqb r mid) l.
Definition xdel (r mid : Z) (l : list exchange) : list exchange := filter (fun x => negb (key_eqb r mid x)) l.
Definition to_remote (r : Z) (x : exchange) : bool := m_remote (x_msg x) =? r.
(* any(r == remote for r, mid in self._active_exchanges.keys()) *)
Definition has_exchange (r : Z) (s : st) : bool := existsb (to_remote r) (active_exchanges s).
Definition in_backlogs (r : Z) (s : st) : bool := match aget r (backlogs s) with Some _ => true | None => false end.

(* ---------------------------------------------------------------- TokenManager *)
Definition q_of (e : Z * Z * Z) : Z := snd e.
Definition remote_of (e : Z * Z * Z) : Z := snd (fst e).
Definition tok_of (e : Z * Z * Z) : Z := fst (fst e).

(* the request's pipe is alive exactly while its key is in outgoing_requests (on_interest_end pops it) *)
Definition outstanding (q : Z) (s : st) : bool := existsb (fun e => q_of e =? q) (outgoing_requests s).
Definition forget_request (q : Z) (s : st) : st := upd_out s (filter (fun e => negb (q_of e =? q)) (outgoing_requests s)).

(* tokenmanager.py:74-110 dispatch_error: every outgoing request to that remote gets the exception, in dict order;
   then the stopper of every incoming request from that remote is called: its pipe loses interest, the handler is
   cancelled, on_end deletes the entry *)
Definition tm_dispatch_error (e : errclass) (r : Z) (s : st) : st * list output :=
  (upd_in (upd_out s (filter (fun o => negb (remote_of o =? r)) (outgoing_requests s)))
          (filter (fun v => negb (v_remote v =? r)) (incoming_requests s)),
   map (fun o => Fail (q_of o) e) (filter (fun o => remote_of o =? r) (outgoing_requests s)) ++
   map (fun v => Ended (v_k v)) (filter (fun v => v_remote v =? r) (incoming_requests s))).

(* tokenmanager.py:177-208 process_response (no observe): pop the matching request, deliver *)
Definition tm_process_response (r tok : Z) (s : st) : st * list output * bool :=
  match find (fun o => (tok_of o =? tok) && (remote_of o =? r)) (outgoing_requests s) with
  | Some o => (upd_out s (filter (fun o' => negb ((tok_of o' =? tok) && (remote_of o' =? r))) (outgoing_requests s)),
               [Deliver (q_of o)], true)
  | None => (s, [], false)
  end.

(* calling the messageerror_monitor that was passed along with message m.  For a request this is
   `lambda: request.add_exception(error.MessageError)`: it fails the request unless its pipe has already ended;
   the pipe is alive exactly while its (token, remote) key is in outgoing_requests, and ending it pops that key. *)
Definition key_of (m : msg) (e : Z * Z * Z) : bool := (tok_of e =? m_tok m) && (remote_of e =? m_remote m).
(* `stop` of responder k (tokenmanager.py:170): unregisters the pipe's event handler; if the pipe has not ended yet it
   ends now (on_end deletes the entry), otherwise nothing happens *)
Definition alive (k : Z) (s : st) : bool := existsb (fun v => v_k v =? k) (incoming_requests s).
Definition stop_responder (k : Z) (s : st) : st * list output :=
  if alive k s then (upd_in s (filter (fun v => negb (v_k v =? k)) (incoming_requests s)), [Ended k]) else (s, []).
Definition call_monitor (m : msg) (s : st) : st * list output :=
  match m_sub m with
  | Req q => if existsb (key_of m) (outgoing_requests s)
             then (upd_out s (filter (fun e => negb (key_of m e)) (outgoing_requests s)), [Fail q MessageError])
             else (s, [])
  | Raw k => (s, [Monitor k])
  | Resp _ k => stop_responder k s
  end.

(* ---------------------------------------------------------------- MessageManager: retransmission sublayer *)
(* messagemanager.py:310-330 _schedule_retransmit: loop.call_later(timeout, retr) *)
Definition schedule_retransmit (m : msg) (timeout counter : Z) (s : st) : st * exchange :=
  ({| now := now s; seq := seq s + 1; message_id := message_id s; token := token s; rand := rand s;
      active_exchanges := active_exchanges s; backlogs := backlogs s; outgoing_requests := outgoing_requests s; incoming_requests := incoming_requests s |},
   {| x_msg := m; x_due := now s + timeout; x_seq := seq s; x_timeout := timeout; x_counter := counter |}).

Definition random_uniform (s : st) : Z * st :=
  match rand s with
  | [] => (2000000, s)                       (* ACK_TIMEOUT *)
  | t :: rest => (t, {| now := now s; seq := seq s; message_id := message_id s; token := token s; rand := rest;
                        active_exchanges := active_exchanges s; backlogs := backlogs s; outgoing_requests := outgoing_requests s; incoming_requests := incoming_requests s |})
  end.

(* messagemanager.py:242-263 _add_exchange *)
Definition add_exchange (m : msg) (s : st) : st :=
  let s := if in_backlogs (m_remote m) s then s else upd_bl s (aset (m_remote m) [] (backlogs s)) in
  let '(timeout, s) := random_uniform s in
  let '(s, x) := schedule_retransmit m timeout 0 s in
  upd_ex s (x :: xdel (m_remote m) (m_mid m) (active_exchanges s)).

(* messagemanager.py:519-532 _send_initially *)
Definition send_initially (m : msg) (s : st) : st * list output :=
  let s := if m_mtype m =? 0 then add_exchange m s else s in
  (s, [Tx m false]).

(* messagemanager.py:287-313 _continue_backlog; the while loop (`while remote in self._backlogs and not any(...)`)
   runs on fuel = length of the queue + 1 *)
Fixpoint continue_backlog_loop (fuel : nat) (r : Z) (s : st) : st * list output :=
  match fuel with
  | O => (s, [])
  | S fuel =>
    if has_exchange r s then (s, []) else
    match aget r (backlogs s) with
    | None => (s, [])                          (* `while remote in self._backlogs and ...` *)
    | Some [] => (upd_bl s (adel r (backlogs s)), [])
    | Some (m :: q) =>
        let '(s1, o1) := send_initially m (upd_bl s (aset r q (backlogs s))) in
        let '(s2, o2) := continue_backlog_loop fuel r s1 in (s2, o1 ++ o2)
    end
  end.
Definition continue_backlog (r : Z) (s : st) : st * list output :=
  match aget r (backlogs s) with
  | None => (s, [Crash AssertionError])
  | Some q => continue_backlog_loop (S (length q)) r s
  end.

(* messagemanager.py:265-285 _remove_exchange *)
Definition remove_exchange (r mid mtype : Z) (s : st) : st * list output :=
  match xget r mid (active_exchanges s) with
  | None => (s, [])
  | Some x =>
      let s1 := upd_ex s (xdel r mid (active_exchanges s)) in
      let '(s2, o2) := if mtype =? 3 then call_monitor (x_msg x) s1 else (s1, []) in
      let '(s3, o3) := continue_backlog r s2 in (s3, o2 ++ o3)
  end.

(* messagemanager.py:332-355 _retransmit, called by the timer of exchange x *)
Definition retransmit (x : exchange) (s : st) : st * list output :=
  let m := x_msg x in
  let r := m_remote m in
  match xget r (m_mid m) (active_exchanges s) with
  | None => (s, [Crash KeyError])
  | Some _ =>
    let s := upd_ex s (xdel r (m_mid m) (active_exchanges s)) in
    if x_counter x <? m_maxre m then
      let '(s, x') := schedule_retransmit m (x_timeout x * 2) (x_counter x + 1) s in
      (upd_ex s (x' :: xdel r (m_mid m) (active_exchanges s)), [Tx m true])
    else
      match aget r (backlogs s) with
      | None => (s, [Crash KeyError])
      | Some q =>
          let '(s, o) := tm_dispatch_error ConRetransmitsExceeded r (upd_bl s (adel r (backlogs s))) in
          (s, map Dropped q ++ o)
      end
  end.

(* messagemanager.py:157-188 dispatch_error *)
Definition dispatch_error (r : Z) (s : st) : st * list output :=
  let '(s, o) := tm_dispatch_error NetworkError r s in
  let s := upd_ex s (filter (fun x => negb (to_remote r x)) (active_exchanges s)) in
  let q := match aget r (backlogs s) with Some q => q | None => [] end in
  (upd_bl s (adel r (backlogs s)), o ++ map Dropped q).

(* ---------------------------------------------------------------- MessageManager: outgoing *)
(* how send_message settles message.mtype (messagemanager.py:472-502); [mt] is what the caller provided:
   0/1 explicit CON/NON; 4/5 None with transport_tuning.reliability True/False; 6 None, no hint;
   7/8 None on a response whose .request was NON/CON *)
Definition resolve_mtype (mt : Z) : Z :=
  if (mt =? 0) || (mt =? 1) then mt else if (mt =? 5) || (mt =? 7) then 1 else 0.

(* messagemanager.py:539-543 _next_message_id *)
Definition next_message_id (s : st) : Z * st :=
  (message_id s,
   {| now := now s; seq := seq s; message_id := Z.land 65535 (1 + message_id s); token := token s; rand := rand s;
      active_exchanges := active_exchanges s; backlogs := backlogs s; outgoing_requests := outgoing_requests s; incoming_requests := incoming_requests s |}).

(* messagemanager.py:423-517 send_message (unicast, not shut down, no piggy-back opportunity) *)
Definition send_message (who : sub) (r mt code tok maxre : Z) (s : st) : st * list output :=
  let '(mid, s) := next_message_id s in
  let m := {| m_sub := who; m_remote := r; m_mtype := resolve_mtype mt; m_code := code; m_mid := mid; m_tok := tok; m_maxre := maxre |} in
  if (m_mtype m =? 0) && in_backlogs r s then
    match aget r (backlogs s) with
    | Some q =>
        if has_exchange r s then (upd_bl s (aset r (q ++ [m]) (backlogs s)), [Submitted m])
        else (s, [Crash AssertionError])
    | None => (s, [])
    end
  else
    let '(s, o) := send_initially m s in (s, Submitted m :: o).

(* tokenmanager.py:64-68 next_token; 220-258 request *)
Definition next_token (s : st) : Z * st :=
  let t := (token s + 1) mod 2 ^ 64 in
  (t, {| now := now s; seq := seq s; message_id := message_id s; token := t; rand := rand s;
         active_exchanges := active_exchanges s; backlogs := backlogs s; outgoing_requests := outgoing_requests s; incoming_requests := incoming_requests s |}).
Definition tm_request (q r mt maxre : Z) (s : st) : st * list output :=
  let '(tok, s) := next_token s in
  let s := upd_out s (outgoing_requests s ++ [((tok, r), q)]) in
  send_message (Req q) r mt 1 tok maxre s.

(* tokenmanager.py:112-175 process_request: an incoming request (already past the message layer) gets a pipe; a request
   on a (token, remote) that is still served stops the old responder first *)
Definition tm_process_request (k r tok mt : Z) (s : st) : st * list output :=
  let same := fun v => (v_tok v =? tok) && (v_remote v =? r) in
  (upd_in s (filter (fun v => negb (same v)) (incoming_requests s) ++ [{| v_tok := tok; v_remote := r; v_k := k; v_mtype := mt |}]),
   map (fun v => Ended (v_k v)) (filter same (incoming_requests s))).

(* responder k puts response j into its pipe: Pipe.add_response -> _add_event -> on_event (tokenmanager.py:128-158) ->
   token_interface.send_message(m, stop).  [send] is send_message (of this file, or of Model/C14refuse.v).
   pipe.py:184-202 _add_event: if the pipe ended inside the callback (`stop` called re-entrantly: the transport refused
   the datagram and dispatch_error ran the stoppers) nothing more happens (fix 44c4a4c; before, a non-last event then
   raised TypeError from `_any_interest()`); otherwise a last event ends the pipe now. *)
Definition respond (send : sub -> Z -> Z -> Z -> Z -> Z -> st -> st * list output) (j k : Z) (last : bool) (maxre : Z) (s : st) : st * list output :=
  match find (fun v => v_k v =? k) (incoming_requests s) with
  | None => (s, [])                              (* pipe has ended: the event is discarded with a log line *)
  | Some v =>
      let '(s1, o1) := send (Resp j k) (v_remote v) (if v_mtype v =? 1 then 7 else 8) 69 (v_tok v) maxre s in
      if last then
        if alive k s1 then let '(s2, o2) := stop_responder k s1 in (s2, o1 ++ o2) else (s1, o1)
      else (s1, o1)
  end.

(* ---------------------------------------------------------------- MessageManager: incoming (messagemanager.py:97-155) *)
Definition send_empty (r mtype mid : Z) (s : st) : st * list output := (s, [TxEmpty r mtype mid]).

Definition dispatch_message (r mtype code mid tok : Z) (s : st) : st * list output :=
  let '(s, o1) := if (mtype =? 2) || (mtype =? 3) then remove_exchange r mid mtype s else (s, []) in
  if code =? 0 then
    if mtype =? 0 then let '(s, o2) := send_empty r 3 mid s in (s, o1 ++ o2)     (* _process_ping *)
    else (s, o1)                                                                  (* empty ACK/RST handled above; empty NON ignored *)
  else
    if mtype =? 3 then (s, o1)                                                    (* "those don't fit" *)
    else
      let '(s, o2, success) := tm_process_response r tok s in
      if success then
        if mtype =? 0 then let '(s, o3) := send_empty r 2 mid s in (s, o1 ++ o2 ++ o3) else (s, o1 ++ o2)
      else
        if mtype =? 0 then let '(s, o3) := send_empty r 3 mid s in (s, o1 ++ o2 ++ o3) else (s, o1 ++ o2).

(* ---------------------------------------------------------------- the event loop *)
Definition before (a b : exchange) : bool := (x_due a <? x_due b) || ((x_due a =? x_due b) && (x_seq a <? x_seq b)).
Fixpoint min_timer (l : list exchange) : option exchange :=
  match l with
  | [] => None
  | x :: r => match min_timer r with None => Some x | Some y => if before y x then Some y else Some x end
  end.

Inductive event :=
| Request (q r mt maxre : Z)                 (* Context.request(...) of a GET with mtype hint mt *)
| RawSend (k r mt tok maxre : Z)             (* MessageManager.send_message of a 2.05 response with a recording monitor *)
| RecvEmpty (r mtype mid : Z)                (* datagram from r: empty message *)
| RecvResp (r mtype mid tok : Z)             (* datagram from r: 2.05 response *)
| TransportError (r : Z)                     (* the transport reports an error for r: MessageManager.dispatch_error *)
| Fire                                       (* the loop runs the pending timer with the least (due, seq) *)
| Advance (d : Z)                            (* time passes without any timer becoming due *)
| Cancel (q : Z)                             (* the application cancels request q *)
| Serve (k r tok mt : Z)                     (* TokenManager.process_request of a request (type mt) from r: responder k starts *)
| Respond (j k : Z) (last : bool) (maxre : Z). (* responder k produces response j (last or not) *)

Definition fire (s : st) : st * list output :=
  match min_timer (active_exchanges s) with
  | None => (s, [])
  | Some x =>
      let '(s, o) := retransmit x (upd_now s (Z.max (now s) (x_due x))) in
      (s, Fired (m_remote (x_msg x)) (m_mid (x_msg x)) :: o)
  end.

Definition advance (d : Z) (s : st) : st :=
  if d <? 0 then s else
  match min_timer (active_exchanges s) with
  | Some x => if x_due x <=? now s + d then s else upd_now s (now s + d)
  | None => upd_now s (now s + d)
  end.

Definition step (s : st) (e : event) : st * list output :=
  match e with
  | Request q r mt maxre => tm_request q r mt maxre s
  | RawSend k r mt tok maxre => send_message (Raw k) r mt 69 tok maxre s
  | RecvEmpty r mtype mid => dispatch_message r mtype 0 mid 0 s
  | RecvResp r mtype mid tok => dispatch_message r mtype 69 mid tok s
  | TransportError r => dispatch_error r s
  | Fire => fire s
  | Advance d => (advance d s, [])
  | Cancel q => if outstanding q s then (forget_request q s, [Cancelled q]) else (s, [])
  | Serve k r tok mt => tm_process_request k r tok mt s
  | Respond j k last maxre => respond send_message j k last maxre s
  end.

(* per-step outputs, for the correspondence run *)
Fixpoint run (s : st) (es : list event) : st * list (list output) :=
  match es with
  | [] => (s, [])
  | e :: r => let '(s1, o) := step s e in let '(s2, os) := run s1 r in (s2, o :: os)
  end.

Definition init (mid0 token0 : Z) (rnd : list Z) : st :=
  {| now := 0; seq := 0; message_id := mid0; token := token0; rand := rnd;
     active_exchanges := []; backlogs := []; outgoing_requests := []; incoming_requests := [] |}.

(* what the harness compares at the end of a script *)
Definition final_view (s : st) :=
  (now s, map (fun x => (m_remote (x_msg x), m_mid (x_msg x))) (active_exchanges s),
   map (fun p => (fst p, map m_sub (snd p))) (backlogs s), map q_of (outgoing_requests s), message_id s, token s, map v_k (incoming_requests s)).
Definition run_view (mid0 token0 : Z) (rnd : list Z) (es : list event) :=
  let '(s, os) := run (init mid0 token0 rnd) es in (os, final_view s).
