(* C06 — block-wise server: Block1Spool / Block2Cache / TimeoutDict and the glue in
   interfaces.Resource._render_to_pipe, as an executable state machine over virtual time (µs).
   Each function is named after the Python method it mirrors.  No proofs in this file. *)
From Verif Require Import Lib.Py.
Open Scope Z_scope.

(* ------------------------------------------------------------------------------------------
   aiocoap/util/asyncio/timeoutdict.py:12-72 — TimeoutDict.
   [td_items] is the dict (insertion ordered), [td_timer] is [None] while [self._timeout is None]
   and otherwise [Some (due, recently_accessed)]: the instant (µs) at which the pending
   [call_later(self.timeout, self._tick)] fires, and [self._recently_accessed]. *)
Section TimeoutDict.
  Context {K V : Type}.
  Variable keqb : K -> K -> bool.

  Record td := { td_items : list (K * V); td_timer : option (Z * list K) }.
  Definition td_empty : td := {| td_items := []; td_timer := None |}.

  Fixpoint alist_get (k : K) (l : list (K * V)) : option V :=
    match l with
    | [] => None
    | (k', v) :: r => if keqb k k' then Some v else alist_get k r
    end.
  (* dict assignment: replace in place, else append *)
  Fixpoint alist_set (k : K) (v : V) (l : list (K * V)) : list (K * V) :=
    match l with
    | [] => [(k, v)]
    | (k', v') :: r => if keqb k k' then (k', v) :: r else (k', v') :: alist_set k v r
    end.
  Definition kmem (k : K) (l : list K) : bool := existsb (keqb k) l.

  (* timeoutdict.py:51-54 _start_over *)
  Definition td_start_over (T now : Z) (d : td) : td :=
    {| td_items := td_items d; td_timer := Some (now + T, []) |}.
  (* timeoutdict.py:56-62 _accessed: when no timer runs one is started and the key is NOT recorded *)
  Definition td_accessed (T now : Z) (k : K) (d : td) : td :=
    match td_timer d with
    | None => td_start_over T now d
    | Some (due, rec) => {| td_items := td_items d; td_timer := Some (due, k :: rec) |}
    end.
  (* timeoutdict.py:38-41 __getitem__: KeyError ([None]) leaves everything untouched *)
  Definition td_getitem (T now : Z) (k : K) (d : td) : option (V * td) :=
    match alist_get k (td_items d) with
    | None => None
    | Some v => Some (v, td_accessed T now k d)
    end.
  (* timeoutdict.py:43-45 __setitem__ *)
  Definition td_setitem (T now : Z) (k : K) (v : V) (d : td) : td :=
    td_accessed T now k {| td_items := alist_set k v (td_items d); td_timer := td_timer d |}.
  (* timeoutdict.py:47-49 pop: removes the item, not an access (the timer and _recently_accessed stay) *)
  Definition alist_remove (k : K) (l : list (K * V)) : list (K * V) :=
    filter (fun kv => negb (keqb (fst kv) k)) l.
  Definition td_pop (k : K) (d : td) : td :=
    {| td_items := alist_remove k (td_items d); td_timer := td_timer d |}.
  (* in-place mutation of a stored object (Python aliasing): the dict is not "accessed" *)
  Definition td_mutate (k : K) (v : V) (d : td) : td :=
    {| td_items := alist_set k v (td_items d); td_timer := td_timer d |}.
  (* timeoutdict.py:64-72 _tick, running at virtual time [now] (= the due time of the timer) *)
  Definition td_tick (T now : Z) (d : td) : td :=
    match td_timer d with
    | None => d
    | Some (_, rec) =>
        let items := filter (fun kv => kmem (fst kv) rec) (td_items d) in
        match items with
        | [] => {| td_items := []; td_timer := None |}
        | _ => td_start_over T now {| td_items := items; td_timer := None |}
        end
    end.
  (* the event loop firing every timer of this dict that is due up to and including [target]
     (harness/simloop.py advance: the clock is set to the due time when a timer runs).  After one tick
     the recently-accessed set is empty, so a second tick empties the dict: two rounds reach the
     fixed point (Proofs/C06.v td_advance_settled). *)
  Definition td_fire (T target : Z) (d : td) : td :=
    match td_timer d with
    | Some (due, _) => if due <=? target then td_tick T due d else d
    | None => d
    end.
  Definition td_advance (T target : Z) (d : td) : td := td_fire T target (td_fire T target d).
End TimeoutDict.
Arguments td : clear implicits.
Arguments td_empty {K V}.

(* ------------------------------------------------------------------------------------------
   messages *)
(* optiontypes.py:168-192 BlockOption.BlockwiseTuple *)
Record blockopt := { b_num : Z; b_more : bool; b_szx : Z }.
Definition b_size (b : blockopt) : Z := 2 ^ (Z.min (b_szx b) 6 + 4).
Definition b_start (b : blockopt) : Z := b_num b * b_size b.

(* a request as seen by a resource.  [m_opts]: every option except Block1/Block2, in
   option_list() order, as (number, canonical encoded value).  [m_remote] = remote.blockwise_key;
   [m_mps] / [m_mbse] = remote.maximum_payload_size / maximum_block_size_exp; [m_id] = the
   message id (stands for mid and token, which the assembly takes from the latest block). *)
Record msg := {
  m_remote : Z; m_mps : Z; m_mbse : Z; m_code : Z; m_opts : list (Z * list Z);
  m_block1 : option blockopt; m_block2 : option blockopt; m_payload : list Z; m_id : Z }.
(* what the handler returned / what goes onto the wire *)
Record resp := { p_code : Z; p_block1 : option blockopt; p_block2 : option blockopt; p_payload : list Z }.

Definition set_payload_block1_id_block2 (m : msg) (pl : list Z) (b1 : option blockopt) (id : Z) (b2 : option blockopt) : msg :=
  {| m_remote := m_remote m; m_mps := m_mps m; m_mbse := m_mbse m; m_code := m_code m; m_opts := m_opts m;
     m_block1 := b1; m_block2 := b2; m_payload := pl; m_id := id |}.
Definition set_block1 (r : resp) (b1 : option blockopt) : resp :=
  {| p_code := p_code r; p_block1 := b1; p_block2 := p_block2 r; p_payload := p_payload r |}.

(* numbers/codes.py *)
Definition CONTINUE := 95.                 (* 2.31 *)
Definition BAD_REQUEST := 128.             (* 4.00 *)
Definition REQUEST_ENTITY_INCOMPLETE := 136. (* 4.08 *)
Definition INTERNAL_SERVER_ERROR := 160.   (* 5.00 *)
Definition is_request (code : Z) : bool := (1 <=? code) && (code <? 32).

(* numbers/optionnumbers.py:82-91 *)
Definition is_unsafe (n : Z) : bool := Z.land n 2 =? 2.
Definition is_safetoforward (n : Z) : bool := negb (is_unsafe n).
Definition is_nocachekey (n : Z) : bool := Z.land n 30 =? 28.
Definition BLOCK1 := 27. Definition BLOCK2 := 23. Definition OBSERVE := 6.

(* message.py:382-416 get_cache_key(ignore_options) restricted to the option part *)
Definition get_cache_key (m : msg) (ignore : list Z) : list (Z * list Z) :=
  filter (fun o => negb (existsb (Z.eqb (fst o)) ignore || (is_safetoforward (fst o) && is_nocachekey (fst o)))) (m_opts m).

(* blockwise.py:18-35 _extract_block_key *)
Notation key := (Z * Z * list (Z * list Z))%type.
Definition extract_block_key (m : msg) : key :=
  (m_remote m, m_code m, get_cache_key m [BLOCK1; BLOCK2; OBSERVE]).
Definition opt_eqb (a b : Z * list Z) : bool := (fst a =? fst b) && beqb (snd a) (snd b).
Definition key_eqb (a b : key) : bool :=
  let '(r1, c1, o1) := a in let '(r2, c2, o2) := b in
  (r1 =? r2) && (c1 =? c2) && list_eqb opt_eqb o1 o2.

(* exceptions that can leave the blockwise helpers: the renderable ones carry what
   error_to_message needs, everything else ends as 5.00 *)
Inductive bexn :=
| EContinue (b : blockopt)          (* blockwise.py:38 ContinueException *)
| EIncomplete                       (* blockwise.py:56 IncompleteException *)
| EBadRequest (text : list Z)       (* error.BadRequest(text) *)
| EOther (e : exn).                 (* not renderable *)
Inductive R (A : Type) := ROk (a : A) | RRaise (e : bexn).
Arguments ROk {A} a. Arguments RRaise {A} e.

(* "Payload size does not match Block1" / "Block request out of bounds" *)
Definition txt_size_mismatch : list Z :=
  [80;97;121;108;111;97;100;32;115;105;122;101;32;100;111;101;115;32;110;111;116;32;109;97;116;99;104;32;66;108;111;99;107;49].
Definition txt_out_of_bounds : list Z :=
  [66;108;111;99;107;32;114;101;113;117;101;115;116;32;111;117;116;32;111;102;32;98;111;117;110;100;115].

(* optiontypes.py:194-203 BlockwiseTuple.is_valid_for_payload_size *)
Definition is_valid_for_payload_size (b : blockopt) (payloadsize : Z) : bool :=
  if b_szx b =? 7 then (if b_more b then payloadsize mod 1024 =? 0 else true)
  else (if b_more b then payloadsize =? b_size b else payloadsize <=? b_size b).

(* message.py:445-471 Message._append_request_block *)
Definition append_request_block (self next_block : msg) : R msg :=
  if negb (is_request (m_code self)) then RRaise (EOther ValueError) else
  match m_block1 next_block with
  | None => RRaise (EOther AttributeError)
  | Some block1 =>
    let len := blen (m_payload next_block) in
    if negb (is_valid_for_payload_size block1 len)
    then RRaise (EBadRequest txt_size_mismatch)
    else if b_start block1 =? blen (m_payload self)
    then ROk (set_payload_block1_id_block2 self (m_payload self ++ m_payload next_block) (Some block1) (m_id next_block)
                (if negb (b_more block1) then match m_block2 next_block with Some b2 => Some b2 | None => m_block2 self end
                 else m_block2 self))
    else RRaise (EOther ValueError)
  end.

(* message.py:422-438 Message._extract_block on a response (code.is_request() false -> block2) *)
Definition extract_block (self : resp) (number size_exp max_bert_size : Z) : R resp :=
  let '(start, size) :=
    if size_exp =? 7 then (number * 1024, 1024 * (max_bert_size / 1024))
    else (number * 2 ^ (size_exp + 4), 2 ^ (size_exp + 4)) in
  if start >=? blen (p_payload self) then RRaise (EBadRequest txt_out_of_bounds)
  else
    let end_ := if start + size <? blen (p_payload self) then start + size else blen (p_payload self) in
    let more := end_ <? blen (p_payload self) in
    ROk {| p_code := p_code self; p_block1 := p_block1 self;
           p_block2 := Some {| b_num := number; b_more := more; b_szx := size_exp |};
           p_payload := bslice (p_payload self) start end_ |}.

(* ------------------------------------------------------------------------------------------
   blockwise.py:60-93 Block1Spool *)
Notation spool := (td key msg).
Definition feed_and_take (T now : Z) (assemblies : spool) (req : msg) : spool * R msg :=
  match m_block1 req with
  | None => (assemblies, ROk req)
  | Some block1 =>
    let block_key := extract_block_key req in
    let fed : spool * option bexn :=
      if b_num block1 =? 0
      then (td_setitem key_eqb T now block_key req assemblies, None)
      else match td_getitem key_eqb T now block_key assemblies with
           | None => (assemblies, Some EIncomplete)                          (* KeyError *)
           | Some (asm, assemblies1) =>
             match append_request_block asm req with
             | ROk asm' => (td_mutate key_eqb block_key asm' assemblies1, None)
             | RRaise (EOther ValueError) => (assemblies1, Some EIncomplete)  (* gap / overlap *)
             | RRaise e => (assemblies1, Some e)
             end
           end in
    match fed with
    | (assemblies1, Some e) => (assemblies1, RRaise e)
    | (assemblies1, None) =>
      if b_more block1 then (assemblies1, RRaise (EContinue block1))
      else
        (* blockwise.py:88-92: the completed request is handed over and LEAVES the spool (pop is not an access) *)
        match alist_get key_eqb block_key (td_items assemblies1) with
        | Some asm => (td_pop key_eqb block_key assemblies1, ROk asm)
        | None => (assemblies1, RRaise (EOther AttributeError))   (* pop(key) would return None *)
        end
    end
  end.

(* blockwise.py:95-153 Block2Cache; [rendering] is what [response_builder()] returns if awaited *)
Notation cache := (td key resp).
Definition extract_or_insert (T now : Z) (completes : cache) (req : msg) (rendering : resp)
  : cache * list msg * R resp :=
  let block_key := extract_block_key req in
  let looked : cache * list msg * R resp :=
    match m_block2 req with
    | Some b2 =>
      if b_num b2 =? 0 then (completes, [req], ROk rendering)
      else match td_getitem key_eqb T now block_key completes with
           | Some (assembled, completes1) => (completes1, [], ROk assembled)
           | None => (completes, [], RRaise EIncomplete)
           end
    | None => (completes, [req], ROk rendering)
    end in
  match looked with
  | (completes1, calls, RRaise e) => (completes1, calls, RRaise e)
  | (completes1, calls, ROk assembled) =>
    let len := blen (p_payload assembled) in
    if (len >? m_mps req)
       || match m_block2 req with Some b2 => (len >? b_size b2) || negb (b_num b2 =? 0) | None => false end
    then
      let completes2 := td_setitem key_eqb T now block_key assembled completes1 in
      let block2 := match m_block2 req with Some b2 => b2
                    | None => {| b_num := 0; b_more := false; b_szx := m_mbse req |} end in
      (completes2, calls, extract_block assembled (b_num block2) (b_szx block2) (m_mps req))
    else
      (* the response is complete and supersedes whatever was kept for this key (blockwise.py:148-152) *)
      (td_pop key_eqb block_key completes1, calls, ROk assembled)
  end.

(* pipe.py:234-284 error_to_message + error.py to_message of the renderable errors *)
Definition error_to_message (e : bexn) : resp :=
  match e with
  | EContinue b => {| p_code := CONTINUE; p_block1 := Some b; p_block2 := None; p_payload := [] |}
  | EIncomplete => {| p_code := REQUEST_ENTITY_INCOMPLETE; p_block1 := None; p_block2 := None; p_payload := [] |}
  | EBadRequest t => {| p_code := BAD_REQUEST; p_block1 := None; p_block2 := None; p_payload := t |}
  | EOther _ => {| p_code := INTERNAL_SERVER_ERROR; p_block1 := None; p_block2 := None; p_payload := [] |}
  end.

(* interfaces.py:416-444 Resource._render_to_pipe (needs_blockwise_assembly = True), with a handler
   that does not yield: the rendering is the message [render(req)] returns when it is invoked *)
Record rstate := { block1 : spool; block2 : cache }.
Definition rstate_empty : rstate := {| block1 := td_empty; block2 := td_empty |}.
Definition render_to_pipe (T now : Z) (s : rstate) (req : msg) (rendering : resp) : rstate * list msg * resp :=
  match feed_and_take T now (block1 s) req with
  | (sp, RRaise e) => ({| block1 := sp; block2 := block2 s |}, [], error_to_message e)
  | (sp, ROk req1) =>
    match extract_or_insert T now (block2 s) req1 rendering with
    | (ca, calls, RRaise e) => ({| block1 := sp; block2 := ca |}, calls, error_to_message e)
    | (ca, calls, ROk res) => ({| block1 := sp; block2 := ca |}, calls, set_block1 res (m_block1 req1))
    end
  end.

(* ------------------------------------------------------------------------------------------
   a site of several resources (each with its own spool and cache) under virtual time *)
Record server := { now : Z; resources : list rstate }.
Inductive event :=
| Request (res : nat) (req : msg) (rendering : resp)
| Advance (dt : Z).
(* [ORequest calls response n_assemblies n_completes] / [OAdvance per-resource (n_assemblies, n_completes)] *)
Inductive output :=
| ORequest (calls : list msg) (response : resp) (n1 n2 : Z)
| OAdvance (sizes : list (Z * Z)).

Fixpoint set_nth {A} (n : nat) (x : A) (l : list A) : list A :=
  match n, l with
  | O, _ :: r => x :: r
  | S n', y :: r => y :: set_nth n' x r
  | _, [] => []
  end.
Definition rstate_advance (T target : Z) (s : rstate) : rstate :=
  {| block1 := td_advance key_eqb T target (block1 s); block2 := td_advance key_eqb T target (block2 s) |}.
Definition rsizes (s : rstate) : Z * Z := (blen (td_items (block1 s)), blen (td_items (block2 s))).

Definition step (T : Z) (sv : server) (e : event) : server * output :=
  match e with
  | Request i req rendering =>
    let s := nth i (resources sv) rstate_empty in
    let '(s', calls, res) := render_to_pipe T (now sv) s req rendering in
    ({| now := now sv; resources := set_nth i s' (resources sv) |},
     ORequest calls res (fst (rsizes s')) (snd (rsizes s')))
  | Advance dt =>
    let t := now sv + dt in
    let rs := map (rstate_advance T t) (resources sv) in
    ({| now := t; resources := rs |}, OAdvance (map rsizes rs))
  end.
Fixpoint run (T : Z) (sv : server) (es : list event) : server * list output :=
  match es with
  | [] => (sv, [])
  | e :: r => let '(sv1, o) := step T sv e in let '(sv2, os) := run T sv1 r in (sv2, o :: os)
  end.
Definition server_init (n : nat) : server := {| now := 0; resources := repeat rstate_empty n |}.

(* numbers/constants.py: MAX_TRANSMIT_WAIT = ACK_TIMEOUT * (2 ** (MAX_RETRANSMIT + 1) - 1) * ACK_RANDOM_FACTOR = 93 s *)
Definition MAX_TRANSMIT_WAIT_us : Z := 93000000.

(* harness helper: the deterministic body the test handler produces, byte i = (seed + 7 i) mod 256 *)
Definition mk_body (seed len : Z) : list Z :=
  map (fun i => (seed + 7 * Z.of_nat i) mod 256) (seq 0 (Z.to_nat len)).

(* ------------------------------------------------------------------------------------------
   op histories on one TimeoutDict with integer keys and values (stream timeoutdict_ops):
   after every op the keys held (dict order) and the deadline of the pending timer are observed *)
Inductive dop := DGet (k : Z) | DSet (k v : Z) | DPop (k : Z) | DAdv (dt : Z).
Inductive dout := DOut (got : option Z) (keys : list Z) (due : option Z).
Definition dstep (T : Z) (st : Z * td Z Z) (o : dop) : (Z * td Z Z) * dout :=
  let '(now, d) := st in
  let '(now', d', got) :=
    match o with
    | DGet k => match td_getitem Z.eqb T now k d with
                | Some (v, d') => (now, d', Some v)
                | None => (now, d, None)
                end
    | DSet k v => (now, td_setitem Z.eqb T now k v d, None)
    | DPop k => (now, td_pop Z.eqb k d, alist_get Z.eqb k (td_items d))
    | DAdv dt => (now + dt, td_advance Z.eqb T (now + dt) d, None)
    end in
  ((now', d'), DOut got (map fst (td_items d')) (match td_timer d' with Some (due, _) => Some due | None => None end)).
Fixpoint drun (T : Z) (st : Z * td Z Z) (ops : list dop) : list dout :=
  match ops with
  | [] => []
  | o :: r => let '(st1, x) := dstep T st o in x :: drun T st1 r
  end.

(* ------------------------------------------------------------------------------------------
   overlapping handler schedules on one resource, for requests WITHOUT Block1 (stream overlapping_renderings).
   Block2Cache.extract_or_insert (blockwise.py:123-135) computes the key, registers itself as the latest builder of the key, then awaits
   response_builder(); everything after the await (store / evict only if still the latest, slice, :136-164) runs when the handler returns, on the cache as it is THEN.
   [SBegin] = the request arrives and the handler is invoked; [SFinish] = that handler returns its rendering;
   [SLater] = a request for NUM>0 (never awaits); several handlers may be pending at once. *)
Inductive sevent :=
| SBegin (id : Z) (req : msg)
| SFinish (id : Z) (rendering : resp)
| SLater (req : msg)
| SAdvance (dt : Z).
Inductive soutput :=
| SOBegin (calls : list msg)
| SOFinish (response : option resp) (n_completes : Z)
| SOLater (calls : list msg) (response : resp) (n_completes : Z)
| SOAdvance (n_completes : Z).
(* [s_latest] = Block2Cache._latest_rendering: block key -> id of the most recently started builder that has not returned *)
Record sstate := { s_now : Z; s_res : rstate; s_pending : list (Z * msg); s_latest : list (key * Z) }.
(* the part of extract_or_insert after `await response_builder()` for a rendering request (blockwise.py:131-160):
   only the builder started last for its key may store / evict *)
Definition extract_or_insert_late (T now : Z) (completes : cache) (req : msg) (assembled : resp) (is_latest : bool) : cache * R resp :=
  let block_key := extract_block_key req in
  let len := blen (p_payload assembled) in
  if (len >? m_mps req)
     || match m_block2 req with Some b2 => (len >? b_size b2) || negb (b_num b2 =? 0) | None => false end
  then
    let completes2 := if is_latest then td_setitem key_eqb T now block_key assembled completes else completes in
    let block2 := match m_block2 req with Some b2 => b2 | None => {| b_num := 0; b_more := false; b_szx := m_mbse req |} end in
    (completes2, extract_block assembled (b_num block2) (b_szx block2) (m_mps req))
  else ((if is_latest then td_pop key_eqb block_key completes else completes), ROk assembled).
Fixpoint pending_get (id : Z) (l : list (Z * msg)) : option msg :=
  match l with [] => None | (i, m) :: r => if i =? id then Some m else pending_get id r end.
Definition render_result_of (r : R resp) (b1 : option blockopt) : resp :=
  match r with ROk x => set_block1 x b1 | RRaise e => error_to_message e end.
Definition sstep (T : Z) (st : sstate) (e : sevent) : sstate * soutput :=
  match e with
  | SBegin id req =>
    ({| s_now := s_now st; s_res := s_res st; s_pending := (id, req) :: s_pending st;
        s_latest := alist_set key_eqb (extract_block_key req) id (s_latest st) |}, SOBegin [req])
  | SFinish id rendering =>
    match pending_get id (s_pending st) with
    | None => (st, SOFinish None (snd (rsizes (s_res st))))
    | Some req =>
      let k := extract_block_key req in
      let is_latest := match alist_get key_eqb k (s_latest st) with Some i => i =? id | None => false end in
      let '(ca, r) := extract_or_insert_late T (s_now st) (block2 (s_res st)) req rendering is_latest in
      let s' := {| block1 := block1 (s_res st); block2 := ca |} in
      ({| s_now := s_now st; s_res := s'; s_pending := filter (fun p => negb (fst p =? id)) (s_pending st);
          s_latest := if is_latest then alist_remove key_eqb k (s_latest st) else s_latest st |},
       SOFinish (Some (render_result_of r (m_block1 req))) (snd (rsizes s')))
    end
  | SLater req =>
    let '(s', calls, res) := render_to_pipe T (s_now st) (s_res st) req {| p_code := 0; p_block1 := None; p_block2 := None; p_payload := [] |} in
    ({| s_now := s_now st; s_res := s'; s_pending := s_pending st; s_latest := s_latest st |}, SOLater calls res (snd (rsizes s')))
  | SAdvance dt =>
    let s' := rstate_advance T (s_now st + dt) (s_res st) in
    ({| s_now := s_now st + dt; s_res := s'; s_pending := s_pending st; s_latest := s_latest st |}, SOAdvance (snd (rsizes s')))
  end.
Fixpoint srun (T : Z) (st : sstate) (es : list sevent) : list soutput :=
  match es with
  | [] => []
  | e :: r => let '(st1, o) := sstep T st e in o :: srun T st1 r
  end.
Definition sstate_init : sstate := {| s_now := 0; s_res := rstate_empty; s_pending := []; s_latest := [] |}.
