(* C20 — the abstract resource directory (specification side of the refinement theorem).
   A directory is a list of entries, one per (ep, d), each carrying its location, the values set by its latest successful
   write and the instant of that write. Entries change only in the success branches below; an entry is dropped when
   [written + (lt + grace)] has passed. No heap, no indexes, no timers.
   What the parameters of a write set (lt, base, other parameters; which requests are invalid) is taken from
   Registration.update_params (Model/C20.v) and initialize_endpoint's parameter handling ([registration_request]).
   No proofs in this file. *)
From Coq Require Import String.
From Verif Require Import Lib.Py Model.C20Str Model.C20.
Open Scope string_scope.
Open Scope list_scope.
Open Scope Z_scope.

Record entry := { e_key : key; e_loc : Z; e_lt : Z; e_base : string; e_explicit : bool; e_params : query;
                  e_links : list link; e_written : Z (* instant (us) of the latest successful registration / update *) }.
Record dir := { d_entries : list entry; d_now : Z }.
Definition empty_dir : dir := {| d_entries := []; d_now := 0 |}.

(* the end of the lifetime: latest successful write + lt + grace period *)
Definition expires (e : entry) : Z := e_written e + (e_lt e + GRACE_PERIOD) * 1000000.
Definition alive (t : Z) (e : entry) : bool := t <? expires e.

Definition reg_of_entry (e : entry) : reg :=
  {| r_key := e_key e; r_path := e_loc e; r_lt := e_lt e; r_base := e_base e; r_base_explicit := e_explicit e;
     r_params := e_params e; r_links := e_links e; r_timer := None |}.
Definition entry_of_reg (r : reg) (written : Z) : entry :=
  {| e_key := r_key r; e_loc := r_path r; e_lt := r_lt r; e_base := r_base r; e_explicit := r_base_explicit r;
     e_params := r_params r; e_links := r_links r; e_written := written |}.
Definition with_links (e : entry) (ls : list link) : entry :=
  {| e_key := e_key e; e_loc := e_loc e; e_lt := e_lt e; e_base := e_base e; e_explicit := e_explicit e;
     e_params := e_params e; e_links := ls; e_written := e_written e |}.

(* a write at instant [t]: the validated parameters applied to the entry, stamped with [t]; or the error *)
Definition write_params (e : entry) (remote_uri : ostr) (params : query) (is_initial : bool) (t : Z) : M entry :=
  match update_params (reg_of_entry e) remote_uri params is_initial t 0 with
  | UpOk r => Ok (entry_of_reg r t)
  | UpFail _ err => Raise err
  end.

Definition find_key (es : list entry) (k : key) : option entry := find (fun e => key_eqb (e_key e) k) es.
Definition without_key (es : list entry) (k : key) : list entry := filter (fun e => negb (key_eqb (e_key e) k)) es.
Definition replace_key (es : list entry) (k : key) (e' : entry) : list entry := map (fun e => if key_eqb (e_key e) k then e' else e) es.
(* the least location >= 1 that no entry uses *)
Definition free_location (es : list entry) : Z := new_pathtail_from (S (length es)) (map (fun e => (e_loc e, 0)) es) 1.
(* the entry registered at reg/<i>/ *)
Definition entry_at (d : dir) (path : list string) : option entry :=
  match path with
  | [s; e] => if String.eqb e EmptyString then find (fun x => String.eqb (str_of_Z (e_loc x)) s) (d_entries d) else None
  | _ => None
  end.
Definition with_entries (d : dir) (es : list entry) : dir := {| d_entries := es; d_now := d_now d |}.

Definition d_register (d : dir) (remote_uri : ostr) (qs : list string) (b : body) : dir * resp :=
  match link_format_from_message b with
  | Raise err => (d, Err err)
  | Ok links =>
    match registration_request (query_split qs) with
    | Raise err => (d, Err err)
    | Ok (k, static, rest) =>
      let loc := match find_key (d_entries d) k with Some old => e_loc old | None => free_location (d_entries d) end in
      let fresh := {| e_key := k; e_loc := loc; e_lt := 90000; e_base := EmptyString; e_explicit := false; e_params := static;
                      e_links := []; e_written := 0 |} in
      match write_params fresh remote_uri rest true (d_now d) with
      | Raise err => (d, Err err)
      | Ok e' => (with_entries d (without_key (d_entries d) k ++ [with_links e' links]), Created loc)
      end
    end
  end.

Definition d_update_post (d : dir) (path : list string) (remote_uri : ostr) (qs : list string) (b : body) : dir * resp :=
  match entry_at d path with
  | None => (d, Err NotFound)
  | Some e =>
    if (match b_cf b with Some _ => true | None => false end) || payload_nonempty b then (d, Err BadRequest)
    else match write_params e remote_uri (query_split qs) false (d_now d) with
         | Raise err => (d, Err err)
         | Ok e' => (with_entries d (replace_key (d_entries d) (e_key e) e'), Changed)
         end
  end.
Definition d_update_put (d : dir) (path : list string) (remote_uri : ostr) (qs : list string) (b : body) : dir * resp :=
  match entry_at d path with
  | None => (d, Err NotFound)
  | Some e =>
    match link_format_from_message b with
    | Raise err => (d, Err err)
    | Ok links =>
      match write_params e remote_uri (query_split qs) false (d_now d) with
      | Raise err => (d, Err err)
      | Ok e' => (with_entries d (replace_key (d_entries d) (e_key e) (with_links e' links)), Changed)
      end
    end
  end.
Definition d_delete (d : dir) (path : list string) : dir * resp :=
  match entry_at d path with
  | None => (d, Err NotFound)
  | Some e => (with_entries d (without_key (d_entries d) (e_key e)), Deleted)
  end.

Definition d_handle (d : dir) (o : op) : dir * resp :=
  match o with
  | Register remote q b => d_register d remote q b
  | UpdatePost path remote q b => d_update_post d path remote q b
  | UpdatePut path remote q b => d_update_put d path remote q b
  | Delete path => d_delete d path
  | GetReg path accept => match entry_at d path with None => (d, Err NotFound) | Some e => (d, link_format_to_message accept (e_links e)) end
  | LookupEp q accept => (d, ep_lookup_regs (map reg_of_entry (d_entries d)) q accept)
  | LookupRes q accept => (d, res_lookup_regs (map reg_of_entry (d_entries d)) q accept)
  | Advance dt => ({| d_entries := d_entries d; d_now := d_now d + dt |}, Tick)
  end.
(* after every event the entries whose lifetime has passed are gone *)
Definition d_expire (d : dir) : dir := with_entries d (filter (alive (d_now d)) (d_entries d)).
Definition d_step (d : dir) (o : op) : dir * resp := let '(d1, r) := d_handle d o in (d_expire d1, r).

Fixpoint d_run (d : dir) (ops : list op) : list resp :=
  match ops with [] => [] | o :: rest => let '(d1, r) := d_step d o in r :: d_run d1 rest end.
Fixpoint d_run_state (d : dir) (ops : list op) : dir :=
  match ops with [] => d | o :: rest => d_run_state (fst (d_step d o)) rest end.

(* abstraction of the concrete state: the registrations in _by_key order; the instant of the latest write is the timer's due
   instant minus lifetime and grace *)
Definition entry_of (r : reg) : entry :=
  entry_of_reg r (match r_timer r with Some (due, _) => due - (r_lt r + GRACE_PERIOD) * 1000000 | None => 0 end).
Definition abs (st : rd) : dir :=
  {| d_entries := map (fun kv => entry_of (obj st (snd kv))) (by_key st); d_now := now st |}.
Definition nonneg_time (o : op) : Prop := match o with Advance dt => 0 <= dt | _ => True end.
